(* RouterProofs.v — the route trie of Router.v against the declarative reading
   of a route table (RouterSpec.v).

   Abstraction: [routes n] is the list of (template, endpoint) pairs a trie
   stands for.  Part A: on a well-formed trie, [lookup] is template matching
   over [routes].  Part B: [insert_at] succeeds exactly when the new declaration
   conflicts with no route of the trie, and then adds exactly that route and
   keeps the trie well-formed.  Part C: consequences for [build]. *)
From DS Require Import Base Versions VersionsProofs Router RouterSpec.
From Coq Require Import Permutation.

#[local] Arguments Node {V} ms ed.
#[local] Arguments ENone {V}.
#[local] Arguments ELits {V} cs.
#[local] Arguments EVar {V} x n.
#[local] Arguments ERest {V} x n.
#[local] Arguments CNil {V}.
#[local] Arguments CCons {V} k n cs.
#[local] Arguments empty_node {V}.
#[local] Arguments node_edges {V} n.
#[local] Arguments node_methods {V} n.
#[local] Arguments find_child {V} k cs.
#[local] Arguments get_method {V} m ms.
#[local] Arguments set_method {V} m hs ms.
#[local] Arguments walk {V} segs n vars.
#[local] Arguments upd_child {V} k f cs.
#[local] Arguments has_handlers {V} ms.

Section RP.
  Variable V : Type.
  Variable cmp : V -> V -> comparison.
  Notation endpoint := (endpoint V).
  Notation node := (node V).
  Notation edges := (edges V).
  Notation children := (children V).
  Notation methods := (methods V).
  Notation decl := (decl V).

  (* ------------------------------------------------------------------ *)
  (* routes                                                               *)

  Definition pcons (p : pseg) (d : decl) : decl := (p :: fst d, snd d).

  Definition own_routes (ms : methods) : list decl :=
    flat_map (fun kh => map (fun h => (@nil pseg, h)) (snd kh)) ms.

  Fixpoint routes (n : node) : list decl :=
    match n with
    | Node ms ed => own_routes ms ++ routes_e ed
    end
  with routes_e (ed : edges) : list decl :=
    match ed with
    | ENone => []
    | ELits cs => routes_c cs
    | EVar x c => map (pcons (PVar x)) (routes c)
    | ERest x c => map (pcons (PWild x)) (routes c)
    end
  with routes_c (cs : children) : list decl :=
    match cs with
    | CNil => []
    | CCons k c cs' => map (pcons (PLit k)) (routes c) ++ routes_c cs'
    end.

  (* ------------------------------------------------------------------ *)
  (* well-formedness                                                      *)

  Fixpoint keys_sorted (ks : list str) : Prop :=
    match ks with
    | [] => True
    | k :: ks' => Forall (fun k' => str_ltb k k' = true) ks' /\ keys_sorted ks'
    end.

  Definition wf_methods (ms : methods) : Prop :=
    keys_sorted (map fst ms) /\
    forall k hs h, In (k, hs) ms -> In h hs -> str_upper (e_method h) = k.

  Fixpoint ckeys (cs : children) : list str :=
    match cs with CNil => [] | CCons k _ cs' => k :: ckeys cs' end.

  Definition no_handlers (ms : methods) : Prop := own_routes ms = [].

  Fixpoint wfn (n : node) : Prop :=
    match n with
    | Node ms ed =>
        wf_methods ms /\ wfe ed /\
        match ed with ERest _ _ => no_handlers ms | _ => True end
    end
  with wfe (ed : edges) : Prop :=
    match ed with
    | ENone => True
    | ELits cs => cs <> CNil /\ wfc cs
    | EVar x c => wfn c /\ routes c <> []
    | ERest x c => wfn c /\ routes c <> [] /\ node_edges c = ENone
    end
  with wfc (cs : children) : Prop :=
    match cs with
    | CNil => True
    | CCons k c cs' =>
        wfn c /\ routes c <> [] /\ Forall (fun k' => str_ltb k k' = true) (ckeys cs') /\ wfc cs'
    end.

  Lemma wfn_empty : wfn empty_node.
  Proof. cbn. repeat split; auto. intros k hs h []. Qed.

  (* ------------------------------------------------------------------ *)
  (* bindings                                                             *)

  Definition fold_bm (b : list (str * varval)) (m : bmap) : bmap :=
    fold_left (fun m kv => bm_insert (fst kv) (snd kv) m) b m.

  Lemma bm_of_fold b : bm_of b = fold_bm b [].
  Proof. reflexivity. Qed.

  (* ------------------------------------------------------------------ *)
  (* children as a finite map                                             *)

  Fixpoint child_in (k : str) (c : node) (cs : children) : Prop :=
    match cs with
    | CNil => False
    | CCons k' c' cs' => (k = k' /\ c = c') \/ child_in k c cs'
    end.

  Lemma child_in_key k c cs : child_in k c cs -> In k (ckeys cs).
  Proof.
    induction cs as [|k' c' cs IH]; cbn; [tauto|].
    intros [[-> _]|H]; auto.
  Qed.

  Lemma find_child_in k cs c : find_child k cs = Some c -> child_in k c cs.
  Proof.
    induction cs as [|k' c' cs IH]; cbn; [discriminate|].
    destruct (str_eqb_spec k k') as [->|Hne].
    - intros [= ->]; auto.
    - intros H; right; auto.
  Qed.

  Lemma child_in_find k cs c : wfc cs -> child_in k c cs -> find_child k cs = Some c.
  Proof.
    induction cs as [|k' c' cs IH]; cbn; [tauto|].
    intros (Hc & Hne & Hlt & Hcs) [[-> ->]|H].
    - rewrite str_eqb_refl; reflexivity.
    - destruct (str_eqb_spec k k') as [->|Hne'].
      + exfalso. apply child_in_key in H.
        rewrite Forall_forall in Hlt. specialize (Hlt _ H).
        rewrite str_ltb_irrefl in Hlt; discriminate.
      + auto.
  Qed.

  Lemma child_in_wf k c cs : wfc cs -> child_in k c cs -> wfn c /\ routes c <> [].
  Proof.
    induction cs as [|k' c' cs IH]; cbn; [tauto|].
    intros (Hc & Hne & Hlt & Hcs) [[-> ->]|H]; auto.
  Qed.

  Lemma in_routes_c d cs :
    In d (routes_c cs) <->
    exists k c d', child_in k c cs /\ In d' (routes c) /\ d = pcons (PLit k) d'.
  Proof.
    induction cs as [|k c cs IH]; cbn [routes_c child_in].
    - split; [intros []|intros (k & c & d' & [] & _)].
    - rewrite in_app_iff, in_map_iff, IH. split.
      + intros [(d' & <- & Hd')|(k' & c' & d' & Hin & Hd' & ->)].
        * exists k, c, d'; auto.
        * exists k', c', d'; auto.
      + intros (k' & c' & d' & [[-> ->]|Hin] & Hd' & ->).
        * left; exists d'; auto.
        * right; exists k', c', d'; auto.
  Qed.

  (* ------------------------------------------------------------------ *)
  (* methods as a finite map                                              *)

  Lemma in_own_routes d ms :
    In d (own_routes ms) <-> exists k hs, In (k, hs) ms /\ In (snd d) hs /\ fst d = [].
  Proof.
    unfold own_routes. rewrite in_flat_map. split.
    - intros ([k hs] & Hin & Hd). cbn in Hd. rewrite in_map_iff in Hd.
      destruct Hd as (h & <- & Hh). exists k, hs; auto.
    - intros (k & hs & Hin & Hh & Hf). exists (k, hs). split; auto.
      cbn. rewrite in_map_iff. exists (snd d). destruct d as [t e]; cbn in *; subst; auto.
  Qed.

  Lemma get_method_in m (ms : methods) hs :
    keys_sorted (map fst ms) -> In (m, hs) ms -> get_method m ms = hs.
  Proof.
    induction ms as [|[k hs'] ms IH]; cbn; [tauto|].
    intros [Hlt Hs] [[= -> ->]|Hin].
    - rewrite str_eqb_refl; reflexivity.
    - destruct (str_eqb_spec m k) as [->|Hne]; auto.
      exfalso. rewrite Forall_forall in Hlt.
      assert (Hk : In k (map fst ms)) by (apply in_map_iff; exists (k, hs); auto).
      specialize (Hlt _ Hk). rewrite str_ltb_irrefl in Hlt; discriminate.
  Qed.

  Lemma get_method_some m (ms : methods) h :
    In h (get_method m ms) -> exists hs, In (m, hs) ms /\ In h hs.
  Proof.
    induction ms as [|[k hs'] ms IH]; cbn; [tauto|].
    destruct (str_eqb_spec m k) as [->|Hne].
    - intros H; exists hs'; auto.
    - intros H. destruct (IH H) as (hs & Hin & Hh). exists hs; auto.
  Qed.

  (* ------------------------------------------------------------------ *)
  (* Part A: lookup is template matching over [routes]                    *)

  Definition hop (r : option (option (node * bmap))) : option (methods * bmap) :=
    match r with
    | Some (Some (n, vars)) =>
        match node_edges n with
        | ERest x c => Some (node_methods c, bm_insert x (Multi []) vars)
        | _ => Some (node_methods n, vars)
        end
    | _ => None
    end.

  Definition final (n : node) (segs : list str) (vars0 : bmap) : option (methods * bmap) :=
    hop (walk segs n vars0).

  Lemma in_routes_node d ms ed :
    In d (routes (Node ms ed)) <-> In d (own_routes ms) \/ In d (routes_e ed).
  Proof. cbn [routes]. apply in_app_iff. Qed.

  Lemma leaf_routes (c : node) d :
    node_edges c = ENone -> In d (routes c) ->
    fst d = [] /\ exists k hs, In (k, hs) (node_methods c) /\ In (snd d) hs.
  Proof.
    destruct c as [ms ed]; cbn [node_edges node_methods]; intros ->.
    rewrite in_routes_node. cbn [routes_e]. intros [H|[]].
    apply in_own_routes in H. destruct H as (k & hs & H1 & H2 & H3). eauto.
  Qed.

  Lemma leaf_routes_in (c : node) k hs h :
    In (k, hs) (node_methods c) -> In h hs -> In ([], h) (routes c).
  Proof.
    destruct c as [ms ed]; cbn [node_methods]; intros H1 H2.
    apply in_routes_node; left. apply in_own_routes. exists k, hs; auto.
  Qed.

  Lemma wfn_methods (n : node) : wfn n -> wf_methods (node_methods n).
  Proof. destruct n; cbn; tauto. Qed.

  Lemma final_sound segs : forall (n : node) vars0 ms vars,
    wfn n -> final n segs vars0 = Some (ms, vars) ->
    wf_methods ms /\
    forall k hs h, In (k, hs) ms -> In h hs ->
      exists t b, In (t, h) (routes n) /\ tmatch t segs = Some b /\ vars = fold_bm b vars0.
  Proof.
    induction segs as [|s rest IH]; intros [ms0 ed] vars0 ms vars Hwf; unfold final.
    - cbn [walk hop node_edges node_methods].
      destruct ed as [|cs|x c|x c].
      + intros [= <- <-]. split; [apply (wfn_methods _ Hwf)|].
        intros k hs h H1 H2. exists [], []. repeat split; auto.
        apply in_routes_node; left; apply in_own_routes; exists k, hs; auto.
      + intros [= <- <-]. split; [apply (wfn_methods _ Hwf)|].
        intros k hs h H1 H2. exists [], []. repeat split; auto.
        apply in_routes_node; left; apply in_own_routes; exists k, hs; auto.
      + intros [= <- <-]. split; [apply (wfn_methods _ Hwf)|].
        intros k hs h H1 H2. exists [], []. repeat split; auto.
        apply in_routes_node; left; apply in_own_routes; exists k, hs; auto.
      + intros [= <- <-]. cbn in Hwf. destruct Hwf as (_ & (Hc & _ & Hleaf) & _).
        split; [apply (wfn_methods _ Hc)|].
        intros k hs h H1 H2. exists [PWild x], [(x, Multi [])]. repeat split; auto.
        apply in_routes_node; right. cbn [routes_e]. apply in_map_iff.
        exists ([], h). split; [reflexivity|]. eapply leaf_routes_in; eauto.
    - cbn [walk node_edges].
      destruct ed as [|cs|x c|x c].
      + cbn [hop]. discriminate.
      + destruct (find_child s cs) as [c|] eqn:Hf; [|cbn [hop]; discriminate].
        intros Hfin. cbn in Hwf. destruct Hwf as (_ & (_ & Hcs) & _).
        apply find_child_in in Hf.
        destruct (child_in_wf _ _ _ Hcs Hf) as [Hc _].
        destruct (IH c vars0 ms vars Hc Hfin) as [Hm Hall]. split; auto.
        intros k hs h H1 H2. destruct (Hall k hs h H1 H2) as (t & b & Ht & Hb & Hv).
        exists (PLit s :: t), b. repeat split; auto.
        * apply in_routes_node; right. cbn [routes_e]. apply in_routes_c.
          exists s, c, (t, h). auto.
        * cbn [tmatch]. rewrite str_eqb_refl. exact Hb.
      + intros Hfin. cbn in Hwf. destruct Hwf as (_ & (Hc & _) & _).
        destruct (IH c _ ms vars Hc Hfin) as [Hm Hall]. split; auto.
        intros k hs h H1 H2. destruct (Hall k hs h H1 H2) as (t & b & Ht & Hb & Hv).
        exists (PVar x :: t), ((x, Single s) :: b). repeat split; auto.
        * apply in_routes_node; right. cbn [routes_e]. apply in_map_iff.
          exists (t, h); auto.
        * cbn [tmatch]. rewrite Hb. reflexivity.
      + cbn in Hwf. destruct Hwf as (_ & (Hc & _ & Hleaf) & _).
        rewrite Hleaf. cbn [is_enone hop]. rewrite Hleaf.
        intros [= <- <-]. split; [apply (wfn_methods _ Hc)|].
        intros k hs h H1 H2. exists [PWild x], [(x, Multi (s :: rest))]. repeat split; auto.
        apply in_routes_node; right. cbn [routes_e]. apply in_map_iff.
        exists ([], h). split; [reflexivity|]. eapply leaf_routes_in; eauto.
  Qed.

  Lemma final_complete segs : forall (n : node) vars0 t h b,
    wfn n -> In (t, h) (routes n) -> tmatch t segs = Some b ->
    exists ms hs, final n segs vars0 = Some (ms, fold_bm b vars0) /\
                  In (str_upper (e_method h), hs) ms /\ In h hs.
  Proof.
    induction segs as [|s rest IH]; intros [ms0 ed] vars0 t h b Hwf Hin Hm; unfold final;
      apply in_routes_node in Hin; destruct Hin as [Hin|Hin].
    - (* own handler, empty path *)
      apply in_own_routes in Hin. cbn [fst snd] in Hin.
      destruct Hin as (k & hs & H1 & H2 & ->). cbn [tmatch] in Hm. injection Hm as <-.
      assert (Hk : str_upper (e_method h) = k).
      { destruct Hwf as ((_ & Hk) & _). eapply Hk; eauto. }
      cbn [walk hop node_edges node_methods].
      destruct ed as [|cs|x c|x c]; try (exists ms0, hs; subst k; auto; fail).
      exfalso. cbn in Hwf. destruct Hwf as (_ & _ & Hno).
      unfold no_handlers in Hno.
      assert (Hx : In ([], h) (own_routes ms0)) by (apply in_own_routes; exists k, hs; auto).
      rewrite Hno in Hx. destruct Hx.
    - (* through an edge, empty path: only the wildcard *)
      cbn [walk hop node_edges node_methods].
      destruct ed as [|cs|x c|x c]; cbn [routes_e] in Hin.
      + destruct Hin.
      + apply in_routes_c in Hin. destruct Hin as (k & c & d' & _ & _ & Hd).
        injection Hd as -> _. cbn [tmatch] in Hm. discriminate.
      + apply in_map_iff in Hin. destruct Hin as (d' & Hd & _).
        injection Hd as <- _. cbn [tmatch] in Hm. discriminate.
      + apply in_map_iff in Hin. destruct Hin as (d' & Hd & Hd').
        cbn in Hwf. destruct Hwf as (_ & (Hc & _ & Hleaf) & _).
        destruct (leaf_routes _ _ Hleaf Hd') as (Hf & k & hs & H1 & H2).
        destruct d' as [t' h']. cbn [fst snd pcons] in *. subst t'. injection Hd as <- <-.
        cbn [tmatch] in Hm. injection Hm as <-.
        assert (Hk : str_upper (e_method h') = k).
        { destruct (wfn_methods _ Hc) as (_ & Hk). eapply Hk; eauto. }
        exists (node_methods c), hs. subst k. auto.
    - (* own handler cannot match a non-empty path *)
      apply in_own_routes in Hin. cbn [fst snd] in Hin.
      destruct Hin as (k & hs & H1 & H2 & ->). cbn [tmatch] in Hm. discriminate.
    - cbn [walk node_edges].
      destruct ed as [|cs|x c|x c]; cbn [routes_e] in Hin.
      + destruct Hin.
      + apply in_routes_c in Hin. destruct Hin as (k & c & [t' h'] & Hc & Hd' & Hd).
        injection Hd as -> ->. cbn [tmatch fst] in Hm.
        destruct (str_eqb_spec k s) as [->|Hne]; [|discriminate].
        cbn in Hwf. destruct Hwf as (_ & (_ & Hcs) & _).
        rewrite (child_in_find _ _ _ Hcs Hc).
        destruct (child_in_wf _ _ _ Hcs Hc) as [Hwc _].
        apply (IH c vars0 t' h' b Hwc Hd' Hm).
      + apply in_map_iff in Hin. destruct Hin as ([t' h'] & Hd & Hd').
        injection Hd as <- <-. cbn [tmatch fst] in Hm.
        destruct (tmatch t' rest) as [b'|] eqn:Hb'; [|discriminate]. injection Hm as <-.
        cbn in Hwf. destruct Hwf as (_ & (Hc & _) & _).
        destruct (IH c (bm_insert x (Single s) vars0) t' h' b' Hc Hd' Hb') as (ms & hs & H1 & H2 & H3).
        exists ms, hs. auto.
      + apply in_map_iff in Hin. destruct Hin as (d' & Hd & Hd').
        cbn in Hwf. destruct Hwf as (_ & (Hc & _ & Hleaf) & _).
        destruct (leaf_routes _ _ Hleaf Hd') as (Hf & k & hs & H1 & H2).
        destruct d' as [t' h']. cbn [fst snd pcons] in *. subst t'. injection Hd as <- <-.
        cbn [tmatch] in Hm. injection Hm as <-.
        assert (Hk : str_upper (e_method h') = k).
        { destruct (wfn_methods _ Hc) as (_ & Hk). eapply Hk; eauto. }
        rewrite Hleaf. cbn [is_enone hop]. rewrite Hleaf.
        exists (node_methods c), hs. subst k. auto.
  Qed.

  Definition finish_ms (m : str) (v : option V) (ms : methods) (vars : bmap) : outcome V :=
    match find_handler V cmp (get_method (str_upper m) ms) v with
    | Some h => Found h vars
    | None =>
        match serving_methods V cmp ms v with
        | [] => E404
        | allow => E405 allow
        end
    end.

  Lemma walk_wf segs : forall (n : node) vars,
    wfn n -> exists r, walk segs n vars = Some r /\
                       forall n1 v1, r = Some (n1, v1) -> wfn n1.
  Proof.
    induction segs as [|s rest IH]; intros [ms ed] vars Hwf; cbn [walk node_edges].
    - eexists; split; [reflexivity|]. intros n1 v1 [= <- <-]; exact Hwf.
    - destruct ed as [|cs|x c|x c].
      + eexists; split; [reflexivity|]. discriminate.
      + destruct (find_child s cs) as [c|] eqn:Hf.
        * cbn in Hwf. destruct Hwf as (_ & (_ & Hcs) & _).
          apply find_child_in in Hf. destruct (child_in_wf _ _ _ Hcs Hf) as [Hc _].
          apply IH; exact Hc.
        * eexists; split; [reflexivity|]. discriminate.
      + cbn in Hwf. destruct Hwf as (_ & (Hc & _) & _). apply IH; exact Hc.
      + cbn in Hwf. destruct Hwf as (_ & (Hc & _ & Hleaf) & _).
        rewrite Hleaf. cbn [is_enone]. eexists; split; [reflexivity|].
        intros n1 v1 [= <- <-]; exact Hc.
  Qed.

  Theorem lookup_final (r : node) m segs v :
    wfn r ->
    lookup V cmp r m segs v =
    match final r segs [] with
    | None => E404
    | Some (ms, vars) => finish_ms m v ms vars
    end.
  Proof.
    intros Hwf. unfold lookup, final.
    destruct (walk_wf segs r [] Hwf) as (res & -> & Hres).
    destruct res as [[n1 v1]|]; cbn [hop]; [|reflexivity].
    specialize (Hres n1 v1 eq_refl). destruct n1 as [ms ed]. cbn [node_edges node_methods].
    destruct ed as [|cs|x c|x c]; try reflexivity.
    cbn in Hres. destruct Hres as (_ & (_ & _ & Hleaf) & _). rewrite Hleaf. reflexivity.
  Qed.

  Lemma same_method_upper m m' : same_method m m' = true <-> str_upper m = str_upper m'.
  Proof. unfold same_method. apply str_eqb_eq. Qed.

  Lemma find_handler_some hs v h :
    find_handler V cmp hs v = Some h -> In h hs /\ vmatches V cmp (e_versions h) v = true.
  Proof. unfold find_handler. apply find_some. Qed.

  Lemma find_handler_none hs v h :
    find_handler V cmp hs v = None -> In h hs -> vmatches V cmp (e_versions h) v = false.
  Proof. unfold find_handler. intros H Hin. apply (find_none _ _ H _ Hin). Qed.

  (* L1: what lookup finds is a declared endpoint that serves the request,
     with the template's bindings *)
  Theorem lookup_sound (r : node) m segs v e vars :
    wfn r -> lookup V cmp r m segs v = Found e vars ->
    exists t b, In (t, e) (routes r) /\ serves V cmp (t, e) m segs v = Some b /\ vars = bm_of b.
  Proof.
    intros Hwf. rewrite (lookup_final r m segs v Hwf).
    destruct (final r segs []) as [[ms vars']|] eqn:Hfin; [|discriminate].
    unfold finish_ms.
    destruct (find_handler V cmp (get_method (str_upper m) ms) v) as [h|] eqn:Hfh.
    - intros [= <- <-]. apply find_handler_some in Hfh. destruct Hfh as [Hin Hv].
      apply get_method_some in Hin. destruct Hin as (hs & H1 & H2).
      destruct (final_sound segs r [] ms vars' Hwf Hfin) as [Hm Hall].
      destruct (Hall _ _ _ H1 H2) as (t & b & Ht & Hb & Hvars).
      exists t, b. repeat split; auto.
      unfold serves. cbn [fst snd].
      assert (Hk : str_upper (e_method h) = str_upper m) by (destruct Hm as [_ Hk]; eapply Hk; eauto).
      assert (Hs : same_method m (e_method h) = true) by (apply same_method_upper; congruence).
      rewrite Hs, Hv. exact Hb.
    - destruct (serving_methods V cmp ms v); discriminate.
  Qed.

  (* L2: a declared endpoint that serves the request makes lookup succeed,
     with that template's bindings *)
  Theorem lookup_complete (r : node) m segs v t e b :
    wfn r -> In (t, e) (routes r) -> serves V cmp (t, e) m segs v = Some b ->
    exists e', lookup V cmp r m segs v = Found e' (bm_of b).
  Proof.
    intros Hwf Hin Hs. rewrite (lookup_final r m segs v Hwf).
    unfold serves in Hs. cbn [fst snd] in Hs.
    destruct (same_method m (e_method e)) eqn:Hsm; [|discriminate].
    destruct (vmatches V cmp (e_versions e) v) eqn:Hv; [|discriminate]. cbn [andb] in Hs.
    destruct (final_complete segs r [] t e b Hwf Hin Hs) as (ms & hs & Hfin & H1 & H2).
    rewrite Hfin. unfold finish_ms.
    assert (Hm : wf_methods ms) by (apply (final_sound segs r [] ms _ Hwf Hfin)).
    apply same_method_upper in Hsm. rewrite <- Hsm in H1.
    rewrite (get_method_in _ _ _ (proj1 Hm) H1).
    destruct (find_handler V cmp hs v) as [h|] eqn:Hfh.
    - exists h. reflexivity.
    - rewrite (find_handler_none _ _ _ Hfh H2) in Hv. discriminate.
  Qed.

  Lemma keys_sorted_filter {A} (p : str * A -> bool) (ms : list (str * A)) :
    keys_sorted (map fst ms) -> keys_sorted (map fst (filter p ms)).
  Proof.
    induction ms as [|kh ms IH]; cbn [filter map keys_sorted]; auto.
    intros [Hlt Hs]. destruct (p kh); cbn [map keys_sorted]; auto.
    split; auto. rewrite Forall_forall in *. intros k' Hk'. apply Hlt.
    apply in_map_iff in Hk'. destruct Hk' as (x & <- & Hx).
    apply filter_In in Hx. apply in_map. tauto.
  Qed.

  Lemma in_serving ms v k :
    In k (serving_methods V cmp ms v) <->
    exists hs h, In (k, hs) ms /\ In h hs /\ vmatches V cmp (e_versions h) v = true.
  Proof.
    unfold serving_methods. rewrite in_map_iff. split.
    - intros ([k' hs] & <- & Hin). apply filter_In in Hin. destruct Hin as [Hin Hf].
      cbn [snd fst] in *. destruct (find_handler V cmp hs v) as [h|] eqn:Hfh; [|discriminate].
      apply find_handler_some in Hfh. exists hs, h. tauto.
    - intros (hs & h & H1 & H2 & H3). exists (k, hs). split; auto.
      apply filter_In. split; auto. cbn [snd].
      destruct (find_handler V cmp hs v) eqn:Hfh; auto.
      rewrite (find_handler_none _ _ _ Hfh H2) in H3. discriminate.
  Qed.

  Definition tserved (r : node) (segs : list str) (v : option V) (k : str) : Prop :=
    exists t e, In (t, e) (routes r) /\ tserves V cmp (t, e) segs v = true /\
                str_upper (e_method e) = k.

  Lemma tserves_iff t e segs v :
    tserves V cmp (t, e) segs v = true <->
    vmatches V cmp (e_versions e) v = true /\ exists b, tmatch t segs = Some b.
  Proof.
    unfold tserves. cbn [fst snd]. rewrite andb_true_iff.
    destruct (tmatch t segs) as [b|]; split; intros [H1 H2]; split; eauto;
      try discriminate.
    destruct H2 as [b Hb]; discriminate.
  Qed.

  (* the methods for which the path is served at this version, read off the
     node lookup ends at *)
  Lemma final_serving (r : node) segs v ms vars k :
    wfn r -> final r segs [] = Some (ms, vars) ->
    (In k (serving_methods V cmp ms v) <-> tserved r segs v k).
  Proof.
    intros Hwf Hfin. destruct (final_sound segs r [] ms vars Hwf Hfin) as [Hm Hall].
    rewrite in_serving. split.
    - intros (hs & h & H1 & H2 & H3). destruct (Hall _ _ _ H1 H2) as (t & b & Ht & Hb & _).
      exists t, h. repeat split; auto.
      + apply tserves_iff; eauto.
      + destruct Hm as [_ Hk]; eapply Hk; eauto.
    - intros (t & e & Hin & Hts & Hk). apply tserves_iff in Hts. destruct Hts as [Hv [b Hb]].
      destruct (final_complete segs r [] t e b Hwf Hin Hb) as (ms' & hs & Hfin' & H1 & H2).
      rewrite Hfin in Hfin'. injection Hfin' as <- _.
      exists hs, e. subst k. auto.
  Qed.

  Lemma final_none_unserved (r : node) segs v k :
    wfn r -> final r segs [] = None -> ~ tserved r segs v k.
  Proof.
    intros Hwf Hfin (t & e & Hin & Hts & _). apply tserves_iff in Hts. destruct Hts as [_ [b Hb]].
    destruct (final_complete segs r [] t e b Hwf Hin Hb) as (ms' & hs & Hfin' & _).
    congruence.
  Qed.

  (* L3: 404 exactly when the path is served for no method at this version *)
  Theorem lookup_404_iff (r : node) m segs v :
    wfn r -> (lookup V cmp r m segs v = E404 <-> forall k, ~ tserved r segs v k).
  Proof.
    intros Hwf. rewrite (lookup_final r m segs v Hwf).
    destruct (final r segs []) as [[ms vars]|] eqn:Hfin.
    - unfold finish_ms.
      destruct (find_handler V cmp (get_method (str_upper m) ms) v) as [h|] eqn:Hfh.
      + split; [discriminate|]. intros Hno. exfalso.
        apply find_handler_some in Hfh. destruct Hfh as [Hin Hv].
        apply get_method_some in Hin. destruct Hin as (hs & H1 & H2).
        apply (Hno (str_upper m)). apply (final_serving r segs v ms vars _ Hwf Hfin).
        apply in_serving. eauto.
      + destruct (serving_methods V cmp ms v) as [|k ks] eqn:Hsv.
        * split; auto. intros _ k Hk.
          apply (final_serving r segs v ms vars k Hwf Hfin) in Hk. rewrite Hsv in Hk. destruct Hk.
        * split; [discriminate|]. intros Hno. exfalso. apply (Hno k).
          apply (final_serving r segs v ms vars k Hwf Hfin). rewrite Hsv. left; reflexivity.
    - split; auto. intros _ k. apply final_none_unserved; auto.
  Qed.

  (* L4: 405 carries exactly the methods for which the path is served at this
     version, sorted and without duplicates *)
  Theorem lookup_405 (r : node) m segs v allow :
    wfn r -> lookup V cmp r m segs v = E405 allow ->
    allow <> [] /\ keys_sorted allow /\
    (forall k, In k allow <-> tserved r segs v k) /\
    ~ In (str_upper m) allow.
  Proof.
    intros Hwf. rewrite (lookup_final r m segs v Hwf).
    destruct (final r segs []) as [[ms vars]|] eqn:Hfin; [|discriminate].
    unfold finish_ms.
    destruct (find_handler V cmp (get_method (str_upper m) ms) v) as [h|] eqn:Hfh; [discriminate|].
    destruct (serving_methods V cmp ms v) as [|k ks] eqn:Hsv; [discriminate|].
    intros [= <-]. destruct (final_sound segs r [] ms vars Hwf Hfin) as [Hm _].
    split; [discriminate|]. split; [|split].
    - rewrite <- Hsv. unfold serving_methods. apply keys_sorted_filter. apply Hm.
    - intros k'. rewrite <- Hsv. apply (final_serving r segs v ms vars k' Hwf Hfin).
    - rewrite <- Hsv. rewrite in_serving. intros (hs & h' & H1 & H2 & H3).
      rewrite (get_method_in _ _ _ (proj1 Hm) H1) in Hfh.
      rewrite (find_handler_none _ _ _ Hfh H2) in H3. discriminate.
  Qed.

  Theorem lookup_405_iff (r : node) m segs v :
    wfn r ->
    ((exists allow, lookup V cmp r m segs v = E405 allow) <->
     (exists k, tserved r segs v k) /\ ~ tserved r segs v (str_upper m)).
  Proof.
    intros Hwf. split.
    - intros [allow H]. destruct (lookup_405 r m segs v allow Hwf H) as (Hne & _ & Hiff & Hnot).
      split.
      + destruct allow as [|k ks]; [congruence|]. exists k. apply Hiff. left; reflexivity.
      + intros Hs. apply Hnot. apply Hiff. exact Hs.
    - intros [[k Hk] Hnot]. rewrite (lookup_final r m segs v Hwf).
      destruct (final r segs []) as [[ms vars]|] eqn:Hfin.
      + unfold finish_ms.
        destruct (find_handler V cmp (get_method (str_upper m) ms) v) as [h|] eqn:Hfh.
        * exfalso. apply Hnot. apply find_handler_some in Hfh. destruct Hfh as [Hin Hv].
          apply get_method_some in Hin. destruct Hin as (hs & H1 & H2).
          apply (final_serving r segs v ms vars _ Hwf Hfin). apply in_serving. eauto.
        * apply (final_serving r segs v ms vars k Hwf Hfin) in Hk.
          destruct (serving_methods V cmp ms v) as [|k' ks]; [destruct Hk|]. eauto.
      + exfalso. eapply final_none_unserved; eauto.
  Qed.

  (* no request makes a well-formed trie trip its internal assertions *)
  Theorem lookup_no_panic (r : node) m segs v : wfn r -> lookup V cmp r m segs v <> EPanic.
  Proof.
    intros Hwf. rewrite (lookup_final r m segs v Hwf).
    destruct (final r segs []) as [[ms vars]|]; [|discriminate].
    unfold finish_ms. destruct (find_handler _ _ _ _); [discriminate|].
    destruct (serving_methods _ _ _ _); discriminate.
  Qed.

  (* ------------------------------------------------------------------ *)
  (* Part B: insertion                                                    *)

  Fixpoint vars_ok (seen : list str) (t : list pseg) : bool :=
    match t with
    | [] => true
    | PLit _ :: t' => vars_ok seen t'
    | PVar x :: t' => negb (mem_str x seen) && vars_ok (x :: seen) t'
    | PWild x :: t' => is_nil t' && negb (mem_str x seen)
    end.

  Notation conflicts := (conflicts V cmp).

  Lemma conflicts_plit_same k t e t2 h :
    conflicts (PLit k :: t, e) (PLit k :: t2, h) = conflicts (t, e) (t2, h).
  Proof.
    unfold RouterSpec.conflicts. cbn [fst snd tcompat tpl_eqb list_eqb pseg_eqb].
    rewrite str_eqb_refl. reflexivity.
  Qed.

  Lemma conflicts_plit_diff k k2 t e t2 h :
    k <> k2 -> conflicts (PLit k :: t, e) (PLit k2 :: t2, h) = false.
  Proof.
    intros Hne. unfold RouterSpec.conflicts. cbn [fst snd tcompat tpl_eqb list_eqb pseg_eqb].
    apply str_eqb_neq in Hne. rewrite Hne. reflexivity.
  Qed.

  Lemma conflicts_pvar_same x t e t2 h :
    conflicts (PVar x :: t, e) (PVar x :: t2, h) = conflicts (t, e) (t2, h).
  Proof.
    unfold RouterSpec.conflicts. cbn [fst snd tcompat tpl_eqb list_eqb pseg_eqb].
    rewrite str_eqb_refl. reflexivity.
  Qed.

  Lemma conflicts_pwild_same x e h :
    conflicts ([PWild x], e) ([PWild x], h) = conflicts ([], e) ([], h).
  Proof.
    unfold RouterSpec.conflicts. cbn [fst snd tcompat tpl_eqb list_eqb pseg_eqb].
    rewrite str_eqb_refl. reflexivity.
  Qed.

  Lemma conflicts_incompat t e t2 h : tcompat t t2 = false -> conflicts (t, e) (t2, h) = true.
  Proof. intros H. unfold RouterSpec.conflicts. cbn [fst snd]. rewrite H. reflexivity. Qed.

  Lemma conflicts_cons_nil p t e h :
    (forall x, p <> PWild x) -> conflicts (p :: t, e) ([], h) = false.
  Proof.
    intros Hp. unfold RouterSpec.conflicts. cbn [fst snd tpl_eqb list_eqb].
    destruct p; cbn [tcompat]; try reflexivity. exfalso; eapply Hp; reflexivity.
  Qed.

  Lemma conflicts_nil_cons p t e h :
    (forall x, p <> PWild x) -> conflicts ([], e) (p :: t, h) = false.
  Proof.
    intros Hp. unfold RouterSpec.conflicts. cbn [fst snd tpl_eqb list_eqb].
    destruct p; cbn [tcompat]; try reflexivity. exfalso; eapply Hp; reflexivity.
  Qed.

  (* --- the methods map under [set_method] --- *)

  Lemma str_cmp_lt a b : str_cmp a b = Lt <-> str_ltb a b = true.
  Proof. unfold str_ltb. destruct (str_cmp a b); split; congruence. Qed.

  Lemma str_cmp_gt a b : str_cmp a b = Gt -> str_ltb b a = true.
  Proof. intros H. unfold str_ltb. rewrite (str_cmp_antisym a b), H. reflexivity. Qed.

  Lemma set_method_keys m hs0 (ms : methods) k :
    In k (map fst (set_method m hs0 ms)) -> k = m \/ In k (map fst ms).
  Proof.
    induction ms as [|[k' hs'] ms IH]; cbn [set_method map fst In].
    - intros [<-|[]]; auto.
    - destruct (str_cmp m k') eqn:Hc; cbn [map fst In].
      + apply str_cmp_eq in Hc. subst k'. intuition congruence.
      + intuition congruence.
      + intros [<-|H]; auto. destruct (IH H); auto.
  Qed.

  Lemma set_method_sorted m hs0 (ms : methods) :
    keys_sorted (map fst ms) -> keys_sorted (map fst (set_method m hs0 ms)).
  Proof.
    induction ms as [|[k' hs'] ms IH]; cbn [set_method map fst keys_sorted].
    - auto.
    - intros [Hlt Hs]. destruct (str_cmp m k') eqn:Hc; cbn [map fst keys_sorted].
      + auto.
      + apply str_cmp_lt in Hc. split; [|split; auto].
        constructor; auto. rewrite Forall_forall in *. intros k2 Hk2.
        eapply str_ltb_trans; eauto.
      + apply str_cmp_gt in Hc. split; auto.
        rewrite Forall_forall in *. intros k2 Hk2.
        destruct (set_method_keys _ _ _ _ Hk2) as [->|H]; auto.
  Qed.

  Lemma set_method_in m hs0 (ms : methods) k hs :
    keys_sorted (map fst ms) ->
    (In (k, hs) (set_method m hs0 ms) <-> (k = m /\ hs = hs0) \/ (k <> m /\ In (k, hs) ms)).
  Proof.
    induction ms as [|[k' hs'] ms IH]; cbn [set_method map fst keys_sorted In].
    - intros _. split.
      + intros [[= <- <-]|[]]; auto.
      + intros [[-> ->]|[_ []]]; auto.
    - intros [Hlt Hs]. rewrite Forall_forall in Hlt.
      assert (Hkeys : forall k2 hs2, In (k2, hs2) ms -> str_ltb k' k2 = true).
      { intros k2 hs2 H2. apply Hlt. apply in_map_iff. exists (k2, hs2); auto. }
      destruct (str_cmp m k') eqn:Hc; cbn [In].
      + apply str_cmp_eq in Hc. subst k'. split.
        * intros [[= <- <-]|H]; auto. right. split; auto.
          intros ->. specialize (Hkeys _ _ H). rewrite str_ltb_irrefl in Hkeys; discriminate.
        * intros [[-> ->]|[Hne [[= -> _]|H]]]; auto. congruence.
      + apply str_cmp_lt in Hc. split.
        * intros [[= <- <-]|[[= <- <-]|H]]; auto.
          -- right. split; auto. intros ->. rewrite str_ltb_irrefl in Hc; discriminate.
          -- right. split; auto. intros ->. specialize (Hkeys _ _ H).
             rewrite (str_ltb_asym _ _ Hc) in Hkeys. discriminate.
        * intros [[-> ->]|[Hne H]]; auto.
      + apply str_cmp_gt in Hc. rewrite (IH Hs). split.
        * intros [[= <- <-]|[[-> ->]|[Hne H]]]; auto.
          right. split; auto. intros ->. rewrite str_ltb_irrefl in Hc; discriminate.
        * intros [[-> ->]|[Hne [[= <- <-]|H]]]; auto.
  Qed.

  Lemma has_handlers_false (ms : methods) : has_handlers ms = false -> own_routes ms = [].
  Proof.
    unfold has_handlers, own_routes. induction ms as [|[k hs] ms IH]; cbn; auto.
    destruct hs; cbn; [|discriminate]. exact IH.
  Qed.

  Lemma has_handlers_true (ms : methods) :
    has_handlers ms = true -> exists h, In ([], h) (own_routes ms).
  Proof.
    unfold has_handlers. rewrite existsb_exists. intros ([k hs] & Hin & Hne). cbn [snd] in Hne.
    destruct hs as [|h hs]; [discriminate|]. exists h. apply in_own_routes.
    exists k, (h :: hs). cbn. auto.
  Qed.

  Definition accepts_at (seen : list str) (t : list pseg) (e : endpoint) (n : node) : Prop :=
    vars_ok seen t = true /\ forall d', In d' (routes n) -> conflicts (t, e) d' = false.

  Definition adds_route (t : list pseg) (e : endpoint) (n n' : node) : Prop :=
    wfn n' /\ forall d, In d (routes n') <-> d = (t, e) \/ In d (routes n).

  (* the end of the path: conflict test against the handlers at this node *)
  Lemma push_handler_spec e seen ms ed :
    wfn (Node ms ed) ->
    (forall d, In d (routes_e ed) -> exists p t, fst d = p :: t /\ forall x, p <> PWild x) ->
    match push_handler V cmp e ms ed with
    | Ok n' => accepts_at seen [] e (Node ms ed) /\ adds_route [] e (Node ms ed) n' /\
               node_edges n' = ed
    | Err _ => ~ accepts_at seen [] e (Node ms ed)
    end.
  Proof.
    intros Hwf Hed. unfold push_handler. set (m := str_upper (e_method e)).
    assert (Hs : keys_sorted (map fst ms)) by (destruct Hwf as ((Hs & _) & _); exact Hs).
    assert (Hkey : forall k hs h, In (k, hs) ms -> In h hs -> str_upper (e_method h) = k)
      by (destruct Hwf as ((_ & Hk) & _); exact Hk).
    destruct (find (fun h => overlaps V cmp (e_versions h) (e_versions e)) (get_method m ms))
      as [h0|] eqn:Hfind.
    - (* an overlapping handler for the same method *)
      assert (Hbad : ~ accepts_at seen [] e (Node ms ed)).
      { intros [_ Hall]. apply find_some in Hfind. destruct Hfind as [Hin Hov].
        apply get_method_some in Hin. destruct Hin as (hs & H1 & H2).
        assert (Hk : str_upper (e_method h0) = m) by (eapply Hkey; eauto).
        specialize (Hall ([], h0)). unfold RouterSpec.conflicts in Hall.
        cbn [fst snd tcompat tpl_eqb list_eqb negb orb andb] in Hall.
        assert (Hsm : same_method (e_method e) (e_method h0) = true)
          by (apply same_method_upper; unfold m in Hk; congruence).
        rewrite Hsm, Hov in Hall.
        assert (H : true = false); [|discriminate]. apply Hall.
        apply in_routes_node; left. apply in_own_routes. exists m, hs; auto. }
      destruct (vrange_eqb V cmp (e_versions h0) (e_versions e)); exact Hbad.
    - assert (Hown : forall d, In d (own_routes (set_method m (get_method m ms ++ [e]) ms)) <->
                               d = ([], e) \/ In d (own_routes ms)).
      { intros [t h]. rewrite !in_own_routes. cbn [fst snd]. split.
        - intros (k & hs & H1 & H2 & ->). apply (set_method_in _ _ _ _ _ Hs) in H1.
          destruct H1 as [[-> ->]|[Hne H1]].
          + apply in_app_iff in H2. destruct H2 as [H2|[<-|[]]]; auto.
            apply get_method_some in H2. destruct H2 as (hs' & H3 & H4). right. exists m, hs'; auto.
          + right. exists k, hs; auto.
        - intros [[= -> ->]|(k & hs & H1 & H2 & ->)].
          + exists m, (get_method m ms ++ [e]). repeat split; auto.
            * apply (set_method_in _ _ _ _ _ Hs); auto.
            * apply in_app_iff; right; left; reflexivity.
          + destruct (str_eqb_spec k m) as [->|Hne].
            * exists m, (get_method m ms ++ [e]). repeat split; auto.
              -- apply (set_method_in _ _ _ _ _ Hs); auto.
              -- apply in_app_iff; left. rewrite (get_method_in _ _ _ Hs H1). exact H2.
            * exists k, hs. repeat split; auto. apply (set_method_in _ _ _ _ _ Hs); auto. }
      split; [|split; [|reflexivity]].
      + (* accepts_at *)
        split; [reflexivity|]. intros [t' h'] Hd'. apply in_routes_node in Hd'.
        destruct Hd' as [Hd'|Hd'].
        * apply in_own_routes in Hd'. cbn [fst snd] in Hd'. destruct Hd' as (k & hs & H1 & H2 & ->).
          unfold RouterSpec.conflicts. cbn [fst snd tcompat tpl_eqb list_eqb negb orb andb].
          destruct (same_method (e_method e) (e_method h')) eqn:Hsm; [|reflexivity]. cbn [andb].
          apply same_method_upper in Hsm.
          assert (Hkm : k = m).
          { rewrite <- (Hkey k hs h' H1 H2). symmetry. exact Hsm. }
          rewrite Hkm in H1.
          rewrite <- (get_method_in _ _ _ Hs H1) in H2.
          apply (find_none _ _ Hfind _ H2).
        * destruct (Hed _ Hd') as (p & t2 & Hf & Hp). cbn [fst] in Hf. subst t'.
          apply conflicts_nil_cons; exact Hp.
      + (* adds_route *)
        split.
        * cbn [wfn]. destruct Hwf as (_ & Hwe & Hno). repeat split; auto.
          -- apply set_method_sorted; exact Hs.
          -- intros k hs h' H1 H2. apply (set_method_in _ _ _ _ _ Hs) in H1.
             destruct H1 as [[-> ->]|[Hne H1]].
             ++ apply in_app_iff in H2. destruct H2 as [H2|[<-|[]]]; [|reflexivity].
                apply get_method_some in H2. destruct H2 as (hs' & H3 & H4). eapply Hkey; eauto.
             ++ eapply Hkey; eauto.
          -- destruct ed; auto. exfalso.
             cbn in Hwe. destruct Hwe as (_ & Hne & _).
             destruct (routes n) as [|d rs] eqn:Hr; [congruence|].
             destruct (Hed (pcons (PWild x) d)) as (p & t2 & Hf & Hp).
             { cbn [routes_e]. rewrite Hr. left; reflexivity. }
             cbn [pcons fst] in Hf. injection Hf as <- _. eapply Hp; reflexivity.
        * intros d. rewrite !in_routes_node, Hown. tauto.
  Qed.

  Lemma add_handler_spec e seen (n : node) :
    wfn n ->
    match add_handler V cmp e n with
    | Ok n' => accepts_at seen [] e n /\ adds_route [] e n n' /\ node_edges n' = node_edges n
    | Err _ => ~ accepts_at seen [] e n
    end.
  Proof.
    destruct n as [ms ed]. intros Hwf. unfold add_handler.
    destruct ed as [|cs|x c|x c].
    - apply push_handler_spec; auto. intros d [].
    - apply push_handler_spec; auto. intros d Hd. cbn [routes_e] in Hd.
      apply in_routes_c in Hd. destruct Hd as (k & c & d' & _ & _ & ->).
      exists (PLit k), (fst d'). split; [reflexivity|discriminate].
    - apply push_handler_spec; auto. intros d Hd. cbn [routes_e] in Hd.
      apply in_map_iff in Hd. destruct Hd as (d' & <- & _).
      exists (PVar x), (fst d'). split; [reflexivity|discriminate].
    - (* a wildcard edge already matches the path that ends here *)
      intros [_ Hall]. cbn in Hwf. destruct Hwf as (_ & (_ & Hne & _) & _).
      destruct (routes c) as [|[t' h] rs] eqn:Hr; [congruence|].
      specialize (Hall (PWild x :: t', h)).
      rewrite conflicts_incompat in Hall; [|reflexivity].
      assert (H : true = false); [|discriminate]. apply Hall.
      apply in_routes_node; right. cbn [routes_e]. rewrite Hr. left; reflexivity.
  Qed.

  (* --- the literal children under [upd_child] --- *)

  Definition accepts_c (seen : list str) (k : str) (t : list pseg) (e : endpoint) (cs : children) : Prop :=
    vars_ok seen t = true /\
    forall d', In d' (routes_c cs) -> conflicts (PLit k :: t, e) d' = false.

  Lemma upd_child_spec e seen k t (f : node -> res reg_err node) :
    (forall c, wfn c ->
       match f c with
       | Ok c' => accepts_at seen t e c /\ adds_route t e c c'
       | Err _ => ~ accepts_at seen t e c
       end) ->
    forall cs, wfc cs ->
    match upd_child k f cs with
    | Ok cs' =>
        accepts_c seen k t e cs /\ wfc cs' /\ cs' <> CNil /\
        (forall d, In d (routes_c cs') <-> d = (PLit k :: t, e) \/ In d (routes_c cs)) /\
        (forall k1, In k1 (ckeys cs') -> k1 = k \/ In k1 (ckeys cs))
    | Err _ => ~ accepts_c seen k t e cs
    end.
  Proof.
    intros Hf. induction cs as [|k' n cs IH]; intros Hwf; cbn [upd_child].
    - specialize (Hf empty_node wfn_empty). unfold bind.
      destruct (f empty_node) as [c'|err].
      + destruct Hf as [[Hv _] [Hwc Hr]].
        split; [split; [exact Hv|intros d' []]|].
        split; [|split; [discriminate|split]].
        * cbn [wfc ckeys]. split; [exact Hwc|]. split; [|split; [constructor|exact I]].
          intros Hnil. assert (Hin : In (t, e) (routes c')) by (apply Hr; auto).
          rewrite Hnil in Hin; destruct Hin.
        * intros d. cbn [routes_c]. rewrite app_nil_r, in_map_iff. split.
          -- intros (d' & <- & Hd'). apply Hr in Hd'. destruct Hd' as [->|[]]. left; reflexivity.
          -- intros [->|[]]. exists (t, e). split; [reflexivity|]. apply Hr; auto.
        * cbn [ckeys]. intros k1 [<-|[]]; auto.
      + intros [Hv _]. apply Hf. split; [exact Hv|intros d' []].
    - cbn [wfc] in Hwf. destruct Hwf as (Hn & Hne & Hlt & Hcs).
      assert (Hothers : forall d', In d' (routes_c cs) -> forall k0, (k0 = k' \/ str_ltb k0 k' = true) ->
                                   exists k2 t2 h2, d' = (PLit k2 :: t2, h2) /\ k0 <> k2).
      { intros d' Hd' k0 Hk0. apply in_routes_c in Hd'. destruct Hd' as (k2 & c2 & [t2 h2] & Hc2 & _ & ->).
        exists k2, t2, h2. split; [reflexivity|].
        apply child_in_key in Hc2. rewrite Forall_forall in Hlt. specialize (Hlt _ Hc2).
        intros ->. destruct Hk0 as [->|Hk0].
        - rewrite str_ltb_irrefl in Hlt; discriminate.
        - rewrite (str_ltb_asym _ _ Hk0) in Hlt; discriminate. }
      destruct (str_cmp k k') eqn:Hc.
      + (* the child exists *)
        apply str_cmp_eq in Hc. subst k'. specialize (Hf n Hn). unfold bind.
        destruct (f n) as [c'|err].
        * destruct Hf as [[Hv Hall] [Hwc Hr]].
          split; [split; [exact Hv|]|].
          { intros d' Hd'. cbn [routes_c] in Hd'. apply in_app_iff in Hd'. destruct Hd' as [Hd'|Hd'].
            - apply in_map_iff in Hd'. destruct Hd' as ([t2 h2] & <- & Hd2).
              unfold pcons; cbn [fst snd]. rewrite conflicts_plit_same. apply Hall; exact Hd2.
            - destruct (Hothers _ Hd' k (or_introl eq_refl)) as (k2 & t2 & h2 & -> & Hne2).
              apply conflicts_plit_diff; exact Hne2. }
          split; [|split; [discriminate|split]].
          -- cbn [wfc]. split; [exact Hwc|]. split; [|split; [exact Hlt|exact Hcs]].
             intros Hnil. assert (Hin : In (t, e) (routes c')) by (apply Hr; auto).
             rewrite Hnil in Hin; destruct Hin.
          -- intros d. cbn [routes_c]. rewrite !in_app_iff, !in_map_iff. split.
             ++ intros [(d' & <- & Hd')|Hd]; [|tauto].
                apply Hr in Hd'. destruct Hd' as [->|Hd']; [left; reflexivity|].
                right; left. exists d'; auto.
             ++ intros [->|[(d' & <- & Hd')|Hd]]; [| |tauto].
                ** left. exists (t, e). split; [reflexivity|]. apply Hr; auto.
                ** left. exists d'. split; [reflexivity|]. apply Hr; auto.
          -- cbn [ckeys]. intros k1 [<-|H]; auto. right; right; exact H.
        * intros [Hv Hall]. apply Hf. split; [exact Hv|].
          intros [t2 h2] Hd2. rewrite <- (conflicts_plit_same k). apply Hall.
          cbn [routes_c]. apply in_app_iff; left. apply in_map_iff. exists (t2, h2); auto.
      + (* a new child in front *)
        apply str_cmp_lt in Hc. specialize (Hf empty_node wfn_empty). unfold bind.
        destruct (f empty_node) as [c'|err].
        * destruct Hf as [[Hv _] [Hwc Hr]].
          split; [split; [exact Hv|]|].
          { intros d' Hd'. cbn [routes_c] in Hd'. apply in_app_iff in Hd'. destruct Hd' as [Hd'|Hd'].
            - apply in_map_iff in Hd'. destruct Hd' as ([t2 h2] & <- & Hd2).
              unfold pcons; cbn [fst snd]. apply conflicts_plit_diff.
              intros ->. rewrite str_ltb_irrefl in Hc; discriminate.
            - destruct (Hothers _ Hd' k (or_intror Hc)) as (k2 & t2 & h2 & -> & Hne2).
              apply conflicts_plit_diff; exact Hne2. }
          split; [|split; [discriminate|split]].
          -- cbn [wfc]. split; [exact Hwc|]. split; [|split; [|repeat split; auto]].
             ++ intros Hnil. assert (Hin : In (t, e) (routes c')) by (apply Hr; auto).
                rewrite Hnil in Hin; destruct Hin.
             ++ cbn [ckeys]. constructor; auto.
                rewrite Forall_forall in *. intros k2 Hk2. eapply str_ltb_trans; eauto.
          -- intros d. cbn [routes_c]. rewrite !in_app_iff, !in_map_iff. split.
             ++ intros [(d' & <- & Hd')|Hd]; [|tauto].
                apply Hr in Hd'. destruct Hd' as [->|[]]. left; reflexivity.
             ++ intros [->|Hd]; [|tauto].
                left. exists (t, e). split; [reflexivity|]. apply Hr; auto.
          -- cbn [ckeys]. intros k1 [<-|H]; auto.
        * intros [Hv _]. apply Hf. split; [exact Hv|intros d' []].
      + (* further along *)
        apply str_cmp_gt in Hc. specialize (IH Hcs). unfold bind.
        destruct (upd_child k f cs) as [cs''|err].
        * destruct IH as ([Hv Hall] & Hwc & _ & Hr & Hk).
          split; [split; [exact Hv|]|].
          { intros d' Hd'. cbn [routes_c] in Hd'. apply in_app_iff in Hd'. destruct Hd' as [Hd'|Hd'].
            - apply in_map_iff in Hd'. destruct Hd' as ([t2 h2] & <- & Hd2).
              unfold pcons; cbn [fst snd]. apply conflicts_plit_diff.
              intros ->. rewrite str_ltb_irrefl in Hc; discriminate.
            - apply Hall; exact Hd'. }
          split; [|split; [discriminate|split]].
          -- cbn [wfc]. split; [exact Hn|]. split; [exact Hne|]. split; [|exact Hwc].
             rewrite Forall_forall in *. intros k2 Hk2.
             destruct (Hk _ Hk2) as [->|H2]; auto.
          -- intros d. cbn [routes_c]. rewrite !in_app_iff, Hr. tauto.
          -- cbn [ckeys]. intros k1 [<-|H]; [right; left; reflexivity|].
             destruct (Hk _ H); auto. right; right; auto.
        * intros [Hv Hall]. apply IH. split; [exact Hv|].
          intros d' Hd'. apply Hall. cbn [routes_c]. apply in_app_iff; right; exact Hd'.
  Qed.

  (* a non-empty subtree exhibits a route *)
  Lemma some_route (c : node) : routes c <> [] -> exists t h, In (t, h) (routes c).
  Proof. destruct (routes c) as [|[t h] rs]; [congruence|]. intros _. exists t, h. left; reflexivity. Qed.

  Lemma first_child_route (cs : children) :
    cs <> CNil -> wfc cs -> exists k t h, In (PLit k :: t, h) (routes_c cs).
  Proof.
    destruct cs as [|k c cs]; [congruence|]. intros _ (Hc & Hne & _).
    destruct (some_route c Hne) as (t & h & Hin). exists k, t, h.
    cbn [routes_c]. apply in_app_iff; left. apply in_map_iff. exists (t, h); auto.
  Qed.

  (* B: [insert_at] succeeds exactly when the declaration conflicts with no
     route of the trie (and its variables are fresh); it then adds exactly that
     route and keeps the trie well-formed *)
  Ltac wsplit Hm :=
    repeat match goal with
           | |- wf_methods _ => exact Hm
           | |- _ /\ _ => split
           | |- True => exact I
           | |- Forall _ [] => constructor
           | |- _ <> CNil => discriminate
           end; auto.

  Lemma insert_spec e : forall t seen (n : node),
    wfn n ->
    match insert_at V cmp e t seen n with
    | Ok n' => accepts_at seen t e n /\ adds_route t e n n'
    | Err _ => ~ accepts_at seen t e n
    end.
  Proof.
    induction t as [|p t IH]; intros seen n Hwf.
    - cbn [insert_at]. pose proof (add_handler_spec e seen n Hwf) as H.
      destruct (add_handler V cmp e n); tauto.
    - destruct p as [s|x|x]; cbn [insert_at].
      + (* literal *)
        destruct n as [ms ed]. destruct ed as [|cs|y c|y c].
        * specialize (IH seen empty_node wfn_empty). unfold bind.
          destruct (insert_at V cmp e t seen empty_node) as [c|err].
          -- destruct IH as [[Hv _] [Hwc Hr]]. split.
             ++ split; [exact Hv|]. intros [t2 h2] Hd. apply in_routes_node in Hd.
                destruct Hd as [Hd|[]]. apply in_own_routes in Hd. cbn [fst snd] in Hd.
                destruct Hd as (_ & _ & _ & _ & ->). apply conflicts_cons_nil; discriminate.
             ++ split.
                ** cbn [wfn wfe wfc ckeys]. destruct Hwf as (Hm & _ & _).
                   wsplit Hm.
                   intros Hnil. assert (Hin : In (t, e) (routes c)) by (apply Hr; auto).
                   rewrite Hnil in Hin; destruct Hin.
                ** intros d. rewrite !in_routes_node. cbn [routes_e routes_c].
                   rewrite app_nil_r, in_map_iff. split.
                   --- intros [Hd|(d' & <- & Hd')]; [tauto|].
                       apply Hr in Hd'. destruct Hd' as [->|[]]. left; reflexivity.
                   --- intros [->|[Hd|[]]]; [|tauto].
                       right. exists (t, e). split; [reflexivity|]. apply Hr; auto.
          -- intros [Hv _]. apply IH. split; [exact Hv|intros d' []].
        * assert (Hcs : wfc cs) by (destruct Hwf as (_ & (_ & Hcs) & _); exact Hcs).
          pose proof (upd_child_spec e seen s t (insert_at V cmp e t seen)
                        (fun c Hc => IH seen c Hc) cs Hcs) as Hu.
          unfold bind. destruct (upd_child s (insert_at V cmp e t seen) cs) as [cs'|err].
          -- destruct Hu as ([Hv Hall] & Hwc & Hne & Hr & _). split.
             ++ split; [exact Hv|]. intros [t2 h2] Hd. apply in_routes_node in Hd.
                destruct Hd as [Hd|Hd].
                ** apply in_own_routes in Hd. cbn [fst snd] in Hd.
                   destruct Hd as (_ & _ & _ & _ & ->). apply conflicts_cons_nil; discriminate.
                ** apply Hall; exact Hd.
             ++ split.
                ** cbn [wfn wfe]. destruct Hwf as (Hm & _ & _). wsplit Hm.
                ** intros d. rewrite !in_routes_node. cbn [routes_e]. rewrite Hr. tauto.
          -- intros [Hv Hall]. apply Hu. split; [exact Hv|].
             intros d' Hd'. apply Hall. apply in_routes_node; right; exact Hd'.
        * intros [_ Hall]. destruct Hwf as (_ & (_ & Hne) & _).
          destruct (some_route c Hne) as (t2 & h2 & Hin).
          specialize (Hall (PVar y :: t2, h2)). rewrite conflicts_incompat in Hall; [|reflexivity].
          assert (H : true = false); [|discriminate]. apply Hall.
          apply in_routes_node; right. cbn [routes_e]. apply in_map_iff. exists (t2, h2); auto.
        * intros [_ Hall]. destruct Hwf as (_ & (_ & Hne & _) & _).
          destruct (some_route c Hne) as (t2 & h2 & Hin).
          specialize (Hall (PWild y :: t2, h2)). rewrite conflicts_incompat in Hall; [|reflexivity].
          assert (H : true = false); [|discriminate]. apply Hall.
          apply in_routes_node; right. cbn [routes_e]. apply in_map_iff. exists (t2, h2); auto.
      + (* variable *)
        destruct (mem_str x seen) eqn:Hseen.
        { intros [Hv _]. cbn [vars_ok] in Hv. rewrite Hseen in Hv. discriminate. }
        destruct n as [ms ed]. destruct ed as [|cs|y c|y c].
        * specialize (IH (x :: seen) empty_node wfn_empty). unfold bind.
          destruct (insert_at V cmp e t (x :: seen) empty_node) as [c|err].
          -- destruct IH as [[Hv _] [Hwc Hr]]. split.
             ++ split; [cbn [vars_ok]; rewrite Hseen; exact Hv|].
                intros [t2 h2] Hd. apply in_routes_node in Hd.
                destruct Hd as [Hd|[]]. apply in_own_routes in Hd. cbn [fst snd] in Hd.
                destruct Hd as (_ & _ & _ & _ & ->). apply conflicts_cons_nil; discriminate.
             ++ split.
                ** cbn [wfn wfe]. destruct Hwf as (Hm & _ & _). wsplit Hm.
                   intros Hnil. assert (Hin : In (t, e) (routes c)) by (apply Hr; auto).
                   rewrite Hnil in Hin; destruct Hin.
                ** intros d. rewrite !in_routes_node. cbn [routes_e]. rewrite in_map_iff. split.
                   --- intros [Hd|(d' & <- & Hd')]; [tauto|].
                       apply Hr in Hd'. destruct Hd' as [->|[]]. left; reflexivity.
                   --- intros [->|[Hd|[]]]; [|tauto].
                       right. exists (t, e). split; [reflexivity|]. apply Hr; auto.
          -- intros [Hv _]. cbn [vars_ok] in Hv. rewrite Hseen in Hv. apply IH.
             split; [exact Hv|intros d' []].
        * intros [_ Hall]. destruct Hwf as (_ & (Hne & Hcs) & _).
          destruct (first_child_route cs Hne Hcs) as (k & t2 & h2 & Hin).
          specialize (Hall (PLit k :: t2, h2)). rewrite conflicts_incompat in Hall; [|reflexivity].
          assert (H : true = false); [|discriminate]. apply Hall.
          apply in_routes_node; right. exact Hin.
        * destruct (str_eqb_spec x y) as [->|Hxy].
          -- assert (Hc : wfn c) by (destruct Hwf as (_ & (Hc & _) & _); exact Hc).
             specialize (IH (y :: seen) c Hc). unfold bind.
             destruct (insert_at V cmp e t (y :: seen) c) as [c'|err].
             ++ destruct IH as [[Hv Hall] [Hwc Hr]]. split.
                ** split; [cbn [vars_ok]; rewrite Hseen; exact Hv|].
                   intros [t2 h2] Hd. apply in_routes_node in Hd. destruct Hd as [Hd|Hd].
                   --- apply in_own_routes in Hd. cbn [fst snd] in Hd.
                       destruct Hd as (_ & _ & _ & _ & ->). apply conflicts_cons_nil; discriminate.
                   --- cbn [routes_e] in Hd. apply in_map_iff in Hd.
                       destruct Hd as ([t3 h3] & Heq & Hd3). injection Heq as <- <-.
                       rewrite conflicts_pvar_same. apply Hall; exact Hd3.
                ** split.
                   --- cbn [wfn wfe]. destruct Hwf as (Hm & _ & _). wsplit Hm.
                       intros Hnil. assert (Hin : In (t, e) (routes c')) by (apply Hr; auto).
                       rewrite Hnil in Hin; destruct Hin.
                   --- intros d. rewrite !in_routes_node. cbn [routes_e]. rewrite !in_map_iff. split.
                       +++ intros [Hd|(d' & <- & Hd')]; [tauto|].
                           apply Hr in Hd'. destruct Hd' as [->|Hd']; [left; reflexivity|].
                           right; right. exists d'; auto.
                       +++ intros [->|[Hd|(d' & <- & Hd')]]; [|tauto|].
                           *** right. exists (t, e). split; [reflexivity|]. apply Hr; auto.
                           *** right. exists d'. split; [reflexivity|]. apply Hr; auto.
             ++ intros [Hv Hall]. cbn [vars_ok] in Hv. rewrite Hseen in Hv. apply IH.
                split; [exact Hv|]. intros [t3 h3] Hd3. rewrite <- (conflicts_pvar_same y).
                apply Hall. apply in_routes_node; right. cbn [routes_e]. apply in_map_iff.
                exists (t3, h3); auto.
          -- intros [_ Hall]. destruct Hwf as (_ & (_ & Hne) & _).
             destruct (some_route c Hne) as (t2 & h2 & Hin).
             specialize (Hall (PVar y :: t2, h2)). rewrite conflicts_incompat in Hall.
             ++ assert (H : true = false); [|discriminate]. apply Hall.
                apply in_routes_node; right. cbn [routes_e]. apply in_map_iff. exists (t2, h2); auto.
             ++ cbn [tcompat]. apply str_eqb_neq in Hxy. rewrite Hxy. reflexivity.
        * intros [_ Hall]. destruct Hwf as (_ & (_ & Hne & _) & _).
          destruct (some_route c Hne) as (t2 & h2 & Hin).
          specialize (Hall (PWild y :: t2, h2)). rewrite conflicts_incompat in Hall; [|reflexivity].
          assert (H : true = false); [|discriminate]. apply Hall.
          apply in_routes_node; right. cbn [routes_e]. apply in_map_iff. exists (t2, h2); auto.
      + (* wildcard *)
        destruct t as [|p' t'].
        2: { intros [Hv _]. cbn [vars_ok is_nil andb] in Hv. discriminate. }
        destruct (mem_str x seen) eqn:Hseen.
        { intros [Hv _]. cbn [vars_ok is_nil andb] in Hv. rewrite Hseen in Hv. discriminate. }
        destruct n as [ms ed].
        destruct (has_handlers ms) eqn:Hhh.
        { intros [_ Hall]. destruct (has_handlers_true ms Hhh) as (h2 & Hin).
          specialize (Hall ([], h2)). rewrite conflicts_incompat in Hall; [|reflexivity].
          assert (H : true = false); [|discriminate]. apply Hall.
          apply in_routes_node; left; exact Hin. }
        apply has_handlers_false in Hhh.
        destruct ed as [|cs|y c|y c].
        * pose proof (add_handler_spec e seen empty_node wfn_empty) as Ha. unfold bind.
          destruct (add_handler V cmp e empty_node) as [c|err].
          -- destruct Ha as (_ & [Hwc Hr] & Hed). split.
             ++ split; [cbn [vars_ok is_nil andb]; rewrite Hseen; reflexivity|].
                intros d' Hd'. apply in_routes_node in Hd'. rewrite Hhh in Hd'. destruct Hd' as [[]|[]].
             ++ split.
                ** cbn [wfn wfe]. destruct Hwf as (Hm & _ & _).
                   split; [exact Hm|]. split; [|exact Hhh]. split; [exact Hwc|]. split; [|exact Hed].
                   intros Hnil. assert (Hin : In ([], e) (routes c)) by (apply Hr; auto).
                   rewrite Hnil in Hin; destruct Hin.
                ** intros d. rewrite !in_routes_node. cbn [routes_e]. rewrite in_map_iff. split.
                   --- intros [Hd|(d' & <- & Hd')]; [tauto|].
                       apply Hr in Hd'. destruct Hd' as [->|[]]. left; reflexivity.
                   --- intros [->|[Hd|[]]]; [|tauto].
                       right. exists ([], e). split; [reflexivity|]. apply Hr; auto.
          -- exfalso. apply Ha. split; [reflexivity|intros d' []].
        * intros [_ Hall]. destruct Hwf as (_ & (Hne & Hcs) & _).
          destruct (first_child_route cs Hne Hcs) as (k & t2 & h2 & Hin).
          specialize (Hall (PLit k :: t2, h2)). rewrite conflicts_incompat in Hall; [|reflexivity].
          assert (H : true = false); [|discriminate]. apply Hall.
          apply in_routes_node; right. exact Hin.
        * intros [_ Hall]. destruct Hwf as (_ & (_ & Hne) & _).
          destruct (some_route c Hne) as (t2 & h2 & Hin).
          specialize (Hall (PVar y :: t2, h2)). rewrite conflicts_incompat in Hall; [|reflexivity].
          assert (H : true = false); [|discriminate]. apply Hall.
          apply in_routes_node; right. cbn [routes_e]. apply in_map_iff. exists (t2, h2); auto.
        * destruct Hwf as (Hm & (Hc & Hne & Hleaf) & Hno).
          destruct (str_eqb_spec x y) as [->|Hxy].
          -- pose proof (add_handler_spec e seen c Hc) as Ha. unfold bind.
             destruct (add_handler V cmp e c) as [c'|err].
             ++ destruct Ha as ([_ Hall] & [Hwc Hr] & Hed). split.
                ** split; [cbn [vars_ok is_nil andb]; rewrite Hseen; reflexivity|].
                   intros [t2 h2] Hd. apply in_routes_node in Hd. rewrite Hhh in Hd.
                   destruct Hd as [[]|Hd]. cbn [routes_e] in Hd. apply in_map_iff in Hd.
                   destruct Hd as ([t3 h3] & Heq & Hd3). injection Heq as <- <-.
                   destruct (leaf_routes _ _ Hleaf Hd3) as [Ht3 _]. cbn [fst] in Ht3. subst t3.
                   rewrite conflicts_pwild_same. apply Hall; exact Hd3.
                ** split.
                   --- cbn [wfn wfe].
                       split; [exact Hm|]. split; [|exact Hno]. split; [exact Hwc|].
                       split; [|congruence].
                       intros Hnil. assert (Hin : In ([], e) (routes c')) by (apply Hr; auto).
                       rewrite Hnil in Hin; destruct Hin.
                   --- intros d. rewrite !in_routes_node. cbn [routes_e]. rewrite !in_map_iff. split.
                       +++ intros [Hd|(d' & <- & Hd')]; [tauto|].
                           apply Hr in Hd'. destruct Hd' as [->|Hd']; [left; reflexivity|].
                           right; right. exists d'; auto.
                       +++ intros [->|[Hd|(d' & <- & Hd')]]; [|tauto|].
                           *** right. exists ([], e). split; [reflexivity|]. apply Hr; auto.
                           *** right. exists d'. split; [reflexivity|]. apply Hr; auto.
             ++ intros [_ Hall]. apply Ha. split; [reflexivity|].
                intros [t3 h3] Hd3. destruct (leaf_routes _ _ Hleaf Hd3) as [Ht3 _].
                cbn [fst] in Ht3. subst t3. rewrite <- (conflicts_pwild_same y).
                apply Hall. apply in_routes_node; right. cbn [routes_e]. apply in_map_iff.
                exists ([], h3); auto.
          -- intros [_ Hall]. destruct (some_route c Hne) as (t2 & h2 & Hin).
             specialize (Hall (PWild y :: t2, h2)). rewrite conflicts_incompat in Hall.
             ++ assert (H : true = false); [|discriminate]. apply Hall.
                apply in_routes_node; right. cbn [routes_e]. apply in_map_iff. exists (t2, h2); auto.
             ++ cbn [tcompat]. apply str_eqb_neq in Hxy. rewrite Hxy. reflexivity.
  Qed.

  (* ------------------------------------------------------------------ *)
  (* Part C: whole tables                                                 *)

  Lemma vars_of_lit s t : vars_of (PLit s :: t) = vars_of t.
  Proof. reflexivity. Qed.
  Lemma vars_of_var x t : vars_of (PVar x :: t) = x :: vars_of t.
  Proof. reflexivity. Qed.
  Lemma vars_of_wild x t : vars_of (PWild x :: t) = x :: vars_of t.
  Proof. reflexivity. Qed.

  Lemma vars_ok_sound seen t :
    vars_ok seen t = true ->
    nodup_str (vars_of t) = true /\ wild_only_last t = true /\
    forall x, In x (vars_of t) -> mem_str x seen = false.
  Proof.
    revert seen. induction t as [|p t IH]; intros seen.
    - intros _. repeat split. intros x [].
    - destruct p as [s|x|x]; cbn [vars_ok wild_only_last].
      + rewrite vars_of_lit. apply IH.
      + rewrite vars_of_var. rewrite andb_true_iff, negb_true_iff. intros [Hx Hv].
        destruct (IH _ Hv) as (Hnd & Hw & Hfresh). cbn [nodup_str].
        assert (Hxt : mem_str x (vars_of t) = false).
        { destruct (mem_str x (vars_of t)) eqn:Hm; auto. apply mem_str_In in Hm.
          specialize (Hfresh _ Hm). cbn [mem_str] in Hfresh. rewrite str_eqb_refl in Hfresh. discriminate. }
        rewrite Hxt, Hnd. repeat split; auto.
        intros y [<-|Hy]; auto. specialize (Hfresh _ Hy). cbn [mem_str] in Hfresh.
        apply orb_false_iff in Hfresh. tauto.
      + rewrite andb_true_iff, negb_true_iff. intros [Hn Hx].
        destruct t; [|discriminate]. cbn. repeat split. intros y [<-|[]]; auto.
  Qed.

  Lemma vars_ok_complete seen t :
    nodup_str (vars_of t) = true -> wild_only_last t = true ->
    (forall x, In x (vars_of t) -> mem_str x seen = false) ->
    vars_ok seen t = true.
  Proof.
    revert seen. induction t as [|p t IH]; intros seen; [reflexivity|].
    destruct p as [s|x|x]; cbn [vars_ok wild_only_last].
    - rewrite vars_of_lit. apply IH.
    - rewrite vars_of_var. cbn [nodup_str]. rewrite andb_true_iff, negb_true_iff.
      intros [Hxt Hnd] Hw Hfresh.
      rewrite (Hfresh x (or_introl eq_refl)). cbn [negb andb]. apply IH; auto.
      intros y Hy. cbn [mem_str]. rewrite (Hfresh y (or_intror Hy)), orb_false_r.
      apply str_eqb_neq. intros ->. apply mem_str_In in Hy. congruence.
    - rewrite vars_of_wild. intros _ Hn Hfresh. rewrite Hn. cbn [andb].
      rewrite (Hfresh x); auto. left; reflexivity.
  Qed.

  Lemma vars_ok_nil t : vars_ok [] t = wf_template t.
  Proof.
    unfold wf_template. destruct (vars_ok [] t) eqn:Hv.
    - destruct (vars_ok_sound _ _ Hv) as (H1 & H2 & _). rewrite H1, H2. reflexivity.
    - destruct (nodup_str (vars_of t)) eqn:H1; [|reflexivity].
      destruct (wild_only_last t) eqn:H2; [|reflexivity].
      rewrite vars_ok_complete in Hv; auto.
  Qed.

  (* a table is acceptable when every template is well formed and no two
     declarations conflict *)
  Definition table_ok (eps : list decl) : Prop :=
    Forall (fun d => wf_template (fst d) = true) eps /\
    ForallOrdPairs (fun d1 d2 => conflicts d2 d1 = false) eps.

  Lemma build_from_spec : forall (eps acc : list decl) (r : node),
    wfn r -> (forall d, In d (routes r) <-> In d acc) ->
    match build_from V cmp r eps with
    | Ok r' =>
        table_ok eps /\ (forall d d', In d eps -> In d' acc -> conflicts d d' = false) /\
        wfn r' /\ (forall d, In d (routes r') <-> In d acc \/ In d eps)
    | Err _ =>
        ~ (table_ok eps /\ (forall d d', In d eps -> In d' acc -> conflicts d d' = false))
    end.
  Proof.
    induction eps as [|[t e] eps IH]; intros acc r Hwf Hr; cbn [build_from].
    - split; [split; constructor|]. split; [intros d d' []|]. split; auto.
      intros d. rewrite Hr. cbn [In]. tauto.
    - unfold insert, bind. cbn [fst snd].
      pose proof (insert_spec e t [] r Hwf) as Hi.
      destruct (insert_at V cmp e t [] r) as [r1|err].
      + destruct Hi as [[Hv Hall] [Hwf1 Hr1]]. rewrite vars_ok_nil in Hv.
        specialize (IH ((t, e) :: acc) r1 Hwf1).
        assert (Hr1' : forall d, In d (routes r1) <-> In d ((t, e) :: acc)).
        { intros d. rewrite Hr1, Hr. cbn [In]. intuition congruence. }
        specialize (IH Hr1').
        destruct (build_from V cmp r1 eps) as [r'|err].
        * destruct IH as ([Hwt Hfop] & Hacc & Hwf' & Hr').
          split; [split|split; [|split]].
          -- constructor; [exact Hv|exact Hwt].
          -- constructor; [|exact Hfop]. rewrite Forall_forall. intros d Hd.
             apply Hacc; [exact Hd|left; reflexivity].
          -- intros d d' [<-|Hd] Hd'.
             ++ apply Hall. apply Hr; exact Hd'.
             ++ apply Hacc; [exact Hd|right; exact Hd'].
          -- exact Hwf'.
          -- intros d. rewrite Hr'. cbn [In]. intuition congruence.
        * intros [[Hwt Hfop] Hacc]. apply IH. inversion Hwt; subst. inversion Hfop; subst.
          split; [split; auto|].
          intros d d' Hd [<-|Hd'].
          -- match goal with H : Forall _ eps |- _ => rewrite Forall_forall in H; apply H; exact Hd end.
          -- apply Hacc; [right; exact Hd|exact Hd'].
      + intros [[Hwt _] Hacc]. apply Hi. inversion Hwt; subst. cbn [fst] in *.
        split; [rewrite vars_ok_nil; assumption|].
        intros d' Hd'. apply Hacc; [left; reflexivity|]. apply Hr; exact Hd'.
  Qed.

  (* C02/C01: registration of a whole table succeeds exactly when the table
     is conflict-free; the trie then stands for exactly the table *)
  Theorem build_spec (eps : list decl) :
    match build V cmp eps with
    | Ok r => table_ok eps /\ wfn r /\ (forall d, In d (routes r) <-> In d eps)
    | Err _ => ~ table_ok eps
    end.
  Proof.
    unfold build. pose proof (build_from_spec eps [] empty_node wfn_empty) as H.
    assert (H0 : forall d : decl, In d (routes empty_node) <-> In d []) by (intros d; cbn; tauto).
    specialize (H H0). destruct (build_from V cmp empty_node eps) as [r|err].
    - destruct H as (Ht & _ & Hwf & Hr). split; [exact Ht|]. split; [exact Hwf|].
      intros d. rewrite Hr. cbn [In]. tauto.
    - intros Ht. apply H. split; [exact Ht|]. intros d d' _ [].
  Qed.

  (* one more registration on top of an accepted table *)
  Theorem register_spec (eps : list decl) (r : node) (d : decl) :
    build V cmp eps = Ok r ->
    match insert V cmp r d with
    | Ok r' => acceptable V cmp eps d = true /\ build V cmp (eps ++ [d]) = Ok r'
    | Err _ => acceptable V cmp eps d = false
    end.
  Proof.
    intros Hb. pose proof (build_spec eps) as Hs. rewrite Hb in Hs.
    destruct Hs as (_ & Hwf & Hr). destruct d as [t e]. unfold insert. cbn [fst snd].
    pose proof (insert_spec e t [] r Hwf) as Hi.
    assert (Hacc : acceptable V cmp eps (t, e) = true <-> accepts_at [] t e r).
    { unfold acceptable, accepts_at. cbn [fst]. rewrite vars_ok_nil, andb_true_iff, forallb_forall.
      split; intros [H1 H2]; (split; [exact H1|]); intros d' Hd'.
      - apply negb_true_iff. apply H2. apply Hr; exact Hd'.
      - apply negb_true_iff. apply H2. apply Hr; exact Hd'. }
    assert (Hbuild : forall r', insert_at V cmp e t [] r = Ok r' ->
                                build V cmp (eps ++ [(t, e)]) = Ok r').
    { intros r' Hr'. unfold build in *. clear - Hb Hr'.
      revert Hb. generalize (empty_node (V:=V)) as r0. induction eps as [|d0 eps IH]; intros r0; cbn [build_from app].
      - intros [= ->]. unfold insert, bind. cbn [fst snd]. rewrite Hr'. reflexivity.
      - unfold bind. destruct (insert V cmp r0 d0); [|discriminate]. apply IH. }
    destruct (insert_at V cmp e t [] r) as [r'|err].
    - split; [apply Hacc; tauto|apply Hbuild; reflexivity].
    - destruct (acceptable V cmp eps (t, e)) eqn:Ha; auto. exfalso. apply Hi. apply Hacc. reflexivity.
  Qed.

  (* ------------------------------------------------------------------ *)
  (* templates                                                            *)

  Lemma tcompat_sym t1 : forall t2, tcompat t1 t2 = tcompat t2 t1.
  Proof.
    induction t1 as [|p1 t1 IH]; intros [|p2 t2].
    - reflexivity.
    - destruct p2; reflexivity.
    - destruct p1; reflexivity.
    - destruct p1 as [a|x|x], p2 as [b|y|y]; cbn [tcompat]; try reflexivity.
      + rewrite (str_eqb_sym a b). destruct (str_eqb b a); auto.
      + rewrite (str_eqb_sym x y), IH. reflexivity.
      + apply str_eqb_sym.
  Qed.

  Lemma pseg_eqb_eq a b : pseg_eqb a b = true <-> a = b.
  Proof.
    destruct a, b; cbn [pseg_eqb]; try (split; [discriminate|congruence]);
      rewrite str_eqb_eq; split; congruence.
  Qed.

  Lemma tpl_eqb_eq t1 t2 : tpl_eqb t1 t2 = true <-> t1 = t2.
  Proof. apply list_eqb_spec. apply pseg_eqb_eq. Qed.

  Lemma tpl_eqb_sym t1 t2 : tpl_eqb t1 t2 = tpl_eqb t2 t1.
  Proof.
    destruct (tpl_eqb t1 t2) eqn:H1, (tpl_eqb t2 t1) eqn:H2; auto.
    - apply tpl_eqb_eq in H1. subst. rewrite (proj2 (tpl_eqb_eq t2 t2) eq_refl) in H2. discriminate.
    - apply tpl_eqb_eq in H2. subst. rewrite (proj2 (tpl_eqb_eq t1 t1) eq_refl) in H1. discriminate.
  Qed.

  Lemma same_method_sym a b : same_method a b = same_method b a.
  Proof. unfold same_method. apply str_eqb_sym. Qed.

  (* two templates that may coexist and match the same path are the same
     template: this is what makes dispatch unambiguous *)
  Lemma match_compat_eq t1 : forall t2 segs b1 b2,
    tmatch t1 segs = Some b1 -> tmatch t2 segs = Some b2 -> tcompat t1 t2 = true -> t1 = t2.
  Proof.
    induction t1 as [|p1 t1 IH]; intros [|p2 t2] segs b1 b2 H1 H2 Hc.
    - reflexivity.
    - destruct p2; cbn [tcompat] in Hc; try discriminate;
        cbn [tmatch] in H1, H2; destruct segs; discriminate.
    - destruct p1; cbn [tcompat] in Hc; try discriminate;
        cbn [tmatch] in H1, H2; destruct segs; discriminate.
    - destruct p1 as [a|x|x], p2 as [c|y|y]; cbn [tcompat] in Hc; try discriminate.
      + cbn [tmatch] in H1, H2. destruct segs as [|s rest]; [discriminate|].
        destruct (str_eqb_spec a s) as [->|]; [|discriminate].
        destruct (str_eqb_spec c s) as [->|]; [|discriminate].
        rewrite str_eqb_refl in Hc. f_equal. eapply IH; eauto.
      + cbn [tmatch] in H1, H2. destruct segs as [|s rest]; [discriminate|].
        destruct (tmatch t1 rest) eqn:E1; [|discriminate].
        destruct (tmatch t2 rest) eqn:E2; [|discriminate].
        apply andb_true_iff in Hc. destruct Hc as [Hxy Hc]. apply str_eqb_eq in Hxy. subst y.
        f_equal. eapply IH; eauto.
      + cbn [tmatch] in H1, H2. destruct t1; [|discriminate]. destruct t2; [|discriminate].
        apply str_eqb_eq in Hc. subst. reflexivity.
  Qed.

  (* C01.3: the bindings are exactly the template's variables, each bound to
     its own segment; the wildcard to everything that remains *)
  Lemma tmatch_keys t : forall segs b, tmatch t segs = Some b -> map fst b = vars_of t.
  Proof.
    induction t as [|p t IH]; intros segs b H.
    - cbn [tmatch] in H. destruct segs; [|discriminate]. injection H as <-. reflexivity.
    - destruct p as [a|x|x]; cbn [tmatch] in H.
      + destruct segs as [|s rest]; [discriminate|]. destruct (str_eqb a s); [|discriminate].
        rewrite vars_of_lit. eapply IH; eauto.
      + destruct segs as [|s rest]; [discriminate|].
        destruct (tmatch t rest) eqn:E; [|discriminate]. injection H as <-.
        rewrite vars_of_var. cbn [map fst]. f_equal. eapply IH; eauto.
      + destruct t; [|discriminate]. injection H as <-. reflexivity.
  Qed.

  Lemma tmatch_values t : forall segs b i x,
    tmatch t segs = Some b ->
    (nth_error t i = Some (PVar x) ->
       exists s, nth_error segs i = Some s /\ In (x, Single s) b) /\
    (nth_error t i = Some (PWild x) -> In (x, Multi (skipn i segs)) b) /\
    (forall a, nth_error t i = Some (PLit a) -> nth_error segs i = Some a).
  Proof.
    induction t as [|p t IH]; intros segs b i x H.
    - destruct i; cbn [nth_error]; repeat split; try discriminate.
    - destruct p as [a|y|y]; cbn [tmatch] in H.
      + destruct segs as [|s rest]; [discriminate|].
        destruct (str_eqb_spec a s) as [->|]; [|discriminate].
        destruct i as [|i]; cbn [nth_error skipn].
        * repeat split; try discriminate. intros a' [= <-]. reflexivity.
        * apply (IH rest b i x H).
      + destruct segs as [|s rest]; [discriminate|].
        destruct (tmatch t rest) as [b'|] eqn:E; [|discriminate]. injection H as <-.
        destruct i as [|i]; cbn [nth_error skipn].
        * repeat split; try discriminate. intros [= <-]. exists s. split; [reflexivity|left; reflexivity].
        * destruct (IH rest b' i x E) as (H1 & H2 & H3). repeat split.
          -- intros Hn. destruct (H1 Hn) as (s' & Hs' & Hin). exists s'. split; auto. right; auto.
          -- intros Hn. right; auto.
          -- exact H3.
      + destruct t; [|discriminate]. injection H as <-.
        destruct i as [|i]; cbn [nth_error skipn].
        * repeat split; try discriminate. intros [= <-]. left; reflexivity.
        * destruct i; cbn [nth_error]; repeat split; discriminate.
  Qed.
End RP.

(* ---------------------------------------------------------------------- *)
(* Uniqueness of dispatch and independence of registration order need the
   version order to be a total order (VersionsProofs.total_order). *)
Section RO.
  Variable V : Type.
  Variable cmp : V -> V -> comparison.
  Variable bot : V.
  Hypothesis TO : total_order V cmp bot.
  Notation endpoint := (endpoint V).
  Notation node := (node V).
  Notation decl := (decl V).
  Notation conflicts := (conflicts V cmp).

  Lemma shared_overlaps r1 r2 v :
    wf_range V cmp r1 -> wf_range V cmp r2 ->
    vmatches V cmp r1 (Some v) = true -> vmatches V cmp r2 (Some v) = true ->
    overlaps V cmp r1 r2 = true.
  Proof.
    intros W1 W2 M1 M2.
    destruct (k2_class V cmp bot r1 r2) eqn:Hk.
    - unfold k2_class in Hk. apply orb_true_iff in Hk.
      destruct Hk as [Hk|Hk]; apply andb_true_iff in Hk; destruct Hk as [Hu Hk];
        destruct r1, r2; cbn [until_bot] in Hu; try discriminate; reflexivity.
    - apply (overlaps_iff_shared V cmp bot TO r1 r2 W1 W2 Hk).
      exists v. split; apply (matches_iff_in V cmp bot TO); auto.
  Qed.

  Lemma conflicts_sym d1 d2 : conflicts d1 d2 = conflicts d2 d1.
  Proof.
    unfold RouterSpec.conflicts.
    rewrite (tcompat_sym (fst d1) (fst d2)), (tpl_eqb_sym (fst d1) (fst d2)),
      (same_method_sym (e_method (snd d1)) (e_method (snd d2))),
      (overlaps_sym V cmp (e_versions (snd d2)) (e_versions (snd d1))).
    reflexivity.
  Qed.

  (* what a request may carry: a version on a versioned table, none only when
     no endpoint is version-restricted (the server refuses to start otherwise) *)
  Definition version_ok (eps : list decl) (v : option V) : Prop :=
    (forall d, In d eps -> wf_range V cmp (e_versions (snd d))) /\
    match v with
    | Some _ => True
    | None => forall d, In d eps -> e_versions (snd d) = VAll
    end.

  (* C01.2 / C02: in a conflict-free table no request is served by two
     declarations *)
  Theorem dispatch_unique (eps : list decl) d1 d2 m segs v b1 b2 :
    table_ok V cmp eps -> version_ok eps v ->
    In d1 eps -> In d2 eps ->
    serves V cmp d1 m segs v = Some b1 -> serves V cmp d2 m segs v = Some b2 ->
    d1 = d2.
  Proof.
    intros [_ Hfop] [Hwf Hv] H1 H2 S1 S2.
    destruct (ForallOrdPairs_In Hfop _ _ H1 H2) as [Heq|[Hc|Hc]]; [exact Heq| |];
      exfalso.
    1: rewrite conflicts_sym in Hc.
    all: unfold serves in S1, S2;
      destruct (same_method m (e_method (snd d1))) eqn:M1; [|discriminate];
      destruct (same_method m (e_method (snd d2))) eqn:M2; [|discriminate];
      destruct (vmatches V cmp (e_versions (snd d1)) v) eqn:V1; [|discriminate];
      destruct (vmatches V cmp (e_versions (snd d2)) v) eqn:V2; [|discriminate];
      cbn [andb] in S1, S2;
      unfold RouterSpec.conflicts in Hc; apply orb_false_iff in Hc; destruct Hc as [Hc1 Hc2];
      apply negb_false_iff in Hc1;
      pose proof (match_compat_eq _ _ _ _ _ S1 S2 Hc1) as Ht;
      rewrite (proj2 (tpl_eqb_eq _ _) Ht) in Hc2;
      assert (Hsm : same_method (e_method (snd d1)) (e_method (snd d2)) = true)
        by (apply same_method_upper; apply same_method_upper in M1; apply same_method_upper in M2; congruence);
      rewrite Hsm in Hc2; cbn [andb] in Hc2;
      assert (Hov : overlaps V cmp (e_versions (snd d2)) (e_versions (snd d1)) = true);
      [ destruct v as [x|];
        [ apply (shared_overlaps _ _ x); auto
        | rewrite (Hv _ H1), (Hv _ H2); reflexivity ]
      | congruence ].
  Qed.

  (* C01.1: for an accepted table, lookup finds e with bindings vars exactly
     when e is a declared endpoint serving the request and vars are its
     template's bindings *)
  Theorem dispatch_exact (eps : list decl) (r : node) m segs v e vars :
    build V cmp eps = Ok r -> version_ok eps v ->
    (lookup V cmp r m segs v = Found e vars <->
     exists t b, In (t, e) eps /\ serves V cmp (t, e) m segs v = Some b /\ vars = bm_of b).
  Proof.
    intros Hb Hv. pose proof (build_spec V cmp eps) as Hs. rewrite Hb in Hs.
    destruct Hs as (Hok & Hwf & Hr). split.
    - intros Hl. destruct (lookup_sound V cmp r m segs v e vars Hwf Hl) as (t & b & Hin & Hsv & ->).
      exists t, b. rewrite <- Hr. auto.
    - intros (t & b & Hin & Hsv & ->). apply Hr in Hin.
      destruct (lookup_complete V cmp r m segs v t e b Hwf Hin Hsv) as (e' & Hl).
      destruct (lookup_sound V cmp r m segs v e' _ Hwf Hl) as (t' & b' & Hin' & Hsv' & Hb').
      assert (Heq : (t', e') = (t, e)).
      { eapply dispatch_unique; eauto; apply Hr; auto. }
      injection Heq as -> ->. exact Hl.
  Qed.

  Lemma FOP_perm {A} (R : A -> A -> Prop) (l l' : list A) :
    (forall x y, R x y -> R y x) -> Permutation l l' ->
    ForallOrdPairs R l -> ForallOrdPairs R l'.
  Proof.
    intros Hsym Hp. induction Hp as [|x l l' Hp IH|x y l|l l' l'' Hp1 IH1 Hp2 IH2]; intros H.
    - constructor.
    - inversion H; subst. constructor; auto.
      rewrite Forall_forall in *. intros z Hz. apply Permutation_sym in Hp.
      eauto using Permutation_in.
    - inversion H as [|? ? Hy H']; subst. inversion H' as [|? ? Hx H'']; subst.
      inversion Hy; subst. constructor; [constructor; auto|constructor; auto].
    - auto.
  Qed.

  Lemma table_ok_perm (eps eps' : list decl) :
    Permutation eps eps' -> table_ok V cmp eps -> table_ok V cmp eps'.
  Proof.
    intros Hp [H1 H2]. split.
    - rewrite Forall_forall in *. intros d Hd. apply H1.
      apply Permutation_sym in Hp. eauto using Permutation_in.
    - eapply FOP_perm; eauto. intros x y. cbn. rewrite conflicts_sym. auto.
  Qed.

  (* C01.4: neither acceptance nor any lookup depends on registration order *)
  Theorem order_irrelevant_accept (eps eps' : list decl) :
    Permutation eps eps' ->
    is_ok (build V cmp eps) = is_ok (build V cmp eps').
  Proof.
    intros Hp. pose proof (build_spec V cmp eps) as H1. pose proof (build_spec V cmp eps') as H2.
    destruct (build V cmp eps) as [r|], (build V cmp eps') as [r'|]; cbn [is_ok]; auto; exfalso.
    - apply H2. apply (table_ok_perm eps); tauto.
    - apply H1. apply (table_ok_perm eps'); [apply Permutation_sym; auto|tauto].
  Qed.

  Lemma keys_sorted_ext (l1 l2 : list str) :
    keys_sorted l1 -> keys_sorted l2 -> (forall k, In k l1 <-> In k l2) -> l1 = l2.
  Proof.
    revert l2. induction l1 as [|a l1 IH]; intros [|b l2] S1 S2 Hiff.
    - reflexivity.
    - exfalso. apply (proj2 (Hiff b)). left; reflexivity.
    - exfalso. apply (proj1 (Hiff a)). left; reflexivity.
    - destruct S1 as [F1 S1], S2 as [F2 S2]. rewrite Forall_forall in F1, F2.
      assert (Hab : a = b).
      { destruct (proj1 (Hiff a) (or_introl eq_refl)) as [Hba|Hin]; [auto|].
        destruct (proj2 (Hiff b) (or_introl eq_refl)) as [Hba|Hin']; [auto|].
        pose proof (F2 _ Hin) as L1. pose proof (F1 _ Hin') as L2.
        rewrite (str_ltb_asym _ _ L1) in L2. discriminate. }
      subst b. f_equal. apply IH; auto.
      intros k. split; intros Hk.
      + destruct (proj1 (Hiff k) (or_intror Hk)) as [<-|]; auto.
        specialize (F1 _ Hk). rewrite str_ltb_irrefl in F1. discriminate.
      + destruct (proj2 (Hiff k) (or_intror Hk)) as [<-|]; auto.
        specialize (F2 _ Hk). rewrite str_ltb_irrefl in F2. discriminate.
  Qed.

  Theorem order_irrelevant_lookup (eps eps' : list decl) (r r' : node) m segs v :
    Permutation eps eps' -> build V cmp eps = Ok r -> build V cmp eps' = Ok r' ->
    version_ok eps v ->
    lookup V cmp r m segs v = lookup V cmp r' m segs v.
  Proof.
    intros Hp Hb Hb' Hv.
    pose proof (build_spec V cmp eps) as Hs. rewrite Hb in Hs. destruct Hs as (_ & Hwf & Hr).
    pose proof (build_spec V cmp eps') as Hs'. rewrite Hb' in Hs'. destruct Hs' as (_ & Hwf' & Hr').
    assert (Hv' : version_ok eps' v).
    { destruct Hv as [W Hv]. split.
      - intros d Hd. apply W. apply Permutation_sym in Hp. eauto using Permutation_in.
      - destruct v; auto. intros d Hd. apply Hv. apply Permutation_sym in Hp. eauto using Permutation_in. }
    assert (Hsame : forall d, In d (routes V r) <-> In d (routes V r')).
    { intros d. rewrite Hr, Hr'. split; intros H; [|apply Permutation_sym in Hp]; eauto using Permutation_in. }
    assert (Hts : forall k, tserved V cmp r segs v k <-> tserved V cmp r' segs v k).
    { intros k. unfold tserved. split; intros (t & e & Hin & H); exists t, e; split; auto; apply Hsame; auto. }
    destruct (lookup V cmp r m segs v) as [e vars| |allow|] eqn:Hl.
    - symmetry. apply (dispatch_exact eps' r' m segs v e vars Hb' Hv').
      apply (dispatch_exact eps r m segs v e vars Hb Hv) in Hl.
      destruct Hl as (t & b & Hin & H). exists t, b. split; [eauto using Permutation_in|auto].
    - symmetry. apply (lookup_404_iff V cmp r' m segs v Hwf').
      intros k Hk. apply Hts in Hk. revert k Hk. apply (lookup_404_iff V cmp r m segs v Hwf). exact Hl.
    - destruct (lookup_405 V cmp r m segs v allow Hwf Hl) as (Hne & Hsort & Hiff & Hnot).
      assert (H405 : exists allow', lookup V cmp r' m segs v = E405 allow').
      { apply (lookup_405_iff V cmp r' m segs v Hwf'). split.
        - destruct allow as [|k ks]; [congruence|]. exists k. apply Hts, Hiff. left; reflexivity.
        - intros Hs. apply Hnot, Hiff, Hts. exact Hs. }
      destruct H405 as [allow' Hl']. rewrite Hl'. f_equal.
      destruct (lookup_405 V cmp r' m segs v allow' Hwf' Hl') as (_ & Hsort' & Hiff' & _).
      apply keys_sorted_ext; auto. intros k. rewrite Hiff, Hiff'. apply Hts.
    - exfalso. exact (lookup_no_panic V cmp r m segs v Hwf Hl).
  Qed.

  (* C02: every accepted endpoint is reachable: a request built from its own
     template (literals as they are, any segment for a variable, nothing for
     the wildcard) at any version of its range is dispatched to it *)
  Fixpoint witness_segs (t : list pseg) : list str :=
    match t with
    | [] => []
    | PLit a :: t' => a :: witness_segs t'
    | PVar _ :: t' => [120] :: witness_segs t'
    | PWild _ :: _ => []
    end.

  Lemma witness_matches t : wild_only_last t = true -> exists b, tmatch t (witness_segs t) = Some b.
  Proof.
    induction t as [|p t IH]; cbn [wild_only_last witness_segs tmatch].
    - eauto.
    - destruct p as [a|x|x]; intros Hw.
      + rewrite str_eqb_refl. auto.
      + destruct (IH Hw) as [b ->]. eauto.
      + destruct t; [eauto|discriminate].
  Qed.

  Theorem accepted_reachable (eps : list decl) (r : node) t e v :
    build V cmp eps = Ok r -> version_ok eps v -> In (t, e) eps ->
    vmatches V cmp (e_versions e) v = true ->
    exists vars, lookup V cmp r (e_method e) (witness_segs t) v = Found e vars.
  Proof.
    intros Hb Hv Hin Hm. pose proof (build_spec V cmp eps) as Hs. rewrite Hb in Hs.
    destruct Hs as ([Hwt _] & _ & _). rewrite Forall_forall in Hwt. specialize (Hwt _ Hin).
    cbn [fst] in Hwt. unfold wf_template in Hwt. apply andb_true_iff in Hwt. destruct Hwt as [_ Hw].
    destruct (witness_matches t Hw) as [b Hb'].
    exists (bm_of b). apply (dispatch_exact eps r _ _ v e _ Hb Hv).
    exists t, b. split; [exact Hin|]. split; [|reflexivity].
    unfold serves. cbn [fst snd]. unfold same_method. rewrite str_eqb_refl, Hm. exact Hb'.
  Qed.

  (* C04 at table level *)
  Theorem table_404_iff (eps : list decl) (r : node) m segs v :
    build V cmp eps = Ok r ->
    (lookup V cmp r m segs v = E404 <->
     forall d, In d eps -> tserves V cmp d segs v = false).
  Proof.
    intros Hb. pose proof (build_spec V cmp eps) as Hs. rewrite Hb in Hs. destruct Hs as (_ & Hwf & Hr).
    rewrite (lookup_404_iff V cmp r m segs v Hwf). unfold tserved. split.
    - intros H [t e] Hin. destruct (tserves V cmp (t, e) segs v) eqn:Ht; auto.
      exfalso. apply (H (str_upper (e_method e))). exists t, e. rewrite Hr. auto.
    - intros H k (t & e & Hin & Ht & _). rewrite Hr in Hin. rewrite (H _ Hin) in Ht. discriminate.
  Qed.

  Theorem table_405 (eps : list decl) (r : node) m segs v allow :
    build V cmp eps = Ok r -> lookup V cmp r m segs v = E405 allow ->
    allow <> [] /\ keys_sorted allow /\
    (forall k, In k allow <->
               exists d, In d eps /\ tserves V cmp d segs v = true /\ str_upper (e_method (snd d)) = k) /\
    (forall d, In d eps -> serves V cmp d m segs v = None).
  Proof.
    intros Hb Hl. pose proof (build_spec V cmp eps) as Hs. rewrite Hb in Hs. destruct Hs as (_ & Hwf & Hr).
    destruct (lookup_405 V cmp r m segs v allow Hwf Hl) as (Hne & Hsort & Hiff & Hnot).
    split; [exact Hne|]. split; [exact Hsort|]. split.
    - intros k. rewrite Hiff. unfold tserved. split.
      + intros (t & e & Hin & Ht & Hk). exists (t, e). rewrite <- Hr. auto.
      + intros ([t e] & Hin & Ht & Hk). exists t, e. rewrite Hr. auto.
    - intros [t e] Hin. destruct (serves V cmp (t, e) m segs v) as [b|] eqn:Hsv; auto. exfalso.
      apply Hr in Hin. destruct (lookup_complete V cmp r m segs v t e b Hwf Hin Hsv) as (e' & Hl').
      congruence.
  Qed.
End RO.

Lemma lookup_exhaustive V cmp (r : node V) m segs v :
  wfn V r ->
  (exists e vars, lookup V cmp r m segs v = Found e vars) \/
  lookup V cmp r m segs v = E404 \/
  (exists allow, lookup V cmp r m segs v = E405 allow).
Proof.
  intros Hwf. pose proof (lookup_no_panic V cmp r m segs v Hwf) as Hp.
  destruct (lookup V cmp r m segs v) as [e vars| |allow|]; eauto. congruence.
Qed.

(* ---------------------------------------------------------------------- *)
(* the conflict kinds named by C02, one lemma each                          *)
Section Kinds.
  Variable V : Type.
  Variable cmp : V -> V -> comparison.
  Notation conflicts := (conflicts V cmp).

  Lemma tcompat_prefix pre : forall a b, no_wild pre = true -> tcompat (pre ++ a) (pre ++ b) = tcompat a b.
  Proof.
    induction pre as [|p pre IH]; intros a b Hn; [reflexivity|].
    cbn [no_wild forallb] in Hn. apply andb_true_iff in Hn. destruct Hn as [Hp Hn].
    destruct p as [s|x|x]; [| |discriminate]; cbn [app tcompat]; rewrite str_eqb_refl; cbn [andb]; apply IH; exact Hn.
  Qed.

  Lemma kind_clash_conflicts pre p1 p2 t1 t2 (e e' : endpoint V) :
    no_wild pre = true -> kind_clash p1 p2 = true ->
    conflicts (pre ++ p1 :: t1, e) (pre ++ p2 :: t2, e') = true.
  Proof.
    intros Hn Hk. apply conflicts_incompat. rewrite tcompat_prefix by exact Hn.
    destruct p1, p2; cbn [kind_clash] in Hk; try discriminate; cbn [tcompat]; try reflexivity;
      apply negb_true_iff in Hk; rewrite Hk; reflexivity.
  Qed.

  Lemma end_wild_conflicts pre x t (e e' : endpoint V) :
    no_wild pre = true ->
    conflicts (pre, e) (pre ++ PWild x :: t, e') = true /\
    conflicts (pre ++ PWild x :: t, e) (pre, e') = true.
  Proof.
    intros Hn. split; apply conflicts_incompat.
    - rewrite <- (app_nil_r pre) at 1. rewrite tcompat_prefix by exact Hn. reflexivity.
    - rewrite <- (app_nil_r pre) at 2. rewrite tcompat_prefix by exact Hn. reflexivity.
  Qed.

  Lemma nodup_str_count l x : nodup_str l = true -> (length (filter (str_eqb x) l) <= 1)%nat.
  Proof.
    induction l as [|y l IH]; cbn [nodup_str filter length]; [lia|].
    rewrite andb_true_iff, negb_true_iff. intros [Hy Hnd].
    destruct (str_eqb_spec x y) as [->|Hne]; cbn [length]; [|auto].
    assert (H0 : length (filter (str_eqb y) l) = 0%nat).
    { clear - Hy. induction l as [|z l IH]; [reflexivity|]. cbn [mem_str] in Hy.
      apply orb_false_iff in Hy. destruct Hy as [Hz Hy]. cbn [filter]. rewrite Hz. auto. }
    lia.
  Qed.

  Lemma repeated_var_not_wf t x : (count_var x t >= 2)%nat -> wf_template t = false.
  Proof.
    unfold count_var, wf_template. intros Hc.
    destruct (nodup_str (vars_of t)) eqn:Hnd; [|reflexivity].
    pose proof (nodup_str_count _ x Hnd). lia.
  Qed.

  Lemma after_wild_not_wf pre x p t : wf_template (pre ++ PWild x :: p :: t) = false.
  Proof.
    unfold wf_template. apply andb_false_iff. right.
    induction pre as [|q pre IH]; [reflexivity|].
    destruct q; cbn [app wild_only_last]; auto. destruct pre; reflexivity.
  Qed.
End Kinds.

Section Hist.
  Variable V : Type.
  Variable cmp : V -> V -> comparison.
  Variable bot : V.
  Hypothesis TO : total_order V cmp bot.

  Lemma overlap_conflicts t (e e' : endpoint V) v :
    wf_range V cmp (e_versions e) -> wf_range V cmp (e_versions e') ->
    same_method (e_method e) (e_method e') = true ->
    vmatches V cmp (e_versions e) (Some v) = true ->
    vmatches V cmp (e_versions e') (Some v) = true ->
    conflicts V cmp (t, e) (t, e') = true.
  Proof.
    intros W W' Hm M M'. unfold RouterSpec.conflicts. cbn [fst snd].
    rewrite (proj2 (tpl_eqb_eq t t) eq_refl), Hm.
    rewrite (shared_overlaps V cmp bot TO _ _ v W' W M' M). apply orb_true_r.
  Qed.

  Lemma accepted_unambiguous (eps : list (decl V)) r d1 d2 m segs v b1 b2 :
    build V cmp eps = Ok r -> version_ok V cmp eps v ->
    In d1 eps -> In d2 eps ->
    serves V cmp d1 m segs v = Some b1 -> serves V cmp d2 m segs v = Some b2 -> d1 = d2.
  Proof.
    intros Hb. pose proof (build_spec V cmp eps) as Hs. rewrite Hb in Hs. destruct Hs as (Hok & _).
    apply (dispatch_unique V cmp bot TO eps d1 d2 m segs v b1 b2 Hok).
  Qed.
End Hist.

Lemma history_from V cmp (hist : list (list pseg * endpoint V)) :
  forall st : list (list pseg * endpoint V) * node V,
  build V cmp (fst st) = Ok (snd st) ->
  let st' := fold_left (fun st d => match insert V cmp (snd st) d with
                                    | Ok r' => (fst st ++ [d], r')
                                    | Err _ => st
                                    end) hist st in
  build V cmp (fst st') = Ok (snd st') /\ table_ok V cmp (fst st').
Proof.
  induction hist as [|d hist IH]; intros st Hst; cbn [fold_left]; cbn zeta.
  - split; [exact Hst|]. pose proof (build_spec V cmp (fst st)) as Hs. rewrite Hst in Hs. tauto.
  - apply IH. cbn beta. pose proof (register_spec V cmp (fst st) (snd st) d Hst) as Hr.
    destruct (insert V cmp (snd st) d) as [r'|err]; cbn [fst snd]; [exact (proj2 Hr)|exact Hst].
Qed.

Lemma history_invariant V cmp (hist : list (decl V)) :
  let st := register_history V cmp hist in
  build V cmp (fst st) = Ok (snd st) /\ table_ok V cmp (fst st).
Proof. apply (history_from V cmp hist (@nil (list pseg * endpoint V), @empty_node V)). reflexivity. Qed.
