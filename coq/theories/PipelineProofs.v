(* PipelineProofs.v — the request pipeline end to end: which requests reach
   which handler, and which are answered 400 / 404 / 405 before any handler. *)
From DS Require Import Base Versions VersionsProofs Router RouterSpec RouterProofs Pct Utf8 PathNorm PathNormProofs
     Route RouteProofs Pipeline.

Section PP.
  Variable V : Type.
  Variable cmp : V -> V -> comparison.
  Variable bot : V.
  Hypothesis TO : total_order V cmp bot.
  Variable parse : str -> option V.
  Notation decl := (decl V).
  Notation handle := (handle V cmp parse).
  Notation request_version := (request_version V cmp parse).

  (* the version the policy yields is one the table may be asked at: a server
     that started never routes an unversioned request over a versioned table *)
  Lemma started_version_ok (p : policy V) (eps : list decl) h ov :
    (forall d, In d eps -> wf_range V cmp (e_versions (snd d))) ->
    starts V p eps = true -> request_version p h = Ok ov -> version_ok V cmp eps ov.
  Proof.
    intros Hw Hs Hr. split; [exact Hw|]. destruct p as [|max]; cbn in Hr.
    - injection Hr as <-. intros d Hd. cbn in Hs. unfold has_versioned in Hs.
      apply Bool.negb_true_iff in Hs.
      assert (Hall : forallb (fun d : decl => is_all V (e_versions (snd d))) eps = true).
      { apply forallb_forall. intros x Hx.
        destruct (is_all V (e_versions (snd x))) eqn:E; auto.
        exfalso. assert (existsb (fun d : decl => negb (is_all V (e_versions (snd d)))) eps = true).
        { apply existsb_exists. exists x. rewrite E. auto. }
        congruence. }
      rewrite forallb_forall in Hall. specialize (Hall d Hd).
      destruct (e_versions (snd d)); cbn in Hall; congruence.
    - destruct (extract_version V cmp parse max h); [injection Hr as <-; exact I|discriminate].
  Qed.

  (* 1. the handler of e runs, with path variables vars, exactly when the
     policy yields a version, the raw path normalises, and e is the declaration
     serving the decoded segments under the request's method at that version *)
  Theorem handle_invoke_iff (p : policy V) (eps : list decl) (r : node V) m rawpath h e vars ov :
    build V cmp eps = Ok r ->
    (forall d, In d eps -> wf_range V cmp (e_versions (snd d))) ->
    starts V p eps = true ->
    (handle p r m rawpath h = HInvoke e vars ov <->
     request_version p h = Ok ov /\
     exists t b, In (t, e) eps /\
                 input_segments rawpath = Ok (map pct_decode (raw_segments rawpath)) /\
                 serves V cmp (t, e) m (map pct_decode (raw_segments rawpath)) ov = Some b /\
                 vars = bm_of b).
  Proof.
    intros Hb Hw Hs. unfold Pipeline.handle.
    destruct (request_version p h) as [ov'|c] eqn:Hr.
    - pose proof (started_version_ok p eps h ov' Hw Hs Hr) as Hv.
      pose proof (route_end_to_end V cmp bot TO eps r m rawpath ov' e vars Hb Hv) as He.
      split.
      + intros H. destruct (route V cmp r m rawpath ov') as [|[e' vars'| |allow|]] eqn:Hroute; try discriminate.
        injection H as -> -> ->. split; [reflexivity|]. apply He. reflexivity.
      + intros [[= ->] H]. apply He in H. rewrite H. reflexivity.
    - split; [discriminate|]. intros [H _]. discriminate.
  Qed.

  (* 2. a request the policy refuses is answered 400 whatever its path and
     method and whatever the table holds: nothing is looked up, no handler runs *)
  Theorem handle_bad_version_first (p : policy V) (r : node V) m rawpath h c :
    request_version p h = Err c -> handle p r m rawpath h = HBadVersion.
  Proof. intros H. unfold Pipeline.handle. rewrite H. reflexivity. Qed.

  Theorem handle_bad_version_iff (p : policy V) (r : node V) m rawpath h :
    handle p r m rawpath h = HBadVersion <-> exists c, request_version p h = Err c.
  Proof.
    unfold Pipeline.handle. destruct (request_version p h) as [ov|c].
    - split; [|intros [c Hc]; discriminate].
      destruct (route V cmp r m rawpath ov) as [|[e' vars'| |allow|]]; discriminate.
    - split; [exists c; reflexivity|reflexivity].
  Qed.

  (* with the header policy the refused requests are exactly: header missing,
     not visible ASCII, not a semver, or newer than the server's maximum *)
  Theorem header_policy_refuses_iff max h :
    (exists c, request_version (PHeader max) h = Err c) <->
    match h with
    | HAbsent | HNotAscii => True
    | HStr s => match parse s with None => True | Some v => vle V cmp v max = false end
    end.
  Proof.
    cbn. destruct h as [| |s]; cbn.
    - split; auto. intros _. exists 400. reflexivity.
    - split; auto. intros _. exists 400. reflexivity.
    - destruct (parse s) as [v|].
      + destruct (vle V cmp v max); split.
        * intros [c Hc]. discriminate.
        * discriminate.
        * reflexivity.
        * intros _. exists 400. reflexivity.
      + split; auto. intros _. exists 400. reflexivity.
  Qed.

  (* an unversioned server never looks at the header *)
  Theorem handle_unversioned_ignores_header (r : node V) m rawpath h h' :
    handle PUnversioned r m rawpath h = handle PUnversioned r m rawpath h'.
  Proof. reflexivity. Qed.

  (* 3. an endpoint that runs under the header policy runs at a version inside
     its own range and not above the server's maximum *)
  Theorem handle_invoke_version (max : V) (eps : list decl) (r : node V) m rawpath h e vars ov :
    build V cmp eps = Ok r ->
    (forall d, In d eps -> wf_range V cmp (e_versions (snd d))) ->
    handle (PHeader max) r m rawpath h = HInvoke e vars ov ->
    exists v, ov = Some v /\ vmatches V cmp (e_versions e) (Some v) = true /\ vle V cmp v max = true /\
              exists s, h = HStr s /\ parse s = Some v.
  Proof.
    intros Hb Hw H.
    apply (handle_invoke_iff (PHeader max) eps r m rawpath h e vars ov Hb Hw eq_refl) in H.
    destruct H as (Hr & t & b & Hin & _ & Hs & _). cbn in Hr.
    destruct h as [| |s]; cbn in Hr; try discriminate.
    destruct (parse s) as [v|] eqn:Hp; [|discriminate].
    destruct (vle V cmp v max) eqn:Hle; [|discriminate]. injection Hr as <-.
    exists v. split; [reflexivity|]. split; [|split; [exact Hle|exists s; auto]].
    unfold serves in Hs. cbn [fst snd] in Hs.
    destruct (same_method m (e_method e)); [|discriminate].
    destruct (vmatches V cmp (e_versions e) (Some v)); [reflexivity|discriminate].
  Qed.

  (* 4. 404 and 405 through the whole pipeline *)
  Theorem handle_404_iff (p : policy V) (eps : list decl) (r : node V) m rawpath h :
    build V cmp eps = Ok r ->
    (handle p r m rawpath h = HNotFound <->
     exists ov segs, request_version p h = Ok ov /\ input_segments rawpath = Ok segs /\
                     forall d, In d eps -> tserves V cmp d segs ov = false).
  Proof.
    intros Hb. unfold Pipeline.handle, route.
    destruct (request_version p h) as [ov|c]; [|split; [discriminate|intros (? & ? & ? & _); discriminate]].
    destruct (input_segments rawpath) as [segs|err]; [|split; [discriminate|intros (? & ? & _ & ? & _); discriminate]].
    pose proof (table_404_iff V cmp eps r m segs ov Hb) as H4. split.
    - intros H. exists ov, segs. split; [reflexivity|split; [reflexivity|]]. apply H4.
      destruct (lookup V cmp r m segs ov); try discriminate. reflexivity.
    - intros (ov' & segs' & [= <-] & [= <-] & H). apply H4 in H. rewrite H. reflexivity.
  Qed.

  Theorem handle_405 (p : policy V) (eps : list decl) (r : node V) m rawpath h allow :
    build V cmp eps = Ok r -> handle p r m rawpath h = HNotAllowed allow ->
    exists ov segs, request_version p h = Ok ov /\ input_segments rawpath = Ok segs /\
      allow <> [] /\ keys_sorted allow /\
      (forall k, In k allow <->
                 exists d, In d eps /\ tserves V cmp d segs ov = true /\ str_upper (e_method (snd d)) = k) /\
      (forall d, In d eps -> serves V cmp d m segs ov = None).
  Proof.
    intros Hb. unfold Pipeline.handle, route.
    destruct (request_version p h) as [ov|c]; [|discriminate].
    destruct (input_segments rawpath) as [segs|err]; [|discriminate].
    destruct (lookup V cmp r m segs ov) as [e vars| |allow'|] eqn:Hl; try discriminate.
    intros [= <-]. exists ov, segs. split; [reflexivity|split; [reflexivity|]].
    exact (table_405 V cmp eps r m segs ov allow' Hb Hl).
  Qed.

  (* 5. the pipeline never reaches the router's assertions on an accepted table *)
  Theorem handle_no_panic (p : policy V) (eps : list decl) (r : node V) m rawpath h :
    build V cmp eps = Ok r -> handle p r m rawpath h <> HPanic.
  Proof.
    intros Hb. pose proof (build_spec V cmp eps) as Hs. rewrite Hb in Hs. destruct Hs as (_ & Hwf & _).
    unfold Pipeline.handle, route.
    destruct (request_version p h) as [ov|c]; [|discriminate].
    destruct (input_segments rawpath) as [segs|err]; [|discriminate].
    pose proof (lookup_no_panic V cmp r m segs ov Hwf) as Hn.
    destruct (lookup V cmp r m segs ov); try discriminate. congruence.
  Qed.

  (* 6. a path that does not normalise reaches no handler, under any policy *)
  Theorem handle_bad_path (p : policy V) (r : node V) m rawpath h e vars ov :
    (exists s, In s (raw_segments rawpath) /\
               (pct_decode s = DOT \/ pct_decode s = DOTDOT \/ utf8_valid (pct_decode s) = false)) ->
    handle p r m rawpath h <> HInvoke e vars ov.
  Proof.
    intros Hbad. unfold Pipeline.handle.
    destruct (request_version p h) as [ov'|c]; [|discriminate].
    pose proof (route_bad_path V cmp r m rawpath ov' e vars Hbad) as Hn.
    destruct (route V cmp r m rawpath ov') as [|[e' vars'| |allow|]]; try discriminate.
    intros [= -> -> ->]. apply Hn. reflexivity.
  Qed.

  (* 7. raw paths that differ only by repeated or trailing slashes are handled identically *)
  Theorem handle_slashes_irrelevant (p : policy V) (r : node V) m p1 p2 h :
    slash_equiv p1 p2 -> handle p r m p1 h = handle p r m p2 h.
  Proof.
    intros H. unfold Pipeline.handle, route. rewrite (slashes_irrelevant p1 p2 H). reflexivity.
  Qed.
End PP.
