(* PathNorm.v — model of [input_path_to_segments] (router.rs): the request
   path is split on '/', empty segments dropped, each segment percent-decoded
   exactly once, then refused if it is "." or ".." or not valid UTF-8.
   Model only; proofs in PathNormProofs.v. *)
From DS Require Import Base Pct Utf8 Router.

(* [path.split('/').filter(|s| !s.is_empty())] *)
Definition raw_segments (p : str) : list str :=
  filter (fun s => negb (is_nil s)) (split_on 47 p).

Definition DOT : str := [46].
Definition DOTDOT : str := [46; 46].
Definition is_dot_segment (s : str) : bool := str_eqb s DOT || str_eqb s DOTDOT.

Inductive seg_err := SE_dot | SE_utf8.

Definition decode_segment (raw : str) : res seg_err str :=
  let d := pct_decode raw in
  if negb (utf8_valid d) then Err SE_utf8
  else if is_dot_segment d then Err SE_dot
  else Ok d.

Definition input_segments (p : str) : res seg_err (list str) :=
  map_res decode_segment (raw_segments p).
