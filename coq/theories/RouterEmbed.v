(* RouterEmbed.v — the router sees versions only through comparisons: what a
   table accepts and what a request is answered are invariant under any order
   embedding of the version type.  Stated on the declarative side
   (RouterSpec.v) and carried to the trie by the refinement theorems
   (RouterProofs.v): registration of the mapped table succeeds iff
   registration of the table does, and every lookup finds the corresponding
   endpoint.  This is the model-side justification for carrying chain indices
   instead of semver values in the correspondence (C01 C02 C04 C06) and for
   the embedding used by the pipeline judge. *)
From DS Require Import Base Versions VersionsProofs VersionsEmbed Router RouterSpec RouterProofs.

Section REmbed.
  Variable V W : Type.
  Variable cmpV : V -> V -> comparison.
  Variable cmpW : W -> W -> comparison.
  Variable botV : V.
  Variable botW : W.
  Hypothesis TOV : total_order V cmpV botV.
  Hypothesis TOW : total_order W cmpW botW.
  Variable f : V -> W.
  Hypothesis f_embeds : forall a b, cmpW (f a) (f b) = cmpV a b.

  Definition map_ep (e : endpoint V) : endpoint W :=
    mkEp (e_id e) (e_method e) (map_range f (e_versions e)) (e_ctype e) (e_maxbytes e) (e_visible e).
  Definition map_decl (d : decl V) : decl W := (fst d, map_ep (snd d)).

  Lemma serves_embed d m segs ov :
    serves W cmpW (map_decl d) m segs (option_map f ov) = serves V cmpV d m segs ov.
  Proof.
    unfold serves, map_decl, map_ep. cbn [fst snd e_method e_versions].
    rewrite (vmatches_embed V W cmpV cmpW f f_embeds). reflexivity.
  Qed.

  Lemma tserves_embed d segs ov :
    tserves W cmpW (map_decl d) segs (option_map f ov) = tserves V cmpV d segs ov.
  Proof.
    unfold tserves, map_decl, map_ep. cbn [fst snd e_versions].
    rewrite (vmatches_embed V W cmpV cmpW f f_embeds). reflexivity.
  Qed.

  Lemma conflicts_embed d d' :
    conflicts W cmpW (map_decl d) (map_decl d') = conflicts V cmpV d d'.
  Proof.
    unfold conflicts, map_decl, map_ep. cbn [fst snd e_method e_versions].
    rewrite (overlaps_embed V W cmpV cmpW f f_embeds). reflexivity.
  Qed.

  Lemma acceptable_embed eps d :
    acceptable W cmpW (map map_decl eps) (map_decl d) = acceptable V cmpV eps d.
  Proof.
    unfold acceptable. cbn [map_decl fst]. f_equal.
    induction eps as [|d' eps IH]; cbn [map forallb]; [reflexivity|].
    rewrite conflicts_embed, IH. reflexivity.
  Qed.

  (* registration: the mapped table is accepted exactly when the table is *)
  Theorem table_ok_embed eps : table_ok W cmpW (map map_decl eps) <-> table_ok V cmpV eps.
  Proof.
    unfold table_ok. split; intros [H1 H2]; split.
    - rewrite Forall_forall in *. intros d Hd. apply (H1 (map_decl d)). apply in_map. exact Hd.
    - clear H1. induction eps as [|d eps IH]; [constructor|].
      cbn [map] in H2. inversion H2 as [|? ? Hf Hr]; subst. constructor.
      + rewrite Forall_forall in *. intros d' Hd'. rewrite <- conflicts_embed. apply Hf. apply in_map. exact Hd'.
      + apply IH. exact Hr.
    - rewrite Forall_forall in *. intros d' Hd'. apply in_map_iff in Hd'. destruct Hd' as (d & <- & Hd). apply H1. exact Hd.
    - clear H1. induction H2 as [|d eps Hf Hr IH]; cbn [map]; constructor.
      + rewrite Forall_forall in *. intros d' Hd'. apply in_map_iff in Hd'. destruct Hd' as (x & <- & Hx).
        rewrite conflicts_embed. apply Hf. exact Hx.
      + exact IH.
  Qed.

  Theorem build_embed_accepts eps :
    (exists r, build V cmpV eps = Ok r) <-> (exists r', build W cmpW (map map_decl eps) = Ok r').
  Proof.
    pose proof (build_spec V cmpV eps) as HV. pose proof (build_spec W cmpW (map map_decl eps)) as HW.
    split; intros [r Hr].
    - rewrite Hr in HV. destruct HV as (Hok & _).
      destruct (build W cmpW (map map_decl eps)) as [r'|e]; [exists r'; reflexivity|].
      exfalso. apply HW. apply table_ok_embed. exact Hok.
    - rewrite Hr in HW. destruct HW as (Hok & _).
      destruct (build V cmpV eps) as [r'|e]; [exists r'; reflexivity|].
      exfalso. apply HV. apply table_ok_embed. exact Hok.
  Qed.

  Lemma version_ok_embed eps ov : version_ok V cmpV eps ov -> version_ok W cmpW (map map_decl eps) (option_map f ov).
  Proof.
    intros [Hw Hn]. split.
    - intros d' Hd'. apply in_map_iff in Hd'. destruct Hd' as (d & <- & Hd). specialize (Hw d Hd).
      unfold map_decl, map_ep. cbn [snd e_versions]. unfold wf_range in *.
      destruct (e_versions (snd d)); cbn [map_range]; auto.
      unfold le in *. rewrite f_embeds. exact Hw.
    - destruct ov; cbn [option_map]; [exact I|].
      intros d' Hd'. apply in_map_iff in Hd'. destruct Hd' as (d & <- & Hd). specialize (Hn d Hd).
      unfold map_decl, map_ep. cbn [snd e_versions]. rewrite Hn. reflexivity.
  Qed.

  (* dispatch: the mapped trie finds the mapped endpoint, with the same bindings *)
  Theorem lookup_embed_found eps r r' m segs ov e vars :
    build V cmpV eps = Ok r -> build W cmpW (map map_decl eps) = Ok r' -> version_ok V cmpV eps ov ->
    lookup V cmpV r m segs ov = Found e vars ->
    lookup W cmpW r' m segs (option_map f ov) = Found (map_ep e) vars.
  Proof.
    intros Hb Hb' Hv Hl.
    apply (dispatch_exact V cmpV botV TOV eps r m segs ov e vars Hb Hv) in Hl.
    destruct Hl as (t & b & Hin & Hs & Hvars).
    apply (dispatch_exact W cmpW botW TOW (map map_decl eps) r' m segs (option_map f ov) (map_ep e) vars Hb'
             (version_ok_embed eps ov Hv)).
    exists t, b. split; [|split; [|exact Hvars]].
    - change (t, map_ep e) with (map_decl (t, e)). apply in_map. exact Hin.
    - change (t, map_ep e) with (map_decl (t, e)). rewrite serves_embed. exact Hs.
  Qed.

  Theorem lookup_embed_404 eps r r' m segs ov :
    build V cmpV eps = Ok r -> build W cmpW (map map_decl eps) = Ok r' ->
    (lookup V cmpV r m segs ov = E404 <-> lookup W cmpW r' m segs (option_map f ov) = E404).
  Proof.
    intros Hb Hb'. rewrite (table_404_iff V cmpV eps r m segs ov Hb).
    rewrite (table_404_iff W cmpW (map map_decl eps) r' m segs (option_map f ov) Hb'). split; intros H.
    - intros d' Hd'. apply in_map_iff in Hd'. destruct Hd' as (d & <- & Hd). rewrite tserves_embed. apply H. exact Hd.
    - intros d Hd. rewrite <- tserves_embed. apply H. apply in_map. exact Hd.
  Qed.
End REmbed.
