(* RouterEmbed.v — the router sees versions only through comparisons with the
   bounds of the registered ranges: what a table accepts and what a request is
   answered are invariant under any map of the version type that preserves the
   comparisons in which at least one side is a "known" version (P), provided
   every range bound is known — an order embedding relative to P
   (VersionsEmbed.v).  Stated on the declarative side (RouterSpec.v) and
   carried to the trie by the refinement theorems (RouterProofs.v):
   registration of the mapped table succeeds iff registration of the table
   does, and every lookup has the corresponding outcome.  This is the
   model-side justification for carrying chain indices instead of semver
   values in the correspondence (C01 C02 C04 C06) and, with RankEmbed.v, for
   the ranking used by the pipeline judge. *)
From DS Require Import Base Versions VersionsProofs VersionsEmbed Router RouterSpec RouterProofs.

Section REmbed.
  Variable V W : Type.
  Variable cmpV : V -> V -> comparison.
  Variable cmpW : W -> W -> comparison.
  Variable botV : V.
  Variable botW : W.
  Hypothesis TOV : total_order V cmpV botV.
  Hypothesis TOW : total_order W cmpW botW.
  Variable f : V -> W.
  Variable P : V -> Prop.
  Hypothesis f_embeds : forall a b, P a \/ P b -> cmpW (f a) (f b) = cmpV a b.

  Definition map_ep (e : endpoint V) : endpoint W :=
    mkEp (e_id e) (e_method e) (map_range f (e_versions e)) (e_ctype e) (e_maxbytes e) (e_visible e).
  Definition map_decl (d : decl V) : decl W := (fst d, map_ep (snd d)).
  Definition known (eps : list (decl V)) : Prop := forall d, In d eps -> bounds V P (e_versions (snd d)).
  Definition map_outcome (o : outcome V) : outcome W :=
    match o with
    | Found e vars => Found (map_ep e) vars
    | E404 => E404
    | E405 a => E405 a
    | EPanic => EPanic
    end.

  Lemma serves_embed d m segs ov : bounds V P (e_versions (snd d)) ->
    serves W cmpW (map_decl d) m segs (option_map f ov) = serves V cmpV d m segs ov.
  Proof.
    intros Hb. unfold serves, map_decl, map_ep. cbn [fst snd e_method e_versions].
    rewrite (vmatches_embed V W cmpV cmpW f P f_embeds _ _ Hb). reflexivity.
  Qed.

  Lemma tserves_embed d segs ov : bounds V P (e_versions (snd d)) ->
    tserves W cmpW (map_decl d) segs (option_map f ov) = tserves V cmpV d segs ov.
  Proof.
    intros Hb. unfold tserves, map_decl, map_ep. cbn [fst snd e_versions].
    rewrite (vmatches_embed V W cmpV cmpW f P f_embeds _ _ Hb). reflexivity.
  Qed.

  Lemma conflicts_embed d d' : bounds V P (e_versions (snd d)) -> bounds V P (e_versions (snd d')) ->
    conflicts W cmpW (map_decl d) (map_decl d') = conflicts V cmpV d d'.
  Proof.
    intros Hb Hb'. unfold conflicts, map_decl, map_ep. cbn [fst snd e_method e_versions].
    rewrite (overlaps_embed V W cmpV cmpW f P f_embeds _ _ Hb' Hb). reflexivity.
  Qed.

  Lemma acceptable_embed eps d : known eps -> bounds V P (e_versions (snd d)) ->
    acceptable W cmpW (map map_decl eps) (map_decl d) = acceptable V cmpV eps d.
  Proof.
    intros Hk Hb. unfold acceptable. cbn [map_decl fst]. f_equal.
    induction eps as [|d' eps IH]; cbn [map forallb]; [reflexivity|].
    rewrite conflicts_embed; [|exact Hb|apply Hk; left; reflexivity].
    rewrite IH; [reflexivity|]. intros x Hx. apply Hk. right. exact Hx.
  Qed.

  (* registration: the mapped table is accepted exactly when the table is *)
  Theorem table_ok_embed eps : known eps -> (table_ok W cmpW (map map_decl eps) <-> table_ok V cmpV eps).
  Proof.
    intros Hk. unfold table_ok. split; intros [H1 H2]; split.
    - rewrite Forall_forall in *. intros d Hd. apply (H1 (map_decl d)). apply in_map. exact Hd.
    - clear H1. induction eps as [|d eps IH]; [constructor|].
      cbn [map] in H2. inversion H2 as [|? ? Hf Hr]; subst. constructor.
      + rewrite Forall_forall in *. intros d' Hd'.
        rewrite <- conflicts_embed; [|apply Hk; right; exact Hd'|apply Hk; left; reflexivity].
        apply Hf. apply in_map. exact Hd'.
      + apply IH; [|exact Hr]. intros x Hx. apply Hk. right. exact Hx.
    - rewrite Forall_forall in *. intros d' Hd'. apply in_map_iff in Hd'. destruct Hd' as (d & <- & Hd). apply H1. exact Hd.
    - clear H1. induction H2 as [|d eps Hf Hr IH]; cbn [map]; constructor.
      + rewrite Forall_forall in *. intros d' Hd'. apply in_map_iff in Hd'. destruct Hd' as (x & <- & Hx).
        rewrite conflicts_embed; [|apply Hk; right; exact Hx|apply Hk; left; reflexivity]. apply Hf. exact Hx.
      + apply IH. intros x Hx. apply Hk. right. exact Hx.
  Qed.

  Theorem build_embed_accepts eps : known eps ->
    ((exists r, build V cmpV eps = Ok r) <-> (exists r', build W cmpW (map map_decl eps) = Ok r')).
  Proof.
    intros Hk.
    pose proof (build_spec V cmpV eps) as HV. pose proof (build_spec W cmpW (map map_decl eps)) as HW.
    split; intros [r Hr].
    - rewrite Hr in HV. destruct HV as (Hok & _).
      destruct (build W cmpW (map map_decl eps)) as [r'|e]; [exists r'; reflexivity|].
      exfalso. apply HW. apply table_ok_embed; assumption.
    - rewrite Hr in HW. destruct HW as (Hok & _).
      destruct (build V cmpV eps) as [r'|e]; [exists r'; reflexivity|].
      exfalso. apply HV. apply table_ok_embed; assumption.
  Qed.

  Lemma version_ok_embed eps ov : known eps ->
    version_ok V cmpV eps ov -> version_ok W cmpW (map map_decl eps) (option_map f ov).
  Proof.
    intros Hk [Hw Hn]. split.
    - intros d' Hd'. apply in_map_iff in Hd'. destruct Hd' as (d & <- & Hd). specialize (Hw d Hd).
      specialize (Hk d Hd). unfold map_decl, map_ep. cbn [snd e_versions]. unfold wf_range in *.
      destruct (e_versions (snd d)); cbn [map_range bounds] in *; auto.
      unfold le in *. rewrite f_embeds; [exact Hw|tauto].
    - destruct ov; cbn [option_map]; [exact I|].
      intros d' Hd'. apply in_map_iff in Hd'. destruct Hd' as (d & <- & Hd). specialize (Hn d Hd).
      unfold map_decl, map_ep. cbn [snd e_versions]. rewrite Hn. reflexivity.
  Qed.

  Section Lookup.
    Variable eps : list (decl V).
    Variable r : node V.
    Variable r' : node W.
    Hypothesis Hk : known eps.
    Hypothesis Hb : build V cmpV eps = Ok r.
    Hypothesis Hb' : build W cmpW (map map_decl eps) = Ok r'.

    Lemma found_embed m segs ov e vars : version_ok V cmpV eps ov ->
      lookup V cmpV r m segs ov = Found e vars ->
      lookup W cmpW r' m segs (option_map f ov) = Found (map_ep e) vars.
    Proof.
      intros Hv Hl.
      apply (dispatch_exact V cmpV botV TOV eps r m segs ov e vars Hb Hv) in Hl.
      destruct Hl as (t & b & Hin & Hs & Hvars).
      apply (dispatch_exact W cmpW botW TOW (map map_decl eps) r' m segs (option_map f ov) (map_ep e) vars Hb'
               (version_ok_embed eps ov Hk Hv)).
      exists t, b. split; [|split; [|exact Hvars]].
      - change (t, map_ep e) with (map_decl (t, e)). apply in_map. exact Hin.
      - change (t, map_ep e) with (map_decl (t, e)). rewrite serves_embed; [exact Hs|apply (Hk _ Hin)].
    Qed.

    Lemma found_reflect m segs ov e' vars : version_ok V cmpV eps ov ->
      lookup W cmpW r' m segs (option_map f ov) = Found e' vars ->
      exists e, e' = map_ep e /\ lookup V cmpV r m segs ov = Found e vars.
    Proof.
      intros Hv Hl.
      apply (dispatch_exact W cmpW botW TOW (map map_decl eps) r' m segs (option_map f ov) e' vars Hb'
               (version_ok_embed eps ov Hk Hv)) in Hl.
      destruct Hl as (t & b & Hin & Hs & Hvars).
      apply in_map_iff in Hin. destruct Hin as ([t0 e] & Heq & Hin). injection Heq as -> <-.
      exists e. split; [reflexivity|].
      apply (dispatch_exact V cmpV botV TOV eps r m segs ov e vars Hb Hv).
      exists t, b. split; [exact Hin|split; [|exact Hvars]].
      change (t, map_ep e) with (map_decl (t, e)) in Hs. rewrite serves_embed in Hs; [exact Hs|apply (Hk _ Hin)].
    Qed.

    Lemma e404_embed m segs ov :
      lookup V cmpV r m segs ov = E404 <-> lookup W cmpW r' m segs (option_map f ov) = E404.
    Proof.
      rewrite (table_404_iff V cmpV eps r m segs ov Hb).
      rewrite (table_404_iff W cmpW (map map_decl eps) r' m segs (option_map f ov) Hb'). split; intros H.
      - intros d' Hd'. apply in_map_iff in Hd'. destruct Hd' as (d & <- & Hd).
        rewrite tserves_embed; [apply H; exact Hd|apply (Hk _ Hd)].
      - intros d Hd. rewrite <- tserves_embed; [|apply (Hk _ Hd)]. apply H. apply in_map. exact Hd.
    Qed.

    (* every lookup has the corresponding outcome: the same endpoint with the
       same bindings, the same 404, the same 405 with the same Allow list *)
    Theorem lookup_embed m segs ov : version_ok V cmpV eps ov ->
      lookup W cmpW r' m segs (option_map f ov) = map_outcome (lookup V cmpV r m segs ov).
    Proof.
      intros Hv.
      pose proof (build_spec V cmpV eps) as HsV. rewrite Hb in HsV. destruct HsV as (_ & HwfV & _).
      pose proof (build_spec W cmpW (map map_decl eps)) as HsW. rewrite Hb' in HsW. destruct HsW as (_ & HwfW & _).
      destruct (lookup V cmpV r m segs ov) as [e vars| |allow|] eqn:HV; cbn [map_outcome].
      - apply found_embed; assumption.
      - apply e404_embed. exact HV.
      - destruct (lookup_exhaustive W cmpW r' m segs (option_map f ov) HwfW) as [(e' & vars' & HW)|[HW|(allow' & HW)]].
        + destruct (found_reflect m segs ov e' vars' Hv HW) as (e & _ & HV'). congruence.
        + apply e404_embed in HW. congruence.
        + rewrite HW. f_equal.
          destruct (table_405 V cmpV eps r m segs ov allow Hb HV) as (_ & HsA & HiA & _).
          destruct (table_405 W cmpW (map map_decl eps) r' m segs (option_map f ov) allow' Hb' HW) as (_ & HsA' & HiA' & _).
          apply keys_sorted_ext; [exact HsA'|exact HsA|].
          intros k. rewrite HiA, HiA'. split.
          * intros (d' & Hd' & Ht & Hm). apply in_map_iff in Hd'. destruct Hd' as (d & <- & Hd).
            exists d. split; [exact Hd|]. rewrite tserves_embed in Ht; [|apply (Hk _ Hd)]. split; [exact Ht|exact Hm].
          * intros (d & Hd & Ht & Hm). exists (map_decl d). split; [apply in_map; exact Hd|].
            rewrite tserves_embed; [|apply (Hk _ Hd)]. split; [exact Ht|exact Hm].
      - exfalso. exact (lookup_no_panic V cmpV r m segs ov HwfV HV).
    Qed.
  End Lookup.
End REmbed.
