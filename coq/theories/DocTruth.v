(* DocTruth.v — what the OpenAPI document says about responses, error bodies
   and request bodies, beside what the server does (C07).

   Documented side, transcribed from
     handler.rs   HttpResponseContent::content_metadata (3 impls),
                  HttpCodedResponse: STATUS_CODE / DESCRIPTION of the eight
                  response types, response_metadata (1050-1057),
                  HttpResponseHeaders::response_metadata,
                  HttpError::content_metadata (1008-1014)
     error.rs     HttpErrorResponseBody's hand-written JsonSchema (134-184)
     extractor/body.rs  TypedBody::metadata, untyped_metadata,
                  MultipartBody::metadata
     api_description.rs gen_openapi: responses (status key, description,
                  content) and requestBody (content type, required: true)
   Runtime side: Response.v (C12), Errors.v (C13), Extract.v (C09/C10).
   No proofs in this file (DocTruthProofs.v). *)
From Coq Require Import String.
From DS Require Import Base Json Schema J2Oas Response Errors.
From DS Require Extract.
Open Scope N_scope.

(* ------------------------------------------------------------ responses *)

(* the body type of a coded response: T: JsonSchema + Serialize, FreeformBody, Empty *)
Inductive bkind := BkJson | BkFreeform | BkEmpty.

(* the response types *)
Inductive ckind :=
| CkOk | CkCreated | CkAccepted | CkDeleted | CkUpdatedNoContent
| CkFound | CkSeeOther | CkTemporaryRedirect.

(* HttpResponseContent::content_metadata: Some(Gen) for a serialisable type,
   None for FreeformBody, Some(Static { Schema::Bool(false) }) for Empty *)
Inductive content_meta := CmGen | CmNone | CmFalse.
Definition content_metadata (b : bkind) : content_meta :=
  match b with BkJson => CmGen | BkFreeform => CmNone | BkEmpty => CmFalse end.

(* const STATUS_CODE / const DESCRIPTION *)
Definition doc_status_code (c : ckind) : N :=
  match c with
  | CkOk => 200 | CkCreated => 201 | CkAccepted => 202
  | CkDeleted => 204 | CkUpdatedNoContent => 204
  | CkFound => 302 | CkSeeOther => 303 | CkTemporaryRedirect => 307
  end.
Definition doc_description (c : ckind) : str :=
  match c with
  | CkOk => bytes_of "successful operation"
  | CkCreated => bytes_of "successful creation"
  | CkAccepted => bytes_of "successfully enqueued operation"
  | CkDeleted => bytes_of "successful deletion"
  | CkUpdatedNoContent => bytes_of "resource updated"
  | CkFound => bytes_of "redirect (found)"
  | CkSeeOther => bytes_of "redirect (see other)"
  | CkTemporaryRedirect => bytes_of "redirect (temporary redirect)"
  end.

(* type Body of each response type; the first three are generic *)
Definition body_kind_ok (c : ckind) (b : bkind) : bool :=
  match c, b with
  | (CkOk | CkCreated | CkAccepted), (BkJson | BkFreeform) => true
  | (CkDeleted | CkUpdatedNoContent | CkFound | CkSeeOther | CkTemporaryRedirect), BkEmpty => true
  | _, _ => false
  end.

(* what gen_openapi writes under responses.<code> *)
Inductive doc_content :=
| DcNone                  (* content: {} *)
| DcJson                  (* "application/json": { schema: <the type's> } *)
| DcAny.                  (* "*/*": { schema: {} } *)

Record resp_doc := mkRespDoc {
  rd_code : N;                 (* operation.responses.responses key *)
  rd_description : str;
  rd_content : doc_content
}.

(* response_metadata: { schema: content_metadata(), success: Some(STATUS_CODE),
   description: Some(DESCRIPTION) };  gen_openapi: with a schema, content is
   application/json unless is_empty(schema) and the description is the
   type's; without one ("hand-rolled"), content is */* and the description is
   "" (the type's DESCRIPTION is not used on that branch) *)
Definition doc_response (c : ckind) (b : bkind) : resp_doc :=
  match content_metadata b with
  | CmGen => mkRespDoc (doc_status_code c) (doc_description c) DcJson
  | CmFalse => mkRespDoc (doc_status_code c) (doc_description c) DcNone
  | CmNone => mkRespDoc (doc_status_code c) [] DcAny
  end.

(* the kinds of a runtime response value (Response.coded) *)
Definition ckind_of {V} (c : coded V) : ckind :=
  match c with
  | ROk _ => CkOk | RCreated _ => CkCreated | RAccepted _ => CkAccepted
  | RDeleted => CkDeleted | RUpdatedNoContent => CkUpdatedNoContent
  | RFoundStatus => CkFound | RSeeOtherStatus => CkSeeOther
  | RTemporaryRedirectStatus => CkTemporaryRedirect
  end.
Definition bkind_of_payload {V} (p : payload V) : bkind :=
  match p with PJson _ => BkJson | PFreeform _ => BkFreeform end.
Definition bkind_of {V} (c : coded V) : bkind :=
  match c with
  | ROk p | RCreated p | RAccepted p => bkind_of_payload p
  | _ => BkEmpty
  end.

(* does a runtime response fit a documented content entry: the Content-Type
   header it carries (the last value, what a client reads) and its body *)
Definition STAR_STAR : str := bytes_of "*/*".

Definition content_fits (d : doc_content) (r : response) : bool :=
  match d with
  | DcNone =>
      (* nothing documented: no body, no content type *)
      match r_body r with BEmpty => true | _ => false end
      && negb (hm_has (r_headers r) H_CONTENT_TYPE)
  | DcJson =>
      match hm_get (r_headers r) H_CONTENT_TYPE, r_body r with
      | Some [ct], BBytes _ => str_eqb ct CT_JSON
      | _, _ => false
      end
  | DcAny =>
      (* any media type; one is present *)
      match hm_get (r_headers r) H_CONTENT_TYPE, r_body r with
      | Some [_], BBytes _ => true
      | _, _ => false
      end
  end.

(* HttpResponseHeaders<T, H>::response_metadata: T's metadata plus one header
   per member of H's schema (schema2struct of H; names in key order) *)
Definition doc_headers (declared : list (str * Response.fval)) : list str :=
  map fst declared.

(* ------------------------------------------------------------ Option<T> at a site *)

(* What gen_openapi converts at a response (or request body) site is
   [schema(&mut generator)] = [generator.subschema_for::<Body>()].  For
   [Body = Option<T>] with a referenceable [T] schemars (json_schema/impls/
   core.rs, [option_nullable = true]) returns T's reference with the extension
   beside it, { "$ref": r, "nullable": true }: the RemoveRefSiblings visitor of
   the openapi3 settings runs only in [root_schema_for] /
   [into_root_schema_for] (on roots and on definitions), never on the value
   [subschema_for] returns.  j2oas_schema_object (since fix 16fe29f) wraps such
   a reference: { allOf: [{$ref: r}], nullable: true }. *)
Definition option_ref_schema (r : str) : schema :=
  SObj (mkSObj None None None None None None None None None None (Some r)
               [(s_nullable, JBool true)]).

(* ------------------------------------------------------------ error body *)

Definition S_REQUEST_ID : str := bytes_of "request_id".
Definition S_ERROR_CODE : str := bytes_of "error_code".
Definition S_MESSAGE : str := bytes_of "message".
Definition S_ERROR : str := bytes_of "Error".
Definition S_ERROR_DESCRIPTION : str := bytes_of "Error information from a response.".

(* String::json_schema *)
Definition string_schema : schema :=
  SObj (mkSObj None (Some (Single TString)) None None None None None None None None None []).

(* impl JsonSchema for HttpErrorResponseBody (error.rs): properties and
   required are BTreeMap / BTreeSet: in key order *)
Definition error_schema : schema :=
  SObj (mkSObj (Some (mkMeta None None (Some S_ERROR_DESCRIPTION) None false false false []))
               (Some (Single TObject)) None None None None None None None
               (Some (mkObjVal None None [S_MESSAGE; S_REQUEST_ID]
                               [(S_ERROR_CODE, string_schema); (S_MESSAGE, string_schema);
                                (S_REQUEST_ID, string_schema)]
                               [] None None))
               None []).

(* gen_openapi: j2oas_schema(Some(&name()), &schema(&mut generator)); the type
   is referenceable, so the response's schema is a $ref and this is what
   stands under components.schemas.Error *)
Definition error_oschema : jres oschema := j2oas None error_schema.

(* serde_json of HttpErrorResponseBody { request_id, error_code
   (skip_serializing_if = "Option::is_none"), message } *)
Definition err_body_json (request_id : str) (error_code : option str) (message : str) : json :=
  JObj ((S_REQUEST_ID, JStr request_id)
        :: (match error_code with Some c => [(S_ERROR_CODE, JStr c)] | None => [] end)
        ++ [(S_MESSAGE, JStr message)]).

Definition body_json (b : body) : option json :=
  match b with
  | BErrJson id code msg => Some (err_body_json id code msg)
  | _ => None
  end.

(* what the document says about errors of an endpoint whose error type is
   HttpError: 4XX and 5XX -> #/components/responses/Error *)
Definition error_documented (status : N) : bool := (400 <=? status) && (status <? 600).

(* ------------------------------------------------------------ request bodies *)

Inductive body_extractor :=
| BxTyped (declared : Extract.ctype)   (* TypedBody<T>, endpoint content_type *)
| BxUntyped                            (* UntypedBody *)
| BxStreaming                          (* StreamingBody *)
| BxMultipart.                         (* MultipartBody *)

(* ApiEndpointBodyContentType::mime_type *)
Definition mime_of (c : Extract.ctype) : str :=
  match c with
  | Extract.CtJson => Extract.CT_JSON
  | Extract.CtForm => Extract.CT_FORM
  | Extract.CtBytes => Extract.CT_BYTES
  | Extract.CtMultipart => Extract.CT_MULTIPART
  end.

(* the key under requestBody.content: TypedBody::metadata passes the
   endpoint's declared content type on; untyped_metadata says Bytes and
   MultipartBody::metadata MultipartFormData whatever was declared *)
Definition doc_body_ctype (b : body_extractor) : str :=
  match b with
  | BxTyped c => mime_of c
  | BxUntyped | BxStreaming => Extract.CT_BYTES
  | BxMultipart => Extract.CT_MULTIPART
  end.

(* requestBody.required *)
Definition doc_body_required (b : body_extractor) : bool := true.
