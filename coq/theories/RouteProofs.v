(* RouteProofs.v — dispatch end to end: raw request path to handler. *)
From DS Require Import Base Versions VersionsProofs Router RouterSpec RouterProofs Pct Utf8 PathNorm PathNormProofs Route.

Section RouteP.
  Variable V : Type.
  Variable cmp : V -> V -> comparison.
  Variable bot : V.
  Hypothesis TO : total_order V cmp bot.

  (* C01.5: the handler named by dispatch receives, for each variable, the
     percent-decoded request segment: the segments matched are exactly the
     once-decoded pieces between the slashes of the raw path *)
  Theorem route_end_to_end (eps : list (decl V)) (r : node V) m rawpath v e vars :
    build V cmp eps = Ok r -> version_ok V cmp eps v ->
    (route V cmp r m rawpath v = RLookup (Found e vars) <->
     exists t b, In (t, e) eps /\
                 input_segments rawpath = Ok (map pct_decode (raw_segments rawpath)) /\
                 serves V cmp (t, e) m (map pct_decode (raw_segments rawpath)) v = Some b /\
                 vars = bm_of b).
  Proof.
    intros Hb Hv. unfold route. destruct (input_segments rawpath) as [segs|err] eqn:Hi.
    - pose proof (decode_once_after_split rawpath segs Hi) as ->. split.
      + intros [= H]. apply (dispatch_exact V cmp bot TO eps r m _ v e vars Hb Hv) in H.
        destruct H as (t & b & H1 & H2 & H3). exists t, b. auto.
      + intros (t & b & H1 & _ & H2 & H3). f_equal.
        apply (dispatch_exact V cmp bot TO eps r m _ v e vars Hb Hv). exists t, b. auto.
    - split; [discriminate|]. intros (t & b & _ & H & _). discriminate.
  Qed.

  (* a path that fails normalisation reaches no handler *)
  Theorem route_bad_path (r : node V) m rawpath v e vars :
    (exists s, In s (raw_segments rawpath) /\
               (pct_decode s = DOT \/ pct_decode s = DOTDOT \/ utf8_valid (pct_decode s) = false)) ->
    route V cmp r m rawpath v <> RLookup (Found e vars).
  Proof.
    intros (s & Hin & Hbad). unfold route.
    destruct (input_segments rawpath) as [segs|err] eqn:Hi; [|discriminate].
    exfalso. pose proof (decode_once_after_split rawpath segs Hi) as Hs.
    destruct Hbad as [Hd|[Hd|Hu]].
    - pose proof (dot_segments_refused rawpath s Hin (or_introl Hd)) as [e' He]. congruence.
    - pose proof (dot_segments_refused rawpath s Hin (or_intror Hd)) as [e' He]. congruence.
    - pose proof (bad_utf8_refused rawpath s Hin Hu) as [e' He]. congruence.
  Qed.
End RouteP.
