(* BodyCapProofs.v — lemmas about the body-size cap model (BodyCap.v). *)
From DS Require Import Base BodyCap.

(* ------------------------------------------------------------------ *)
(* sizes *)

Lemma blen_app a b : blen (a ++ b) = blen a + blen b.
Proof. unfold blen. rewrite app_length. lia. Qed.

Lemma blen_nil : blen [] = 0.
Proof. reflexivity. Qed.

Lemma total_nil : total [] = 0.
Proof. reflexivity. Qed.

Lemma total_cons c cs : total (c :: cs) = blen c + total cs.
Proof. reflexivity. Qed.

Lemma total_app a b : total (a ++ b) = total a + total b.
Proof.
  induction a as [|c a IH]; cbn [app].
  - rewrite total_nil. lia.
  - rewrite !total_cons, IH. lia.
Qed.

Lemma total_rev a : total (rev a) = total a.
Proof.
  induction a as [|c a IH]; cbn [rev]; [reflexivity|].
  rewrite total_app, IH, !total_cons, total_nil. lia.
Qed.

Lemma total_concat cs : blen (concat cs) = total cs.
Proof.
  induction cs as [|c cs IH]; cbn [concat]; [reflexivity|].
  rewrite blen_app, IH, total_cons. reflexivity.
Qed.

Lemma data_frames_cons f fs : data_frames (f :: fs) = data_of f ++ data_frames fs.
Proof. reflexivity. Qed.

Lemma data_frames_app a b : data_frames (a ++ b) = data_frames a ++ data_frames b.
Proof. unfold data_frames. apply flat_map_app. Qed.

Lemma data_frames_map_FData ys : data_frames (map FData ys) = ys.
Proof.
  induction ys as [|y ys IH]; [reflexivity|].
  cbn [map]. rewrite data_frames_cons, IH. reflexivity.
Qed.

Lemma has_err_map_FData ys : has_err (map FData ys) = false.
Proof. induction ys as [|y ys IH]; [reflexivity|]. cbn [map has_err existsb is_err orb]. exact IH. Qed.

Lemma has_err_app a b : has_err (a ++ b) = has_err a || has_err b.
Proof. unfold has_err. apply existsb_app. Qed.

Lemma total_data_body fs : total_data fs = blen (body_of fs).
Proof. unfold total_data, body_of. symmetry. apply total_concat. Qed.

Lemma total_data_cons f fs : total_data (f :: fs) = total (data_of f) + total_data fs.
Proof. unfold total_data. rewrite data_frames_cons, total_app. reflexivity. Qed.

(* ------------------------------------------------------------------ *)
(* 1. the cap in force *)

Lemma cap_selected (e : endpoint_decl) (default : N) :
  request_body_max_bytes {| rq_endpoint := lookup_meta e; rq_default := default |} =
  match ed_max e with Some n => n | None => default end.
Proof. reflexivity. Qed.

Lemma cap_override e default n :
  ed_max e = Some n ->
  request_body_max_bytes {| rq_endpoint := lookup_meta e; rq_default := default |} = n.
Proof. intros H. rewrite cap_selected, H. reflexivity. Qed.

Lemma cap_default e default :
  ed_max e = None ->
  request_body_max_bytes {| rq_endpoint := lookup_meta e; rq_default := default |} = default.
Proof. intros H. rewrite cap_selected, H. reflexivity. Qed.

(* ------------------------------------------------------------------ *)
(* 2. the fold *)

Section Fold.
  Variable cap : N.

  Definition foldf (fs : list frame) (s : sst) : sst := fold_left (step cap) fs s.

  Lemma foldf_cons f fs s : foldf (f :: fs) s = foldf fs (step cap s f).
  Proof. reflexivity. Qed.

  Lemma foldf_nil s : foldf [] s = s.
  Proof. reflexivity. Qed.

  Lemma foldf_app a b s : foldf (a ++ b) s = foldf b (foldf a s).
  Proof. unfold foldf. apply fold_left_app. Qed.

  (* the invariant of the loop: bytes_read is the size of what has been
     yielded, and never exceeds the cap *)
  Definition inv (s : sst) : Prop :=
    bytes_read s = total (out_rev s) /\ bytes_read s <= cap.

  Lemma inv_init : inv init.
  Proof. split; cbn; [reflexivity|lia]. Qed.

  Lemma step_inv s f : inv s -> inv (step cap s f).
  Proof.
    intros [Hb Hc]. unfold inv, step, step_with.
    destruct (ph s) eqn:Hp; [| |split; assumption].
    - destruct f as [bs| |]; cbn [bytes_read out_rev]; try (split; assumption).
      destruct (cap <? bytes_read s + blen bs) eqn:Ht; cbn [bytes_read out_rev].
      + split; assumption.
      + apply N.ltb_ge in Ht. split; [rewrite total_cons; lia|exact Ht].
    - destruct f; cbn [bytes_read out_rev]; split; assumption.
  Qed.

  Lemma foldf_inv fs s : inv s -> inv (foldf fs s).
  Proof.
    revert s; induction fs as [|f fs IH]; intros s H; [exact H|].
    rewrite foldf_cons. apply IH, step_inv, H.
  Qed.

  (* once the generator has returned nothing changes, not even [polled] *)
  Lemma foldf_end fs s o : ph s = PEnd o -> foldf fs s = s.
  Proof.
    revert s; induction fs as [|f fs IH]; intros s H; [reflexivity|].
    rewrite foldf_cons.
    assert (Hs : step cap s f = s) by (unfold step, step_with; rewrite H; reflexivity).
    rewrite Hs. apply IH, H.
  Qed.

  (* outside the loop nothing is yielded any more *)
  Lemma foldf_stuck_out fs s : ph s <> PRun -> out_rev (foldf fs s) = out_rev s.
  Proof.
    revert s; induction fs as [|f fs IH]; intros s H; [reflexivity|].
    rewrite foldf_cons.
    destruct (ph s) eqn:Hp; [congruence| |].
    - rewrite IH.
      + unfold step, step_with; rewrite Hp; destruct f; reflexivity.
      + unfold step, step_with; rewrite Hp; destruct f; cbn [ph]; congruence.
    - rewrite IH.
      + unfold step, step_with; rewrite Hp; reflexivity.
      + unfold step, step_with; rewrite Hp, Hp. congruence.
  Qed.

  (* draining: no error frame -> every remaining frame is pulled, the
     outcome is the refusal; an error frame -> network error *)
  Lemma foldf_drain_noerr fs s :
    ph s = PDrain -> has_err fs = false ->
    ph (foldf fs s) = PDrain /\
    polled (foldf fs s) = polled s + N.of_nat (length fs).
  Proof.
    revert s; induction fs as [|f fs IH]; intros s Hp He.
    - cbn [foldf fold_left length]. split; [exact Hp|lia].
    - rewrite foldf_cons. cbn [has_err existsb] in He. apply orb_false_iff in He.
      destruct He as [Hf He].
      assert (Hs : ph (step cap s f) = PDrain /\ polled (step cap s f) = polled s + 1).
      { unfold step, step_with; rewrite Hp; destruct f; cbn [ph polled]; try discriminate; auto. }
      destruct Hs as [Hp' Hq].
      destruct (IH _ Hp' He) as [H1 H2]. split; [exact H1|].
      rewrite H2, Hq. cbn [length]. lia.
  Qed.

  Lemma foldf_err fs s :
    (ph s = PRun \/ ph s = PDrain) -> has_err fs = true ->
    ph (foldf fs s) = PEnd NetErr400.
  Proof.
    revert s; induction fs as [|f fs IH]; intros s Hp He; [discriminate|].
    rewrite foldf_cons. cbn [has_err existsb] in He.
    destruct f as [bs| |].
    - cbn [is_err orb] in He. apply IH; [|exact He].
      unfold step, step_with. destruct Hp as [Hp|Hp]; rewrite Hp.
      + destruct (cap <? bytes_read s + blen bs); cbn [ph]; auto.
      + cbn [ph]; auto.
    - cbn [is_err orb] in He. apply IH; [|exact He].
      unfold step, step_with. destruct Hp as [Hp|Hp]; rewrite Hp; cbn [ph]; auto.
    - rewrite (foldf_end fs _ NetErr400).
      + unfold step, step_with. destruct Hp as [Hp|Hp]; rewrite Hp; reflexivity.
      + unfold step, step_with. destruct Hp as [Hp|Hp]; rewrite Hp; reflexivity.
  Qed.

  (* the loop on a body without error frames *)
  Lemma foldf_noerr fs s :
    ph s = PRun -> bytes_read s <= cap -> has_err fs = false ->
    (bytes_read s + total_data fs <= cap ->
       ph (foldf fs s) = PRun /\
       out_rev (foldf fs s) = rev (data_frames fs) ++ out_rev s /\
       bytes_read (foldf fs s) = bytes_read s + total_data fs) /\
    (cap < bytes_read s + total_data fs -> ph (foldf fs s) = PDrain) /\
    polled (foldf fs s) = polled s + N.of_nat (length fs).
  Proof.
    revert s; induction fs as [|f fs IH]; intros s Hp Hc He.
    - cbn [foldf fold_left length]. unfold total_data, data_frames.
      cbn [flat_map total fold_right rev app].
      repeat split; try lia; try assumption.
    - rewrite foldf_cons. cbn [has_err existsb] in He. apply orb_false_iff in He.
      destruct He as [Hf He]. rewrite total_data_cons, data_frames_cons.
      cbn [length]. rewrite Nat2N.inj_succ.
      destruct f as [bs| |]; [| |discriminate].
      + cbn [data_of]. rewrite total_cons, total_nil.
        unfold step at 1 2 3 4 5, step_with. rewrite Hp.
        destruct (cap <? bytes_read s + blen bs) eqn:Ht.
        * apply N.ltb_lt in Ht.
          set (s1 := St PDrain (bytes_read s) (out_rev s) (polled s + 1)).
          destruct (foldf_drain_noerr fs s1 eq_refl He) as [H1 H2].
          repeat split; try (intros; lia); [intros _; exact H1|].
          rewrite H2. subst s1. cbn [polled]. lia.
        * apply N.ltb_ge in Ht.
          set (s1 := St PRun (bytes_read s + blen bs) (bs :: out_rev s) (polled s + 1)).
          destruct (IH s1 eq_refl Ht He) as (Ha & Hb & Hq).
          subst s1; cbn [bytes_read out_rev polled] in *.
          repeat split.
          -- apply Ha; lia.
          -- destruct Ha as (_ & Ha & _); [lia|]. rewrite Ha. cbn [rev app].
             rewrite <- app_assoc. reflexivity.
          -- destruct Ha as (_ & _ & Ha); [lia|]. rewrite Ha. lia.
          -- intros H. apply Hb. lia.
          -- rewrite Hq. lia.
      + cbn [data_of]. rewrite total_nil.
        unfold step at 1 2 3 4 5, step_with. rewrite Hp.
        set (s1 := St PRun (bytes_read s) (out_rev s) (polled s + 1)).
        destruct (IH s1 eq_refl Hc He) as (Ha & Hb & Hq).
        subst s1; cbn [bytes_read out_rev polled app] in *.
        rewrite N.add_0_l. repeat split.
        * apply Ha; lia.
        * destruct Ha as (_ & Ha & _); [lia|]. exact Ha.
        * destruct Ha as (_ & _ & Ha); [lia|]. exact Ha.
        * exact Hb.
        * rewrite Hq. lia.
  Qed.

  (* what has been yielded is always an exact prefix, in order, of the
     body's data frames *)
  Lemma foldf_prefix fs s :
    exists ys zs, out_rev (foldf fs s) = rev ys ++ out_rev s /\ data_frames fs = ys ++ zs.
  Proof.
    revert s; induction fs as [|f fs IH]; intros s.
    - exists [], []. split; reflexivity.
    - rewrite foldf_cons, data_frames_cons.
      destruct (ph s) eqn:Hp.
      + destruct f as [bs| |].
        * unfold step, step_with. rewrite Hp.
          destruct (cap <? bytes_read s + blen bs) eqn:Ht.
          -- exists [], (data_of (FData bs) ++ data_frames fs). split; [|reflexivity].
             rewrite foldf_stuck_out; [reflexivity|cbn [ph]; congruence].
          -- destruct (IH (St PRun (bytes_read s + blen bs) (bs :: out_rev s) (polled s + 1)))
               as (ys & zs & H1 & H2).
             exists (bs :: ys), zs. cbn [out_rev] in H1. split.
             ++ rewrite H1. cbn [rev]. rewrite <- app_assoc. reflexivity.
             ++ cbn [data_of app]. rewrite H2. reflexivity.
        * unfold step, step_with. rewrite Hp.
          destruct (IH (St PRun (bytes_read s) (out_rev s) (polled s + 1))) as (ys & zs & H1 & H2).
          exists ys, zs. split; [exact H1|exact H2].
        * exists [], (data_of FErr ++ data_frames fs). split; [|reflexivity].
          rewrite foldf_stuck_out.
          -- unfold step, step_with. rewrite Hp. reflexivity.
          -- unfold step, step_with. rewrite Hp. cbn [ph]. congruence.
      + exists [], (data_of f ++ data_frames fs). split; [|reflexivity].
        rewrite foldf_stuck_out.
        * unfold step, step_with. rewrite Hp. destruct f; reflexivity.
        * unfold step, step_with. rewrite Hp. destruct f; cbn [ph]; congruence.
      + exists [], (data_of f ++ data_frames fs). split; [|reflexivity].
        rewrite (foldf_end fs _ o).
        * unfold step, step_with. rewrite Hp. reflexivity.
        * unfold step, step_with. rewrite Hp. exact Hp.
  Qed.

  (* the yielded list only grows *)
  Lemma foldf_grows fs s : exists ys, out_rev (foldf fs s) = rev ys ++ out_rev s.
  Proof. destruct (foldf_prefix fs s) as (ys & _ & H & _). exists ys; exact H. Qed.
End Fold.

(* ------------------------------------------------------------------ *)
(* 3. statements about [stream] *)

Lemma run_foldf cap fs : run cap fs = foldf cap fs init.
Proof. reflexivity. Qed.

Lemma yielded_rev s : yielded s = rev (out_rev s).
Proof. unfold yielded, rev'. symmetry. apply rev_alt. Qed.

(* never_exceeds *)
Lemma never_exceeds cap fs : total (fst (stream cap fs)) <= cap.
Proof.
  unfold stream. cbn [fst]. rewrite yielded_rev, total_rev, run_foldf.
  destruct (foldf_inv cap fs init (inv_init cap)) as [H1 H2]. lia.
Qed.

Lemma never_exceeds_bytes cap fs : blen (concat (fst (stream cap fs))) <= cap.
Proof. rewrite total_concat. apply never_exceeds. Qed.

(* ... at every moment: after any number k of frames *)
Lemma never_exceeds_prefix cap fs k : total (fst (stream cap (firstn k fs))) <= cap.
Proof. apply never_exceeds. Qed.

(* ... and what had been seen after k frames is an initial part of what is
   seen in the end (nothing is ever taken back or reordered) *)
Lemma prefix_mono cap fs k :
  exists more, fst (stream cap fs) = fst (stream cap (firstn k fs)) ++ more.
Proof.
  unfold stream; cbn [fst]; rewrite !yielded_rev, !run_foldf.
  replace (foldf cap fs init) with (foldf cap (firstn k fs ++ skipn k fs) init)
    by (rewrite firstn_skipn; reflexivity).
  rewrite foldf_app.
  destruct (foldf_grows cap (skipn k fs) (foldf cap (firstn k fs) init)) as (ys & H).
  exists ys. rewrite H, rev_app_distr, rev_involutive. reflexivity.
Qed.

(* the yielded chunks are, in order and unaltered, an initial part of the
   body's data frames *)
Lemma yielded_prefix cap fs :
  exists rest, data_frames fs = fst (stream cap fs) ++ rest.
Proof.
  unfold stream; cbn [fst]; rewrite yielded_rev, run_foldf.
  destruct (foldf_prefix cap fs init) as (ys & zs & H1 & H2).
  exists zs. rewrite H1. cbn [init out_rev]. rewrite app_nil_r, rev_involutive. exact H2.
Qed.

(* no error frame: the stream's result is decided by the total alone *)
Lemma stream_fits cap fs :
  has_err fs = false -> total_data fs <= cap -> stream cap fs = (data_frames fs, Done).
Proof.
  intros He Hf. unfold stream. rewrite run_foldf.
  destruct (foldf_noerr cap fs init eq_refl (N.le_0_l _) He) as (Ha & _ & _).
  destruct Ha as (Hp & Ho & _); [cbn [init bytes_read]; lia|].
  rewrite yielded_rev. unfold finish. rewrite Hp, Ho. cbn [init out_rev].
  rewrite app_nil_r, rev_involutive. reflexivity.
Qed.

Lemma stream_over cap fs :
  has_err fs = false -> cap < total_data fs -> snd (stream cap fs) = Refused400.
Proof.
  intros He Hf. unfold stream. rewrite run_foldf. cbn [snd].
  destruct (foldf_noerr cap fs init eq_refl (N.le_0_l _) He) as (_ & Hb & _).
  unfold finish. rewrite Hb; [reflexivity|cbn [init bytes_read]; lia].
Qed.

Lemma stream_err cap fs : has_err fs = true -> snd (stream cap fs) = NetErr400.
Proof.
  intros He. unfold stream. rewrite run_foldf. cbn [snd]. unfold finish.
  rewrite (foldf_err cap fs init); [reflexivity|left; reflexivity|exact He].
Qed.

(* accept_iff_fits *)
Lemma accept_iff_fits cap fs :
  has_err fs = false -> (snd (stream cap fs) = Done <-> total_data fs <= cap).
Proof.
  intros He. split.
  - intros Hd. destruct (N.le_gt_cases (total_data fs) cap) as [H|H]; [exact H|].
    rewrite (stream_over cap fs He H) in Hd. discriminate.
  - intros H. rewrite (stream_fits cap fs He H). reflexivity.
Qed.

Lemma done_iff cap fs :
  snd (stream cap fs) = Done <-> has_err fs = false /\ total_data fs <= cap.
Proof.
  destruct (has_err fs) eqn:He.
  - rewrite (stream_err cap fs He). split; [discriminate|intros [H _]; discriminate].
  - rewrite (accept_iff_fits cap fs He). tauto.
Qed.

Lemma delivered_intact cap fs :
  snd (stream cap fs) = Done ->
  fst (stream cap fs) = data_frames fs /\ concat (fst (stream cap fs)) = body_of fs.
Proof.
  intros Hd. apply done_iff in Hd. destruct Hd as [He Hf].
  rewrite (stream_fits cap fs He Hf). split; reflexivity.
Qed.

(* the whole body is pulled (drained) when an oversize body is refused, and
   also when it is accepted: the connection can be used again *)
Lemma drained cap fs :
  has_err fs = false -> frames_polled cap fs = N.of_nat (length fs).
Proof.
  intros He. unfold frames_polled. rewrite run_foldf.
  destruct (foldf_noerr cap fs init eq_refl (N.le_0_l _) He) as (_ & _ & Hq).
  rewrite Hq. reflexivity.
Qed.

(* buffered reading *)
Lemma into_bytes_mut_fits cap fs :
  has_err fs = false -> total_data fs <= cap -> into_bytes_mut cap fs = Ok (body_of fs).
Proof. intros He Hf. unfold into_bytes_mut. rewrite (stream_fits cap fs He Hf). reflexivity. Qed.

Lemma into_bytes_mut_not_done cap fs :
  snd (stream cap fs) <> Done -> into_bytes_mut cap fs = Err 400.
Proof.
  unfold into_bytes_mut. destruct (stream cap fs) as [ys o]. cbn [snd].
  destruct o; [congruence|reflexivity|reflexivity].
Qed.

Lemma into_bytes_mut_over cap fs :
  cap < total_data fs -> into_bytes_mut cap fs = Err 400.
Proof.
  intros Hf. apply into_bytes_mut_not_done. intros Hd. apply done_iff in Hd. lia.
Qed.

Lemma into_bytes_mut_err cap fs : has_err fs = true -> into_bytes_mut cap fs = Err 400.
Proof. intros He. apply into_bytes_mut_not_done. rewrite (stream_err cap fs He). discriminate. Qed.

Lemma into_bytes_mut_ok_iff cap fs b :
  into_bytes_mut cap fs = Ok b <->
  has_err fs = false /\ total_data fs <= cap /\ b = body_of fs.
Proof.
  split.
  - intros H. destruct (has_err fs) eqn:He.
    + rewrite (into_bytes_mut_err cap fs He) in H. discriminate.
    + destruct (N.le_gt_cases (total_data fs) cap) as [Hf|Hf].
      * rewrite (into_bytes_mut_fits cap fs He Hf) in H. inversion H. auto.
      * rewrite (into_bytes_mut_over cap fs Hf) in H. discriminate.
  - intros (He & Hf & ->). apply into_bytes_mut_fits; assumption.
Qed.

(* chunking_irrelevant: two framings of the same bytes (and agreeing on
   whether the network fails) have the same outcome and the same buffered
   result.  What is NOT determined by the bytes alone: the list of chunks a
   streaming handler sees, and how many bytes it sees before a refusal
   (see the Examples in props/C11.v). *)
Lemma chunking_irrelevant cap fs fs' :
  has_err fs = has_err fs' -> body_of fs = body_of fs' ->
  snd (stream cap fs) = snd (stream cap fs') /\
  into_bytes_mut cap fs = into_bytes_mut cap fs'.
Proof.
  intros He Hb.
  assert (Ht : total_data fs = total_data fs') by (rewrite !total_data_body, Hb; reflexivity).
  destruct (has_err fs) eqn:He1; symmetry in He.
  - rewrite (stream_err cap fs He1), (stream_err cap fs' He).
    rewrite (into_bytes_mut_err cap fs He1), (into_bytes_mut_err cap fs' He). auto.
  - destruct (N.le_gt_cases (total_data fs) cap) as [Hf|Hf].
    + rewrite (stream_fits cap fs He1 Hf), (into_bytes_mut_fits cap fs He1 Hf).
      rewrite Ht in Hf.
      rewrite (stream_fits cap fs' He Hf), (into_bytes_mut_fits cap fs' He Hf).
      rewrite Hb. auto.
    + rewrite (stream_over cap fs He1 Hf), (into_bytes_mut_over cap fs Hf).
      rewrite Ht in Hf.
      rewrite (stream_over cap fs' He Hf), (into_bytes_mut_over cap fs' Hf). auto.
Qed.

(* the streaming view is still tied to the bytes: what is yielded spells an
   initial part of the body *)
Lemma yielded_bytes_prefix cap fs :
  exists rest, body_of fs = concat (fst (stream cap fs)) ++ rest.
Proof.
  destruct (yielded_prefix cap fs) as (zs & H). exists (concat zs).
  unfold body_of. rewrite H, concat_app. reflexivity.
Qed.

(* Replaying the model on the chunks a streaming handler saw, followed by the
   unseen remainder of the body as a single frame, reproduces the run: this is
   how a live observation (where the refused frame's size is not visible) is
   compared with the model. *)
Lemma skipn_app_exact {A} (a b : list A) : skipn (length a) (a ++ b) = b.
Proof. induction a as [|x a IH]; [reflexivity|exact IH]. Qed.

Lemma stream_witness cap fs :
  has_err fs = false ->
  let ys := fst (stream cap fs) in
  let rest := skipn (length (concat ys)) (body_of fs) in
  stream cap (map FData ys ++ (if is_nil rest then [] else [FData rest])) = stream cap fs.
Proof.
  intros He ys rest.
  destruct (N.le_gt_cases (total_data fs) cap) as [Hf|Hf].
  - assert (Hs := stream_fits cap fs He Hf).
    subst ys rest. rewrite Hs. cbn [fst].
    change (concat (data_frames fs)) with (body_of fs).
    rewrite <- (app_nil_r (body_of fs)) at 2. rewrite skipn_app_exact. cbn [is_nil].
    rewrite app_nil_r. rewrite (stream_fits cap (map FData (data_frames fs))).
    + rewrite data_frames_map_FData. reflexivity.
    + apply has_err_map_FData.
    + unfold total_data. rewrite data_frames_map_FData. exact Hf.
  - destruct (yielded_prefix cap fs) as (zs & Hz). fold ys in Hz.
    assert (Hb : body_of fs = concat ys ++ concat zs)
      by (unfold body_of; rewrite Hz, concat_app; reflexivity).
    assert (Hr : rest = concat zs) by (subst rest; rewrite Hb; apply skipn_app_exact).
    assert (Hy : total ys <= cap) by apply never_exceeds.
    assert (Hzt : cap < total ys + blen (concat zs)).
    { rewrite total_data_body, Hb, blen_app, total_concat in Hf. exact Hf. }
    rewrite Hr.
    destruct (concat zs) as [|b r] eqn:Hcz.
    { rewrite blen_nil in Hzt. lia. }
    cbn [is_nil].
    (* run over the seen chunks, then the remainder *)
    unfold stream at 1. rewrite run_foldf, foldf_app.
    destruct (foldf_noerr cap (map FData ys) init eq_refl (N.le_0_l _) (has_err_map_FData ys))
      as (Ha & _ & _).
    unfold total_data in Ha. rewrite data_frames_map_FData in Ha.
    destruct Ha as (Hp & Ho & Hbr); [cbn [init bytes_read]; lia|].
    cbn [init out_rev bytes_read] in Ho, Hbr. rewrite app_nil_r in Ho. rewrite N.add_0_l in Hbr.
    assert (Ht : (cap <? total ys + blen (b :: r)) = true) by (apply N.ltb_lt; exact Hzt).
    assert (Hst : step cap (foldf cap (map FData ys) init) (FData (b :: r)) =
                  St PDrain (total ys) (rev ys) (polled (foldf cap (map FData ys) init) + 1)).
    { unfold step, step_with. rewrite Hp, Hbr, Ht, Ho. reflexivity. }
    rewrite foldf_cons, foldf_nil, Hst.
    rewrite yielded_rev. unfold finish. cbn [out_rev ph]. rewrite rev_involutive.
    rewrite (surjective_pairing (stream cap fs)). fold ys.
    rewrite (stream_over cap fs He Hf). reflexivity.
Qed.

(* the usize addition cannot wrap while the body is smaller than 2^64 bytes *)
Lemma step64_eq cap s f :
  bytes_read s + total (data_of f) < two64 -> step_with add64 cap s f = step cap s f.
Proof.
  intros H. unfold step, step_with. destruct (ph s); [|reflexivity|reflexivity].
  destruct f as [bs| |]; [|reflexivity|reflexivity].
  cbn [data_of] in H. rewrite total_cons, total_nil, N.add_0_r in H.
  unfold add64. rewrite (N.mod_small _ _ H). reflexivity.
Qed.

Lemma fold64_eq cap fs s :
  inv cap s -> bytes_read s + total_data fs < two64 ->
  fold_left (step_with add64 cap) fs s = fold_left (step cap) fs s.
Proof.
  revert s; induction fs as [|f fs IH]; intros s Hi H; [reflexivity|].
  rewrite total_data_cons in H. cbn [fold_left].
  rewrite step64_eq by lia. apply IH; [apply step_inv, Hi|].
  (* bytes_read grows by at most the frame's size *)
  unfold step, step_with. destruct (ph s); [|destruct f; cbn [bytes_read]; lia|lia].
  destruct f as [bs| |]; cbn [bytes_read data_of] in *; try lia.
  rewrite total_cons, total_nil in H.
  destruct (cap <? bytes_read s + blen bs); cbn [bytes_read]; lia.
Qed.

Lemma stream64_eq cap fs : total_data fs < two64 -> stream64 cap fs = stream cap fs.
Proof.
  intros H. unfold stream64, stream, run64, run.
  rewrite (fold64_eq cap fs init (inv_init cap)); [reflexivity|cbn [init bytes_read]; lia].
Qed.

(* the stream depends on the data frames only through their lengths: the
   length-level run simulates the byte-level run step by step *)
Definition abs_st (s : sst) : lst :=
  LSt (ph s) (bytes_read s) (map blen (out_rev s)) (polled s).

Lemma lstep_sim cap s f : lstep cap (abs_st s) (lframe_of f) = abs_st (step cap s f).
Proof.
  destruct s as [p br o q]. unfold lstep, step, step_with, abs_st.
  cbn [ph bytes_read out_rev polled lph lbytes_read lout_rev lpolled].
  destruct p; [|destruct f; reflexivity|reflexivity].
  destruct f as [bs| |]; cbn [lframe_of]; [|reflexivity|reflexivity].
  destruct (cap <? br + blen bs); reflexivity.
Qed.

Lemma lfold_sim cap fs s :
  fold_left (lstep cap) (map lframe_of fs) (abs_st s) = abs_st (fold_left (step cap) fs s).
Proof.
  revert s; induction fs as [|f fs IH]; intros s; [reflexivity|].
  cbn [map fold_left]. rewrite lstep_sim. apply IH.
Qed.

Lemma lrun_sim cap fs : lrun cap (map lframe_of fs) = abs_st (run cap fs).
Proof. unfold lrun, run. change linit with (abs_st init). apply lfold_sim. Qed.

Lemma stream_len_abs cap fs :
  stream_len cap (map lframe_of fs) = (map blen (fst (stream cap fs)), snd (stream cap fs)) /\
  frames_polled_len cap (map lframe_of fs) = frames_polled cap fs.
Proof.
  unfold stream_len, frames_polled_len, stream, frames_polled. rewrite lrun_sim.
  cbn [fst snd abs_st lout_rev lpolled]. split; [|reflexivity].
  f_equal. unfold yielded, rev'. rewrite <- !rev_alt. symmetry. apply map_rev.
Qed.

(* ------------------------------------------------------------------ *)
(* 4. the extractors *)

Section ExtractorFacts.
  Variable T : Type.
  Variable json_de form_de : str -> option T.
  Variable M : Type.
  Variable multer : list str -> outcome -> M.

  Notation extract := (extract T json_de form_de M multer).
  Notation extract_via := (extract_via T json_de form_de M multer).

  Lemma into_bytes_mut_via cap fs : into_bytes_mut cap fs = bytes_of_stream (stream cap fs).
  Proof. reflexivity. Qed.

  (* every extractor obtains the body through the capped stream, with the
     cap selected by request_body_max_bytes, and through nothing else *)
  Lemma all_extractors_capped x rq h fs :
    extract x rq h fs =
    extract_via x (rm_ct (rq_endpoint rq)) h (stream (request_body_max_bytes rq) fs).
  Proof.
    destruct x; cbn [BodyCap.extract BodyCap.extract_via];
      unfold typed_body, untyped_body, streaming_body, multipart_body;
      rewrite ?into_bytes_mut_via; try reflexivity;
      destruct (h_mp h); reflexivity.
  Qed.

  Lemma extractors_see_only_the_stream x rq h fs fs' :
    stream (request_body_max_bytes rq) fs = stream (request_body_max_bytes rq) fs' ->
    extract x rq h fs = extract x rq h fs'.
  Proof. intros H. rewrite !all_extractors_capped, H. reflexivity. Qed.

  (* no extractor exposes more than cap bytes *)
  Lemma exposed_bounded x cap h fs : blen (exposed x cap h fs) <= cap.
  Proof.
    destruct x; cbn [exposed];
      try (unfold into_bytes_mut;
           pose proof (never_exceeds_bytes cap fs) as Hn;
           destruct (stream cap fs) as [ys o]; cbn [fst] in Hn;
           destruct o; rewrite ?blen_nil; lia).
    - apply never_exceeds_bytes.
    - destruct (h_mp h); rewrite ?blen_nil; try lia. apply never_exceeds_bytes.
  Qed.

  (* a body that fits is exposed intact *)
  Lemma exposed_intact x cap h fs :
    has_err fs = false -> total_data fs <= cap -> h_mp h = MHOk ->
    exposed x cap h fs = body_of fs.
  Proof.
    intros He Hf Hm.
    destruct x; cbn [exposed]; rewrite ?Hm, ?(into_bytes_mut_fits cap fs He Hf),
      ?(stream_fits cap fs He Hf); reflexivity.
  Qed.

  (* an oversize body: the buffered extractors fail with 400 and the handler
     is not called *)
  Lemma buffered_refused x rq h fs :
    request_body_max_bytes rq < total_data fs ->
    (x = XJson \/ x = XForm \/ x = XUntyped) ->
    extract x rq h fs = DRefused 400.
  Proof.
    intros Hf Hx.
    destruct Hx as [->|[->| ->]]; cbn [BodyCap.extract];
      unfold typed_body, untyped_body; rewrite (into_bytes_mut_over _ fs Hf); reflexivity.
  Qed.

  (* ... the streaming ones hand the handler a stream that ends with the
     400 error after at most cap bytes *)
  Lemma streaming_refused rq h fs :
    has_err fs = false -> request_body_max_bytes rq < total_data fs ->
    exists ys, extract XStreaming rq h fs = DStream ys Refused400 /\
               total ys <= request_body_max_bytes rq.
  Proof.
    intros He Hf. cbn [BodyCap.extract]. unfold streaming_body.
    pose proof (stream_over _ fs He Hf) as Ho.
    pose proof (never_exceeds (request_body_max_bytes rq) fs) as Hn.
    destruct (stream (request_body_max_bytes rq) fs) as [ys o]. cbn [fst snd] in *.
    subst o. exists ys. auto.
  Qed.

  Lemma multipart_refused rq h fs :
    has_err fs = false -> request_body_max_bytes rq < total_data fs -> h_mp h = MHOk ->
    exists ys, extract XMultipart rq h fs = DMultipart (multer ys Refused400) /\
               total ys <= request_body_max_bytes rq.
  Proof.
    intros He Hf Hm. cbn [BodyCap.extract]. unfold multipart_body. rewrite Hm.
    pose proof (stream_over _ fs He Hf) as Ho.
    pose proof (never_exceeds (request_body_max_bytes rq) fs) as Hn.
    destruct (stream (request_body_max_bytes rq) fs) as [ys o]. cbn [fst snd] in *.
    subst o. exists ys. auto.
  Qed.

  (* a body that fits is accepted by the untyped and streaming extractors
     whatever its framing, and delivered intact *)
  Lemma untyped_accepts rq h fs :
    has_err fs = false -> total_data fs <= request_body_max_bytes rq ->
    extract XUntyped rq h fs = DBytes (body_of fs).
  Proof.
    intros He Hf. cbn [BodyCap.extract]. unfold untyped_body.
    rewrite (into_bytes_mut_fits _ fs He Hf). reflexivity.
  Qed.

  Lemma streaming_accepts rq h fs :
    has_err fs = false -> total_data fs <= request_body_max_bytes rq ->
    extract XStreaming rq h fs = DStream (data_frames fs) Done.
  Proof.
    intros He Hf. cbn [BodyCap.extract]. unfold streaming_body.
    rewrite (stream_fits _ fs He Hf). reflexivity.
  Qed.

  Lemma multipart_accepts rq h fs :
    has_err fs = false -> total_data fs <= request_body_max_bytes rq -> h_mp h = MHOk ->
    extract XMultipart rq h fs = DMultipart (multer (data_frames fs) Done).
  Proof.
    intros He Hf Hm. cbn [BodyCap.extract]. unfold multipart_body.
    rewrite Hm, (stream_fits _ fs He Hf). reflexivity.
  Qed.

  (* the typed extractor on a body that fits: decided by the deserialiser on
     exactly the body's bytes *)
  Lemma typed_json_accepts rq fs v :
    has_err fs = false -> total_data fs <= request_body_max_bytes rq ->
    rm_ct (rq_endpoint rq) = CJson -> json_de (body_of fs) = Some v ->
    forall h, (h_ct h = RAbsent \/ h_ct h = RKnown CJson) -> extract XJson rq h fs = DTyped v.
  Proof.
    intros He Hf Hc Hd h Hh. cbn [BodyCap.extract]. unfold typed_body.
    rewrite (into_bytes_mut_fits _ fs He Hf), Hc.
    destruct Hh as [-> | ->]; rewrite Hd; reflexivity.
  Qed.

  Lemma typed_form_accepts rq fs v :
    has_err fs = false -> total_data fs <= request_body_max_bytes rq ->
    rm_ct (rq_endpoint rq) = CUrlEncoded -> form_de (body_of fs) = Some v ->
    forall h, h_ct h = RKnown CUrlEncoded -> extract XForm rq h fs = DTyped v.
  Proof.
    intros He Hf Hc Hd h Hh. cbn [BodyCap.extract]. unfold typed_body.
    rewrite (into_bytes_mut_fits _ fs He Hf), Hc, Hh, Hd. reflexivity.
  Qed.
End ExtractorFacts.
