(* J2OasProofs.v — proofs about the JSON Schema -> OpenAPI conversion model
   (J2Oas.v) against the semantics (SchemaSem.v) and the shape predicates
   (J2OasSpec.v).  Main results:
     preserved_all            meaning preservation, by induction on schema size
     j2oas_ok_convertible_n   the converter succeeds exactly on [convertible]
     supported_convertible_n  [supported] schemas are convertible
     annotations_kept_top     annotations survive
     k4_refutes, k5_refutes   the two known findings *)
From DS Require Import Base Json Schema J2Oas SchemaSem J2OasSpec.
Require Import Lia ZArith Btauto.
Open Scope N_scope.

(* ================================================================ *)

(* ---------- results ---------- *)
Lemma bind_ok {E A B} (r : res E A) (f : A -> res E B) b :
  bind r f = Ok b -> exists a, r = Ok a /\ f a = Ok b.
Proof. destruct r; cbn; intros H; [eauto|discriminate]. Qed.

Ltac inv_bind H :=
  let a := fresh "x" in let Ha := fresh "Hx" in
  apply bind_ok in H; destruct H as (a & Ha & H).
Ltac inv_bind_as H a Ha :=
  apply bind_ok in H; destruct H as (a & Ha & H).

(* ---------- map_res ---------- *)
Lemma map_res_Forall2 {A B} (f : A -> jres B) l l' :
  map_res f l = Ok l' -> Forall2 (fun a b => f a = Ok b) l l'.
Proof.
  revert l'; induction l as [|a l IH]; intros l' H; cbn in H.
  - inversion H; constructor.
  - inv_bind H. inv_bind H. inversion H; subst. constructor; auto.
Qed.

Lemma map_res_snd_Forall2 {A B} (f : A -> jres B) l l' :
  map_res_snd f l = Ok l' ->
  Forall2 (fun a b => fst a = fst b /\ f (snd a) = Ok (snd b)) l l'.
Proof.
  revert l'; induction l as [|[k a] l IH]; intros l' H; cbn in H.
  - inversion H; constructor.
  - inv_bind H. inv_bind H. inversion H; subst. constructor; auto.
Qed.

Lemma map_res_total {A B} (f : A -> jres B) l :
  (forall a, In a l -> exists b, f a = Ok b) -> exists l', map_res f l = Ok l'.
Proof.
  induction l as [|a l IH]; intros H; cbn.
  - eauto.
  - destruct (H a (or_introl eq_refl)) as [b Hb]. rewrite Hb; cbn.
    destruct IH as [l' Hl']. { intros; apply H; right; auto. }
    rewrite Hl'; cbn; eauto.
Qed.

Lemma map_res_snd_total {A B} (f : A -> jres B) l :
  (forall p, In p l -> exists b, f (snd p) = Ok b) -> exists l', map_res_snd f l = Ok l'.
Proof.
  induction l as [|[k a] l IH]; intros H; cbn.
  - eauto.
  - destruct (H (k, a) (or_introl eq_refl)) as [b Hb]. cbn in Hb. rewrite Hb; cbn.
    destruct IH as [l' Hl']. { intros; apply H; right; auto. }
    rewrite Hl'; cbn; eauto.
Qed.

(* ---------- rational arithmetic ---------- *)
Lemma q_i64_exact_cast x :
  q_i64_exact x = true ->
  exists z, f64_as_i64 x = z /\ fst x = (z * Zpos (snd x))%Z.
Proof.
  unfold q_i64_exact, q_is_int, f64_as_i64. destruct x as [a p]; cbn [fst snd].
  rewrite !andb_true_iff, Z.eqb_eq, !Z.leb_le. intros [[Hm Hlo] Hhi].
  assert (Ha : a = (a / Zpos p * Zpos p)%Z).
  { pose proof (Z.div_mod a (Zpos p) ltac:(lia)). lia. }
  assert (Hq : Z.quot a (Zpos p) = (a / Zpos p)%Z).
  { rewrite Ha at 1. rewrite Z.quot_mul by lia. reflexivity. }
  exists (a / Zpos p)%Z. split; [|exact Ha].
  rewrite Hq. lia.
Qed.

Lemma q_leb_scale_l z p y : q_leb ((z * Zpos p)%Z, p) y = q_leb (q_of_Z z) y.
Proof.
  unfold q_leb, q_of_Z; cbn [fst snd]. destruct y as [c d]; cbn [fst snd].
  apply eq_true_iff_eq. rewrite !Z.leb_le. nia.
Qed.
Lemma q_leb_scale_r z p y : q_leb y ((z * Zpos p)%Z, p) = q_leb y (q_of_Z z).
Proof.
  unfold q_leb, q_of_Z; cbn [fst snd]. destruct y as [c d]; cbn [fst snd].
  apply eq_true_iff_eq. rewrite !Z.leb_le. nia.
Qed.
Lemma q_ltb_scale_l z p y : q_ltb ((z * Zpos p)%Z, p) y = q_ltb (q_of_Z z) y.
Proof.
  unfold q_ltb, q_of_Z; cbn [fst snd]. destruct y as [c d]; cbn [fst snd].
  apply eq_true_iff_eq. rewrite !Z.ltb_lt. nia.
Qed.
Lemma q_ltb_scale_r z p y : q_ltb y ((z * Zpos p)%Z, p) = q_ltb y (q_of_Z z).
Proof.
  unfold q_ltb, q_of_Z; cbn [fst snd]. destruct y as [c d]; cbn [fst snd].
  apply eq_true_iff_eq. rewrite !Z.ltb_lt. nia.
Qed.
Lemma q_multiple_scale z p y : q_multiple y ((z * Zpos p)%Z, p) = q_multiple y (q_of_Z z).
Proof.
  unfold q_multiple, q_of_Z; cbn [fst snd]. destruct y as [c d]; cbn [fst snd].
  replace (Zpos d * (z * Zpos p))%Z with ((Zpos d * z) * Zpos p)%Z by ring.
  replace (c * 1)%Z with c by ring.
  destruct (Z.eqb_spec (Zpos d * z) 0) as [E|E].
  - rewrite E. cbn. reflexivity.
  - destruct (Z.eqb_spec (Zpos d * z * Zpos p) 0) as [E'|E']; [nia|].
    rewrite Z.mul_mod_distr_r by lia.
    apply eq_true_iff_eq. rewrite !Z.eqb_eq. nia.
Qed.

(* ================================================================ *)

(* ---------- formats ---------- *)
Lemma int_format_name f : vou_name intfmt_name (int_format f) = f.
Proof.
  destruct f as [s|]; cbn; [|reflexivity].
  destruct (str_eqb_spec s s_int32) as [->|]; [reflexivity|].
  destruct (str_eqb_spec s s_int64) as [->|]; reflexivity.
Qed.
Lemma num_format_name f : vou_name numfmt_name (num_format f) = f.
Proof.
  destruct f as [s|]; cbn; [|reflexivity].
  destruct (str_eqb_spec s s_float) as [->|]; [reflexivity|].
  destruct (str_eqb_spec s s_double) as [->|]; reflexivity.
Qed.
Lemma str_format_name f : vou_name strfmt_name (str_format f) = f.
Proof.
  destruct f as [s|]; cbn; [|reflexivity].
  destruct (str_eqb_spec s s_date) as [->|]; [reflexivity|].
  destruct (str_eqb_spec s s_date_time) as [->|]; [reflexivity|].
  destruct (str_eqb_spec s s_password) as [->|]; [reflexivity|].
  destruct (str_eqb_spec s s_byte) as [->|]; [reflexivity|].
  destruct (str_eqb_spec s s_binary) as [->|]; reflexivity.
Qed.

(* ---------- enumerations ---------- *)
Lemma enum_equiv {B} (conv : json -> jres (option B)) (cmp : B -> json -> bool)
      (ok : json -> bool) j e l :
  (forall a b, ok a = true -> conv a = Ok b ->
               json_eqb j a = match b with None => is_null j | Some x => cmp x j end) ->
  enum_supported ok e = true -> enum_list conv e = Ok l ->
  optb e (json_mem j) = enum_ok cmp l j.
Proof.
  intros Hpt Hs Hl. destruct e as [vals|]; cbn in *.
  - destruct vals as [|v vals]; [discriminate|].
    apply map_res_Forall2 in Hl.
    assert (Hne : l <> []) by (inversion Hl; discriminate).
    unfold enum_ok. destruct l as [|b0 l0]; [congruence|].
    unfold json_mem.
    remember (v :: vals) as vs eqn:Evs. remember (b0 :: l0) as bs eqn:Ebs.
    clear Evs Ebs Hne v vals b0 l0.
    induction Hl as [|a b vs bs Hab Hrest IH]; [reflexivity|].
    cbn [forallb] in Hs. apply andb_true_iff in Hs as [Hoka Hs].
    cbn [existsb]. rewrite (Hpt a b Hoka Hab), (IH Hs). reflexivity.
  - inversion Hl; reflexivity.
Qed.

Lemma enum_bool_pt j a b :
  ev_bool a = true -> enum_bool a = Ok b ->
  json_eqb j a = match b with
                 | None => is_null j
                 | Some x => match j with JBool b' => Bool.eqb b' x | _ => false end
                 end.
Proof.
  destruct a; cbn; try discriminate; intros _ [= <-]; destruct j; reflexivity.
Qed.

Lemma enum_str_pt j a b :
  ev_str a = true -> enum_str a = Ok b ->
  json_eqb j a = match b with
                 | None => is_null j
                 | Some x => match j with JStr s' => str_eqb s' x | _ => false end
                 end.
Proof.
  destruct a; cbn; try discriminate; intros _ [= <-]; destruct j; reflexivity.
Qed.

Lemma enum_int_pt j a b :
  ev_int a = true -> enum_int a = Ok b ->
  json_eqb j a = match b with
                 | None => is_null j
                 | Some x => match j with JNum n' => q_eqb (num_q n') (q_of_Z x) | _ => false end
                 end.
Proof.
  destruct a as [| |n| | |]; cbn; try discriminate.
  - intros _ [= <-]; destruct j; reflexivity.
  - destruct n as [z|a d]; cbn; [|discriminate].
    destruct ((i64_min <=? z)%Z && (z <=? i64_max)%Z); cbn; [|discriminate].
    intros _ [= <-]. destruct j; reflexivity.
Qed.

Lemma enum_num_pt j a b :
  ev_num_exact a = true -> enum_num a = Ok b ->
  json_eqb j a = match b with
                 | None => is_null j
                 | Some x => match j with JNum n' => q_eqb (num_q n') x | _ => false end
                 end.
Proof.
  destruct a as [| |n| | |]; cbn; try discriminate.
  - intros _ [= <-]; destruct j; reflexivity.
  - destruct n as [z|a d]; cbn.
    + intros Hlt [= <-]. unfold f64_of_Z. rewrite Hlt. destruct j; reflexivity.
    + intros _ [= <-]. destruct j; reflexivity.
Qed.

(* the shape predicates of [supported] imply those of [convertible] *)
Lemma enum_supported_all ok ok' e :
  (forall a, ok a = true -> ok' a = true) -> enum_supported ok e = true -> enum_all ok' e = true.
Proof.
  intros H. destruct e as [[|v l]|]; cbn; try discriminate; auto.
  rewrite !andb_true_iff. intros [Hv Hl]. split; auto.
  rewrite forallb_forall in *. auto.
Qed.

Lemma ev_num_exact_num a : ev_num_exact a = true -> ev_num a = true.
Proof. destruct a as [| |[]| | |]; cbn; auto. Qed.

(* ---------- bounds ---------- *)
Lemma bound_pair_ok {B} (cast : q -> B) incl excl :
  pair_ok incl excl = true -> exists r, bound_pair cast incl excl = Ok r.
Proof. destruct incl, excl; cbn; try discriminate; eauto. Qed.

Lemma bound_pair_max {B} (cast : q -> B) (inj : B -> q) incl excl r x :
  bound_pair cast incl excl = Ok r ->
  (forall f b, incl = Some f \/ excl = Some f -> max_ok b (inj (cast f)) x = max_ok b f x) ->
  optb (fst r) (fun m => max_ok (snd r) (inj m) x)
  = optb incl (fun m => max_ok false m x) && optb excl (fun m => max_ok true m x).
Proof.
  destruct incl as [f|], excl as [g|]; cbn [bound_pair]; try discriminate;
    intros [= <-] H; cbn [optb fst snd].
  - rewrite H by auto. rewrite andb_true_r. reflexivity.
  - rewrite H by auto. reflexivity.
  - reflexivity.
Qed.

Lemma bound_pair_min {B} (cast : q -> B) (inj : B -> q) incl excl r x :
  bound_pair cast incl excl = Ok r ->
  (forall f b, incl = Some f \/ excl = Some f -> min_ok b (inj (cast f)) x = min_ok b f x) ->
  optb (fst r) (fun m => min_ok (snd r) (inj m) x)
  = optb incl (fun m => min_ok false m x) && optb excl (fun m => min_ok true m x).
Proof.
  destruct incl as [f|], excl as [g|]; cbn [bound_pair]; try discriminate;
    intros [= <-] H; cbn [optb fst snd].
  - rewrite H by auto. rewrite andb_true_r. reflexivity.
  - rewrite H by auto. reflexivity.
  - reflexivity.
Qed.

Lemma exact_max_ok f b x :
  q_i64_exact f = true -> max_ok b (q_of_Z (f64_as_i64 f)) x = max_ok b f x.
Proof.
  intros H. destruct (q_i64_exact_cast f H) as (z & -> & Hz).
  destruct f as [a p]; cbn [fst snd] in Hz; subst a.
  unfold max_ok. destruct b; [rewrite q_ltb_scale_r|rewrite q_leb_scale_r]; reflexivity.
Qed.
Lemma exact_min_ok f b x :
  q_i64_exact f = true -> min_ok b (q_of_Z (f64_as_i64 f)) x = min_ok b f x.
Proof.
  intros H. destruct (q_i64_exact_cast f H) as (z & -> & Hz).
  destruct f as [a p]; cbn [fst snd] in Hz; subst a.
  unfold min_ok. destruct b; [rewrite q_ltb_scale_l|rewrite q_leb_scale_l]; reflexivity.
Qed.
Lemma exact_multiple f x :
  q_i64_exact f = true -> q_multiple x (q_of_Z (f64_as_i64 f)) = q_multiple x f.
Proof.
  intros H. destruct (q_i64_exact_cast f H) as (z & -> & Hz).
  destruct f as [a p]; cbn [fst snd] in Hz; subst a.
  rewrite q_multiple_scale. reflexivity.
Qed.

(* ================================================================ *)

Section Leaf.
  Variable pat_ok : str -> str -> bool.
  Variable fmt_ok : str -> json -> bool.
  Variable rec : oschema -> json -> bool.

  Lemma integer_kind fmt num enum (k : okind oschema) j :
    int_bounds_exact num = true -> enum_supported ev_int enum = true ->
    j2oas_integer fmt num enum = Ok k ->
    valid_okind pat_ok fmt_ok rec k j
    = type_ok TInteger j && optb fmt (fun f => fmt_ok f j) && optb enum (json_mem j)
      && optb num (fun nv => valid_numval nv j).
  Proof.
    intros Hex Hen H. unfold j2oas_integer in H.
    inv_bind_as H b Hb. destruct b as [[mo [mn emn]] [mx emx]].
    inv_bind_as H en Hen'. inversion H; subst k; clear H.
    cbn [valid_okind valid_otype]. unfold valid_ointeger.
    cbn [oi_format oi_multiple_of oi_maximum oi_minimum
         oi_exclusive_maximum oi_exclusive_minimum oi_enumeration].
    rewrite int_format_name.
    destruct j as [| |n| | |]; try reflexivity.
    cbn [type_ok].
    rewrite <- (enum_equiv enum_int _ ev_int (JNum n) enum en (enum_int_pt (JNum n)) Hen Hen').
    destruct num as [nv|].
    - destruct nv as [smo smx semx smn semn]. cbn in Hb, Hex.
      inv_bind_as Hb x Hx1. inv_bind_as Hb x1 Hx2. inversion Hb; subst; clear Hb.
      rewrite !andb_true_iff in Hex. destruct Hex as [[[[Emo Emn] Eemn] Emx] Eemx].
      cbn [optb valid_numval nv_multiple_of nv_maximum nv_exclusive_maximum nv_minimum
           nv_exclusive_minimum].
      pose proof (bound_pair_max f64_as_i64 q_of_Z smx semx (mx, emx) (num_q n) Hx2) as Hmax.
      pose proof (bound_pair_min f64_as_i64 q_of_Z smn semn (mn, emn) (num_q n) Hx1) as Hmin.
      cbn [fst snd] in *.
      rewrite Hmax, Hmin.
      + assert (Hmo : optb (option_map f64_as_i64 smo) (fun m => q_multiple (num_q n) (q_of_Z m))
                      = optb smo (q_multiple (num_q n))).
        { destruct smo as [m|]; cbn; [|reflexivity]. apply exact_multiple; exact Emo. }
        rewrite Hmo. btauto.
      + intros f b [->| ->]; apply exact_min_ok; assumption.
      + intros f b [->| ->]; apply exact_max_ok; assumption.
    - cbn in Hb. inversion Hb; subst; clear Hb. cbn [optb]. btauto.
  Qed.

  Lemma number_kind fmt num enum (k : okind oschema) j :
    enum_supported ev_num_exact enum = true ->
    j2oas_number fmt num enum = Ok k ->
    valid_okind pat_ok fmt_ok rec k j
    = type_ok TNumber j && optb fmt (fun f => fmt_ok f j) && optb enum (json_mem j)
      && optb num (fun nv => valid_numval nv j).
  Proof.
    intros Hen H. unfold j2oas_number in H.
    inv_bind_as H b Hb. destruct b as [[mo [mn emn]] [mx emx]].
    inv_bind_as H en Hen'. inversion H; subst k; clear H.
    cbn [valid_okind valid_otype]. unfold valid_onumber.
    cbn [on_format on_multiple_of on_maximum on_minimum
         on_exclusive_maximum on_exclusive_minimum on_enumeration].
    rewrite num_format_name.
    destruct j as [| |n| | |]; try reflexivity.
    cbn [type_ok].
    rewrite <- (enum_equiv enum_num _ ev_num_exact (JNum n) enum en (enum_num_pt (JNum n)) Hen Hen').
    destruct num as [nv|].
    - destruct nv as [smo smx semx smn semn]. cbn in Hb.
      inv_bind_as Hb x Hx1. inv_bind_as Hb x1 Hx2. inversion Hb; subst; clear Hb.
      cbn [optb valid_numval nv_multiple_of nv_maximum nv_exclusive_maximum nv_minimum
           nv_exclusive_minimum].
      pose proof (bound_pair_max (fun x => x) (fun x => x) smx semx (mx, emx) (num_q n) Hx2) as Hmax.
      pose proof (bound_pair_min (fun x => x) (fun x => x) smn semn (mn, emn) (num_q n) Hx1) as Hmin.
      cbn [fst snd] in *.
      rewrite Hmax, Hmin by reflexivity. btauto.
    - cbn in Hb. inversion Hb; subst; clear Hb. cbn [optb]. btauto.
  Qed.

  Lemma string_kind fmt sv enum (k : okind oschema) j :
    enum_supported ev_str enum = true ->
    j2oas_string fmt sv enum = Ok k ->
    valid_okind pat_ok fmt_ok rec k j
    = type_ok TString j && optb fmt (fun f => fmt_ok f j) && optb enum (json_mem j)
      && optb sv (fun sv => valid_strval pat_ok sv j).
  Proof.
    intros Hen H. unfold j2oas_string in H.
    destruct (match sv with
              | Some sv0 => (sv_max_length sv0, sv_min_length sv0, sv_pattern sv0)
              | None => (None, None, None)
              end) as [[mx mn] pt] eqn:Esv.
    inv_bind_as H en Hen'. inversion H; subst k; clear H.
    cbn [valid_okind valid_otype]. unfold valid_ostring.
    cbn [os_format os_pattern os_enumeration os_min_length os_max_length].
    rewrite str_format_name.
    destruct j as [| | |s| |]; try reflexivity.
    cbn [type_ok].
    rewrite <- (enum_equiv enum_str _ ev_str (JStr s) enum en (enum_str_pt (JStr s)) Hen Hen').
    destruct sv as [[smx smn spt]|]; cbn in Esv; inversion Esv; subst; clear Esv;
      cbn [optb valid_strval sv_max_length sv_min_length sv_pattern]; btauto.
  Qed.

  Lemma boolean_kind enum (l : list (option bool)) j :
    enum_supported ev_bool enum = true ->
    enum_list enum_bool enum = Ok l ->
    valid_okind pat_ok fmt_ok rec (KType (OTBoolean l)) j
    = type_ok TBoolean j && optb enum (json_mem j).
  Proof.
    intros Hen Hl.
    cbn [valid_okind valid_otype]. unfold valid_oboolean.
    destruct j as [|b| | | |]; try reflexivity.
    cbn [type_ok].
    rewrite <- (enum_equiv enum_bool _ ev_bool (JBool b) enum l (enum_bool_pt (JBool b)) Hen Hl).
    reflexivity.
  Qed.
End Leaf.

(* ================================================================ *)

(* ---------- Forall2 transport ---------- *)
Lemma forallb_F2 {A B} (R : A -> B -> Prop) (f : A -> bool) (g : B -> bool) l l' :
  Forall2 R l l' -> (forall a b, In a l -> R a b -> f a = g b) -> forallb f l = forallb g l'.
Proof.
  induction 1 as [|a b l l' Hab _ IH]; intros H; cbn; [reflexivity|].
  rewrite (H a b (or_introl eq_refl) Hab), IH; [reflexivity|].
  intros; apply H; [right|]; assumption.
Qed.
Lemma existsb_F2 {A B} (R : A -> B -> Prop) (f : A -> bool) (g : B -> bool) l l' :
  Forall2 R l l' -> (forall a b, In a l -> R a b -> f a = g b) -> existsb f l = existsb g l'.
Proof.
  induction 1 as [|a b l l' Hab _ IH]; intros H; cbn; [reflexivity|].
  rewrite (H a b (or_introl eq_refl) Hab), IH; [reflexivity|].
  intros; apply H; [right|]; assumption.
Qed.
Lemma count_F2 {A B} (R : A -> B -> Prop) (f : A -> bool) (g : B -> bool) l l' :
  Forall2 R l l' -> (forall a b, In a l -> R a b -> f a = g b) -> count_true f l = count_true g l'.
Proof.
  induction 1 as [|a b l l' Hab _ IH]; intros H; cbn; [reflexivity|].
  rewrite (H a b (or_introl eq_refl) Hab), IH; [reflexivity|].
  intros; apply H; [right|]; assumption.
Qed.

Lemma has_key_F2 {A B} (R : A -> B -> Prop) (l : list (str * A)) (l' : list (str * B)) k :
  Forall2 (fun a b => fst a = fst b /\ R (snd a) (snd b)) l l' -> has_key k l = has_key k l'.
Proof.
  unfold has_key. induction 1 as [|[ka a] [kb b] l l' [Hk _] _ IH]; cbn; [reflexivity|].
  cbn in Hk; subst kb. destruct (str_eqb k ka); [reflexivity|exact IH].
Qed.

Lemma forallb_ext' {A} (f g : A -> bool) l : (forall a, f a = g a) -> forallb f l = forallb g l.
Proof. intros H. induction l; cbn; [reflexivity|]. rewrite H, IHl. reflexivity. Qed.

Lemma forallb_ext_in {A} (f g : A -> bool) l :
  (forall a, In a l -> f a = g a) -> forallb f l = forallb g l.
Proof.
  induction l as [|a l IH]; intros H; cbn; [reflexivity|].
  rewrite (H a (or_introl eq_refl)), IH; [reflexivity|]. intros; apply H; right; assumption.
Qed.

Lemma forallb_true {A} (l : list A) : forallb (fun _ => true) l = true.
Proof. induction l; cbn; auto. Qed.

(* ---------- sizes of children ---------- *)
Lemma size_list_In (c : schema) l : In c l -> (schema_size c < S (size_list schema_size l))%nat.
Proof.
  induction l as [|a l IH]; cbn; [tauto|]. intros [->|H]; [lia|]. specialize (IH H). lia.
Qed.
Lemma size_plist_In (p : str * schema) l :
  In p l -> (schema_size (snd p) < S (size_plist schema_size l))%nat.
Proof.
  induction l as [|[k a] l IH]; cbn; [tauto|]. intros [<-|H]; cbn; [lia|]. specialize (IH H). lia.
Qed.

(* ---------- validations that do not apply to the instance ---------- *)
Section Irrel.
  Variable pat_ok : str -> str -> bool.
  Lemma numval_irrel nv j : (forall n, j <> JNum n) -> optb nv (fun nv => valid_numval nv j) = true.
  Proof. destruct nv; cbn; auto. destruct j; auto. intros H; exfalso; eapply H; eauto. Qed.
  Lemma strval_irrel sv j :
    (forall s, j <> JStr s) -> optb sv (fun sv => valid_strval pat_ok sv j) = true.
  Proof. destruct sv; cbn; auto. destruct j; auto. intros H; exfalso; eapply H; eauto. Qed.
  Lemma arrval_irrel rec (av : option (arrval schema)) j :
    (forall l, j <> JArr l) -> optb av (fun av => valid_arrval rec av j) = true.
  Proof. destruct av; cbn; auto. destruct j; auto. intros H; exfalso; eapply H; eauto. Qed.
  Lemma objval_irrel rec (ov : option (objval schema)) j :
    (forall l, j <> JObj l) -> optb ov (fun ov => valid_objval pat_ok rec ov j) = true.
  Proof. destruct ov; cbn; auto. destruct j; auto. intros H; exfalso; eapply H; eauto. Qed.

  (* trivial validations accept everything *)
  Lemma numval_trivial_ok nv j : numval_trivial nv = true -> optb nv (fun nv => valid_numval nv j) = true.
  Proof.
    destruct nv as [[a b c d e]|]; cbn; auto.
    destruct a, b, c, d, e; cbn; try discriminate. destruct j; reflexivity.
  Qed.
  Lemma strval_trivial_ok sv j :
    strval_trivial sv = true -> optb sv (fun sv => valid_strval pat_ok sv j) = true.
  Proof.
    destruct sv as [[a b c]|]; cbn; auto.
    destruct a, b, c; cbn; try discriminate. destruct j; reflexivity.
  Qed.
  Lemma arrval_trivial_ok rec av j :
    arrval_trivial av = true -> optb av (fun av => valid_arrval rec av j) = true.
  Proof.
    destruct av as [[a b c d e f]|]; cbn; auto.
    destruct a, b, c, d, e, f; cbn; try discriminate. destruct j; reflexivity.
  Qed.
  Lemma objval_trivial_ok rec ov j :
    objval_trivial ov = true -> optb ov (fun ov => valid_objval pat_ok rec ov j) = true.
  Proof.
    destruct ov as [[a b c d e f g]|]; cbn; auto.
    destruct a, b, c, d, e, f, g; cbn; try discriminate. destruct j; reflexivity.
  Qed.
End Irrel.

(* ================================================================ *)

Section Main.
  Variable env : str -> json -> bool.
  Variable pat_ok : str -> str -> bool.
  Variable fmt_ok : str -> json -> bool.

  Notation VJ := (valid_js env pat_ok fmt_ok).
  Notation VO := (valid_oas env pat_ok fmt_ok).

  (* the statement for one schema *)
  Definition preserved_at (s : schema) : Prop :=
    forall name o, supported_with false false s = true -> j2oas name s = Ok o ->
                   forall j, VO o j = VJ s j.

  Lemma object_case (ov : option (objval schema)) k j :
    (forall p, match ov with Some ov => In p (ov_properties ov) | None => False end ->
               preserved_at (snd p)) ->
    (forall a, match ov with Some ov => ov_additional_properties ov = Some a | None => False end ->
               preserved_at a) ->
    match ov with
    | None => true
    | Some ov =>
        is_nil (ov_pattern_properties ov) && is_none (ov_property_names ov)
        && forallb (fun p => supported_with false false (snd p)) (ov_properties ov)
        && conv_addl (supported_with false false) (ov_additional_properties ov)
    end = true ->
    j2oas_object (j2oas None) ov = Ok k ->
    valid_okind pat_ok fmt_ok VO k j
    = type_ok TObject j && optb ov (fun ov => valid_objval pat_ok VJ ov j).
  Proof.
    intros IHp IHa Hs H. unfold j2oas_object in H.
    destruct ov as [ov|].
    - destruct ov as [maxp minp req props pprops ap pn].
      cbn [ov_properties ov_additional_properties ov_pattern_properties ov_property_names
           ov_required ov_min_properties ov_max_properties] in *.
      inv_bind_as H props' Hprops. inv_bind_as H ap' Hap. inversion H; subst k; clear H.
      rewrite !andb_true_iff in Hs. destruct Hs as [[[Hpp Hpn] Hsp] Hsa].
      destruct pprops; [|discriminate]. destruct pn; [discriminate|].
      cbn [valid_okind valid_otype]. unfold valid_oobject.
      cbn [oo_properties oo_required oo_additional_properties oo_min_properties oo_max_properties].
      destruct j as [| | | | |kvs]; try reflexivity.
      cbn [type_ok optb valid_objval ov_properties ov_additional_properties ov_pattern_properties
           ov_property_names ov_required ov_min_properties ov_max_properties forallb existsb].
      apply map_res_snd_Forall2 in Hprops.
      assert (Hprops_eq :
                forallb (fun p => match lookup (fst p) kvs with
                                  | Some v => VO (snd p) v | None => true end) props'
                = forallb (fun p => match lookup (fst p) kvs with
                                    | Some v => VJ (snd p) v | None => true end) props).
      { symmetry. eapply forallb_F2; [exact Hprops|].
        intros a b Hin [Hk Hab]. rewrite Hk. destruct (lookup (fst b) kvs); [|reflexivity].
        symmetry. eapply IHp; eauto.
        rewrite forallb_forall in Hsp. apply Hsp; exact Hin. }
      rewrite Hprops_eq.
      assert (Hkeys : forall k0, has_key k0 props' = has_key k0 props).
      { intros k0. symmetry. eapply has_key_F2 with (R := fun a b => j2oas None a = Ok b). exact Hprops. }
      assert (Hap_eq :
                match ap' with
                | None => true
                | Some (AAny true) => true
                | Some (AAny false) => forallb (fun kv => has_key (fst kv) props') kvs
                | Some (ASchema a) =>
                    forallb (fun kv => if has_key (fst kv) props' then true else VO a (snd kv)) kvs
                end
                = optb ap (fun a => forallb (fun kv => if has_key (fst kv) props || false
                                                       then true else VJ a (snd kv)) kvs)).
      { unfold j2oas_addl in Hap. destruct ap as [a|]; [|inversion Hap; reflexivity].
        destruct a as [b|oa].
        - inversion Hap; subst ap'; clear Hap. cbn [optb valid_js].
          destruct b.
          + symmetry. erewrite forallb_ext'; [apply forallb_true|].
            intros kv; cbn. destruct (has_key (fst kv) props || false); reflexivity.
          + apply forallb_ext'. intros kv. rewrite Hkeys, orb_false_r.
            destruct (has_key (fst kv) props); reflexivity.
        - inv_bind_as Hap oa' Hoa. inversion Hap; subst ap'; clear Hap. cbn [optb].
          apply forallb_ext'. intros kv. rewrite Hkeys, orb_false_r.
          destruct (has_key (fst kv) props); [reflexivity|].
          cbn in Hsa. eapply IHa; eauto. }
      rewrite Hap_eq. btauto.
    - inversion H; subst k; clear H.
      cbn [valid_okind valid_otype]. unfold valid_oobject.
      cbn [oo_properties oo_required oo_additional_properties oo_min_properties oo_max_properties].
      destruct j; reflexivity.
  Qed.

  Lemma array_case (av : option (arrval schema)) k j :
    (forall i, match av with Some av => av_items av = Some (Single i) | None => False end ->
               preserved_at i) ->
    match av with
    | None => false
    | Some av =>
        is_none (av_contains av) &&
        match av_items av with
        | None => true
        | Some (Single i) => supported_with false false i
        | Some (Multi _) => false
        end
    end = true ->
    j2oas_array (j2oas None) av = Ok k ->
    valid_okind pat_ok fmt_ok VO k j
    = type_ok TArray j && optb av (fun av => valid_arrval VJ av j).
  Proof.
    intros IHi Hs H. unfold j2oas_array in H.
    destruct av as [av|]; [|discriminate].
    destruct av as [items addl maxi mini uniq cont].
    cbn [av_items av_additional_items av_max_items av_min_items av_unique_items av_contains] in *.
    inv_bind_as H items' Hitems. inversion H; subst k; clear H.
    apply andb_true_iff in Hs as [Hc Hs]. destruct cont; [discriminate|].
    cbn [valid_okind valid_otype]. unfold valid_oarray.
    cbn [oa_items oa_min_items oa_max_items oa_unique_items].
    destruct j as [| | | |l|]; try reflexivity.
    cbn [type_ok optb valid_arrval av_items av_additional_items av_max_items av_min_items
         av_unique_items av_contains].
    assert (Hit : optb items' (fun s => forallb (VO s) l)
                  = match items with
                    | None => true
                    | Some (Single s) => forallb (VJ s) l
                    | Some (Multi ss) => valid_tuple VJ addl ss l
                    end).
    { destruct items as [[i|ss]|]; try discriminate.
      - inv_bind_as Hitems i' Hi. inversion Hitems; subst items'. cbn [optb].
        apply forallb_ext'. intros x. eapply IHi; eauto.
      - inversion Hitems; reflexivity. }
    rewrite Hit.
    destruct uniq as [[|]|]; btauto.
  Qed.

  Lemma subs_case (sb : subsval schema) k j :
    (forall c, In c (match sb_all_of sb with Some l => l | None => [] end) -> preserved_at c) ->
    (forall c, In c (match sb_any_of sb with Some l => l | None => [] end) -> preserved_at c) ->
    (forall c, In c (match sb_one_of sb with Some l => l | None => [] end) -> preserved_at c) ->
    (forall c, sb_not sb = Some c -> preserved_at c) ->
    no_if sb = true -> subs_all (supported_with false false) sb = true ->
    j2oas_subschemas (j2oas None) sb = Ok k ->
    valid_okind pat_ok fmt_ok VO k j = valid_subs VJ sb j.
  Proof.
    intros IHall IHany IHone IHnot Hnoif Hs H.
    destruct sb as [all any one nt i th el].
    unfold no_if in Hnoif. cbn [sb_if sb_then sb_else] in Hnoif.
    destruct i, th, el; try discriminate. clear Hnoif.
    unfold j2oas_subschemas in H. unfold subs_all in Hs. unfold valid_subs.
    cbn [sb_all_of sb_any_of sb_one_of sb_not sb_if sb_then sb_else] in *.
    destruct all as [l|], any as [l2|], one as [l3|], nt as [n|]; try discriminate.
    - inv_bind_as H l' Hl. inversion H; subst k; clear H. cbn [valid_okind optb].
      apply map_res_Forall2 in Hl. rewrite !andb_true_r.
      symmetry. eapply forallb_F2; [exact Hl|].
      intros a b Hin Hab. symmetry.
      apply (IHall a Hin None b); [rewrite forallb_forall in Hs; auto|exact Hab].
    - inv_bind_as H l' Hl. inversion H; subst k; clear H. cbn [valid_okind optb].
      apply map_res_Forall2 in Hl. rewrite !andb_true_r. cbn [andb].
      symmetry. eapply existsb_F2; [exact Hl|].
      intros a b Hin Hab. symmetry.
      apply (IHany a Hin None b); [rewrite forallb_forall in Hs; auto|exact Hab].
    - inv_bind_as H l' Hl. inversion H; subst k; clear H. cbn [valid_okind optb].
      apply map_res_Forall2 in Hl. rewrite !andb_true_r. cbn [andb].
      f_equal. symmetry. eapply count_F2; [exact Hl|].
      intros a b Hin Hab. symmetry.
      apply (IHone a Hin None b); [rewrite forallb_forall in Hs; auto|exact Hab].
    - inv_bind_as H n' Hn. inversion H; subst k; clear H. cbn [valid_okind optb].
      rewrite !andb_true_r. cbn [andb]. f_equal. eapply IHnot; eauto.
  Qed.

  Theorem preserved_all : forall n s, (schema_size s <= n)%nat -> preserved_at s.
  Proof.
    induction n as [|n IH]; intros s Hsz.
    { destruct s; cbn in Hsz; lia. }
    intros name o Hsup Hj j.
    destruct s as [b|so].
    { cbn in Hsup. subst b. cbn in Hj. inversion Hj; subst o. reflexivity. }
    destruct so as [md ity fmt en cst subs num sv arr obj ref ext].
    cbn [j2oas so_reference so_instance_type so_subschemas so_enum_values so_object so_array
         so_format so_number so_string] in Hj.
    cbn [supported_with so_reference so_instance_type so_subschemas so_enum_values so_object
         so_array so_format so_number so_string so_const_value] in Hsup.
    cbn [valid_js so_reference so_instance_type so_subschemas so_enum_values so_object so_array
         so_format so_number so_string so_const_value so_extensions].
    destruct ref as [r|].
    { (* a reference; {$ref, nullable: true} is published as {allOf: [$ref], nullable: true} *)
      cbn [so_extensions] in Hj. destruct (ext_nullable ext); inversion Hj; subst o.
      - cbn [valid_oas valid_okind forallb sd_nullable]. rewrite andb_true_r. reflexivity.
      - reflexivity. }
    apply andb_true_iff in Hsup as [Hcst Hsup]. destruct cst; [discriminate|]. clear Hcst.
    inv_bind_as Hj ty Hty. inv_bind_as Hj kind Hkind. inversion Hj; subst o; clear Hj.
    cbn [valid_oas j2oas_data sd_nullable so_extensions].
    f_equal.
    cbn [schema_size so_subschemas so_array so_object] in Hsz.
    destruct ity as [[t|ts]|]; cbn in Hty; inversion Hty; subst ty; clear Hty.
    - (* a single type *)
      destruct subs as [sb|]; [destruct t; discriminate|].
      cbn [optb valid_type].
      destruct t.
      + (* null *) cbn in Hsup. discriminate.
      + (* boolean *)
        apply andb_true_iff in Hsup as [Hf He]. destruct fmt; [discriminate|].
        inv_bind_as Hkind e He'. inversion Hkind; subst kind; clear Hkind.
        rewrite (boolean_kind pat_ok fmt_ok VO en e j He He').
        destruct j; cbn [type_ok andb]; try reflexivity.
        rewrite numval_irrel, strval_irrel, arrval_irrel, objval_irrel by (intros; discriminate).
        cbn [optb]. btauto.
      + (* object *)
        apply andb_true_iff in Hsup as [Hf Hsup]. apply andb_true_iff in Hf as [Hf He].
        destruct fmt; [discriminate|]. destruct en; [discriminate|].
        rewrite (object_case obj kind j); auto.
        * destruct j; cbn [type_ok andb]; try reflexivity.
          rewrite numval_irrel, strval_irrel, arrval_irrel by (intros; discriminate).
          cbn [optb]. btauto.
        * intros p Hp. destruct obj as [ov|]; [|contradiction]. apply IH.
          pose proof (size_plist_In p _ Hp). lia.
        * intros a Ha. destruct obj as [ov|]; [|contradiction]. apply IH.
          rewrite Ha in Hsz. cbn [size_opt] in Hsz. lia.
      + (* array *)
        apply andb_true_iff in Hsup as [Hf Hsup]. apply andb_true_iff in Hf as [Hf He].
        destruct fmt; [discriminate|]. destruct en; [discriminate|].
        rewrite (array_case arr kind j); auto.
        * destruct j; cbn [type_ok andb]; try reflexivity.
          rewrite numval_irrel, strval_irrel, objval_irrel by (intros; discriminate).
          cbn [optb]. btauto.
        * intros i Hi. destruct arr as [av|]; [|contradiction]. apply IH.
          rewrite Hi in Hsz. cbn [size_sov] in Hsz. lia.
      + (* number *)
        apply andb_true_iff in Hsup as [Hb He].
        rewrite (number_kind pat_ok fmt_ok VO fmt num en kind j He Hkind).
        destruct j; cbn [type_ok andb]; try reflexivity.
        rewrite strval_irrel, arrval_irrel, objval_irrel by (intros; discriminate).
        btauto.
      + (* string *)
        rewrite (string_kind pat_ok fmt_ok VO fmt sv en kind j Hsup Hkind).
        destruct j; cbn [type_ok andb]; try reflexivity.
        rewrite numval_irrel, arrval_irrel, objval_irrel by (intros; discriminate).
        btauto.
      + (* integer *)
        apply andb_true_iff in Hsup as [Hb He]. apply andb_true_iff in Hb as [Hb Hx].
        rewrite (integer_kind pat_ok fmt_ok VO fmt num en kind j Hx He Hkind).
        destruct j; cbn [type_ok andb]; try reflexivity.
        rewrite strval_irrel, arrval_irrel, objval_irrel by (intros; discriminate).
        btauto.
    - (* no type *)
      destruct subs as [sb|].
      + rewrite !andb_true_iff in Hsup. destruct Hsup as [[Hnoif Htriv] Hall].
        unfold untyped_rest_trivial in Htriv.
        cbn [so_format so_enum_values so_number so_string so_array so_object] in Htriv.
        rewrite !andb_true_iff in Htriv. destruct Htriv as [[[[[Hf He] Hn] Hs] Ha] Ho].
        destruct fmt; [discriminate|]. destruct en; [discriminate|].
        cbn [optb valid_type].
        rewrite numval_trivial_ok, strval_trivial_ok, arrval_trivial_ok, objval_trivial_ok by assumption.
        rewrite !andb_true_r. cbn [andb].
        eapply subs_case; eauto.
        * intros c Hc. apply IH. destruct (sb_all_of sb) as [l|]; [|contradiction].
          pose proof (size_list_In c l Hc). cbn [size_optlist] in Hsz. lia.
        * intros c Hc. apply IH. destruct (sb_any_of sb) as [l|]; [|contradiction].
          pose proof (size_list_In c l Hc). cbn [size_optlist] in Hsz. lia.
        * intros c Hc. apply IH. destruct (sb_one_of sb) as [l|]; [|contradiction].
          pose proof (size_list_In c l Hc). cbn [size_optlist] in Hsz. lia.
        * intros c Hc. apply IH. rewrite Hc in Hsz. cbn [size_opt] in Hsz. lia.
      + inversion Hkind; subst kind; clear Hkind. cbn [valid_okind].
        unfold untyped_rest_trivial in Hsup.
        cbn [so_format so_enum_values so_number so_string so_array so_object] in Hsup.
        rewrite !andb_true_iff in Hsup. destruct Hsup as [[[[[Hf He] Hn] Hs] Ha] Ho].
        destruct fmt; [discriminate|]. destruct en; [discriminate|].
        cbn [optb valid_type].
        rewrite numval_trivial_ok, strval_trivial_ok, arrval_trivial_ok, objval_trivial_ok by assumption.
        reflexivity.
  Qed.
End Main.

(* ================================================================ *)

(* ---------- when the converter succeeds ---------- *)
Lemma is_ok_bind {E A B} (r : res E A) (f : A -> res E B) :
  is_ok (bind r f) = match r with Ok a => is_ok (f a) | Err _ => false end.
Proof. destruct r; reflexivity. Qed.

Lemma is_ok_map_res {A B} (f : A -> jres B) l :
  is_ok (map_res f l) = forallb (fun a => is_ok (f a)) l.
Proof.
  induction l as [|a l IH]; cbn; [reflexivity|].
  destruct (f a); cbn; [|reflexivity].
  rewrite <- IH. destruct (map_res f l); reflexivity.
Qed.

Lemma is_ok_map_res_snd {A B} (f : A -> jres B) (l : list (str * A)) :
  is_ok (map_res_snd f l) = forallb (fun p => is_ok (f (snd p))) l.
Proof.
  induction l as [|[k a] l IH]; cbn; [reflexivity|].
  destruct (f a); cbn; [|reflexivity].
  rewrite <- IH. destruct (map_res_snd f l); reflexivity.
Qed.

Lemma is_ok_enum_list {B} (f : json -> jres (option B)) ok e :
  (forall a, is_ok (f a) = ok a) -> is_ok (enum_list f e) = enum_all ok e.
Proof.
  intros H. destruct e as [l|]; cbn; [|reflexivity].
  rewrite is_ok_map_res. apply forallb_ext'. exact H.
Qed.

Lemma is_ok_enum_bool a : is_ok (enum_bool a) = ev_bool a.
Proof. destruct a; reflexivity. Qed.
Lemma is_ok_enum_str a : is_ok (enum_str a) = ev_str a.
Proof. destruct a; reflexivity. Qed.
Lemma is_ok_enum_num a : is_ok (enum_num a) = ev_num a.
Proof. destruct a; reflexivity. Qed.
Lemma is_ok_enum_int a : is_ok (enum_int a) = ev_int a.
Proof. destruct a as [| |n| | |]; try reflexivity. cbn. destruct (num_as_i64 n); reflexivity. Qed.

Lemma is_ok_bound_pair {B} (cast : q -> B) a b : is_ok (bound_pair cast a b) = pair_ok a b.
Proof. destruct a, b; reflexivity. Qed.

Lemma is_ok_integer {A} fmt num en :
  is_ok (@j2oas_integer A fmt num en) = bounds_convertible num && enum_all ev_int en.
Proof.
  unfold j2oas_integer. rewrite is_ok_bind.
  destruct num as [nv|]; cbn [bounds_convertible].
  - rewrite <- (is_ok_bound_pair f64_as_i64 (nv_minimum nv)), <- (is_ok_bound_pair f64_as_i64 (nv_maximum nv)).
    destruct (bound_pair f64_as_i64 (nv_minimum nv) (nv_exclusive_minimum nv)) as [[a b]|]; cbn; [|reflexivity].
    destruct (bound_pair f64_as_i64 (nv_maximum nv) (nv_exclusive_maximum nv)) as [[c d]|]; cbn; [|reflexivity].
    rewrite is_ok_bind, <- (is_ok_enum_list enum_int ev_int en is_ok_enum_int).
    destruct (enum_list enum_int en); reflexivity.
  - cbn. rewrite is_ok_bind, <- (is_ok_enum_list enum_int ev_int en is_ok_enum_int).
    destruct (enum_list enum_int en); reflexivity.
Qed.

Lemma is_ok_number {A} fmt num en :
  is_ok (@j2oas_number A fmt num en) = bounds_convertible num && enum_all ev_num en.
Proof.
  unfold j2oas_number. rewrite is_ok_bind.
  destruct num as [nv|]; cbn [bounds_convertible].
  - rewrite <- (is_ok_bound_pair (fun x => x) (nv_minimum nv)), <- (is_ok_bound_pair (fun x => x) (nv_maximum nv)).
    destruct (bound_pair (fun x => x) (nv_minimum nv) (nv_exclusive_minimum nv)) as [[a b]|]; cbn; [|reflexivity].
    destruct (bound_pair (fun x => x) (nv_maximum nv) (nv_exclusive_maximum nv)) as [[c d]|]; cbn; [|reflexivity].
    rewrite is_ok_bind, <- (is_ok_enum_list enum_num ev_num en is_ok_enum_num).
    destruct (enum_list enum_num en); reflexivity.
  - cbn. rewrite is_ok_bind, <- (is_ok_enum_list enum_num ev_num en is_ok_enum_num).
    destruct (enum_list enum_num en); reflexivity.
Qed.

Lemma is_ok_string {A} fmt sv en :
  is_ok (@j2oas_string A fmt sv en) = enum_all ev_str en.
Proof.
  unfold j2oas_string.
  destruct (match sv with
            | Some sv0 => (sv_max_length sv0, sv_min_length sv0, sv_pattern sv0)
            | None => (None, None, None)
            end) as [[mx mn] pt].
  rewrite is_ok_bind, <- (is_ok_enum_list enum_str ev_str en is_ok_enum_str).
  destruct (enum_list enum_str en); reflexivity.
Qed.

Definition ok_at (s : schema) : Prop := forall name, is_ok (j2oas name s) = convertible s.

Theorem j2oas_ok_convertible_n : forall n s, (schema_size s <= n)%nat -> ok_at s.
Proof.
  induction n as [|n IH]; intros s Hsz.
  { destruct s; cbn in Hsz; lia. }
  intros name. destruct s as [b|so].
  { destruct b; reflexivity. }
  destruct so as [md ity fmt en cst subs num sv arr obj ref ext].
  cbn [j2oas convertible so_reference so_instance_type so_subschemas so_enum_values so_object
       so_array so_format so_number so_string].
  destruct ref as [r|]; [destruct (ext_nullable (so_extensions _)); reflexivity|].
  cbn [schema_size so_subschemas so_array so_object] in Hsz.
  destruct ity as [[t|ts]|]; cbn [bind]; [| reflexivity |].
  - destruct subs as [sb|]; [destruct t; reflexivity|].
    rewrite is_ok_bind.
    destruct t.
    + reflexivity.
    + rewrite <- (is_ok_enum_list enum_bool ev_bool en is_ok_enum_bool).
      destruct (enum_list enum_bool en); reflexivity.
    + (* object *)
      transitivity (is_ok (j2oas_object (j2oas None) obj)).
      { destruct (j2oas_object (j2oas None) obj); reflexivity. }
      unfold j2oas_object. destruct obj as [ov|]; [|reflexivity].
      rewrite is_ok_bind.
      assert (Hp : is_ok (map_res_snd (j2oas None) (ov_properties ov))
                   = forallb (fun p => convertible (snd p)) (ov_properties ov)).
      { rewrite is_ok_map_res_snd. apply forallb_ext_in.
        intros p Hp. apply IH. pose proof (size_plist_In p _ Hp). lia. }
      rewrite <- Hp. destruct (map_res_snd (j2oas None) (ov_properties ov)); cbn [is_ok andb]; [|reflexivity].
      rewrite is_ok_bind.
      assert (Ha : is_ok (j2oas_addl (j2oas None) (ov_additional_properties ov))
                   = conv_addl convertible (ov_additional_properties ov)).
      { unfold j2oas_addl, conv_addl. destruct (ov_additional_properties ov) as [[b|oa]|] eqn:Eap; try reflexivity.
        rewrite is_ok_bind. rewrite <- (IH (SObj oa)) with (name := None).
        - destruct (j2oas None (SObj oa)); reflexivity.
        - cbn [size_opt] in Hsz. lia. }
      rewrite <- Ha. destruct (j2oas_addl (j2oas None) (ov_additional_properties ov)); reflexivity.
    + (* array *)
      transitivity (is_ok (j2oas_array (j2oas None) arr)).
      { destruct (j2oas_array (j2oas None) arr); reflexivity. }
      unfold j2oas_array. destruct arr as [av|]; [|reflexivity].
      rewrite is_ok_bind.
      destruct (av_items av) as [[i|ss]|] eqn:Eit; try reflexivity.
      rewrite <- (IH i) with (name := None).
      * destruct (j2oas None i); reflexivity.
      * cbn [size_sov] in Hsz. lia.
    + transitivity (is_ok (@j2oas_number oschema fmt num en)).
      { destruct (@j2oas_number oschema fmt num en); reflexivity. }
      apply is_ok_number.
    + transitivity (is_ok (@j2oas_string oschema fmt sv en)).
      { destruct (@j2oas_string oschema fmt sv en); reflexivity. }
      apply is_ok_string.
    + transitivity (is_ok (@j2oas_integer oschema fmt num en)).
      { destruct (@j2oas_integer oschema fmt num en); reflexivity. }
      apply is_ok_integer.
  - destruct subs as [sb|]; [|reflexivity].
    rewrite is_ok_bind.
    transitivity (is_ok (j2oas_subschemas (j2oas None) sb)).
    { destruct (j2oas_subschemas (j2oas None) sb); reflexivity. }
    unfold j2oas_subschemas, subs_all.
    destruct sb as [all any one nt i th el].
    cbn [sb_all_of sb_any_of sb_one_of sb_not] in *.
    assert (HL : forall l, (S (size_list schema_size l) <= n)%nat ->
                           is_ok (map_res (j2oas None) l) = forallb convertible l).
    { intros l Hl. rewrite is_ok_map_res. apply forallb_ext_in.
      intros c Hc. apply IH. pose proof (size_list_In c l Hc). lia. }
    destruct all as [l|], any as [l2|], one as [l3|], nt as [c|]; try reflexivity;
      rewrite is_ok_bind.
    + rewrite <- HL by (cbn [size_optlist] in Hsz; lia).
      destruct (map_res (j2oas None) l); reflexivity.
    + rewrite <- HL by (cbn [size_optlist] in Hsz; lia).
      destruct (map_res (j2oas None) l2); reflexivity.
    + rewrite <- HL by (cbn [size_optlist] in Hsz; lia).
      destruct (map_res (j2oas None) l3); reflexivity.
    + rewrite <- (IH c) with (name := None) by (cbn [size_opt] in Hsz; lia).
      destruct (j2oas None c); reflexivity.
Qed.

(* ================================================================ *)

Lemma supported_convertible_n b b2 :
  forall n s, (schema_size s <= n)%nat -> supported_with b b2 s = true -> convertible s = true.
Proof.
  induction n as [|n IH]; intros s Hsz.
  { destruct s; cbn in Hsz; lia. }
  destruct s as [c|so]; [auto|].
  destruct so as [md ity fmt en cst subs num sv arr obj ref ext].
  cbn [supported_with convertible so_reference so_instance_type so_subschemas so_enum_values
       so_object so_array so_format so_number so_string so_const_value].
  destruct ref as [r|]; [auto|].
  cbn [schema_size so_subschemas so_array so_object] in Hsz.
  intros H. apply andb_true_iff in H as [_ H].
  destruct ity as [[t|ts]|]; [| discriminate |].
  - destruct subs as [sb|]; [destruct t; discriminate|].
    destruct t.
    + reflexivity.
    + apply andb_true_iff in H as [_ H]. exact (enum_supported_all ev_bool ev_bool en (fun a h => h) H).
    + (* object *)
      apply andb_true_iff in H as [_ H].
      destruct obj as [ov|]; [|reflexivity].
      rewrite !andb_true_iff in H. destruct H as [[[_ _] Hp] Ha].
      apply andb_true_iff; split.
      * rewrite forallb_forall in *. intros p Hin. apply IH; auto.
        pose proof (size_plist_In p _ Hin). lia.
      * unfold conv_addl in *. destruct (ov_additional_properties ov) as [[c|oa]|] eqn:E; auto.
        apply IH; auto. cbn [size_opt] in Hsz. lia.
    + (* array *)
      apply andb_true_iff in H as [_ H].
      destruct arr as [av|]; [|discriminate].
      apply andb_true_iff in H as [_ H].
      destruct (av_items av) as [[i|ss]|] eqn:E; auto.
      apply IH; auto. cbn [size_sov] in Hsz. lia.
    + apply andb_true_iff in H as [Hb He]. rewrite Hb. cbn [andb].
      exact (enum_supported_all ev_num_exact ev_num en ev_num_exact_num He).
    + exact (enum_supported_all ev_str ev_str en (fun a h => h) H).
    + rewrite !andb_true_iff in H. destruct H as [[Hb _] He]. rewrite Hb. cbn [andb].
      exact (enum_supported_all ev_int ev_int en (fun a h => h) He).
  - destruct subs as [sb|]; [|reflexivity].
    rewrite !andb_true_iff in H. destruct H as [[_ _] H].
    unfold subs_all in *.
    destruct sb as [all any one nt i th el].
    cbn [sb_all_of sb_any_of sb_one_of sb_not] in *.
    assert (HL : forall l, (S (size_list schema_size l) <= n)%nat ->
                           forallb (supported_with b b2) l = true -> forallb convertible l = true).
    { intros l Hl Hs. rewrite forallb_forall in *. intros c Hc. apply IH; auto.
      pose proof (size_list_In c l Hc). lia. }
    destruct all as [l|], any as [l2|], one as [l3|], nt as [c|]; try discriminate.
    + apply HL; auto. cbn [size_optlist] in Hsz. lia.
    + apply HL; auto. cbn [size_optlist] in Hsz. lia.
    + apply HL; auto. cbn [size_optlist] in Hsz. lia.
    + apply IH; auto. cbn [size_opt] in Hsz. lia.
Qed.

(* [supported_with false false] is the smallest class *)
Lemma supported_faithful_mono_n b1 b2 :
  forall n s, (schema_size s <= n)%nat -> supported_with false false s = true -> supported_with b1 b2 s = true.
Proof.
  induction n as [|n IH]; intros s Hsz.
  { destruct s; cbn in Hsz; lia. }
  destruct s as [c|so]; [auto|].
  destruct so as [md ity fmt en cst subs num sv arr obj ref ext].
  cbn [supported_with so_reference so_instance_type so_subschemas so_enum_values
       so_object so_array so_format so_number so_string so_const_value].
  destruct ref as [r|]; [auto|].
  cbn [schema_size so_subschemas so_array so_object] in Hsz.
  intros H. apply andb_true_iff in H as [Hc H]. rewrite Hc. cbn [andb].
  destruct ity as [[t|ts]|]; [| discriminate |].
  - destruct subs as [sb|]; [destruct t; discriminate|].
    destruct t; auto.
    + (* null *) cbn in H. discriminate.
    + (* object *)
      apply andb_true_iff in H as [H0 H]. rewrite H0. cbn [andb].
      destruct obj as [ov|]; [|reflexivity].
      rewrite !andb_true_iff in H. destruct H as [[[H1 H2] Hp] Ha].
      rewrite H1, H2. cbn [andb].
      apply andb_true_iff; split.
      * rewrite forallb_forall in *. intros p Hin. apply IH; auto.
        pose proof (size_plist_In p _ Hin). lia.
      * unfold conv_addl in *. destruct (ov_additional_properties ov) as [[c|oa]|] eqn:E; auto.
        apply IH; auto. cbn [size_opt] in Hsz. lia.
    + (* array *)
      apply andb_true_iff in H as [H0 H]. rewrite H0. cbn [andb].
      destruct arr as [av|]; [|discriminate].
      apply andb_true_iff in H as [H1 H]. rewrite H1. cbn [andb].
      destruct (av_items av) as [[i|ss]|] eqn:E; auto.
      apply IH; auto. cbn [size_sov] in Hsz. lia.
    + (* integer *) rewrite !andb_true_iff in H. destruct H as [[Hb Hx] He].
      rewrite Hb, He. cbn in Hx. rewrite Hx, orb_true_r. reflexivity.
  - destruct subs as [sb|]; [|auto].
    rewrite !andb_true_iff in H. destruct H as [[H1 H2] H]. rewrite H1, H2. cbn [andb].
    unfold subs_all in *.
    destruct sb as [all any one nt i th el].
    cbn [sb_all_of sb_any_of sb_one_of sb_not] in *.
    assert (HL : forall l, (S (size_list schema_size l) <= n)%nat ->
                           forallb (supported_with false false) l = true ->
                           forallb (supported_with b1 b2) l = true).
    { intros l Hl Hs. rewrite forallb_forall in *. intros c Hc'. apply IH; auto.
      pose proof (size_list_In c l Hc'). lia. }
    destruct all as [l|], any as [l2|], one as [l3|], nt as [c|]; try discriminate.
    + apply HL; auto. cbn [size_optlist] in Hsz. lia.
    + apply HL; auto. cbn [size_optlist] in Hsz. lia.
    + apply HL; auto. cbn [size_optlist] in Hsz. lia.
    + apply IH; auto. cbn [size_opt] in Hsz. lia.
Qed.

(* ================================================================ *)

(* ---------- annotations ---------- *)

Lemma okind_format_integer fmt num en (k : okind oschema) :
  j2oas_integer fmt num en = Ok k -> okind_format k = fmt.
Proof.
  unfold j2oas_integer. intros H. inv_bind_as H b Hb. destruct b as [[mo [mn emn]] [mx emx]].
  inv_bind_as H e He. inversion H; subst k. cbn. apply int_format_name.
Qed.
Lemma okind_format_number fmt num en (k : okind oschema) :
  j2oas_number fmt num en = Ok k -> okind_format k = fmt.
Proof.
  unfold j2oas_number. intros H. inv_bind_as H b Hb. destruct b as [[mo [mn emn]] [mx emx]].
  inv_bind_as H e He. inversion H; subst k. cbn. apply num_format_name.
Qed.
Lemma okind_format_string fmt sv en (k : okind oschema) :
  j2oas_string fmt sv en = Ok k -> okind_format k = fmt.
Proof.
  unfold j2oas_string. intros H.
  destruct (match sv with
            | Some sv0 => (sv_max_length sv0, sv_min_length sv0, sv_pattern sv0)
            | None => (None, None, None)
            end) as [[mx mn] pt].
  inv_bind_as H e He. inversion H; subst k. cbn. apply str_format_name.
Qed.

(* title (or the supplied name), description, default, nullable, deprecated,
   read/write-only, x- extensions, example: unconditionally; format: for every
   supported schema.  (Beside a [$ref] only [nullable: true] counts, see
   [annots_js]; the other siblings of a reference are ignored.) *)
Theorem annotations_kept_top b b2 name so d k :
  so_reference so = None ->
  supported_with b b2 (SObj so) = true ->
  j2oas name (SObj so) = Ok (OItem d k) ->
  annot_oas d k = annot_js name so.
Proof.
  destruct so as [md ity fmt en cst subs num sv arr obj ref ext].
  cbn [j2oas supported_with so_reference so_instance_type so_subschemas so_enum_values so_object
       so_array so_format so_number so_string so_const_value].
  intros Href. subst ref.
  intros Hs H. apply andb_true_iff in Hs as [_ Hs].
  inv_bind_as H ty Hty. inv_bind_as H kind Hk. inversion H; subst d k; clear H.
  unfold annot_oas, annot_js, j2oas_data.
  cbn [sd_title sd_description sd_default sd_nullable sd_deprecated sd_read_only sd_write_only
       sd_extensions sd_example so_metadata so_extensions so_format].
  assert (Hf : okind_format kind = fmt).
  { destruct ity as [[t|ts]|]; cbn in Hty; inversion Hty; subst ty; clear Hty.
    - destruct subs as [sb|]; [destruct t; discriminate|].
      destruct t.
      + inversion Hk; subst kind. cbn. rewrite !andb_true_iff in Hs.
        destruct Hs as [[_ Hf] _]. destruct fmt; [discriminate|reflexivity].
      + inv_bind_as Hk e He. inversion Hk; subst kind. cbn.
        apply andb_true_iff in Hs as [Hf _]. destruct fmt; [discriminate|reflexivity].
      + rewrite !andb_true_iff in Hs. destruct Hs as [[Hf _] _].
        destruct fmt; [discriminate|].
        unfold j2oas_object in Hk. destruct obj.
        * inv_bind_as Hk p Hp. inv_bind_as Hk a Ha. inversion Hk; reflexivity.
        * inversion Hk; reflexivity.
      + rewrite !andb_true_iff in Hs. destruct Hs as [[Hf _] _].
        destruct fmt; [discriminate|].
        unfold j2oas_array in Hk. destruct arr; [|discriminate].
        inv_bind_as Hk p Hp. inversion Hk; reflexivity.
      + eapply okind_format_number; eauto.
      + eapply okind_format_string; eauto.
      + eapply okind_format_integer; eauto.
    - destruct subs as [sb|].
      + rewrite !andb_true_iff in Hs. destruct Hs as [[_ Ht] _].
        unfold untyped_rest_trivial in Ht. rewrite !andb_true_iff in Ht.
        destruct Ht as [[[[[Hf _] _] _] _] _]. cbn in Hf. destruct fmt; [discriminate|].
        unfold j2oas_subschemas in Hk.
        destruct (sb_all_of sb), (sb_any_of sb), (sb_one_of sb), (sb_not sb); try discriminate;
          inv_bind_as Hk lx Hlx; inversion Hk; reflexivity.
      + inversion Hk; subst kind.
        unfold untyped_rest_trivial in Hs. rewrite !andb_true_iff in Hs.
        destruct Hs as [[[[[Hf _] _] _] _] _]. cbn in Hf. destruct fmt; [discriminate|reflexivity]. }
  rewrite Hf. reflexivity.
Qed.

(* ---------- K4: the null instance type ---------- *)
Definition k4_witness : schema :=
  SObj (mkSObj None (Some (Single TNull)) None None None None None None None None None []).

Lemma k4_refutes env pat_ok fmt_ok :
  supported k4_witness = true /\
  exists o, j2oas None k4_witness = Ok o /\
            valid_js env pat_ok fmt_ok k4_witness JNull = true /\
            valid_oas env pat_ok fmt_ok o JNull = false.
Proof. split; [reflexivity|]. eexists; split; [reflexivity|]. split; reflexivity. Qed.

(* ---------- K5: annotations of a parameter's member schema ---------- *)
Definition k5_witness_obj : sobj schema :=
  mkSObj (Some (mkMeta None None None (Some (JNum (NInt 42))) false false false []))
         (Some (Single TInteger)) (Some s_int32) None None None None None None None None [].

Lemma k5_refutes :
  exists so d k,
    supported (SObj so) = true /\
    j2oas None (snd (schema_extract_description (SObj so))) = Ok (OItem d k) /\
    an_default (annot_oas d k) <> an_default (annot_js None so).
Proof.
  exists k5_witness_obj. do 2 eexists. split; [reflexivity|]. split; [reflexivity|].
  cbn. discriminate.
Qed.
