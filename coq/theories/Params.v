(* Params.v — how a parameter struct (the type inside [Path<T>] / [Query<T>])
   becomes the parameter list of the OpenAPI document, and what the server
   accepts for it (C07).

   A *field specification* [pspec] is the universe of parameter structs:
   leaves are scalar fields (String, bool, char, the integer widths, unit
   enums) that are plain, [Option<T>] or [#[serde(default)]], optionally
   renamed (the name IS the wire name) and optionally doc-commented;
   [#[serde(flatten)] inner: Inner] nests a struct of the same universe.

   Two independent views of a spec:

   [schema_view]   what schemars 0.8.22's derive emits for such a struct under
                   [SchemaSettings::openapi3()] as a Schema.v term, transcribed
                   from schemars_derive/src/schema_exprs.rs [expr_for_struct]
                   (property fields in declaration order through
                   [_private::insert_object_property], then
                   [.flatten(json_schema_for_flatten::<Inner>())] per flattened
                   field), schemars/src/flatten.rs [Merge] (the part that
                   meets this universe: [object.required] and
                   [object.properties] are [extend]ed), the [JsonSchema] impls
                   of the scalars (json_schema/impls/primitives.rs), of
                   [Option<T>] (core.rs, [option_nullable]) and the
                   [RemoveRefSiblings] visitor of the openapi3 settings; all
                   confirmed by experiment (harness c07, mode probe).
   [serde_view]    which names and value texts the derived [Deserialize]
                   accepts: an [Extract.spec] (C09/C10's model of serde's
                   derive, FromStr and serde_urlencoded) plus the behaviour of
                   serde's flatten: keys that belong to a flattened struct are
                   buffered as [Content::String] and later handed to the inner
                   struct through [ContentDeserializer], which can deliver a
                   string to a String / char / unit-enum field but refuses it
                   for an integer or bool field ("invalid type: string ..").

   Then dropshot's own steps, transcribed arm by arm:
   [schema2struct]  schema_util.rs schema2struct_impl (25-196)
   [doc_params]     extractor/metadata.rs get_metadata + api_description.rs
                    gen_openapi (operation.parameters): name, location,
                    required, description, j2oas_schema(None, member schema).

   No proofs in this file (ParamsProofs.v). *)
From Coq Require Import String.
From DS Require Import Base Json Schema J2Oas Utf8 Pct Scalars Query Extract.
From DS Require Response.
Open Scope N_scope.

Definition bs (s : string) : str := Response.bytes_of s.

(* ------------------------------------------------------------ the universe *)

(* a scalar type and, for a unit enum, its schema name (enums are
   referenceable: their schema lives in components.schemas) *)
Record sty' := mkSt { st_ty : sty; st_name : option str }.

Inductive field :=
| FLeaf (name : str) (t : sty') (p : presence) (desc : option str)
| FFlat (inner : list field).

Definition pspec := list field.

Record leaf := mkLeaf {
  lf_name : str;
  lf_ty : sty';
  lf_p : presence;
  lf_desc : option str;
  lf_under : bool       (* inside a flattened struct *)
}.

Definition concat_map {A B} (f : A -> list B) : list A -> list B :=
  fix go (l : list A) : list B := match l with [] => [] | a :: r => f a ++ go r end.

Fixpoint field_leaves (under : bool) (f : field) : list leaf :=
  match f with
  | FLeaf n t p d => [mkLeaf n t p d under]
  | FFlat inner => concat_map (field_leaves true) inner
  end.

Definition leaves (fs : pspec) : list leaf := concat_map (field_leaves false) fs.

(* the integer widths Rust has *)
Definition width_ok (bits : N) : bool :=
  (bits =? 8) || (bits =? 16) || (bits =? 32) || (bits =? 64) || (bits =? 128).

Definition wf_st (t : sty') : bool :=
  match st_ty t, st_name t with
  | TEnum (_ :: _), Some _ => true
  | TEnum [], Some _ => false       (* an enum without variants has no values *)
  | TEnum _, None => false
  | TInt _ bits, None => width_ok bits
  | _, None => true
  | _, Some _ => false
  end.

(* the default value is a value of the type; enum names identify the enum *)
Definition wf_leaf (l : leaf) : bool :=
  wf_st (lf_ty l) &&
  match lf_p l with PDef d => sval_ok (st_ty (lf_ty l)) d | _ => true end.

Definition enum_names_consistent (ls : list leaf) : bool :=
  forallb (fun a => forallb (fun b =>
     match st_ty (lf_ty a), st_name (lf_ty a), st_ty (lf_ty b), st_name (lf_ty b) with
     | TEnum va, Some na, TEnum vb, Some nb =>
         if str_eqb na nb then list_eqb str_eqb va vb else true
     | _, _, _, _ => true
     end) ls) ls.

Definition wf_pspec (fs : pspec) : bool :=
  names_distinct (map lf_name (leaves fs)) && forallb wf_leaf (leaves fs)
  && enum_names_consistent (leaves fs).

(* ------------------------------------------------------------ schema_view *)

Definition REF_PREFIX : str := bs "#/components/schemas/".

Definition so_base (t : option itype) : sobj schema :=
  mkSObj None (option_map Single t) None None None None None None None None None [].

Definition with_format (f : str) (o : sobj schema) : sobj schema :=
  mkSObj (so_metadata o) (so_instance_type o) (Some f) (so_enum_values o) (so_const_value o)
         (so_subschemas o) (so_number o) (so_string o) (so_array o) (so_object o)
         (so_reference o) (so_extensions o).
Definition with_number (nv : numval) (o : sobj schema) : sobj schema :=
  mkSObj (so_metadata o) (so_instance_type o) (so_format o) (so_enum_values o) (so_const_value o)
         (so_subschemas o) (Some nv) (so_string o) (so_array o) (so_object o)
         (so_reference o) (so_extensions o).
Definition with_string (sv : strval) (o : sobj schema) : sobj schema :=
  mkSObj (so_metadata o) (so_instance_type o) (so_format o) (so_enum_values o) (so_const_value o)
         (so_subschemas o) (so_number o) (Some sv) (so_array o) (so_object o)
         (so_reference o) (so_extensions o).
Definition with_enum (e : list json) (o : sobj schema) : sobj schema :=
  mkSObj (so_metadata o) (so_instance_type o) (so_format o) (Some e) (so_const_value o)
         (so_subschemas o) (so_number o) (so_string o) (so_array o) (so_object o)
         (so_reference o) (so_extensions o).
Definition with_metadata (m : option metadata) (o : sobj schema) : sobj schema :=
  mkSObj m (so_instance_type o) (so_format o) (so_enum_values o) (so_const_value o)
         (so_subschemas o) (so_number o) (so_string o) (so_array o) (so_object o)
         (so_reference o) (so_extensions o).
Definition with_extensions (e : list (str * json)) (o : sobj schema) : sobj schema :=
  mkSObj (so_metadata o) (so_instance_type o) (so_format o) (so_enum_values o) (so_const_value o)
         (so_subschemas o) (so_number o) (so_string o) (so_array o) (so_object o)
         (so_reference o) e.

(* "int8" .. "uint64" (also "uint128": schemars' name for u128) *)
Definition int_format_name (signed : bool) (bits : N) : str :=
  (if signed then bs "int" else bs "uint") ++ print_N bits.

(* a unit enum without variant doc comments: {"type":"string","enum":[..]} *)
Definition enum_def (vs : list str) : schema :=
  SObj (with_enum (map JStr vs) (so_base (Some TString))).

Definition ref_name (n : str) : str := REF_PREFIX ++ n.

(* <T as JsonSchema>::json_schema / gen.subschema_for::<T>() for a scalar *)
Definition scalar_sobj (t : sty') : sobj schema :=
  match st_ty t with
  | TStr => so_base (Some TString)
  | TBool => so_base (Some TBoolean)
  | TChar => with_string (mkStrVal (Some 1) (Some 1) None) (so_base (Some TString))
  | TInt signed bits =>
      let o := with_format (int_format_name signed bits) (so_base (Some TInteger)) in
      if signed then o else with_number (mkNumVal None None None (Some (Q 0 1)) None) o
  | TEnum vs =>
      match st_name t with
      | Some n => mkSObj None None None None None None None None None None (Some (ref_name n)) []
      | None => with_enum (map JStr vs) (so_base (Some TString))
      end
  | TUuid => with_format (bs "uuid") (so_base (Some TString))
  end.

(* serde_json::to_value of the default value *)
Definition json_of_sval (v : sval) : json :=
  match v with
  | VStr s => JStr s
  | VBool b => JBool b
  | VChar c => JStr (utf8_encode c)
  | VInt z => JNum (NInt z)
  | VEnum n => JStr n
  | VUuid b => JStr (print_uuid b)
  end.

Definition NULLABLE_EXT : list (str * json) := [(s_nullable, JBool true)].

(* visit::RemoveRefSiblings (openapi3 settings): a reference with siblings
   becomes { siblings.., allOf: [ {$ref} ] } *)
Definition sobj_is_default (o : sobj schema) : bool :=
  match o with
  | mkSObj None None None None None None None None None None None [] => true
  | _ => false
  end.

Definition remove_ref_siblings (o : sobj schema) : sobj schema :=
  match so_reference o with
  | None => o
  | Some r =>
      let o' := mkSObj (so_metadata o) (so_instance_type o) (so_format o) (so_enum_values o)
                       (so_const_value o) (so_subschemas o) (so_number o) (so_string o)
                       (so_array o) (so_object o) None (so_extensions o) in
      if sobj_is_default o' then o
      else
        let rs := SObj (mkSObj None None None None None None None None None None (Some r) []) in
        mkSObj (so_metadata o') (so_instance_type o') (so_format o') (so_enum_values o')
               (so_const_value o')
               (Some (mkSubs (Some [rs]) None None None None None None))
               (so_number o') (so_string o') (so_array o') (so_object o') None (so_extensions o')
  end.

(* the property schema of one field:
     Option<T>::json_schema (option_nullable): T's schema + extension nullable: true;
     SchemaMetadata { description (doc comment), default (#[serde(default)]) }
       applied with _private::apply_metadata when it is not all-default;
     then the RemoveRefSiblings visitor *)
Definition field_metadata (p : presence) (desc : option str) : option metadata :=
  let dflt := match p with PDef d => Some (json_of_sval d) | _ => None end in
  match desc, dflt with
  | None, None => None
  | _, _ => Some (mkMeta None None desc dflt false false false [])
  end.

Definition field_schema (t : sty') (p : presence) (desc : option str) : schema :=
  let base := scalar_sobj t in
  let base := match p with POpt => with_extensions NULLABLE_EXT base | _ => base end in
  SObj (remove_ref_siblings (with_metadata (field_metadata p desc) base)).

(* _private::insert_object_property: required unless has_default or Option *)
Definition is_req (p : presence) : bool :=
  match p with PReq => true | _ => false end.

(* ObjectValidation.required (BTreeSet<String>) / .properties (BTreeMap) *)
Record sview := mkSV { sv_req : list str; sv_props : list (str * schema) }.
Definition sv_empty : sview := mkSV [] [].

Fixpoint set_insert (k : str) (l : list str) : list str :=
  match l with
  | [] => [k]
  | k' :: l' =>
      if str_ltb k k' then k :: l
      else if str_eqb k k' then l
      else k' :: set_insert k l'
  end.

Definition sv_add (n : str) (s : schema) (req : bool) (v : sview) : sview :=
  mkSV (if req then set_insert n (sv_req v) else sv_req v) (insert_sorted n s (sv_props v)).

(* flatten.rs: self.merge(other) - [required] and [properties] are extended
   with the other's (an equal key takes the other's schema) *)
Definition sv_merge (a b : sview) : sview :=
  mkSV (fold_left (fun acc k => set_insert k acc) (sv_req b) (sv_req a))
       (fold_left (fun acc kv => insert_sorted (fst kv) (snd kv) acc) (sv_props b) (sv_props a)).

(* expr_for_struct: first every property field in declaration order ... *)
Definition props_pass (fs : list field) : sview :=
  fold_left (fun acc f => match f with
                          | FLeaf n t p d => sv_add n (field_schema t p d) (is_req p) acc
                          | FFlat _ => acc
                          end) fs sv_empty.

(* ... then .flatten(<Inner>::json_schema) for every flattened field in order.
   [inner_view (FFlat fs)] is the object schema of a struct with fields [fs]. *)
Fixpoint inner_view (f : field) : sview :=
  match f with
  | FLeaf _ _ _ _ => sv_empty
  | FFlat inner =>
      (fix go (fs : list field) (acc : sview) : sview :=
         match fs with
         | [] => acc
         | f' :: r =>
             go r (match f' with
                   | FFlat _ => sv_merge acc (inner_view f')
                   | FLeaf _ _ _ _ => acc
                   end)
         end) inner (props_pass inner)
  end.

Definition struct_view (fs : pspec) : sview := inner_view (FFlat fs).

(* the root schema of the struct: { title, type: object, required, properties } *)
Definition schema_view (title : str) (fs : pspec) : schema :=
  let v := struct_view fs in
  SObj (mkSObj (Some (mkMeta None (Some title) None None false false false []))
               (Some (Single TObject)) None None None None None None None
               (Some (mkObjVal None None (sv_req v) (sv_props v) [] None None)) None []).

(* generator.definitions(): one entry per referenced enum, keyed by the
   reference string *)



Definition defs_view (fs : pspec) : list (str * schema) :=
  fold_left (fun d l => match st_ty (lf_ty l), st_name (lf_ty l) with
                        | TEnum vs, Some n => insert_sorted (ref_name n) (enum_def vs) d
                        | _, _ => d
                        end) (leaves fs) [].

(* ------------------------------------------------------------ schema2struct *)

Inductive s2s_err :=
| S2InvalidEnum          (* Schema2StructError::InvalidEnum *)
| S2InvalidType          (* Schema2StructError::InvalidType *)
| S2InvalidSubschema     (* Schema2StructError::InvalidSubschema *)
| S2BadReference         (* generator.dereference(..).expect("invalid reference") *)
| S2Fuel.                (* the model's fuel ran out (reference chain longer than the fuel) *)

Record member := mkMember {
  sm_name : str;
  sm_description : option str;
  sm_schema : schema;
  sm_required : bool
}.

Definition is_none {A} (o : option A) : bool := match o with None => true | Some _ => false end.
Definition is_some {A} (o : option A) : bool := match o with None => false | Some _ => true end.

Fixpoint concat_res {E A} (l : list (res E (list A))) : res E (list A) :=
  match l with
  | [] => Ok []
  | r :: rest => do a <- r; do b <- concat_res rest; Ok (a ++ b)
  end.

(* which arm of the [match schema] applies *)
Inductive s2s_arm := ArmRef (r : str) | ArmObject | ArmEnum1 | ArmEnum2 | ArmInvalid.

Definition s2s_classify (s : schema) : s2s_arm :=
  match s with
  | SBool _ => ArmInvalid
  | SObj o =>
      let rest_none := is_none (so_format o) && is_none (so_const_value o) && is_none (so_number o)
                       && is_none (so_string o) && is_none (so_array o) in
      match so_reference o with
      | Some r =>
          if is_none (so_instance_type o) && rest_none && is_none (so_enum_values o)
             && is_none (so_subschemas o) && is_none (so_object o)
          then ArmRef r else ArmInvalid
      | None =>
          if negb rest_none then ArmInvalid else
          match so_instance_type o, so_enum_values o with
          | Some (Single _), None => ArmObject
          | _, Some _ =>
              if is_none (so_subschemas o) && is_none (so_object o) then ArmEnum1 else ArmInvalid
          | None, None =>
              if is_some (so_subschemas o) && is_none (so_object o) then ArmEnum2 else ArmInvalid
          | Some (Multi _), None => ArmInvalid
          end
      end
  end.

Fixpoint schema2struct (fuel : nat) (defs : list (str * schema)) (s : schema) (required : bool)
  : res s2s_err (list member) :=
  match fuel with
  | O => Err S2Fuel
  | S fuel' =>
      match s2s_classify s, s with
      | ArmRef r, _ =>
          match Json.lookup r defs with
          | Some s' => schema2struct fuel' defs s' required
          | None => Err S2BadReference
          end
      | ArmObject, SObj o =>
          let own :=
            match so_object o with
            | None => []
            | Some ov =>
                map (fun p =>
                       let '(d, s') := schema_extract_description (snd p) in
                       mkMember (fst p) d s' (required && mem_str (fst p) (ov_required ov)))
                    (ov_properties ov)
            end in
          match so_subschemas o with
          | None => Ok own
          | Some sb =>
              match sb with
              | mkSubs None (Some schemas) None None None None None =>
                  do rest <- concat_res (map (fun s' => schema2struct fuel' defs s' false) schemas);
                  Ok (own ++ rest)
              | mkSubs (Some [sub]) None None None None None None =>
                  do rest <- schema2struct fuel' defs sub required;
                  Ok (own ++ rest)
              | _ => Err S2InvalidSubschema
              end
          end
      | ArmEnum1, _ => Err S2InvalidEnum
      | ArmEnum2, _ => Err S2InvalidEnum
      | _, _ => Err S2InvalidType
      end
  end.

(* ------------------------------------------------------------ doc_params *)

Inductive ploc := LPath | LQuery.
Definition ploc_eqb (a b : ploc) : bool :=
  match a, b with LPath, LPath | LQuery, LQuery => true | _, _ => false end.

(* one entry of operation.parameters *)
Record dparam := mkDParam {
  dp_name : str;
  dp_loc : ploc;
  dp_required : bool;
  dp_description : option str;
  dp_schema : oschema
}.

Inductive doc_err :=
| DE_s2s (e : s2s_err)        (* panic: "while generating schema for .." *)
| DE_j2oas (e : j2err).       (* panic inside j2oas_schema *)

Definition S2S_FUEL : nat := 16.

Fixpoint members_to_params (loc : ploc) (ms : list member) : res doc_err (list dparam) :=
  match ms with
  | [] => Ok []
  | m :: r =>
      match j2oas None (sm_schema m) with
      | Err e => Err (DE_j2oas e)
      | Ok o =>
          do ps <- members_to_params loc r;
          Ok (mkDParam (sm_name m) loc (sm_required m) (sm_description m) o :: ps)
      end
  end.

(* get_metadata (root schema, schema2struct(.., true)) + gen_openapi *)
Definition doc_params_of_schema (loc : ploc) (defs : list (str * schema)) (s : schema)
  : res doc_err (list dparam) :=
  match schema2struct S2S_FUEL defs s true with
  | Err e => Err (DE_s2s e)
  | Ok ms => members_to_params loc ms
  end.

Definition doc_params (loc : ploc) (title : str) (fs : pspec) : res doc_err (list dparam) :=
  doc_params_of_schema loc (defs_view fs) (schema_view title fs).

(* components.schemas contributed by the parameters: the converted definitions *)
Definition doc_components (fs : pspec) : list (str * jres oschema) :=
  map (fun d => (fst d, j2oas None (snd d))) (defs_view fs).

(* ------------------------------------------------------------ serde_view *)

Definition leaf_kind (l : leaf) : fkind := KScalar (st_ty (lf_ty l)) (lf_p l).

Definition serde_view (fs : pspec) : spec := map (fun l => (lf_name l, leaf_kind l)) (leaves fs).

(* what serde's ContentDeserializer can turn a buffered string into *)
Definition flat_deliverable (t : sty) : bool :=
  match t with
  | TStr | TChar | TEnum _ | TUuid => true
  | TBool | TInt _ _ => false
  end.

(* names of the leaves that no request can fill: inside a flattened struct
   and of integer or bool type *)
Definition flat_bad (fs : pspec) : list str :=
  map lf_name (filter (fun l => lf_under l && negb (flat_deliverable (st_ty (lf_ty l)))) (leaves fs)).

(* Query<T>::from_request *)
Definition extract_query_p (fs : pspec) (q : option str) : res xerr (list fval) :=
  let entries := form_parse (match q with Some q => q | None => [] end) in
  if existsb (fun kv => mem_str (fst kv) (flat_bad fs)) entries
  then Err (XBadQuery MInvalidType)
  else extract_query (serde_view fs) q.

(* Path<T>::from_request *)
Definition extract_path_p (fs : pspec) (ws : list (str * wseg)) : res xerr (list fval) :=
  if existsb (fun w => mem_str (fst w) (flat_bad fs)) ws
  then (do _ <- bind_vars ws; Err (XBadPath MInvalidType))
  else extract_path (serde_view fs) ws.

(* no field of a 128-bit integer type (serde_urlencoded refuses those whatever
   the value: finding K9a of C09) *)
Definition no_128 (fs : pspec) : bool :=
  forallb (fun l => negb (is_128 (st_ty (lf_ty l)))) (leaves fs).

(* ------------------------------------------------------------ documented values *)

(* the integer formats schemars writes, read as the ranges their names say
   (OpenAPI: "format is an open-valued property"; int32/int64 are the
   registry's, the others schemars' convention) *)
Definition int_format_range (f : str) : option (Z * Z) :=
  let mk sg bits := Some (int_min sg bits, int_max sg bits) in
  if str_eqb f (bs "int8") then mk true 8
  else if str_eqb f (bs "int16") then mk true 16
  else if str_eqb f (bs "int32") then mk true 32
  else if str_eqb f (bs "int64") then mk true 64
  else if str_eqb f (bs "int128") then mk true 128
  else if str_eqb f (bs "uint8") then mk false 8
  else if str_eqb f (bs "uint16") then mk false 16
  else if str_eqb f (bs "uint32") then mk false 32
  else if str_eqb f (bs "uint64") then mk false 64
  else if str_eqb f (bs "uint128") then mk false 128
  else None.

(* interpretation of [format] used when documents are replayed: integer
   formats bound the value; "uuid" (schemars' uuid1 impl) is the RFC 4122 text
   form, 8-4-4-4-12 hexadecimal digits of either case; every other format is
   an annotation *)
Definition S_UUID : str := bs "uuid".

Definition fmt_doc (f : str) (j : json) : bool :=
  if str_eqb f S_UUID then
    match j with
    | JStr s => match parse_uuid_hyphenated s with Some _ => true | None => false end
    | _ => true
    end
  else
  match int_format_range f, j with
  | Some (lo, hi), JNum n =>
      let x := num_q n in q_leb (q_of_Z lo) x && q_leb x (q_of_Z hi)
  | _, _ => true
  end.

(* no [pattern] occurs in the universe *)
Definition pat_doc (p s : str) : bool := true.

(* how a client writes a primitive value in a path segment / query value
   (OpenAPI style simple / form for primitives) *)
Definition wire_of_json (j : json) : option str :=
  match j with
  | JStr s => Some s
  | JBool b => Some (print_bool b)
  | JNum (NInt z) => Some (print_int z)
  | _ => None
  end.
