(* Query.v — [application/x-www-form-urlencoded] as the [form_urlencoded]
   crate (1.2.1) parses it.  This is what [serde_urlencoded::from_str] (query
   strings, dropshot/src/extractor/query.rs) and
   [serde_urlencoded::Deserializer::new(form_urlencoded::parse(&body))]
   (url-encoded bodies, extractor/body.rs) iterate over.

     impl Iterator for Parse {                      // (name, value) pairs
         fn next(&mut self) -> Option<..> { loop {
             if self.input.is_empty() { return None }
             let mut split2 = self.input.splitn(2, |&b| b == b'&');
             let sequence = split2.next().unwrap();
             self.input = split2.next().unwrap_or(&[][..]);
             if sequence.is_empty() { continue }
             let mut split2 = sequence.splitn(2, |&b| b == b'=');
             let name = split2.next().unwrap();
             let value = split2.next().unwrap_or(&[][..]);
             return Some((decode(name), decode(value)));
         } } }
     fn decode(input) = decode_utf8_lossy(percent_decode(replace_plus(input)))

   so: pieces between '&' (empty pieces skipped), each cut at its FIRST '='
   (no '=': empty value), '+' -> ' ' BEFORE percent-decoding (so "%2B" is a
   plus), percent-decoding as Pct.v, and invalid UTF-8 replaced by U+FFFD
   ([String::from_utf8_lossy]), never an error.

   Also the client side: [byte_serialize] (what [serde_urlencoded::to_string]
   and browsers emit) and the relation [form_enc] of ALL legal encodings of a
   string (each byte literally if it is not one of '&' '=' '+' '%', a space as
   '+', any byte as %XY with hex digits of either case).

   Model only; proofs in QueryProofs.v. *)
From DS Require Import Base Utf8 Pct.

Definition replace_plus (s : str) : str := map (fun c => if c =? 43 then 32 else c) s.

(* [String::from_utf8_lossy] = [Utf8Chunks] (core::str::lossy): scan
   well-formed sequences; at an ill-formed one the "invalid" chunk is the
   lead byte plus the continuation bytes that were acceptable so far (a
   maximal prefix of a well-formed sequence, 1-3 bytes), replaced by ONE
   U+FFFD (EF BF BD); scanning resumes at the first byte that did not fit. *)
Definition REPL : str := [239; 191; 189].

Fixpoint utf8_lossy (s : str) : str :=
  match s with
  | [] => []
  | b0 :: t0 =>
      if b0 <? 128 then b0 :: utf8_lossy t0
      else if in_range 194 223 b0 then
        match t0 with
        | b1 :: t1 =>
            if utf8_cont b1 then b0 :: b1 :: utf8_lossy t1 else REPL ++ utf8_lossy t0
        | [] => REPL
        end
      else if in_range 224 239 b0 then
        match t0 with
        | b1 :: t1 =>
            if utf8_second3 b0 b1 then
              match t1 with
              | b2 :: t2 =>
                  if utf8_cont b2 then b0 :: b1 :: b2 :: utf8_lossy t2
                  else REPL ++ utf8_lossy t1
              | [] => REPL
              end
            else REPL ++ utf8_lossy t0
        | [] => REPL
        end
      else if in_range 240 244 b0 then
        match t0 with
        | b1 :: t1 =>
            if utf8_second4 b0 b1 then
              match t1 with
              | b2 :: t2 =>
                  if utf8_cont b2 then
                    match t2 with
                    | b3 :: t3 =>
                        if utf8_cont b3 then b0 :: b1 :: b2 :: b3 :: utf8_lossy t3
                        else REPL ++ utf8_lossy t2
                    | [] => REPL
                    end
                  else REPL ++ utf8_lossy t1
              | [] => REPL
              end
            else REPL ++ utf8_lossy t0
        | [] => REPL
        end
      else REPL ++ utf8_lossy t0
  end.

Definition form_decode (s : str) : str := utf8_lossy (pct_decode (replace_plus s)).

(* [splitn(2, sep)]: the part before the first separator and, if there is
   one, the part after it *)
Fixpoint split_first (sep : N) (s : str) : str * option str :=
  match s with
  | [] => ([], None)
  | c :: t =>
      if c =? sep then ([], Some t)
      else let (a, r) := split_first sep t in (c :: a, r)
  end.

(* [split(sep)]: first piece and the remaining pieces (always >= 1 piece) *)
Fixpoint split_aux (sep : N) (s : str) : str * list str :=
  match s with
  | [] => ([], [])
  | c :: t =>
      let (p, ps) := split_aux sep t in
      if c =? sep then ([], p :: ps) else (c :: p, ps)
  end.
Definition split_all (sep : N) (s : str) : list str :=
  let (p, ps) := split_aux sep s in p :: ps.

Definition AMP : N := 38.
Definition EQS : N := 61.

Definition parse_piece (piece : str) : str * str :=
  let (name, value) := split_first EQS piece in
  (form_decode name, form_decode (match value with Some v => v | None => [] end)).

Definition form_parse (input : str) : list (str * str) :=
  map parse_piece (filter (fun p => negb (is_nil p)) (split_all AMP input)).

(* ---------- client side ---------- *)

(* [form_urlencoded::byte_serialize]: '*' '-' '.' '_' digits letters
   unchanged, ' ' -> '+', everything else %XY (upper-case hex) *)
Definition form_unchanged (c : N) : bool :=
  (c =? 42) || (c =? 45) || (c =? 46) || (c =? 95) ||
  ((48 <=? c) && (c <=? 57)) || ((65 <=? c) && (c <=? 90)) || ((97 <=? c) && (c <=? 122)).

Definition form_encode_byte (c : N) : str :=
  if form_unchanged c then [c]
  else if c =? 32 then [43]
  else [37; hex_digit_upper (c / 16); hex_digit_upper (c mod 16)].

Fixpoint form_encode_str (s : str) : str :=
  match s with
  | [] => []
  | c :: t => form_encode_byte c ++ form_encode_str t
  end.

Fixpoint join_amp (pieces : list str) : str :=
  match pieces with
  | [] => []
  | [p] => p
  | p :: ps => p ++ AMP :: join_amp ps
  end.

Definition encode_pair (kv : str * str) : str :=
  form_encode_str (fst kv) ++ EQS :: form_encode_str (snd kv).

Definition form_encode (kvs : list (str * str)) : str := join_amp (map encode_pair kvs).

(* every legal encoding of a string inside a name or a value *)
Definition form_literal_ok (c : N) : bool :=
  (c <? 256) && negb ((c =? 38) || (c =? 61) || (c =? 43) || (c =? 37)).

Inductive form_enc : str -> str -> Prop :=
| fe_nil : form_enc [] []
| fe_lit c s e : form_literal_ok c = true -> form_enc s e -> form_enc (c :: s) (c :: e)
| fe_plus s e : form_enc s e -> form_enc (32 :: s) (43 :: e)
| fe_pct c h l s e :
    c < 256 -> hex_val h = Some (c / 16) -> hex_val l = Some (c mod 16) ->
    form_enc s e -> form_enc (c :: s) (37 :: h :: l :: e).

(* every legal encoding of a pair: "name=value"; "name" alone when the value
   is empty *)
Inductive pair_enc : str * str -> str -> Prop :=
| pe_eq k v ek ev : form_enc k ek -> form_enc v ev -> pair_enc (k, v) (ek ++ EQS :: ev)
| pe_bare k ek : form_enc k ek -> ek <> [] -> pair_enc (k, []) ek.

(* every legal encoding of a list of pairs: pieces joined by '&', with any
   number of additional empty pieces (stray '&'s) *)
Inductive query_enc : list (str * str) -> str -> Prop :=
| qe_nil : query_enc [] []
| qe_last kv e : pair_enc kv e -> query_enc [kv] e
| qe_cons kv e kvs es : pair_enc kv e -> query_enc kvs es -> query_enc (kv :: kvs) (e ++ AMP :: es)
| qe_amp kvs es : query_enc kvs es -> query_enc kvs (AMP :: es).

(* every legal encoding of a string as ONE path segment: a byte literally if
   it is not '%' or '/', or %XY with hex digits of either case.  (What the
   HTTP parser in front of dropshot admits in a request target is narrower
   still; the harness percent-encodes everything outside RFC 3986
   "unreserved".) *)
Definition seg_literal_ok (c : N) : bool :=
  (c <? 256) && negb ((c =? 37) || (c =? 47)).

Inductive seg_enc : str -> str -> Prop :=
| se_nil : seg_enc [] []
| se_lit c s e : seg_literal_ok c = true -> seg_enc s e -> seg_enc (c :: s) (c :: e)
| se_pct c h l s e :
    c < 256 -> hex_val h = Some (c / 16) -> hex_val l = Some (c mod 16) ->
    seg_enc s e -> seg_enc (c :: s) (37 :: h :: l :: e).
