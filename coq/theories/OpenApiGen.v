(* OpenApiGen.v — model of which operations [gen_openapi] (api_description.rs)
   puts in the document for version v: the pre-order walk of the trie by
   [HttpRouterIter] (Router.iter: a node's own handlers in method-key order,
   each method's handlers in registration order filtered by version, then the
   children in key order; a wildcard edge shown as a plain variable, exactly as
   [iter_node] in router.rs does), the visibility filter, the path string, and
   the insertion into [paths] (IndexMap keyed by path, one slot per method, a
   later operation for the same slot replacing an earlier one).  Model only;
   proofs in OpenApiGenProofs.v. *)
From DS Require Import Base Versions Router RouterSpec.

(* how a template is shown in the document: OpenAPI 3.0 has no wildcard
   syntax, the wildcard appears as {name} *)
Definition undoc_seg (p : pseg) : pseg := match p with PWild x => PVar x | _ => p end.
Definition undoc (t : list pseg) : list pseg := map undoc_seg t.

Definition doc_seg (p : pseg) : str :=
  match p with
  | PLit s => s
  | PVar x => 123 :: x ++ [125]
  | PWild x => 123 :: x ++ [58; 46; 42; 125]
  end.

(* [HttpRouterIter::path]: "/" ++ components.join("/") *)
Fixpoint join_slash (l : list str) : str :=
  match l with
  | [] => []
  | [s] => s
  | s :: l' => s ++ 47 :: join_slash l'
  end.
Definition doc_path (t : list pseg) : str := 47 :: join_slash (map doc_seg t).

(* the eight methods an OpenAPI path item has a slot for; anything else makes
   [gen_openapi] panic *)
Definition GETm : str := [71;69;84].
Definition PUTm : str := [80;85;84].
Definition POSTm : str := [80;79;83;84].
Definition DELETEm : str := [68;69;76;69;84;69].
Definition OPTIONSm : str := [79;80;84;73;79;78;83].
Definition HEADm : str := [72;69;65;68].
Definition PATCHm : str := [80;65;84;67;72].
Definition TRACEm : str := [84;82;65;67;69].
Definition openapi_method (m : str) : bool :=
  existsb (str_eqb m) [GETm; PUTm; POSTm; DELETEm; OPTIONSm; HEADm; PATCHm; TRACEm].

Section Doc.
  Variable V : Type.
  Variable cmp : V -> V -> comparison.
  Notation endpoint := (endpoint V).

  (* the operations of the document for version v, in traversal order:
     (template as shown, method, endpoint) *)
  Definition doc_ops (r : node V) (v : V) : list (list pseg * str * endpoint) :=
    filter (fun x => e_visible (snd x)) (iter V cmp r (Some v)).

  (* [paths]: insertion keyed by (path, method); a later entry replaces *)
  Fixpoint slot_insert (k : str * str) (e : endpoint) (l : list (str * str * endpoint))
    : list (str * str * endpoint) :=
    match l with
    | [] => [(k, e)]
    | (k', e') :: l' =>
        if str_eqb (fst k) (fst k') && str_eqb (snd k) (snd k') then (k', e) :: l'
        else (k', e') :: slot_insert k e l'
    end.

  Inductive doc_result :=
  | DocOk (ops : list (str * str * endpoint))
  | DocPanic.                      (* "unexpected method" *)

  Definition doc (r : node V) (v : V) : doc_result :=
    let ops := doc_ops r v in
    if forallb (fun x => openapi_method (snd (fst x))) ops then
      DocOk (fold_left (fun acc x => slot_insert (doc_path (fst (fst x)), snd (fst x)) (snd x) acc) ops [])
    else DocPanic.
End Doc.

Arguments DocOk {V}.
Arguments DocPanic {V}.
