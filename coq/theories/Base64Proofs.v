(* Base64Proofs.v — proofs about the base64 model in Base64.v. *)
From DS Require Import Base Base64.
Require Import ZifyBool ZifyN.
Ltac Zify.zify_post_hook ::= Z.div_mod_to_equations.

(* ---------- induction principles: lists taken 3 / 4 at a time ---------- *)

Lemma list_ind3 {A} (P : list A -> Prop) :
  P [] -> (forall a, P [a]) -> (forall a b, P [a; b]) ->
  (forall a b c rest, P rest -> P (a :: b :: c :: rest)) ->
  forall l, P l.
Proof.
  intros H0 H1 H2 H3 l.
  assert (H : P l /\ (forall a, P (a :: l)) /\ (forall a b, P (a :: b :: l))).
  { induction l as [|x l (IH0 & IH1 & IH2)]; [auto|].
    split; [apply IH1|]. split; [intros; apply IH2|].
    intros a b. apply H3, IH0. }
  apply H.
Qed.

Lemma list_ind4 {A} (P : list A -> Prop) :
  P [] -> (forall a, P [a]) -> (forall a b, P [a; b]) ->
  (forall a b c, P [a; b; c]) ->
  (forall a b c d rest, P rest -> P (a :: b :: c :: d :: rest)) ->
  forall l, P l.
Proof.
  intros H0 H1 H2 H3 H4 l.
  assert (H : P l /\ (forall a, P (a :: l)) /\ (forall a b, P (a :: b :: l))
              /\ (forall a b c, P (a :: b :: c :: l))).
  { induction l as [|x l (IH0 & IH1 & IH2 & IH3)]; [auto|].
    split; [apply IH1|]. split; [intros; apply IH2|].
    split; [intros; apply IH3|].
    intros a b c. apply H4, IH0. }
  apply H.
Qed.

(* ---------- the alphabet ---------- *)

Lemma dec_enc_char al s : s < 64 -> dec_char al (enc_char al s) = Some s.
Proof.
  intros Hs. unfold enc_char, dec_char.
  destruct (N.ltb_spec s 26).
  { replace ((65 <=? s + 65) && (s + 65 <=? 90)) with true by lia.
    f_equal; lia. }
  destruct (N.ltb_spec s 52).
  { replace ((65 <=? s + 71) && (s + 71 <=? 90)) with false by lia.
    replace ((97 <=? s + 71) && (s + 71 <=? 122)) with true by lia.
    f_equal; lia. }
  destruct (N.ltb_spec s 62).
  { replace ((65 <=? s - 4) && (s - 4 <=? 90)) with false by lia.
    replace ((97 <=? s - 4) && (s - 4 <=? 122)) with false by lia.
    replace ((48 <=? s - 4) && (s - 4 <=? 57)) with true by lia.
    f_equal; lia. }
  destruct (N.eqb_spec s 62) as [->|Hne].
  - destruct al; reflexivity.
  - assert (s = 63) as -> by lia. destruct al; reflexivity.
Qed.

Lemma enc_dec_char al c s :
  dec_char al c = Some s -> s < 64 /\ enc_char al s = c.
Proof.
  unfold dec_char.
  destruct ((65 <=? c) && (c <=? 90)) eqn:E1.
  { intros [= <-]. unfold enc_char.
    replace (c - 65 <? 26) with true by lia. lia. }
  destruct ((97 <=? c) && (c <=? 122)) eqn:E2.
  { intros [= <-]. unfold enc_char.
    replace (c - 71 <? 26) with false by lia.
    replace (c - 71 <? 52) with true by lia. lia. }
  destruct ((48 <=? c) && (c <=? 57)) eqn:E3.
  { intros [= <-]. unfold enc_char.
    replace (c + 4 <? 26) with false by lia.
    replace (c + 4 <? 52) with false by lia.
    replace (c + 4 <? 62) with true by lia. lia. }
  destruct al.
  - destruct (N.eqb_spec c 45) as [->|]; [intros [= <-]; split; [lia|reflexivity]|].
    destruct (N.eqb_spec c 95) as [->|]; [intros [= <-]; split; [lia|reflexivity]|].
    discriminate.
  - destruct (N.eqb_spec c 43) as [->|]; [intros [= <-]; split; [lia|reflexivity]|].
    destruct (N.eqb_spec c 47) as [->|]; [intros [= <-]; split; [lia|reflexivity]|].
    discriminate.
Qed.

(* '=' is not an alphabet character, and is never emitted for a sextet. *)
Lemma dec_char_pad al : dec_char al pad_char = None.
Proof. destruct al; reflexivity. Qed.

Lemma enc_char_not_pad al s : enc_char al s <> pad_char.
Proof.
  unfold enc_char, pad_char.
  destruct (N.ltb_spec s 26); [lia|].
  destruct (N.ltb_spec s 52); [lia|].
  destruct (N.ltb_spec s 62); [lia|].
  destruct (s =? 62), al; lia.
Qed.

Lemma enc_char_is_b64 al s : is_b64_char al (enc_char al s) = true.
Proof.
  unfold is_b64_char.
  destruct (N.lt_ge_cases s 64) as [Hs|Hs].
  - rewrite dec_enc_char by exact Hs. reflexivity.
  - unfold enc_char.
    replace (s <? 26) with false by lia.
    replace (s <? 52) with false by lia.
    replace (s <? 62) with false by lia.
    replace (s =? 62) with false by lia.
    destruct al; reflexivity.
Qed.

Lemma pad_is_b64 al : is_b64_char al pad_char = true.
Proof. destruct al; reflexivity. Qed.

(* The 64 alphabet characters, by exhaustive evaluation: exactly
   A-Z a-z 0-9 and the two alphabet-specific characters, in RFC 4648 order. *)
Definition sextets : list N := map N.of_nat (seq 0 64).

Example enc_char_table_urlsafe :
  map (enc_char UrlSafe) sextets =
  [65;66;67;68;69;70;71;72;73;74;75;76;77;78;79;80;81;82;83;84;85;86;87;88;89;90;
   97;98;99;100;101;102;103;104;105;106;107;108;109;110;111;112;113;114;115;116;
   117;118;119;120;121;122;
   48;49;50;51;52;53;54;55;56;57; 45; 95].
Proof. vm_compute. reflexivity. Qed.

Example enc_char_table_standard :
  map (enc_char Standard) sextets =
  [65;66;67;68;69;70;71;72;73;74;75;76;77;78;79;80;81;82;83;84;85;86;87;88;89;90;
   97;98;99;100;101;102;103;104;105;106;107;108;109;110;111;112;113;114;115;116;
   117;118;119;120;121;122;
   48;49;50;51;52;53;54;55;56;57; 43; 47].
Proof. vm_compute. reflexivity. Qed.

(* Exactly 64 of the 256 byte values are accepted by [dec_char]. *)
Example dec_char_count :
  forall al,
    length (filter (fun c => match dec_char al c with Some _ => true | None => false end)
                   (map N.of_nat (seq 0 256))) = 64%nat.
Proof. intros []; vm_compute; reflexivity. Qed.

(* ---------- sextet arithmetic ---------- *)

Lemma sextets_of_bytes a b c :
  a < 256 -> b < 256 -> c < 256 ->
  a / 4 < 64 /\ (a mod 4) * 16 + b / 16 < 64 /\
  (b mod 16) * 4 + c / 64 < 64 /\ c mod 64 < 64 /\
  (a mod 4) * 16 < 64 /\ (b mod 16) * 4 < 64.
Proof. lia. Qed.

Lemma bytes_of_sextets3 a b c :
  a < 256 -> b < 256 -> c < 256 ->
  [ (a / 4) * 4 + ((a mod 4) * 16 + b / 16) / 16;
    (((a mod 4) * 16 + b / 16) mod 16) * 16 + ((b mod 16) * 4 + c / 64) / 4;
    (((b mod 16) * 4 + c / 64) mod 4) * 64 + c mod 64 ] = [a; b; c].
Proof. intros. repeat f_equal; lia. Qed.

Lemma sextets_of_bytes3 s1 s2 s3 s4 :
  s1 < 64 -> s2 < 64 -> s3 < 64 -> s4 < 64 ->
  let a := s1 * 4 + s2 / 16 in
  let b := (s2 mod 16) * 16 + s3 / 4 in
  let c := (s3 mod 4) * 64 + s4 in
  a < 256 /\ b < 256 /\ c < 256 /\
  a / 4 = s1 /\ (a mod 4) * 16 + b / 16 = s2 /\
  (b mod 16) * 4 + c / 64 = s3 /\ c mod 64 = s4.
Proof. cbv zeta. lia. Qed.

Lemma sextets_of_bytes2 s1 s2 s3 :
  s1 < 64 -> s2 < 64 -> s3 < 64 -> s3 mod 4 = 0 ->
  let a := s1 * 4 + s2 / 16 in
  let b := (s2 mod 16) * 16 + s3 / 4 in
  a < 256 /\ b < 256 /\
  a / 4 = s1 /\ (a mod 4) * 16 + b / 16 = s2 /\ (b mod 16) * 4 = s3.
Proof. cbv zeta. lia. Qed.

Lemma sextets_of_bytes1 s1 s2 :
  s1 < 64 -> s2 < 64 -> s2 mod 16 = 0 ->
  let a := s1 * 4 + s2 / 16 in
  a < 256 /\ a / 4 = s1 /\ (a mod 4) * 16 = s2.
Proof. cbv zeta. lia. Qed.

(* ---------- round trip ---------- *)

Lemma b64_encode_nil_inv al bs : b64_encode al bs = [] -> bs = [].
Proof.
  destruct bs as [|a [|b [|c rest]]]; cbn [b64_encode]; congruence.
Qed.

Lemma dec_quad_enc al a b c :
  a < 256 -> b < 256 -> c < 256 ->
  dec_quad al (enc_char al (a / 4))
           (enc_char al ((a mod 4) * 16 + b / 16))
           (enc_char al ((b mod 16) * 4 + c / 64))
           (enc_char al (c mod 64)) = Some [a; b; c].
Proof.
  intros Ha Hb Hc.
  destruct (sextets_of_bytes a b c Ha Hb Hc) as (H1 & H2 & H3 & H4 & _).
  unfold dec_quad. rewrite !dec_enc_char by assumption.
  rewrite bytes_of_sextets3 by assumption. reflexivity.
Qed.

Theorem b64_round_trip : forall al bs,
  bytes_ok bs = true -> b64_decode al (b64_encode al bs) = Some bs.
Proof.
  intros al bs. induction bs as [|a|a b|a b c rest IH] using list_ind3.
  - reflexivity.
  - cbn [bytes_ok forallb]. unfold byte_ok. intros Hok.
    assert (Ha : a < 256) by lia.
    destruct (sextets_of_bytes a 0 0 Ha) as (H1 & _ & _ & _ & H5 & _); [lia|lia|].
    cbn [b64_encode b64_decode]. unfold dec_last.
    rewrite !N.eqb_refl. rewrite !dec_enc_char by assumption.
    replace ((a mod 4 * 16) mod 16 =? 0) with true by lia.
    repeat f_equal; lia.
  - cbn [bytes_ok forallb]. unfold byte_ok. intros Hok.
    assert (Ha : a < 256) by lia. assert (Hb : b < 256) by lia.
    destruct (sextets_of_bytes a b 0 Ha Hb) as (H1 & H2 & _ & _ & _ & H6); [lia|].
    cbn [b64_encode b64_decode]. unfold dec_last.
    rewrite N.eqb_refl.
    destruct (N.eqb_spec (enc_char al (b mod 16 * 4)) pad_char) as [E|_];
      [exfalso; exact (enc_char_not_pad _ _ E)|].
    rewrite !dec_enc_char by assumption.
    replace ((b mod 16 * 4) mod 4 =? 0) with true by lia.
    repeat f_equal; lia.
  - cbn [bytes_ok forallb]. unfold byte_ok. intros Hok.
    rewrite !andb_true_iff in Hok. destruct Hok as (Ha & Hb & Hc & Hrest).
    apply N.ltb_lt in Ha, Hb, Hc. fold (bytes_ok rest) in Hrest.
    specialize (IH Hrest).
    cbn [b64_encode b64_decode].
    destruct (b64_encode al rest) as [|x r] eqn:E.
    + apply b64_encode_nil_inv in E. subst rest.
      unfold dec_last.
      destruct (N.eqb_spec (enc_char al (c mod 64)) pad_char) as [E|_];
        [exfalso; exact (enc_char_not_pad _ _ E)|].
      apply dec_quad_enc; assumption.
    + rewrite dec_quad_enc by assumption. rewrite IH. reflexivity.
Qed.

(* ---------- canonicity ---------- *)

Lemma dec_quad_inv al c1 c2 c3 c4 x :
  dec_quad al c1 c2 c3 c4 = Some x ->
  exists a b c, x = [a; b; c] /\ a < 256 /\ b < 256 /\ c < 256 /\
    c1 = enc_char al (a / 4) /\
    c2 = enc_char al ((a mod 4) * 16 + b / 16) /\
    c3 = enc_char al ((b mod 16) * 4 + c / 64) /\
    c4 = enc_char al (c mod 64).
Proof.
  unfold dec_quad.
  destruct (dec_char al c1) as [s1|] eqn:E1; [|discriminate].
  destruct (dec_char al c2) as [s2|] eqn:E2; [|discriminate].
  destruct (dec_char al c3) as [s3|] eqn:E3; [|discriminate].
  destruct (dec_char al c4) as [s4|] eqn:E4; [|discriminate].
  intros [= <-].
  apply enc_dec_char in E1, E2, E3, E4.
  destruct E1 as [L1 <-], E2 as [L2 <-], E3 as [L3 <-], E4 as [L4 <-].
  destruct (sextets_of_bytes3 s1 s2 s3 s4 L1 L2 L3 L4)
    as (Ha & Hb & Hc & R1 & R2 & R3 & R4).
  eexists _, _, _. split; [reflexivity|].
  rewrite R1, R2, R3, R4. auto 10.
Qed.

Lemma dec_last_inv al c1 c2 c3 c4 bs :
  dec_last al c1 c2 c3 c4 = Some bs ->
  [c1; c2; c3; c4] = b64_encode al bs /\ bytes_ok bs = true.
Proof.
  unfold dec_last.
  destruct (N.eqb_spec c4 pad_char) as [->|N4].
  - destruct (N.eqb_spec c3 pad_char) as [->|N3].
    + destruct (dec_char al c1) as [s1|] eqn:E1; [|discriminate].
      destruct (dec_char al c2) as [s2|] eqn:E2; [|discriminate].
      destruct (N.eqb_spec (s2 mod 16) 0) as [Z|]; [|discriminate].
      intros [= <-].
      apply enc_dec_char in E1, E2.
      destruct E1 as [L1 <-], E2 as [L2 <-].
      destruct (sextets_of_bytes1 s1 s2 L1 L2 Z) as (Ha & R1 & R2).
      cbn [b64_encode bytes_ok forallb]. unfold byte_ok.
      rewrite R1, R2. split; [reflexivity|lia].
    + destruct (dec_char al c1) as [s1|] eqn:E1; [|discriminate].
      destruct (dec_char al c2) as [s2|] eqn:E2; [|discriminate].
      destruct (dec_char al c3) as [s3|] eqn:E3; [|discriminate].
      destruct (N.eqb_spec (s3 mod 4) 0) as [Z|]; [|discriminate].
      intros [= <-].
      apply enc_dec_char in E1, E2, E3.
      destruct E1 as [L1 <-], E2 as [L2 <-], E3 as [L3 <-].
      destruct (sextets_of_bytes2 s1 s2 s3 L1 L2 L3 Z) as (Ha & Hb & R1 & R2 & R3).
      cbn [b64_encode bytes_ok forallb]. unfold byte_ok.
      rewrite R1, R2, R3. split; [reflexivity|lia].
  - intros H. apply dec_quad_inv in H.
    destruct H as (a & b & c & -> & Ha & Hb & Hc & -> & -> & -> & ->).
    cbn [b64_encode bytes_ok forallb]. unfold byte_ok.
    split; [reflexivity|lia].
Qed.

Theorem b64_canonical : forall al t bs,
  b64_decode al t = Some bs -> t = b64_encode al bs /\ bytes_ok bs = true.
Proof.
  intros al t.
  induction t as [|c1|c1 c2|c1 c2 c3|c1 c2 c3 c4 rest IH] using list_ind4;
    intros bs; cbn [b64_decode]; try discriminate.
  - intros [= <-]. split; reflexivity.
  - destruct rest as [|r0 rest'].
    + apply dec_last_inv.
    + destruct (dec_quad al c1 c2 c3 c4) as [x|] eqn:EQ; [|discriminate].
      destruct (b64_decode al (r0 :: rest')) as [y|] eqn:ER; [|discriminate].
      intros [= <-].
      apply dec_quad_inv in EQ.
      destruct EQ as (a & b & c & -> & Ha & Hb & Hc & -> & -> & -> & ->).
      destruct (IH y eq_refl) as [IH1 IH2].
      cbn [app b64_encode]. rewrite <- IH1. split; [reflexivity|].
      unfold bytes_ok in *. cbn [forallb]. rewrite IH2. unfold byte_ok. lia.
Qed.

(* A token is accepted iff it is the canonical encoding of a well-formed byte
   string: the two directions packaged together. *)
Corollary b64_decode_iff : forall al t bs,
  b64_decode al t = Some bs <-> (t = b64_encode al bs /\ bytes_ok bs = true).
Proof.
  intros al t bs. split.
  - apply b64_canonical.
  - intros [-> Hok]. apply b64_round_trip, Hok.
Qed.

(* ---------- length ---------- *)

Theorem b64_length : forall al bs,
  N.of_nat (length (b64_encode al bs)) = 4 * ((N.of_nat (length bs) + 2) / 3).
Proof.
  intros al bs. induction bs as [|a|a b|a b c rest IH] using list_ind3;
    try reflexivity.
  cbn [b64_encode length]. rewrite !Nat2N.inj_succ. lia.
Qed.

(* ---------- injectivity ---------- *)

Theorem b64_encode_inj : forall al a b,
  bytes_ok a = true -> bytes_ok b = true ->
  b64_encode al a = b64_encode al b -> a = b.
Proof.
  intros al a b Ha Hb E.
  pose proof (b64_round_trip al a Ha) as Ra.
  pose proof (b64_round_trip al b Hb) as Rb.
  rewrite E in Ra. congruence.
Qed.

(* Two distinct tokens never decode to the same bytes. *)
Corollary b64_decode_inj : forall al t1 t2 bs,
  b64_decode al t1 = Some bs -> b64_decode al t2 = Some bs -> t1 = t2.
Proof.
  intros al t1 t2 bs H1 H2.
  apply b64_canonical in H1, H2. destruct H1 as [-> _], H2 as [-> _]. reflexivity.
Qed.

(* ---------- accepted tokens use only alphabet characters and '=' ---------- *)

Lemma b64_encode_alphabet al bs :
  forallb (is_b64_char al) (b64_encode al bs) = true.
Proof.
  induction bs as [|a|a b|a b c rest IH] using list_ind3;
    cbn [b64_encode forallb];
    rewrite ?enc_char_is_b64, ?pad_is_b64, ?IH; reflexivity.
Qed.

Lemma b64_decode_alphabet : forall al t bs,
  b64_decode al t = Some bs -> forallb (is_b64_char al) t = true.
Proof.
  intros al t bs H. apply b64_canonical in H. destruct H as [-> _].
  apply b64_encode_alphabet.
Qed.

(* Accepted tokens have length a multiple of 4. *)
Corollary b64_decode_length : forall al t bs,
  b64_decode al t = Some bs -> N.of_nat (length t) mod 4 = 0.
Proof.
  intros al t bs H. apply b64_canonical in H. destruct H as [-> _].
  rewrite b64_length. lia.
Qed.

(* ---------- test vectors ---------- *)

(* RFC 4648 section 10.  "f"=102 "o"=111 "b"=98 "a"=97 "r"=114. *)
Example rfc_enc_0 : forall al, b64_encode al [] = [].
Proof. intros []; vm_compute; reflexivity. Qed.
(* "f" -> "Zg==" *)
Example rfc_enc_1 : forall al, b64_encode al [102] = [90;103;61;61].
Proof. intros []; vm_compute; reflexivity. Qed.
(* "fo" -> "Zm8=" *)
Example rfc_enc_2 : forall al, b64_encode al [102;111] = [90;109;56;61].
Proof. intros []; vm_compute; reflexivity. Qed.
(* "foo" -> "Zm9v" *)
Example rfc_enc_3 : forall al, b64_encode al [102;111;111] = [90;109;57;118].
Proof. intros []; vm_compute; reflexivity. Qed.
(* "foob" -> "Zm9vYg==" *)
Example rfc_enc_4 : forall al,
  b64_encode al [102;111;111;98] = [90;109;57;118;89;103;61;61].
Proof. intros []; vm_compute; reflexivity. Qed.
(* "fooba" -> "Zm9vYmE=" *)
Example rfc_enc_5 : forall al,
  b64_encode al [102;111;111;98;97] = [90;109;57;118;89;109;69;61].
Proof. intros []; vm_compute; reflexivity. Qed.
(* "foobar" -> "Zm9vYmFy" *)
Example rfc_enc_6 : forall al,
  b64_encode al [102;111;111;98;97;114] = [90;109;57;118;89;109;70;121].
Proof. intros []; vm_compute; reflexivity. Qed.

Example rfc_dec_0 : forall al, b64_decode al [] = Some [].
Proof. intros []; vm_compute; reflexivity. Qed.
Example rfc_dec_1 : forall al, b64_decode al [90;103;61;61] = Some [102].
Proof. intros []; vm_compute; reflexivity. Qed.
Example rfc_dec_2 : forall al, b64_decode al [90;109;56;61] = Some [102;111].
Proof. intros []; vm_compute; reflexivity. Qed.
Example rfc_dec_3 : forall al, b64_decode al [90;109;57;118] = Some [102;111;111].
Proof. intros []; vm_compute; reflexivity. Qed.
Example rfc_dec_4 : forall al,
  b64_decode al [90;109;57;118;89;103;61;61] = Some [102;111;111;98].
Proof. intros []; vm_compute; reflexivity. Qed.
Example rfc_dec_5 : forall al,
  b64_decode al [90;109;57;118;89;109;69;61] = Some [102;111;111;98;97].
Proof. intros []; vm_compute; reflexivity. Qed.
Example rfc_dec_6 : forall al,
  b64_decode al [90;109;57;118;89;109;70;121] = Some [102;111;111;98;97;114].
Proof. intros []; vm_compute; reflexivity. Qed.

(* The two alphabets differ exactly on sextets 62 and 63:
   bytes fb ef be / ff ff ff  ->  "----" "____" (url-safe), "++++" "////" (standard). *)
Example alpha_enc_url :
  b64_encode UrlSafe [251;239;190;255;255;255] = [45;45;45;45;95;95;95;95].
Proof. vm_compute; reflexivity. Qed.
Example alpha_enc_std :
  b64_encode Standard [251;239;190;255;255;255] = [43;43;43;43;47;47;47;47].
Proof. vm_compute; reflexivity. Qed.
Example alpha_dec_url :
  b64_decode UrlSafe [45;45;45;45;95;95;95;95] = Some [251;239;190;255;255;255].
Proof. vm_compute; reflexivity. Qed.
Example alpha_dec_std :
  b64_decode Standard [43;43;43;43;47;47;47;47] = Some [251;239;190;255;255;255].
Proof. vm_compute; reflexivity. Qed.
(* ... and each engine refuses the other's special characters. *)
Example alpha_cross_url : b64_decode UrlSafe [43;43;43;43] = None
                       /\ b64_decode UrlSafe [47;47;47;47] = None.
Proof. vm_compute; split; reflexivity. Qed.
Example alpha_cross_std : b64_decode Standard [45;45;45;45] = None
                       /\ b64_decode Standard [95;95;95;95] = None.
Proof. vm_compute; split; reflexivity. Qed.
(* {"v":"v1"} prefix as a url-safe token with a 0xff 0xfe tail: "_-8=" vs "/+8=" *)
Example alpha_mixed :
  b64_encode UrlSafe [255;239] = [95;45;56;61] /\
  b64_encode Standard [255;239] = [47;43;56;61].
Proof. vm_compute; split; reflexivity. Qed.

(* Rejections (each for both alphabets). *)
(* "Zg=" : length not a multiple of 4 (missing padding) *)
Example rej_short_pad : forall al, b64_decode al [90;103;61] = None.
Proof. intros []; vm_compute; reflexivity. Qed.
(* "Zg" : unpadded *)
Example rej_no_pad : forall al, b64_decode al [90;103] = None.
Proof. intros []; vm_compute; reflexivity. Qed.
(* "Zm8" : unpadded *)
Example rej_no_pad3 : forall al, b64_decode al [90;109;56] = None.
Proof. intros []; vm_compute; reflexivity. Qed.
(* "Z" *)
Example rej_one : forall al, b64_decode al [90] = None.
Proof. intros []; vm_compute; reflexivity. Qed.
(* "Zh==" : non-zero trailing bits (h = 33 = 0b100001) *)
Example rej_trailing_bits1 : forall al, b64_decode al [90;104;61;61] = None.
Proof. intros []; vm_compute; reflexivity. Qed.
(* "Zm9=" : non-zero trailing bits (9 = 61 = 0b111101) *)
Example rej_trailing_bits2 : forall al, b64_decode al [90;109;57;61] = None.
Proof. intros []; vm_compute; reflexivity. Qed.
(* "Zg=a" : data after padding *)
Example rej_pad_then_data : forall al, b64_decode al [90;103;61;97] = None.
Proof. intros []; vm_compute; reflexivity. Qed.
(* "Z===" : too much padding *)
Example rej_pad3 : forall al, b64_decode al [90;61;61;61] = None.
Proof. intros []; vm_compute; reflexivity. Qed.
(* "====" *)
Example rej_pad4 : forall al, b64_decode al [61;61;61;61] = None.
Proof. intros []; vm_compute; reflexivity. Qed.
(* "=Zg=" : leading padding *)
Example rej_lead_pad : forall al, b64_decode al [61;90;103;61] = None.
Proof. intros []; vm_compute; reflexivity. Qed.
(* "Zm9v Zg==" : embedded space *)
Example rej_space : forall al,
  b64_decode al [90;109;57;118;32;90;103;61;61] = None.
Proof. intros []; vm_compute; reflexivity. Qed.
(* "Zg==Zm9v" : padding in a non-final quad *)
Example rej_inner_pad : forall al,
  b64_decode al [90;103;61;61;90;109;57;118] = None.
Proof. intros []; vm_compute; reflexivity. Qed.
(* "Zm9vZg==\n" : trailing newline *)
Example rej_newline : forall al,
  b64_decode al [90;109;57;118;90;103;61;61;10] = None.
Proof. intros []; vm_compute; reflexivity. Qed.
(* "Zm9vZg======" : extra padding quad *)
Example rej_extra_pad_quad : forall al,
  b64_decode al [90;109;57;118;90;103;61;61;61;61;61;61] = None.
Proof. intros []; vm_compute; reflexivity. Qed.
(* "Zm9v====" : a whole quad of padding after a complete token *)
Example rej_pad_quad : forall al,
  b64_decode al [90;109;57;118;61;61;61;61] = None.
Proof. intros []; vm_compute; reflexivity. Qed.
(* a byte >= 128 *)
Example rej_high : forall al, b64_decode al [90;109;57;200] = None.
Proof. intros []; vm_compute; reflexivity. Qed.
