(* PctProofs.v — facts about the percent-decoding / -encoding and UTF-8 models
   of Pct.v and Utf8.v. *)
From DS Require Import Base Pct Utf8.
Require Import ZifyBool ZifyN.
Ltac Zify.zify_post_hook ::= Z.div_mod_to_equations.

(* ---------- hex digits ---------- *)

Lemma hex_val_lt16 c a : hex_val c = Some a -> a < 16.
Proof.
  unfold hex_val.
  destruct ((48 <=? c) && (c <=? 57)) eqn:H1; [intros [= <-]; lia|].
  destruct ((97 <=? c) && (c <=? 102)) eqn:H2; [intros [= <-]; lia|].
  destruct ((65 <=? c) && (c <=? 70)) eqn:H3; [intros [= <-]; lia|].
  discriminate.
Qed.

Lemma hex_val_upper n : n < 16 -> hex_val (hex_digit_upper n) = Some n.
Proof.
  intros Hn. unfold hex_digit_upper, hex_val.
  destruct (n <? 10) eqn:H10.
  - replace ((48 <=? 48 + n) && (48 + n <=? 57)) with true by lia.
    f_equal; lia.
  - replace ((48 <=? 55 + n) && (55 + n <=? 57)) with false by lia.
    replace ((97 <=? 55 + n) && (55 + n <=? 102)) with false by lia.
    replace ((65 <=? 55 + n) && (55 + n <=? 70)) with true by lia.
    f_equal; lia.
Qed.

Lemma hex_val_lower n : n < 16 -> hex_val (hex_digit_lower n) = Some n.
Proof.
  intros Hn. unfold hex_digit_lower, hex_val.
  destruct (n <? 10) eqn:H10.
  - replace ((48 <=? 48 + n) && (48 + n <=? 57)) with true by lia.
    f_equal; lia.
  - replace ((48 <=? 87 + n) && (87 + n <=? 57)) with false by lia.
    replace ((97 <=? 87 + n) && (87 + n <=? 102)) with true by lia.
    f_equal; lia.
Qed.

(* ---------- unfolding equations and an induction principle ---------- *)

Lemma pct_decode_cons_other c t :
  c <> 37 -> pct_decode (c :: t) = c :: pct_decode t.
Proof.
  intros H. cbn [pct_decode].
  destruct (N.eqb_spec c 37); [contradiction|reflexivity].
Qed.

Lemma pct_decode_escape h l a b rest :
  hex_val h = Some a -> hex_val l = Some b ->
  pct_decode (37 :: h :: l :: rest) = (16 * a + b) :: pct_decode rest.
Proof.
  intros Ha Hb. cbn [pct_decode].
  replace (37 =? 37) with true by reflexivity.
  rewrite Ha, Hb. reflexivity.
Qed.

(* the '%' at the head of [37 :: t] does not start an escape *)
Definition no_escape (t : str) : Prop :=
  match t with
  | h :: l :: _ => hex_val h = None \/ hex_val l = None
  | _ => True
  end.

Lemma pct_decode_literal t :
  no_escape t -> pct_decode (37 :: t) = 37 :: pct_decode t.
Proof.
  intros H. cbn [pct_decode].
  replace (37 =? 37) with true by reflexivity.
  destruct t as [|h [|l rest]]; try reflexivity.
  cbn [no_escape] in H.
  destruct (hex_val h); [|reflexivity].
  destruct (hex_val l); [|reflexivity].
  destruct H; discriminate.
Qed.

Lemma pct_decode_ind (P : str -> Prop) :
  P [] ->
  (forall c t, c <> 37 -> P t -> P (c :: t)) ->
  (forall t, no_escape t -> P t -> P (37 :: t)) ->
  (forall h l a b rest, hex_val h = Some a -> hex_val l = Some b ->
                        P rest -> P (37 :: h :: l :: rest)) ->
  forall s, P s.
Proof.
  intros Hnil Hother Hlit Hesc.
  assert (H : forall n s, (length s <= n)%nat -> P s).
  { induction n as [|n IH]; intros s Hlen.
    - destruct s; [exact Hnil|cbn [length] in Hlen; lia].
    - destruct s as [|c t]; [exact Hnil|].
      cbn [length] in Hlen.
      destruct (N.eqb_spec c 37) as [->|Hne].
      + destruct t as [|h [|l rest]].
        * apply Hlit; [exact I|apply IH; cbn [length]; lia].
        * apply Hlit; [exact I|apply IH; cbn [length] in *; lia].
        * destruct (hex_val h) as [a|] eqn:Ha.
          { destruct (hex_val l) as [b|] eqn:Hb.
            - apply (Hesc h l a b rest Ha Hb). apply IH. cbn [length] in *; lia.
            - apply Hlit; [right; exact Hb|apply IH; cbn [length] in *; lia]. }
          { apply Hlit; [left; exact Ha|apply IH; cbn [length] in *; lia]. }
      + apply Hother; [exact Hne|apply IH; lia]. }
  intros s. apply (H (length s)). lia.
Qed.

(* ---------- decoding ---------- *)

Lemma pct_decode_nil_inv : forall s, pct_decode s = [] -> s = [].
Proof.
  intros [|c t]; [reflexivity|].
  cbn [pct_decode].
  destruct (c =? 37); [|discriminate].
  destruct t as [|h [|l rest]]; try discriminate.
  destruct (hex_val h); [|discriminate].
  destruct (hex_val l); discriminate.
Qed.

Lemma pct_decode_length_le : forall s, (length (pct_decode s) <= length s)%nat.
Proof.
  apply pct_decode_ind.
  - cbn [pct_decode length]. lia.
  - intros c t Hc IH. rewrite pct_decode_cons_other by exact Hc.
    cbn [length]. lia.
  - intros t Hne IH. rewrite pct_decode_literal by exact Hne.
    cbn [length]. lia.
  - intros h l a b rest Ha Hb IH.
    rewrite (pct_decode_escape h l a b rest Ha Hb).
    cbn [length]. lia.
Qed.

Lemma pct_decode_bytes_ok :
  forall s, bytes_ok s = true -> bytes_ok (pct_decode s) = true.
Proof.
  unfold bytes_ok. apply (pct_decode_ind
    (fun s => forallb byte_ok s = true -> forallb byte_ok (pct_decode s) = true)).
  - intros _. reflexivity.
  - intros c t Hc IH H. rewrite pct_decode_cons_other by exact Hc.
    cbn [forallb] in *. apply andb_true_iff in H as [H1 H2].
    rewrite H1, (IH H2). reflexivity.
  - intros t Hne IH H. rewrite pct_decode_literal by exact Hne.
    cbn [forallb] in *. apply andb_true_iff in H as [H1 H2].
    rewrite H1, (IH H2). reflexivity.
  - intros h l a b rest Ha Hb IH H.
    rewrite (pct_decode_escape h l a b rest Ha Hb).
    cbn [forallb] in *.
    apply andb_true_iff in H as [_ H].
    apply andb_true_iff in H as [_ H].
    apply andb_true_iff in H as [_ H].
    rewrite (IH H), andb_true_r.
    apply hex_val_lt16 in Ha. apply hex_val_lt16 in Hb.
    unfold byte_ok. lia.
Qed.

Lemma pct_decode_no_pct_id : forall s : str, ~ In 37 s -> pct_decode s = s.
Proof.
  induction s as [|c t IH]; intros H; [reflexivity|].
  cbn [In] in H.
  rewrite pct_decode_cons_other by (intros ->; apply H; left; reflexivity).
  rewrite IH; [reflexivity|]. intros Hin; apply H; right; exact Hin.
Qed.

(* ---------- encoding ---------- *)

Lemma unreserved_not_pct c : unreserved c = true -> c <> 37.
Proof. unfold unreserved. lia. Qed.

Lemma pct_decode_encode_with hex :
  (forall n, n < 16 -> hex_val (hex n) = Some n) ->
  forall s, bytes_ok s = true -> pct_decode (pct_encode_with hex s) = s.
Proof.
  intros Hhex. induction s as [|c t IH]; intros H; [reflexivity|].
  unfold bytes_ok in H. cbn [forallb] in H.
  apply andb_true_iff in H as [Hc Ht].
  cbn [pct_encode_with]. unfold pct_encode_byte.
  destruct (unreserved c) eqn:Hu.
  - cbn [app]. rewrite pct_decode_cons_other by (apply unreserved_not_pct; exact Hu).
    rewrite (IH Ht). reflexivity.
  - cbn [app]. unfold byte_ok in Hc.
    rewrite (pct_decode_escape _ _ (c / 16) (c mod 16)).
    + rewrite (IH Ht). f_equal. lia.
    + apply Hhex. lia.
    + apply Hhex. lia.
Qed.

Lemma pct_decode_encode :
  forall s, bytes_ok s = true -> pct_decode (pct_encode s) = s.
Proof. apply pct_decode_encode_with. exact hex_val_upper. Qed.

Lemma pct_decode_encode_lower :
  forall s, bytes_ok s = true -> pct_decode (pct_encode_lower s) = s.
Proof. apply pct_decode_encode_with. exact hex_val_lower. Qed.

Lemma hex_digit_upper_not_slash n : hex_digit_upper n <> 47.
Proof. unfold hex_digit_upper. destruct (n <? 10) eqn:H; lia. Qed.

Lemma hex_digit_lower_not_slash n : hex_digit_lower n <> 47.
Proof. unfold hex_digit_lower. destruct (n <? 10) eqn:H; lia. Qed.

Lemma pct_encode_with_no_slash hex :
  (forall n, hex n <> 47) -> forall s, ~ In 47 (pct_encode_with hex s).
Proof.
  intros Hhex. induction s as [|c t IH]; [intros []|].
  cbn [pct_encode_with]. intros H. apply in_app_or in H as [H|H]; [|exact (IH H)].
  unfold pct_encode_byte in H.
  destruct (unreserved c) eqn:Hu; cbn [In] in H.
  - destruct H as [H|[]]. subst c. vm_compute in Hu. discriminate.
  - destruct H as [H|[H|[H|[]]]].
    + discriminate.
    + exact (Hhex _ H).
    + exact (Hhex _ H).
Qed.

Lemma pct_encode_no_slash : forall s, ~ In 47 (pct_encode s).
Proof. apply pct_encode_with_no_slash. exact hex_digit_upper_not_slash. Qed.

Lemma pct_encode_lower_no_slash : forall s, ~ In 47 (pct_encode_lower s).
Proof. apply pct_encode_with_no_slash. exact hex_digit_lower_not_slash. Qed.

(* ---------- UTF-8 ---------- *)

Lemma utf8_valid_ascii :
  forall s : str, forallb (fun c => c <? 128) s = true -> utf8_valid s = true.
Proof.
  induction s as [|c t IH]; intros H; [reflexivity|].
  cbn [forallb] in H. apply andb_true_iff in H as [Hc Ht].
  cbn [utf8_valid]. rewrite Hc. exact (IH Ht).
Qed.

(* One step of the recogniser: a valid non-empty string splits into a first
   scalar value's bytes [p] (1 to 4 bytes, all < 256) and a valid tail, and
   [p] followed by any valid string is again valid. *)
Lemma utf8_valid_split s :
  s <> [] -> utf8_valid s = true ->
  exists p t, s = p ++ t /\ p <> [] /\ utf8_valid t = true /\ bytes_ok p = true /\
              forall b, utf8_valid (p ++ b) = utf8_valid b.
Proof.
  destruct s as [|b0 t0]; [congruence|]. intros _ H.
  cbn [utf8_valid] in H.
  destruct (b0 <? 128) eqn:H0.
  { exists [b0], t0. repeat split; try congruence.
    - unfold bytes_ok, byte_ok. cbn [forallb]. lia.
    - intros b. cbn [app utf8_valid]. rewrite H0. reflexivity. }
  destruct (in_range 194 223 b0) eqn:H2.
  { destruct t0 as [|b1 t1]; [discriminate|].
    apply andb_true_iff in H as [Hc1 Ht].
    exists [b0; b1], t1. repeat split; try congruence.
    - unfold bytes_ok, byte_ok, utf8_cont, in_range in *. cbn [forallb]. lia.
    - intros b. cbn [app utf8_valid]. rewrite H0, H2, Hc1. reflexivity. }
  destruct (in_range 224 239 b0) eqn:H3.
  { destruct t0 as [|b1 [|b2 t2]]; try discriminate.
    apply andb_true_iff in H as [H Ht].
    apply andb_true_iff in H as [Hs Hc2].
    exists [b0; b1; b2], t2. repeat split; try congruence.
    - unfold bytes_ok, byte_ok, utf8_cont, utf8_second3, in_range in *.
      cbn [forallb].
      destruct (b0 =? 224); [lia|]. destruct (b0 =? 237); lia.
    - intros b. cbn [app utf8_valid]. rewrite H0, H2, H3, Hs, Hc2. reflexivity. }
  destruct (in_range 240 244 b0) eqn:H4; [|discriminate].
  destruct t0 as [|b1 [|b2 [|b3 t3]]]; try discriminate.
  apply andb_true_iff in H as [H Ht].
  apply andb_true_iff in H as [H Hc3].
  apply andb_true_iff in H as [Hs Hc2].
  exists [b0; b1; b2; b3], t3. repeat split; try congruence.
  - unfold bytes_ok, byte_ok, utf8_cont, utf8_second4, in_range in *.
    cbn [forallb].
    destruct (b0 =? 240); [lia|]. destruct (b0 =? 244); lia.
  - intros b. cbn [app utf8_valid]. rewrite H0, H2, H3, H4, Hs, Hc2, Hc3. reflexivity.
Qed.

Lemma utf8_valid_app_eq :
  forall a b : str, utf8_valid a = true -> utf8_valid (a ++ b) = utf8_valid b.
Proof.
  intros a b.
  assert (H : forall n a, (length a <= n)%nat -> utf8_valid a = true ->
                          utf8_valid (a ++ b) = utf8_valid b).
  { induction n as [|n IH]; intros a' Hlen Hv.
    - destruct a'; [reflexivity|cbn [length] in Hlen; lia].
    - destruct a' as [|c t]; [reflexivity|].
      destruct (utf8_valid_split (c :: t)) as (p & t' & Heq & Hp & Ht' & _ & Hstep);
        [congruence|exact Hv|].
      rewrite Heq, <- app_assoc, Hstep. apply IH; [|exact Ht'].
      rewrite Heq, app_length in Hlen.
      destruct p; [congruence|]. cbn [length] in Hlen. lia. }
  apply (H (length a)). lia.
Qed.

Lemma utf8_valid_app :
  forall a b, utf8_valid a = true -> utf8_valid b = true -> utf8_valid (a ++ b) = true.
Proof. intros a b Ha Hb. rewrite utf8_valid_app_eq by exact Ha. exact Hb. Qed.

Lemma utf8_valid_bytes_ok : forall s, utf8_valid s = true -> bytes_ok s = true.
Proof.
  assert (H : forall n s, (length s <= n)%nat -> utf8_valid s = true -> bytes_ok s = true).
  { induction n as [|n IH]; intros s Hlen Hv.
    - destruct s; [reflexivity|cbn [length] in Hlen; lia].
    - destruct s as [|c t]; [reflexivity|].
      destruct (utf8_valid_split (c :: t)) as (p & t' & Heq & Hp & Ht' & Hok & _);
        [congruence|exact Hv|].
      rewrite Heq. unfold bytes_ok in *. rewrite forallb_app, Hok.
      apply IH; [|exact Ht'].
      rewrite Heq, app_length in Hlen.
      destruct p; [congruence|]. cbn [length] in Hlen. lia. }
  intros s. apply (H (length s)). lia.
Qed.

(* ---------- examples ---------- *)
(* '%'=37 '/'=47 '.'=46 '2'=50 '4'=52 '5'=53 '1'=49 'A'=65 'E'=69 'F'=70 'e'=101 'z'=122 *)

Example ex_decode_slash : pct_decode [37; 50; 70] = [47].                       (* "%2F" -> "/" *)
Proof. vm_compute. reflexivity. Qed.
Example ex_decode_single_pass : pct_decode [37; 50; 53; 50; 70] = [37; 50; 70]. (* "%252F" -> "%2F" *)
Proof. vm_compute. reflexivity. Qed.
Example ex_decode_dots : pct_decode [37; 50; 101; 37; 50; 69] = [46; 46].       (* "%2e%2E" -> ".." *)
Proof. vm_compute. reflexivity. Qed.
Example ex_decode_pct_pct : pct_decode [37; 37; 52; 49] = [37; 65].             (* "%%41" -> "%A" *)
Proof. vm_compute. reflexivity. Qed.
Example ex_decode_trunc1 : pct_decode [37; 52] = [37; 52].                      (* "%4" stays *)
Proof. vm_compute. reflexivity. Qed.
Example ex_decode_nonhex : pct_decode [37; 122; 122] = [37; 122; 122].          (* "%zz" stays *)
Proof. vm_compute. reflexivity. Qed.
Example ex_decode_lone : pct_decode [37] = [37].                                (* "%" stays *)
Proof. vm_compute. reflexivity. Qed.
Example ex_encode_slash : pct_encode [97; 47; 98] = [97; 37; 50; 70; 98].       (* "a/b" -> "a%2Fb" *)
Proof. vm_compute. reflexivity. Qed.
Example ex_encode_lower_slash : pct_encode_lower [97; 47; 98] = [97; 37; 50; 102; 98].
Proof. vm_compute. reflexivity. Qed.

Example ex_utf8_e_acute : utf8_valid [195; 169] = true.                  (* "é" = C3 A9 *)
Proof. vm_compute. reflexivity. Qed.
Example ex_utf8_overlong : utf8_valid [192; 128] = false.                (* C0 80: overlong NUL *)
Proof. vm_compute. reflexivity. Qed.
Example ex_utf8_overlong3 : utf8_valid [224; 128; 128] = false.          (* E0 80 80: overlong *)
Proof. vm_compute. reflexivity. Qed.
Example ex_utf8_surrogate : utf8_valid [237; 160; 128] = false.          (* ED A0 80 = U+D800 *)
Proof. vm_compute. reflexivity. Qed.
Example ex_utf8_too_big : utf8_valid [244; 144; 128; 128] = false.       (* F4 90 80 80 = U+110000 *)
Proof. vm_compute. reflexivity. Qed.
Example ex_utf8_max : utf8_valid [244; 143; 191; 191] = true.            (* U+10FFFF *)
Proof. vm_compute. reflexivity. Qed.
Example ex_utf8_trunc2 : utf8_valid [195] = false.
Proof. vm_compute. reflexivity. Qed.
Example ex_utf8_trunc3 : utf8_valid [226; 130] = false.                  (* E2 82 (AC) *)
Proof. vm_compute. reflexivity. Qed.
Example ex_utf8_trunc4 : utf8_valid [240; 159; 146] = false.             (* F0 9F 92 (A9) *)
Proof. vm_compute. reflexivity. Qed.
Example ex_utf8_lone_cont : utf8_valid [128] = false.
Proof. vm_compute. reflexivity. Qed.
Example ex_utf8_cont_after_ascii : utf8_valid [97; 191] = false.
Proof. vm_compute. reflexivity. Qed.
Example ex_utf8_not_a_byte : utf8_valid [256] = false.
Proof. vm_compute. reflexivity. Qed.
(* decoding can turn valid UTF-8 (pure ASCII) into invalid UTF-8 *)
Example ex_decode_breaks_utf8 :
  utf8_valid [37; 70; 70] = true /\ utf8_valid (pct_decode [37; 70; 70]) = false.
Proof. vm_compute. split; reflexivity. Qed.
