(* Conn.v — the structure of dropshot's server that C18 is about:

   * [respond]: dropshot's own part of request handling as one total function
     from what the stages of [http_request_handle] decide about a request
     (version policy, path normalisation, routing, extractors, handler) to a
     response status or a panic of the connection task
     (server.rs: http_request_handle_wrap / http_request_handle,
      router.rs: lookup_route, extractor/body.rs, websocket.rs);
   * a connection: consumes [Bytes]/[Truncate]/[Abort], hyper's request parser
     being an oracle, and ends [Responded]/[ClosedSilently];
   * the server: an association list of independent connections (one
     [tokio::spawn] each, server.rs: HttpServerStarter::start) plus the accept
     loop (HttpAcceptor::accept, HttpsAcceptor::new_stream).

   hyper's HTTP parser and connection state machine, tokio and TCP are NOT
   modelled: they enter as the oracle [parse_all] (a Section variable).

   No proofs here (ConnProofs.v). *)
From DS Require Import Base.

Local Notation bytes := (list N) (only parsing).

(* ================================================================== *)
(* 1. dropshot's response function                                     *)
(* ================================================================== *)

(* config.default_handler_task_mode *)
Inductive task_mode := Detached | CancelOnDisconnect.

(* router.rs lookup_route, after the path has been normalised *)
Inductive route_res :=
| RouteFound
| RouteNotFound            (* HttpError::for_not_found: 404 *)
| RouteMethodNotAllowed.   (* 405 *)

(* What the exclusive (body-consuming) extractor of the endpoint finds.  Each
   [bool] is one check of the code, in the order the code makes them; every
   failing check is an [HttpError::for_bad_request] (400). *)
Inductive body_spec :=
| BNone                    (* the endpoint has no exclusive extractor *)
  (* TypedBody, http_request_load_body: body frames read without error, total
     size within the cap, Content-Type is a string, names a known media type,
     is the endpoint's media type, body deserialises *)
| BTyped (frames_ok within_cap ctype_str ctype_known ctype_match parse_ok : bool)
  (* UntypedBody: frames, cap *)
| BUntyped (frames_ok within_cap : bool)
  (* StreamingBody: handed to the handler unread; errors surface in the handler *)
| BStreaming
  (* MultipartBody: Content-Type present, is a string, carries a boundary *)
| BMultipart (has_ctype ctype_str boundary_ok : bool)
  (* WebsocketUpgrade: Connection has "upgrade", Upgrade has "websocket",
     Sec-WebSocket-Version is 13, Sec-WebSocket-Key present *)
| BWebsocket (conn_upgrade upgrade_ws version13 has_key : bool).

(* what the endpoint's own function does once its arguments exist *)
Inductive handler_res :=
| HOk (status : N)         (* a typed response: its declared status *)
| HErr (status : N)        (* an HttpError: ErrorStatusCode, 400..599 *)
| HPanic.

(* A request as dropshot's stages see it. *)
Record areq := AR {
  a_version : bool;        (* VersionPolicy::request_version returned Ok *)
  a_path : bool;           (* input_path_to_segments returned Ok *)
  a_route : route_res;
  a_shared : list bool;    (* Path / Query / header extractors, in order: Ok? *)
  a_body : body_spec;
  a_handler : handler_res
}.

Inductive outcome :=
| Resp (status : N) (framework : bool)   (* [framework]: made by dropshot, not by the handler *)
| ConnPanic.                             (* the panic unwinds the connection's task *)

Definition body_ok (b : body_spec) : bool :=
  match b with
  | BNone => true
  | BTyped f c s k m p => f && c && s && k && m && p
  | BUntyped f c => f && c
  | BStreaming => true
  | BMultipart h s b => h && s && b
  | BWebsocket c u v k => c && u && v && k
  end.

(* The handler call of http_request_handle.
   CancelOnDisconnect: [handler.handle_request(rqctx, request).await?] runs in
   the connection's task: a panic unwinds that task.
   Detached: the handler runs in its own task; [rx.await] fails exactly when it
   panicked, and then [panic::resume_unwind(task_err.into_panic())] re-raises
   the panic in the connection's task.  Either way there is no response. *)
Definition run_handler (m : task_mode) (h : handler_res) : outcome :=
  match m with
  | CancelOnDisconnect =>
      match h with
      | HOk s => Resp s false
      | HErr s => Resp s false
      | HPanic => ConnPanic
      end
  | Detached =>
      match h with
      | HOk s => Resp s false         (* rx.await = Ok(Ok(response)) *)
      | HErr s => Resp s false        (* rx.await = Ok(Err(error)), [?] *)
      | HPanic => ConnPanic           (* rx.await = Err(_): resume_unwind *)
      end
  end.

(* http_request_handle, arm by arm; every [Err] becomes
   [error.into_response] in http_request_handle_wrap *)
Definition respond (m : task_mode) (a : areq) : outcome :=
  if negb (a_version a) then Resp 400 true            (* request_version(..)? *)
  else if negb (a_path a) then Resp 400 true          (* "invalid path encoding" *)
  else match a_route a with
       | RouteNotFound => Resp 404 true
       | RouteMethodNotAllowed => Resp 405 true
       | RouteFound =>
           if negb (forallb (fun ok => ok) (a_shared a)) then Resp 400 true
           else if negb (body_ok (a_body a)) then Resp 400 true
           else run_handler m (a_handler a)
       end.

(* the request is malformed in one of the ways dropshot itself checks *)
Definition malformed (a : areq) : bool :=
  negb (a_version a) || negb (a_path a)
  || negb (forallb (fun ok => ok) (a_shared a)) || negb (body_ok (a_body a)).

(* K18.  [malformed] only knows what dropshot itself checks.  On the wire a
   request can also be malformed in the framing of its body (an invalid
   chunk-size line, ...): hyper decodes a body lazily, so that is found only
   if somebody reads the body.  [frames_ok] is what a reader WOULD find. *)
Definition wire_malformed (frames_ok : bool) (a : areq) : bool :=
  malformed a || negb frames_ok.

(* the extractors with which dropshot itself reads the whole body *)
Definition extractor_reads_body (b : body_spec) : bool :=
  match b with
  | BTyped _ _ _ _ _ _ => true
  | BUntyped _ _ => true
  | _ => false
  end.

(* the taxonomy's own record of the framing agrees with the wire *)
Definition framing_consistent (frames_ok : bool) (a : areq) : bool :=
  match a_body a with
  | BTyped f _ _ _ _ _ => Bool.eqb f frames_ok
  | BUntyped f _ => Bool.eqb f frames_ok
  | _ => true
  end.

(* known-finding class K18: the body framing is invalid and the endpoint's
   extractor does not read the body *)
Definition k18_class (frames_ok : bool) (a : areq) : bool :=
  negb frames_ok && negb (extractor_reads_body (a_body a)).

(* ErrorStatusCode's invariant *)
Definition handler_wf (h : handler_res) : bool :=
  match h with
  | HOk s => (100 <=? s) && (s <? 600)
  | HErr s => (400 <=? s) && (s <? 600)
  | HPanic => true
  end.

(* ================================================================== *)
(* 2. one connection                                                    *)
(* ================================================================== *)

Inductive event :=
| Bytes (bs : bytes)   (* the client sends *)
| Truncate             (* the client stops: FIN *)
| Abort.               (* RST *)

Inductive cstate :=
| Open (buf : bytes) (sent : list N)   (* unparsed input; statuses sent so far *)
| Closed (sent : list N).

Inductive ending := Responded (rs : list N) | ClosedSilently | StillOpen (rs : list N).

(* how hyper's parser leaves the input after the complete requests *)
Inductive tail :=
| TIncomplete (rest : bytes)        (* a proper prefix of a request: wait *)
| TMalformed (answer : option N).   (* not a request: hyper answers (400/414/431) or not, and closes *)

Section Conn.
  Variable req : Type.
  (* hyper: the complete requests at the front of the buffered bytes, and the tail *)
  Variable parse_all : bytes -> list req * tail.
  (* dropshot *)
  Variable respond_req : req -> outcome.

  (* requests on one connection are served in order; a panic ends the task *)
  Fixpoint serve (rs : list req) (sent : list N) : list N * bool :=
    match rs with
    | [] => (sent, false)
    | r :: rs' =>
        match respond_req r with
        | Resp s _ => serve rs' (sent ++ [s])
        | ConnPanic => (sent, true)
        end
    end.

  Definition conn_step (c : cstate) (e : event) : cstate :=
    match c with
    | Closed sent => Closed sent
    | Open buf sent =>
        match e with
        | Bytes bs =>
            let (rs, t) := parse_all (buf ++ bs) in
            let (sent', panicked) := serve rs sent in
            if panicked then Closed sent'
            else match t with
                 | TIncomplete rest => Open rest sent'
                 | TMalformed None => Closed sent'
                 | TMalformed (Some st) => Closed (sent' ++ [st])
                 end
        | Truncate => Closed sent
        | Abort => Closed sent
        end
    end.

  Definition conn_run (es : list event) : cstate := fold_left conn_step es (Open [] []).

  Definition ending_of (c : cstate) : ending :=
    match c with
    | Closed [] => ClosedSilently
    | Closed rs => Responded rs
    | Open _ rs => StillOpen rs
    end.

  (* ================================================================ *)
  (* 3. the server                                                     *)
  (* ================================================================ *)

  Definition cid := N.

  (* std::io::ErrorKind of a failed accept(2), as HttpAcceptor::accept
     distinguishes them *)
  Inductive errkind :=
  | ConnectionRefused | ConnectionAborted | ConnectionReset
  | OtherKind (code : N).             (* e.g. EMFILE *)

  Inductive disposition := Ignore | SleepAndRetry.
  (* HttpAcceptor::accept, the [Err(e) => match e.kind()] arms: both re-enter
     the [loop] *)
  Definition accept_error (k : errkind) : disposition :=
    match k with
    | ConnectionRefused | ConnectionAborted | ConnectionReset => Ignore
    | OtherKind _ => SleepAndRetry
    end.

  Inductive lstate := Accepting | Exited.

  Inductive levent :=
  | AcceptResult (r : res errkind cid)   (* what tcp.accept().await returned *)
  | TlsDone (c : cid) (ok : bool)        (* a TLS negotiation finished *)
  | Shutdown.                            (* the close signal [rx] *)

  Inductive sevent :=
  | Loop (e : levent)
  | OnConn (c : cid) (e : event).

  Record server := Srv {
    s_tls : bool;                        (* HTTPS listener *)
    s_loop : lstate;
    s_pending : list cid;                (* TLS negotiations in flight *)
    s_conns : list (cid * cstate);       (* one spawned task per connection *)
    s_slept : N                          (* times the acceptor slept 100 ms *)
  }.

  Fixpoint lookup (c : cid) (l : list (cid * cstate)) : option cstate :=
    match l with
    | [] => None
    | (k, v) :: l' => if k =? c then Some v else lookup c l'
    end.

  Fixpoint update (c : cid) (f : cstate -> cstate) (l : list (cid * cstate)) : list (cid * cstate) :=
    match l with
    | [] => []
    | (k, v) :: l' => if k =? c then (k, f v) :: l' else (k, v) :: update c f l'
    end.

  Fixpoint remove_cid (c : cid) (l : list cid) : list cid :=
    match l with
    | [] => []
    | k :: l' => if k =? c then remove_cid c l' else k :: remove_cid c l'
    end.

  Definition spawn (c : cid) (s : server) : server :=
    Srv (s_tls s) (s_loop s) (s_pending s) ((c, Open [] []) :: s_conns s) (s_slept s).

  Definition srv_step (s : server) (e : sevent) : server :=
    match e with
    | OnConn c ev =>
        Srv (s_tls s) (s_loop s) (s_pending s)
            (update c (fun st => conn_step st ev) (s_conns s)) (s_slept s)
    | Loop le =>
        match s_loop s with
        | Exited => s                      (* nothing is accepted any more *)
        | Accepting =>
            match le with
            | AcceptResult (Ok c) =>
                if s_tls s
                then Srv (s_tls s) Accepting (c :: s_pending s) (s_conns s) (s_slept s)
                else spawn c s
            | AcceptResult (Err k) =>
                match accept_error k with
                | Ignore => s
                | SleepAndRetry =>
                    Srv (s_tls s) Accepting (s_pending s) (s_conns s) (s_slept s + 1)
                end
            | TlsDone c ok =>
                if existsb (N.eqb c) (s_pending s) then
                  let s' := Srv (s_tls s) Accepting (remove_cid c (s_pending s))
                                (s_conns s) (s_slept s) in
                  (* Ok(conn) => yield Ok(conn);  Err(e) => warn!, nothing yielded *)
                  if ok then spawn c s' else s'
                else s
            | Shutdown => Srv (s_tls s) Exited (s_pending s) (s_conns s) (s_slept s)
            end
        end
    end.

  Definition srv_run (es : list sevent) (s : server) : server := fold_left srv_step es s.

  Definition srv_init (tls : bool) : server := Srv tls Accepting [] [] 0.

  (* the events by which a client opens connection [c] and sends [bs] *)
  Definition open_and_send (tls : bool) (c : cid) (bs : bytes) : list sevent :=
    if tls
    then [Loop (AcceptResult (Ok c)); Loop (TlsDone c true); OnConn c (Bytes bs)]
    else [Loop (AcceptResult (Ok c)); OnConn c (Bytes bs)].

  (* an event that does not concern connection [c] and is not the shutdown
     signal: what "faults on other connections" are *)
  Definition foreign (c : cid) (e : sevent) : bool :=
    match e with
    | OnConn a _ => negb (a =? c)
    | Loop (AcceptResult (Ok a)) => negb (a =? c)
    | Loop (AcceptResult (Err _)) => true
    | Loop (TlsDone a _) => negb (a =? c)
    | Loop Shutdown => false
    end.
End Conn.

