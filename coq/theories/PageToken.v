(* PageToken.v — executable model of dropshot's page-token codec and of the
   pagination query parameters (C14).  Definitions only; proofs are in
   PageTokenProofs.v.

   Code transcribed (dropshot/src/pagination.rs, dropshot/src/handler.rs):
     MAX_TOKEN_LENGTH, PaginationVersion, SerializedToken,
     serialize_page_token, deserialize_page_token, deserialize_whichpage,
     PaginationParams (serde derive with one flattened field and
     [limit : Option<NonZeroU32>]), RequestContext::page_limit,
     and, from the Rust standard library, [u32::from_str] (the way
     serde_urlencoded parses the value of [limit]).

   Library behaviour that is not modelled concretely enters as Section
   variables: the JSON envelope {"v":"v1","page_start":<selector>} written and
   read by serde_json for the consumer's selector type ([env_ser], [env_de]),
   and the consumer's scan-parameter type read by dropshot's [from_map]
   ([scan_de]).  base64 is modelled concretely (Base64.v). *)
From DS Require Import Base Base64.

(* const MAX_TOKEN_LENGTH: usize = 512; *)
Definition MAX_TOKEN_LENGTH : N := 512.

(* [str::len] / [String::len]: length in bytes *)
Definition slen (s : str) : N := N.of_nat (length s).

(* enum PaginationVersion { V1 }.  The Rust enum has the single variant V1;
   serde refuses every other spelling while reading the envelope.  [VOther]
   stands for "a version that is not V1" so that the version arm of
   [deserialize_page_token] is present in the model: with today's enum
   [env_de] never returns it. *)
Inductive pag_version := V1 | VOther.
Definition pver_eqb (a b : pag_version) : bool :=
  match a, b with V1, V1 => true | VOther, VOther => true | _, _ => false end.

(* Why a request is refused / an issue fails.  What the framework does with
   each is [status_of]. *)
Inductive perr :=
| ESerJson      (* serialize: serde_json::to_vec failed  -> for_internal_error *)
| ESerTooLarge  (* serialize: token longer than the bound -> for_internal_error *)
| ETooLarge     (* deserialize: "too large" *)
| EBase64       (* deserialize: URL_SAFE.decode failed *)
| ECorrupt      (* deserialize: serde_json::from_slice failed, "corrupted token" *)
| EVersion      (* deserialize: "unsupported version" *)
| EScan         (* first page: from_map of the scan parameters failed *)
| ELimitSyntax  (* limit: u32::from_str failed *)
| ELimitZero    (* limit: NonZeroU32 refuses 0 *)
| ELimitDup.    (* limit given twice: serde "duplicate field" *)

(* serialize_page_token maps its two failures to HttpError::for_internal_error
   (500).  Every failure of deserialize_page_token / deserialize_whichpage / the
   limit field is a serde error of serde_urlencoded::from_str, which the Query
   extractor (extractor/query.rs: http_request_load_query) turns into
   HttpError::for_bad_request (400). *)
Definition status_of (e : perr) : N :=
  match e with
  | ESerJson | ESerTooLarge => 500
  | _ => 400
  end.

(* ---------- u32::from_str (core::num, radix 10, unsigned) ----------
     if src.is_empty() -> Err(Empty)
     a single "+" or "-" -> Err(InvalidDigit)
     leading '+' is dropped; for an unsigned type a leading '-' is left in
       place and is then an invalid digit
     for each remaining byte: result = result.checked_mul(10)? ;
       digit = to_digit(c)? ; result = result.checked_add(digit)?          *)
Definition U32_MAX : N := 4294967295.

Definition digit_of (c : N) : option N :=
  if (48 <=? c) && (c <=? 57) then Some (c - 48) else None.

Fixpoint parse_digits (acc : N) (ds : str) : option N :=
  match ds with
  | [] => Some acc
  | c :: r =>
      let m := acc * 10 in
      if U32_MAX <? m then None                       (* PosOverflow *)
      else match digit_of c with
           | None => None                              (* InvalidDigit *)
           | Some x =>
               let a := m + x in
               if U32_MAX <? a then None               (* PosOverflow *)
               else parse_digits a r
           end
  end.

Definition parse_u32 (s : str) : option N :=
  match s with
  | [] => None                                         (* Empty *)
  | c :: r =>
      if (c =? 43) || (c =? 45) then
        if is_nil r then None                          (* "+" / "-" alone *)
        else if c =? 43 then parse_digits 0 r          (* '+' dropped *)
        else parse_digits 0 s                          (* '-' stays: invalid digit *)
      else parse_digits 0 s
  end.

(* Specification vocabulary for limit strings (used by the theorems and by the
   judge, not by the model): ASCII decimal digits and their value. *)
Definition is_digit (c : N) : bool := (48 <=? c) && (c <=? 57).
Fixpoint dec_from (acc : N) (ds : str) : N :=
  match ds with
  | [] => acc
  | c :: r => dec_from (acc * 10 + (c - 48)) r
  end.
Definition dec_value (ds : str) : N := dec_from 0 ds.

(* Option<NonZeroU32> read from one query value: u32::from_str, then the
   NonZeroU32 visitor refuses 0. *)
Definition parse_limit (s : str) : res perr N :=
  match parse_u32 s with
  | None => Err ELimitSyntax
  | Some n => if n =? 0 then Err ELimitZero else Ok n
  end.

(* RequestContext::page_limit:
     pag_params.limit.map(|limit| min(limit, page_max_nitems))
                     .unwrap_or(page_default_nitems)                      *)
Definition page_limit (lim : option N) (max default : N) : N :=
  match lim with
  | Some l => N.min l max
  | None => default
  end.

(* "page_token", "limit" *)
Definition K_PAGE_TOKEN : str := [112;97;103;101;95;116;111;107;101;110].
Definition K_LIMIT : str := [108;105;109;105;116].

(* BTreeMap<String,String> filled from a sequence of entries: a later entry
   with the same key replaces the earlier one, so [get] sees the last. *)
Fixpoint lookup_last (k : str) (kvs : list (str * str)) : option str :=
  match kvs with
  | [] => None
  | (k', v) :: r =>
      match lookup_last k r with
      | Some v' => Some v'
      | None => if str_eqb k k' then Some v else None
      end
  end.

Section Codec.
  (* the consumer's PageSelector and ScanParams types *)
  Variable Sel : Type.
  Variable Scan : Type.
  (* serde_json::to_vec(&SerializedToken { v: V1, page_start }) : may fail *)
  Variable env_ser : Sel -> option (list N).
  (* serde_json::from_slice::<SerializedToken<PageSelector>> *)
  Variable env_de : list N -> option (pag_version * Sel).
  (* from_map::<ScanParams>(&raw_params) *)
  Variable scan_de : list (str * str) -> option Scan.

  (* fn serialize_page_token *)
  Definition serialize (s : Sel) : res perr str :=
    match env_ser s with
    | None => Err ESerJson
    | Some json_bytes =>
        let token_bytes := b64_encode UrlSafe json_bytes in
        if MAX_TOKEN_LENGTH <? slen token_bytes then Err ESerTooLarge
        else Ok token_bytes
    end.

  (* fn deserialize_page_token *)
  Definition deserialize (token_str : str) : res perr Sel :=
    if MAX_TOKEN_LENGTH <? slen token_str then Err ETooLarge
    else
      match b64_decode UrlSafe token_str with
      | None => Err EBase64
      | Some json_bytes =>
          match env_de json_bytes with
          | None => Err ECorrupt
          | Some (v, page_start) =>
              if pver_eqb v V1 then Ok page_start else Err EVersion
          end
      end.

  (* enum WhichPage *)
  Inductive which_page :=
  | First (scan_params : Scan)
  | Next (page_start : Sel).

  (* fn deserialize_whichpage, on the entries that reach the flattened field *)
  Definition deserialize_whichpage (raw_params : list (str * str)) : res perr which_page :=
    match lookup_last K_PAGE_TOKEN raw_params with
    | Some page_token =>
        do page_start <- deserialize page_token;
        Ok (Next page_start)
    | None =>
        match scan_de raw_params with
        | None => Err EScan
        | Some scan_params => Ok (First scan_params)
        end
    end.

  Record pag_params := { pp_page : which_page; pp_limit : option N }.

  (* serde's derived visit_map for a struct with a flattened field, walking the
     query's (decoded) key/value pairs in order: the key "limit" is the named
     field (a second occurrence is "duplicate field", its value is read as
     Option<NonZeroU32> when met); every other entry is collected for the
     flattened field.  Returns (limit, collected entries in order). *)
  Fixpoint split_fields (kvs : list (str * str)) (limit : option N)
           (collect : list (str * str)) : res perr (option N * list (str * str)) :=
    match kvs with
    | [] => Ok (limit, rev collect)
    | (k, v) :: r =>
        if str_eqb k K_LIMIT then
          match limit with
          | Some _ => Err ELimitDup
          | None => do l <- parse_limit v; split_fields r (Some l) collect
          end
        else split_fields r limit ((k, v) :: collect)
    end.

  (* serde_urlencoded::from_str::<PaginationParams<ScanParams, PageSelector>>,
     after the query string has been split and percent-decoded into pairs *)
  Definition parse_params (kvs : list (str * str)) : res perr pag_params :=
    do lc <- split_fields kvs None [];
    do page <- deserialize_whichpage (snd lc);
    Ok {| pp_page := page; pp_limit := fst lc |}.
End Codec.

Arguments First {Sel Scan} _.
Arguments Next {Sel Scan} _.
Arguments pp_page {Sel Scan} _.
Arguments pp_limit {Sel Scan} _.
