(* Extract.v — what dropshot's extractors deliver to a handler, and what they
   refuse (C09, C10).  Transcribed from

     dropshot/src/from_map.rs          MapDeserializer, de_value!, map / seq /
                                       enum / option access, the unimplemented! stubs
     dropshot/src/http_util.rs         http_extract_path_params (and its assert!)
     dropshot/src/router.rs            input_path_to_segments (one segment), VariableValue
     dropshot/src/extractor/path.rs    Path<T>
     dropshot/src/extractor/query.rs   http_request_load_query (serde_urlencoded)
     dropshot/src/extractor/body.rs    http_request_load_body, UntypedBody,
                                       StreamingBody, MultipartBody::from_request
     dropshot/src/handler.rs           HttpRouteHandler::handle_request,
                                       RequestInfo::new
   and, for the library pieces dropshot's behaviour hinges on,
     serde (derive): visit_map of a plain struct (no flatten): duplicate check
                     before the value is read, unknown keys ignored, missing
                     fields: Option -> None, #[serde(default)] -> default,
                     otherwise "missing field `x`"
     serde_urlencoded 0.7.1 de.rs: Part (value deserialiser)
     mime 0.3.16 parse.rs + multer 3.1.0 parse_boundary.
   serde_json and multer's body parser are NOT modelled: they enter
   ExtractProofs.v as Section variables with contracts.

   A parameter struct is a list of fields [spec]; a field is a scalar (required /
   [Option] / [#[serde(default)]]), a [Vec<T>] of string-schema scalars (the
   wildcard path variable), or [KStub]: a field whose [Deserialize] impl calls one of
   from_map's [unimplemented!] entry points (unit, tuple, bytes, enum variants
   with data) - present only so that "registration rules it out" is a theorem
   and not a convention.

   Model only; proofs in ExtractProofs.v. *)
From DS Require Import Base Utf8 Pct Scalars Query.

(* ------------------------------------------------------------------ specs *)

Inductive presence :=
| PReq                 (* plain field *)
| POpt                 (* Option<T> *)
| PDef (d : sval).     (* #[serde(default)], with the type's default value *)

Inductive fkind :=
| KScalar (t : sty) (p : presence)
| KSeq (t : sty)       (* Vec<T>, T a string-schema scalar: the wildcard path variable *)
| KStub.

Definition spec := list (str * fkind).

Inductive fval :=
| FvOne (v : sval)
| FvOpt (o : option sval)
| FvSeq (l : list sval).

(* deserialisation errors (serde::de::Error values; every one becomes a 400) *)
Inductive merr :=
| MParse                 (* from_map: "unable to parse '..' as T"; urlencoded: FromStr error *)
| MUnknownVariant        (* "unknown variant `..`, expected .." *)
| MMissing (name : str)  (* "missing field `name`" *)
| MDuplicate (name : str)(* "duplicate field `name`" *)
| MSeqAsValue            (* "cannot deserialize sequence as a single value" *)
| MValueAsSeq            (* "cannot deserialize a single value as a sequence" *)
| MInvalidType           (* urlencoded: "invalid type: string .., expected .." *)
| MUnsupported128        (* urlencoded: "u128 is not supported" / "i128 .." *)
| MStub.                 (* from_map: unimplemented!() - a PANIC, not an error value *)

Inductive panic_site := PAssertMissingField | PUnimplementedStub.

(* what a failed extraction turns into *)
Inductive xerr :=
| XBadSegment            (* router.rs: ill-formed request-path segment *)
| XBadPath (e : merr)    (* http_util.rs: "bad parameter in URL path: .." *)
| XBadQuery (e : merr)   (* query.rs: "unable to parse query string: .." *)
| XBodyTooLarge          (* body.rs: "request body exceeded maximum size .." *)
| XCtNotStr              (* body.rs: "invalid content type: .." (to_str failed) *)
| XCtUnknown             (* body.rs: from_mime_type: not one of the four *)
| XCtMismatch            (* body.rs: "expected content type .., got .." *)
| XJson                  (* body.rs: "unable to parse JSON body: .." *)
| XForm (e : merr)       (* body.rs: "unable to parse URL-encoded body: .." *)
| XNoCt                  (* body.rs (multipart): "missing content-type header" *)
| XMimeParse             (* multer::Error::DecodeContentType *)
| XNoMultipart           (* multer::Error::NoMultipart *)
| XNoBoundary            (* multer::Error::NoBoundary *)
| XPanic (p : panic_site).

(* every error constructor above is built with [HttpError::for_bad_request]
   (ClientErrorStatusCode::BAD_REQUEST); a panic has no response status *)
Definition xerr_status (e : xerr) : option N :=
  match e with
  | XPanic _ => None
  | _ => Some 400
  end.

(* which [HttpError::for_bad_request] call site produced the error, as far as
   a client can tell: by the fixed head of its message
     1  "bad parameter in URL path: "            (http_util.rs)
     2  "unable to parse query string: "         (query.rs)
     3  "request body exceeded maximum size"     (body.rs, into_stream)
     4  "invalid content type: "                 (body.rs: to_str failed; multipart: mime / not multipart)
     6  "expected content type "                 (body.rs)
     7  "unable to parse JSON body: "            (body.rs)
     8  "unable to parse URL-encoded body: "     (body.rs)
     9  "missing content-type header"            (body.rs, multipart)
     10 "missing boundary in content-type header"
     11 "invalid path encoding"                  (router.rs)
     0  no fixed head (from_mime_type: the message is the media type itself) *)
Definition xerr_class (e : xerr) : N :=
  match e with
  | XBadSegment => 11
  | XBadPath _ => 1
  | XBadQuery _ => 2
  | XBodyTooLarge => 3
  | XCtNotStr | XMimeParse | XNoMultipart => 4
  | XCtUnknown => 0
  | XCtMismatch => 6
  | XJson => 7
  | XForm _ => 8
  | XNoCt => 9
  | XNoBoundary => 10
  | XPanic _ => 99
  end.

(* ----------------------------------------------------------- association *)

Fixpoint assoc {A} (k : str) (l : list (str * A)) : option A :=
  match l with
  | [] => None
  | (k', v) :: l' => if str_eqb k k' then Some v else assoc k l'
  end.

Definition has_key {A} (k : str) (l : list (str * A)) : bool :=
  match assoc k l with Some _ => true | None => false end.

Fixpoint names_distinct (l : list str) : bool :=
  match l with
  | [] => true
  | x :: l' => negb (mem_str x l') && names_distinct l'
  end.

Definition wf_spec (sp : spec) : bool := names_distinct (map fst sp).

(* --------------------------------- serde derive: visit_map of a plain struct *)

Section StructDe.
  Variable raw : Type.
  (* the value deserialiser of the data format for a field of the given kind *)
  Variable deser : fkind -> raw -> res merr fval.
  (* [IgnoredAny] on the value of an unknown key *)
  Variable ignore : raw -> res merr unit.

  (* the generated loop [while let Some(key) = map.next_key()? { match key {
       Field::f => { if f.is_some() { return Err(duplicate_field("f")) }
                     f = Some(map.next_value()?) }
       _ => { let _ = map.next_value::<IgnoredAny>()?; } } }] *)
  Fixpoint visit_map (sp : spec) (entries : list (str * raw))
           (filled : list (str * fval)) : res merr (list (str * fval)) :=
    match entries with
    | [] => Ok filled
    | (k, r) :: rest =>
        match assoc k sp with
        | None => do _ <- ignore r; visit_map sp rest filled
        | Some kind =>
            if has_key k filled then Err (MDuplicate k)
            else do v <- deser kind r; visit_map sp rest ((k, v) :: filled)
        end
    end.

  (* [serde::__private::de::missing_field]: an Option field becomes None, a
     defaulted field its default, anything else is an error *)
  Definition missing (name : str) (kind : fkind) : res merr fval :=
    match kind with
    | KScalar _ POpt => Ok (FvOpt None)
    | KScalar _ (PDef d) => Ok (FvOne d)
    | _ => Err (MMissing name)
    end.

  (* after the loop, in declaration order *)
  Fixpoint finish (sp : spec) (filled : list (str * fval)) : res merr (list fval) :=
    match sp with
    | [] => Ok []
    | (name, kind) :: sp' =>
        do v <- match assoc name filled with
                | Some v => Ok v
                | None => missing name kind
                end;
        do vs <- finish sp' filled;
        Ok (v :: vs)
    end.

  Definition struct_de (sp : spec) (entries : list (str * raw)) : res merr (list fval) :=
    do filled <- visit_map sp entries [];
    finish sp filled.
End StructDe.

(* ------------------------------------------------ from_map.rs (path variables) *)

(* router.rs [VariableValue] *)
Inductive varval :=
| VOne (s : str)          (* String *)
| VMany (l : list str).   (* Components *)

(* [MapValue::as_value] / [as_seq] for VariableValue *)
Definition as_value (v : varval) : res merr str :=
  match v with VOne s => Ok s | VMany _ => Err MSeqAsValue end.
Definition as_seq (v : varval) : res merr (list str) :=
  match v with VOne _ => Err MValueAsSeq | VMany l => Ok l end.

(* de_value!(bool, i8 .. i128, u8 .. u128, char): [as_value()?.parse::<T>()];
   deserialize_str/string: the value itself; deserialize_enum: visit_enum ->
   variant_seed -> deserialize_identifier -> the derive's variant visitor
   (unknown name: error) -> unit_variant *)
Definition from_map_scalar (t : sty) (v : varval) : res merr sval :=
  do s <- as_value v;
  match t with
  | TEnum _ => match parse_scalar t s with Some x => Ok x | None => Err MUnknownVariant end
  | _ => match parse_scalar t s with Some x => Ok x | None => Err MParse end
  end.

Fixpoint from_map_elems (t : sty) (l : list str) : res merr (list sval) :=
  match l with
  | [] => Ok []
  | s :: l' => do x <- from_map_scalar t (VOne s); do xs <- from_map_elems t l'; Ok (x :: xs)
  end.

Definition from_map_field (kind : fkind) (v : varval) : res merr fval :=
  match kind with
  | KScalar t POpt =>
      (* deserialize_option: "None is a missing field, so this must be Some" *)
      do x <- from_map_scalar t v; Ok (FvOpt (Some x))
  | KScalar t _ => do x <- from_map_scalar t v; Ok (FvOne x)
  | KSeq t =>
      (* deserialize_seq: as_seq()?, then the Vec visitor:
           while let Some(value) = seq.next_element()? { values.push(value) }
         with MapSeqAccess::next_element_seed deserialising each element from
         MapDeserializer::Value(element): the FIRST element that fails fails
         the whole extraction *)
      do l <- as_seq v; do xs <- from_map_elems t l; Ok (FvSeq xs)
  | KStub => Err MStub
  end.

(* deserialize_ignored_any: [visitor.visit_str(raw_value.as_value()?)] *)
Definition from_map_ignore (v : varval) : res merr unit :=
  do _ <- as_value v; Ok tt.

Definition from_map (sp : spec) (vars : list (str * varval)) : res merr (list fval) :=
  struct_de varval from_map_field from_map_ignore sp vars.

(* the messages, as far as the assert! below can tell them apart *)
Definition merr_message_head (e : merr) : str :=
  match e with
  | MParse => [117; 110; 97; 98; 108; 101; 32; 116; 111; 32; 112; 97; 114; 115; 101; 32; 39]
  | MUnknownVariant => [117; 110; 107; 110; 111; 119; 110; 32; 118; 97; 114; 105; 97; 110; 116; 32; 96]
  | MMissing _ => [109; 105; 115; 115; 105; 110; 103; 32; 102; 105; 101; 108; 100; 32; 96]
  | MDuplicate _ => [100; 117; 112; 108; 105; 99; 97; 116; 101; 32; 102; 105; 101; 108; 100; 32; 96]
  | MSeqAsValue => [99; 97; 110; 110; 111; 116; 32; 100; 101; 115; 101; 114; 105; 97; 108; 105; 122; 101; 32; 115; 101; 113; 117; 101; 110; 99; 101; 32; 97; 115; 32; 97; 32; 115; 105; 110; 103; 108; 101; 32; 118; 97; 108; 117; 101]
  | MValueAsSeq => [99; 97; 110; 110; 111; 116; 32; 100; 101; 115; 101; 114; 105; 97; 108; 105; 122; 101; 32; 97; 32; 115; 105; 110; 103; 108; 101; 32; 118; 97; 108; 117; 101; 32; 97; 115; 32; 97; 32; 115; 101; 113; 117; 101; 110; 99; 101]
  | MInvalidType => [105; 110; 118; 97; 108; 105; 100; 32; 116; 121; 112; 101; 58; 32]
  | MUnsupported128 => [49; 50; 56; 32; 105; 115; 32; 110; 111; 116; 32; 115; 117; 112; 112; 111; 114; 116; 101; 100]
  | MStub => [110; 111; 116; 32; 105; 109; 112; 108; 101; 109; 101; 110; 116; 101; 100; 58; 32]
  end.

Fixpoint starts_with (p s : str) : bool :=
  match p, s with
  | [], _ => true
  | x :: p', y :: s' => (x =? y) && starts_with p' s'
  | _ :: _, [] => false
  end.

(* "missing field: " *)
Definition MISSING_FIELD_COLON : str := [109; 105; 115; 115; 105; 110; 103; 32; 102; 105; 101; 108; 100; 58; 32].

(* http_util.rs:
     from_map(path_params).map_err(|message| {
         assert!(!message.starts_with("missing field: "));
         HttpError::for_bad_request(None, format!("bad parameter in URL path: {}", message)) }) *)
Definition http_extract_path_params (sp : spec) (vars : list (str * varval))
  : res xerr (list fval) :=
  match from_map sp vars with
  | Ok v => Ok v
  | Err MStub => Err (XPanic PUnimplementedStub)
  | Err e =>
      if starts_with MISSING_FIELD_COLON (merr_message_head e)
      then Err (XPanic PAssertMissingField)
      else Err (XBadPath e)
  end.

(* ---- one request-path segment (router.rs input_path_to_segments, after the
   fix that tests dot segments on the decoded text).  The router drops empty
   raw segments before this point, so a variable is never bound to one: the
   model refuses the empty raw segment instead of inventing a binding. *)
Definition DOT : str := [46].
Definition DOTDOT : str := [46; 46].

Definition decode_segment (rawseg : str) : res xerr str :=
  if is_nil rawseg then Err XBadSegment else
  let d := pct_decode rawseg in
  if negb (utf8_valid d) then Err XBadSegment
  else if str_eqb d DOT || str_eqb d DOTDOT then Err XBadSegment
  else Ok d.

Fixpoint decode_segments (l : list str) : res xerr (list str) :=
  match l with
  | [] => Ok []
  | r :: l' => do s <- decode_segment r; do ss <- decode_segments l'; Ok (s :: ss)
  end.

(* what the request binds a template variable to: one raw segment, or (for
   the wildcard) all the remaining raw segments *)
Inductive wseg :=
| WOne (rawseg : str)
| WMany (rawsegs : list str).

Definition bind_var (w : wseg) : res xerr varval :=
  match w with
  | WOne r => do s <- decode_segment r; Ok (VOne s)
  | WMany rs => do ss <- decode_segments rs; Ok (VMany ss)
  end.

Fixpoint bind_vars (ws : list (str * wseg)) : res xerr (list (str * varval)) :=
  match ws with
  | [] => Ok []
  | (x, w) :: ws' => do v <- bind_var w; do vs <- bind_vars ws'; Ok ((x, v) :: vs)
  end.

(* BTreeMap<String, VariableValue>: iteration in key order *)
Fixpoint insert_sorted {A} (k : str) (v : A) (l : list (str * A)) : list (str * A) :=
  match l with
  | [] => [(k, v)]
  | (k', v') :: l' =>
      if str_ltb k k' then (k, v) :: l
      else if str_eqb k k' then (k, v) :: l'        (* BTreeMap::insert replaces *)
      else (k', v') :: insert_sorted k v l'
  end.
Definition to_btree {A} (l : list (str * A)) : list (str * A) :=
  fold_left (fun m kv => insert_sorted (fst kv) (snd kv) m) l [].

(* Path<T>::from_request *)
Definition extract_path (sp : spec) (ws : list (str * wseg)) : res xerr (list fval) :=
  do vars <- bind_vars ws;
  http_extract_path_params sp (to_btree vars).

(* ---- f32 / f64 (outside the [sty] universe): a struct { v: f32 } / { v: f64 } ----

   from_map.rs de_value!(f32) / de_value!(f64): [as_value()?.parse::<f32>()];
   serde_urlencoded: forward_parsed_value!(f32 => deserialize_f32, f64 => ..):
   [self.0.parse::<f32>()].  The value is the bit pattern. *)
Definition float_fmt (double : bool) : fmt := if double then binary64 else binary32.

Definition extract_path_float (double : bool) (rawseg : str) : res xerr N :=
  do s <- decode_segment rawseg;
  match parse_float (float_fmt double) s with
  | Some bits => Ok bits
  | None => Err (XBadPath MParse)
  end.

(* the query struct { v: T }: the derived visit_map for one field *)
Definition extract_query_float (double : bool) (name : str) (query : option str) : res xerr N :=
  let q := match query with Some q => q | None => [] end in
  match filter (fun kv => str_eqb (fst kv) name) (form_parse q) with
  | [] => Err (XBadQuery (MMissing name))
  | [(_, s)] =>
      match parse_float (float_fmt double) s with
      | Some bits => Ok bits
      | None => Err (XBadQuery MParse)
      end
  | _ :: _ :: _ => Err (XBadQuery (MDuplicate name))
  end.

(* ------------------------------- serde_urlencoded (query strings, form bodies) *)

Definition is_128 (t : sty) : bool :=
  match t with TInt _ bits => 64 <? bits | _ => false end.

(* de.rs [Part]: forward_parsed_value! for bool and the integers up to 64
   bits ([self.0.parse::<T>()]); [deserialize_u128]/[i128] are not forwarded:
   serde's default refuses them ("u128 is not supported"); char, str, string:
   [deserialize_any] -> visit_str (the char visitor wants exactly one char =
   [char::from_str]); enum: the variant visitor on the text *)
Definition urlenc_scalar (t : sty) (s : str) : res merr sval :=
  if is_128 t then Err MUnsupported128 else
  match t with
  | TEnum _ => match parse_scalar t s with Some x => Ok x | None => Err MUnknownVariant end
  | _ => match parse_scalar t s with Some x => Ok x | None => Err MParse end
  end.

Definition urlenc_field (kind : fkind) (s : str) : res merr fval :=
  match kind with
  | KScalar t POpt => do x <- urlenc_scalar t s; Ok (FvOpt (Some x))   (* visit_some *)
  | KScalar t _ => do x <- urlenc_scalar t s; Ok (FvOne x)
  | KSeq _ => Err MInvalidType    (* seq -> deserialize_any -> visit_str on a Vec visitor *)
  | KStub => Err MInvalidType     (* unit/tuple/.. -> deserialize_any -> visit_str *)
  end.

Definition urlenc_ignore (_ : str) : res merr unit := Ok tt.

Definition urlenc_struct (sp : spec) (entries : list (str * str)) : res merr (list fval) :=
  struct_de str urlenc_field urlenc_ignore sp entries.

(* query.rs: [request.uri().query().unwrap_or("")] *)
Definition extract_query (sp : spec) (query : option str) : res xerr (list fval) :=
  let q := match query with Some q => q | None => [] end in
  match urlenc_struct sp (form_parse q) with
  | Ok v => Ok v
  | Err e => Err (XBadQuery e)
  end.

(* ------------------------------------------------------------------- bodies *)

(* StreamingBody::into_stream: [if bytes_read + len > self.cap { .. Err }] per
   data frame (trailer frames are skipped; a transport error is a 400 too and
   is not modelled).  [read], [len], [cap] are [usize] in the Rust; the sum
   cannot wrap for frames that exist in memory. *)
Fixpoint collect (cap read : N) (frames : list str) (acc : str) : res xerr str :=
  match frames with
  | [] => Ok acc
  | f :: fs =>
      let len := N.of_nat (length f) in
      if cap <? read + len then Err XBodyTooLarge
      else collect cap (read + len) fs (acc ++ f)
  end.
Definition buffer_body (cap : N) (frames : list str) : res xerr str := collect cap 0 frames [].

Inductive ctype := CtJson | CtForm | CtBytes | CtMultipart.

Definition ctype_eqb (a b : ctype) : bool :=
  match a, b with
  | CtJson, CtJson | CtForm, CtForm | CtBytes, CtBytes | CtMultipart, CtMultipart => true
  | _, _ => false
  end.

Definition CT_JSON : str := [97; 112; 112; 108; 105; 99; 97; 116; 105; 111; 110; 47; 106; 115; 111; 110].
Definition CT_FORM : str := [97; 112; 112; 108; 105; 99; 97; 116; 105; 111; 110; 47; 120; 45; 119; 119; 119; 45; 102; 111; 114; 109; 45; 117; 114; 108; 101; 110; 99; 111; 100; 101; 100].
Definition CT_BYTES : str := [97; 112; 112; 108; 105; 99; 97; 116; 105; 111; 110; 47; 111; 99; 116; 101; 116; 45; 115; 116; 114; 101; 97; 109].
Definition CT_MULTIPART : str := [109; 117; 108; 116; 105; 112; 97; 114; 116; 47; 102; 111; 114; 109; 45; 100; 97; 116; 97].

(* the Content-Type header of the request *)
Inductive hdr :=
| HAbsent
| HVal (v : str).

(* http::HeaderValue::to_str: every byte visible ASCII (32..126) or TAB *)
Definition header_is_str (v : str) : bool :=
  forallb (fun b => ((32 <=? b) && (b <? 127)) || (b =? 9)) v.

Fixpoint before_semicolon (s : str) : str :=
  match s with
  | [] => []
  | c :: t => if c =? 59 then [] else c :: before_semicolon t
  end.

(* str::trim_end on ASCII: TAB LF VT FF CR SPACE *)
Definition is_ascii_ws (c : N) : bool := ((9 <=? c) && (c <=? 13)) || (c =? 32).
Fixpoint trim_end (s : str) : str :=
  match s with
  | [] => []
  | c :: t =>
      match trim_end t with
      | [] => if is_ascii_ws c then [] else [c]
      | t' => c :: t'
      end
  end.

(* [content_type[..end].trim_end().to_lowercase()] *)
Definition mime_type_of (ct : str) : str := str_lower (trim_end (before_semicolon ct)).

(* ApiEndpointBodyContentType::from_mime_type *)
Definition from_mime_type (m : str) : option ctype :=
  if str_eqb m CT_BYTES then Some CtBytes
  else if str_eqb m CT_JSON then Some CtJson
  else if str_eqb m CT_FORM then Some CtForm
  else if str_eqb m CT_MULTIPART then Some CtMultipart
  else None.

Definition content_type_str (h : hdr) : res xerr str :=
  match h with
  | HAbsent => Ok CT_JSON                       (* .unwrap_or(Ok(CONTENT_TYPE_JSON)) *)
  | HVal v => if header_is_str v then Ok v else Err XCtNotStr
  end.

Inductive typed (V : Type) :=
| TJson (v : V)
| TForm (v : list fval).
Arguments TJson {V} v.
Arguments TForm {V} v.

(* http_request_load_body.  The body is read (and capped) first; then the
   content type decides.  [json_de] stands for
     let jd = &mut serde_json::Deserializer::from_slice(&body);
     let content = serde_path_to_error::deserialize(&mut *jd) ..?;
     jd.end() ..?;                      // "The body must be one JSON document and nothing else."
   i.e. the WHOLE buffer is one JSON text of the body type (white space
   around it allowed); either failure is the same 400. *)
Definition extract_typed_body {V} (json_de : str -> option V)
           (expected : ctype) (sp : spec) (h : hdr) (cap : N) (frames : list str)
  : res xerr (typed V) :=
  do body <- buffer_body cap frames;
  do ct <- content_type_str h;
  match from_mime_type (mime_type_of ct) with
  | None => Err XCtUnknown
  | Some got =>
      match expected, got with
      | CtJson, CtJson =>
          match json_de body with Some v => Ok (TJson v) | None => Err XJson end
      | CtForm, CtForm =>
          match urlenc_struct sp (form_parse body) with
          | Ok v => Ok (TForm v)
          | Err e => Err (XForm e)
          end
      | _, _ => Err XCtMismatch
      end
  end.

(* UntypedBody::from_request: the capped, buffered bytes; the content type is
   not looked at *)
Definition extract_untyped_body (cap : N) (frames : list str) : res xerr str :=
  buffer_body cap frames.

(* StreamingBody::from_request never fails; the handler pulls the frames.
   What the handler's stream yields: the frames while the running total stays
   within the cap, then (at most) one error. *)
Fixpoint stream_yield (cap read : N) (frames : list str) : list str * bool :=
  match frames with
  | [] => ([], true)
  | f :: fs =>
      let len := N.of_nat (length f) in
      if cap <? read + len then ([], false)
      else let (ys, ok) := stream_yield cap (read + len) fs in (f :: ys, ok)
  end.

(* ---- mime 0.3.16 parse.rs, as far as multer::parse_boundary looks ---- *)

(* TOKEN_MAP: RFC 7230 tchar *)
Definition is_token (c : N) : bool :=
  (c =? 33) || ((35 <=? c) && (c <=? 39)) || (c =? 42) || (c =? 43) || (c =? 45) || (c =? 46) ||
  ((48 <=? c) && (c <=? 57)) || ((65 <=? c) && (c <=? 90)) ||
  ((94 <=? c) && (c <=? 122)) || (c =? 124) || (c =? 126).

(* is_restricted_quoted_char: c > 31 && c != 127 *)
Definition is_quoted_char (c : N) : bool := (31 <? c) && negb (c =? 127) && (c <? 256).

Fixpoint span (p : N -> bool) (s : str) : str * str :=
  match s with
  | [] => ([], [])
  | c :: t => if p c then let (a, r) := span p t in (c :: a, r) else ([], s)
  end.

(* params_from_str as a character-driven state machine.  In the Rust the
   guards compare the index [i] with [start]; [i == start] is "no character of
   the current item has been consumed yet", which the states encode. *)
Inductive pstate :=
| PStart                          (* at the start of a parameter *)
| PName (nm : str)                (* inside the name (non-empty) *)
| PValStart (nm : str)            (* just after '=' *)
| PVal (nm v : str)               (* inside an unquoted value (non-empty) *)
| PQuotedStart (nm : str)         (* just after the opening quote *)
| PQuoted (nm v : str)            (* inside a quoted value *)
| PAfterQuoted (nm v : str).      (* after the closing quote *)

Fixpoint params_run (st : pstate) (acc : list (str * str)) (s : str)
  : option (list (str * str)) :=
  match s with
  | [] =>
      match st with
      | PStart => Some (rev acc)
      | PName _ => None                               (* MissingEqual *)
      | PValStart nm => Some (rev ((nm, []) :: acc))  (* "x=" : empty value *)
      | PVal nm v => Some (rev ((nm, v) :: acc))
      | PQuotedStart _ | PQuoted _ _ => None          (* MissingQuote *)
      | PAfterQuoted nm v => Some (rev ((nm, v) :: acc))
      end
  | c :: t =>
      match st with
      | PStart =>
          if c =? 32 then params_run PStart acc t
          else if is_token c then params_run (PName [c]) acc t
          else None
      | PName nm =>
          if is_token c then params_run (PName (nm ++ [c])) acc t
          else if c =? 61 then params_run (PValStart nm) acc t
          else None
      | PValStart nm =>
          if c =? 34 then params_run (PQuotedStart nm) acc t
          else if is_token c then params_run (PVal nm [c]) acc t
          else None
      | PVal nm v =>
          if is_token c then params_run (PVal nm (v ++ [c])) acc t
          else if c =? 59 then params_run PStart ((nm, v) :: acc) t
          else None
      | PQuotedStart nm =>
          (* a double quote right here fails the guard [i > start] and is then taken
             as an ordinary quoted character *)
          if is_quoted_char c then params_run (PQuoted nm [c]) acc t else None
      | PQuoted nm v =>
          if c =? 34 then params_run (PAfterQuoted nm v) acc t
          else if is_quoted_char c then params_run (PQuoted nm (v ++ [c])) acc t
          else None
      | PAfterQuoted nm v =>
          if c =? 59 then params_run PStart ((nm, v) :: acc) t
          else if c =? 32 then params_run (PAfterQuoted nm v) acc t
          else None
      end
  end.

(* the subtype ends at the LAST '+' that is not its first character
   ([plus = Some(i)] is overwritten on every such '+') *)
Fixpoint cut_last_plus (first : bool) (s : str) : option str :=
  match s with
  | [] => None
  | c :: t =>
      match cut_last_plus false t with
      | Some p => Some (c :: p)
      | None => if (c =? 43) && negb first then Some [] else None
      end
  end.
Definition subtype_of (full : str) : str :=
  match cut_last_plus true full with Some p => p | None => full end.

Inductive mime :=
| MimeErr
| MimeOk (ty sub : str) (params : list (str * str)).

Definition lower_names (ps : list (str * str)) : list (str * str) :=
  map (fun nv => (str_lower (fst nv), snd nv)) ps.

(* parse(): type '/' subtype [';' params]; names are lower-cased in the
   stored source, parameter values (other than charset's) keep their case *)
Definition mime_parse (s : str) : mime :=
  let (ty, r) := span is_token s in
  match r with
  | 47 :: r1 =>
      if is_nil ty then MimeErr else
      let (full, r2) := span is_token r1 in
      match r2 with
      | [] => MimeOk (str_lower ty) (str_lower (subtype_of full)) []
      | 59 :: r3 =>
          if is_nil full then MimeErr else
          match params_run PStart [] r3 with
          | Some ps => MimeOk (str_lower ty) (str_lower (subtype_of full)) (lower_names ps)
          | None => MimeErr
          end
      | _ => MimeErr
      end
  | _ => MimeErr
  end.

Definition S_MULTIPART : str := [109; 117; 108; 116; 105; 112; 97; 114; 116].
Definition S_FORM_DATA : str := [102; 111; 114; 109; 45; 100; 97; 116; 97].
Definition S_BOUNDARY : str := [98; 111; 117; 110; 100; 97; 114; 121].

Inductive boundary_res :=
| BOk (b : str)
| BDecode          (* multer::Error::DecodeContentType *)
| BNoMultipart
| BNoBoundary.

(* multer::parse_boundary *)
Definition parse_boundary (ct : str) : boundary_res :=
  match mime_parse ct with
  | MimeErr => BDecode
  | MimeOk ty sub ps =>
      if str_eqb ty S_MULTIPART && str_eqb sub S_FORM_DATA then
        match assoc S_BOUNDARY ps with        (* params().find(..): the first *)
        | Some b => BOk b
        | None => BNoBoundary
        end
      else BNoMultipart
  end.

(* str::trim on ASCII *)
Fixpoint trim_start (s : str) : str :=
  match s with
  | [] => []
  | c :: t => if is_ascii_ws c then trim_start t else s
  end.
Definition trim (s : str) : str := trim_end (trim_start s).

Fixpoint join_semi (parts : list str) : str :=
  match parts with
  | [] => []
  | [p] => p
  | p :: ps => p ++ 59 :: 32 :: join_semi ps
  end.

(* body.rs, in front of multer::parse_boundary:
     content_type.split(';').map(|part| part.trim()).collect::<Vec<_>>().join("; ")
   (every ';' splits, also one inside a quoted string: such a value is
   re-joined with "; " in place of the ';' and the blanks around it) *)
Definition normalize_ct (v : str) : str := join_semi (map trim (split_all 59 v)).

(* MultipartBody::from_request: the boundary; the body then goes to multer
   through the capped stream *)
Definition extract_multipart (h : hdr) : res xerr str :=
  match h with
  | HAbsent => Err XNoCt
  | HVal v =>
      if header_is_str v then
        match parse_boundary (normalize_ct v) with
        | BOk b => Ok b
        | BDecode => Err XMimeParse
        | BNoMultipart => Err XNoMultipart
        | BNoBoundary => Err XNoBoundary
        end
      else Err XCtNotStr
  end.

(* -------------------------------------------------- handle_request, RequestInfo *)

(* handler.rs HttpRouteHandler::handle_request:
     let funcparams = RequestExtractor::from_request(&rqctx, request).await
                          .map_err(<HandlerType::Error>::from)?;
     self.handler.handle_request(rqctx, funcparams).await *)
Inductive outcome (A : Type) :=
| Responded (status : option N)     (* error response; None: a panic, no status *)
| HandlerEntered (args : A).
Arguments Responded {A} status.
Arguments HandlerEntered {A} args.

Definition handle {A} (extracted : res xerr A) : outcome A :=
  match extracted with
  | Err e => Responded (xerr_status e)
  | Ok a => HandlerEntered a
  end.

Definition entered {A} (o : outcome A) : bool :=
  match o with HandlerEntered _ => true | Responded _ => false end.

(* the extractor tuple (S1, S2, X): [try_join!] of futures that are all ready
   on first poll except the body: the first error in argument order wins *)
Definition extract3 {A B C} (a : res xerr A) (b : res xerr B) (c : res xerr C)
  : res xerr (A * B * C) :=
  do x <- a; do y <- b; do z <- c; Ok (x, y, z).

(* server.rs http_request_handle + RequestInfo::new: the request context holds
   copies of the request's own method, URI, headers and of the connection's
   peer address *)
Record request := {
  rq_method : str;
  rq_target : str;
  rq_headers : list (str * str);
  rq_peer : N;                 (* remote port *)
  rq_path : list (str * wseg); (* bindings of the matched template *)
  rq_query : option str;
  rq_ctype : hdr;
  rq_frames : list str
}.

Record request_info := {
  ri_method : str;
  ri_uri : str;
  ri_headers : list (str * str);
  ri_peer : N
}.

Definition request_info_of (r : request) : request_info :=
  {| ri_method := rq_method r; ri_uri := rq_target r;
     ri_headers := rq_headers r; ri_peer := rq_peer r |}.

(* ------------------------------------------------------------- concurrency *)

(* Requests in flight: a finite map request-id -> stage.  One step of the
   server advances ONE request by one stage (its extractors run; its handler is
   entered; its response is produced).  Nothing else is shared between
   requests in dropshot's dispatch path: the router and the server state are
   read-only, and a [RequestContext] is built per request. *)
Section Conc.
  Variables Req Args Resp : Type.
  Variable extract : Req -> res xerr Args.
  Variable handler : Args -> Resp.
  Variable respond_err : xerr -> Resp.

  Inductive stage :=
  | SReceived (r : Req)
  | SExtracted (x : res xerr Args)
  | SHandling (a : Args)
  | SDone (resp : Resp) (got : option Args).

  Definition advance (s : stage) : stage :=
    match s with
    | SReceived r => SExtracted (extract r)
    | SExtracted (Ok a) => SHandling a
    | SExtracted (Err e) => SDone (respond_err e) None
    | SHandling a => SDone (handler a) (Some a)
    | SDone r g => SDone r g
    end.

  Definition cstate := list (N * stage).

  Fixpoint step (q : N) (st : cstate) : cstate :=
    match st with
    | [] => []
    | (k, s) :: rest =>
        if k =? q then (k, advance s) :: rest else (k, s) :: step q rest
    end.

  Definition run (sched : list N) (st : cstate) : cstate :=
    fold_left (fun st q => step q st) sched st.

  Fixpoint lookup (q : N) (st : cstate) : option stage :=
    match st with
    | [] => None
    | (k, s) :: rest => if k =? q then Some s else lookup q rest
    end.

  Fixpoint iter_stage (n : nat) (s : stage) : stage :=
    match n with O => s | S n' => iter_stage n' (advance s) end.

  Fixpoint count (q : N) (sched : list N) : nat :=
    match sched with
    | [] => O
    | k :: rest => if k =? q then S (count q rest) else count q rest
    end.

  (* what the handler of a request has received so far *)
  Definition delivered (s : stage) : option Args :=
    match s with
    | SHandling a => Some a
    | SDone _ g => g
    | _ => None
    end.

  Definition init (reqs : list (N * Req)) : cstate :=
    map (fun kr => (fst kr, SReceived (snd kr))) reqs.
End Conc.
