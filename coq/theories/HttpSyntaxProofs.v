(* HttpSyntaxProofs.v — sanity of the response recogniser of HttpSyntax.v:
   every sequence of well-formed responses, rendered, is recognised as exactly
   those responses (round trip, by induction on the response list, the header
   list and the chunk list); the recursion budget used by [parse_answer] is
   always sufficient. *)
From DS Require Import Base HttpSyntax.
From Coq Require Import Lia ZifyBool DecimalN HexadecimalN DecimalPos HexadecimalPos.


(* ---------- generic ---------- *)

Lemma forallb_imp {A} (p q : A -> bool) l :
  (forall x, p x = true -> q x = true) -> forallb p l = true -> forallb q l = true.
Proof.
  intros H; induction l as [|x l IH]; cbn [forallb]; auto.
  rewrite !andb_true_iff; intros [Hx Hl]; auto.
Qed.

Lemma strip_prefix_app p r : strip_prefix p (p ++ r) = Some r.
Proof.
  induction p as [|x p IH]; cbn [app strip_prefix]; auto.
  rewrite N.eqb_refl; auto.
Qed.

(* ---------- character classes ---------- *)

Definition no_crlf (l : bytes) : bool :=
  forallb (fun b => negb (b =? CR) && negb (b =? LF)) l.

Lemma field_char_no_crlf b :
  field_char b = true -> negb (b =? CR) && negb (b =? LF) = true.
Proof. unfold field_char, CR, LF, HTAB. lia. Qed.

Lemma tchar_field_char b : tchar b = true -> field_char b = true.
Proof.
  unfold tchar, field_char, is_digit, is_alpha, HTAB. cbn [existsb]. lia.
Qed.

Lemma tchar_not_colon b : tchar b = true -> (b =? 58) = false.
Proof. unfold tchar, is_digit, is_alpha. cbn [existsb]. lia. Qed.

Lemma is_digit_field_char b : is_digit b = true -> field_char b = true.
Proof. unfold is_digit, field_char, HTAB. lia. Qed.

Lemma is_digit_not_ws b : is_digit b = true -> is_ws b = false.
Proof. unfold is_digit, is_ws, SP, HTAB. lia. Qed.

Lemma field_chars_no_crlf l : forallb field_char l = true -> no_crlf l = true.
Proof. apply forallb_imp, field_char_no_crlf. Qed.

(* ---------- lines ---------- *)

Lemma line_app l rest :
  no_crlf l = true -> line (l ++ CR :: LF :: rest) = POk l rest.
Proof.
  induction l as [|a l IH]; cbn [app no_crlf forallb]; [reflexivity|].
  rewrite !andb_true_iff, !negb_true_iff. intros [[Ha1 Ha2] Hl].
  cbn [line]. rewrite Ha1, Ha2. fold (no_crlf l) in Hl. rewrite (IH Hl). reflexivity.
Qed.

Lemma split_at_app c n r :
  forallb (fun b => negb (b =? c)) n = true -> split_at c (n ++ c :: r) = Some (n, r).
Proof.
  induction n as [|a n IH]; cbn [app forallb split_at].
  - rewrite N.eqb_refl; auto.
  - rewrite andb_true_iff, negb_true_iff. intros [Ha Hn]. rewrite Ha, (IH Hn). reflexivity.
Qed.

Lemma split_at_none c l :
  forallb (fun b => negb (b =? c)) l = true -> split_at c l = None.
Proof.
  induction l as [|a l IH]; cbn [forallb split_at]; auto.
  rewrite andb_true_iff, negb_true_iff. intros [Ha Hl]. rewrite Ha, (IH Hl). reflexivity.
Qed.

Lemma trim_right_id v : forallb (fun b => negb (is_ws b)) v = true -> trim_right v = v.
Proof.
  induction v as [|b v IH]; cbn [forallb trim_right]; auto.
  rewrite andb_true_iff, negb_true_iff. intros [Hb Hv]. rewrite Hb, (IH Hv). reflexivity.
Qed.

Lemma trim_ows_sp_id v :
  forallb (fun b => negb (is_ws b)) v = true -> trim_ows (SP :: v) = v.
Proof.
  intros H. unfold trim_ows. cbn [trim_left].
  replace (is_ws SP) with true by reflexivity.
  destruct v as [|b v]; [reflexivity|].
  cbn [trim_left]. cbn [forallb] in H. apply andb_true_iff in H as [Hb Hv].
  apply negb_true_iff in Hb. rewrite Hb.
  apply trim_right_id. cbn [forallb]. rewrite Hb, Hv. reflexivity.
Qed.

(* ---------- the status line ---------- *)

Lemma digits3_arith s :
  100 <= s < 1000 ->
  s / 100 <= 9 /\ (s / 10) mod 10 <= 9 /\ s mod 10 <= 9 /\
  100 * (s / 100) + 10 * ((s / 10) mod 10) + s mod 10 = s.
Proof.
  intros H.
  pose proof (N.mod_upper_bound (s / 10) 10 ltac:(lia)).
  pose proof (N.mod_upper_bound s 10 ltac:(lia)).
  pose proof (N.div_mod s 10 ltac:(lia)).
  pose proof (N.div_mod (s / 10) 10 ltac:(lia)).
  assert (s / 10 / 10 = s / 100) by (rewrite N.div_div by lia; reflexivity).
  assert (s / 100 <= 9). { apply N.lt_succ_r. apply N.div_lt_upper_bound; lia. }
  repeat split; try lia.
Qed.

Lemma digits3_ok s :
  100 <= s < 1000 ->
  is_digit (48 + s / 100) = true /\ is_digit (48 + (s / 10) mod 10) = true /\
  is_digit (48 + s mod 10) = true /\
  100 * (48 + s / 100 - 48) + 10 * (48 + (s / 10) mod 10 - 48) + (48 + s mod 10 - 48) = s.
Proof.
  intros H. destruct (digits3_arith s H) as (A & B & C & D).
  unfold is_digit.
  set (a := s / 100) in *. set (b := (s / 10) mod 10) in *. set (c := s mod 10) in *.
  clearbody a b c. repeat split; lia.
Qed.

Lemma status_line_render (m : bool) s reason :
  100 <= s < 1000 -> forallb field_char reason = true ->
  status_line ([72;84;84;80;47;49;46] ++ [if m then 49 else 48] ++ [SP]
               ++ digits3 s ++ [SP] ++ reason) = Some s.
Proof.
  intros Hs Hr. unfold status_line. rewrite strip_prefix_app.
  cbn [app digits3].
  destruct (digits3_ok s Hs) as (H1 & H2 & H3 & H4).
  rewrite H1, H2, H3, Hr, H4.
  destruct m; reflexivity.
Qed.

(* ---------- header lines ---------- *)

Definition wf_hdr0 (h : bytes * bytes) : bool :=
  negb (is_nil (fst h)) && forallb tchar (fst h) && forallb field_char (snd h).

Definition norm_header (h : bytes * bytes) : str * str :=
  (str_lower (fst h), trim_ows (SP :: snd h)).

Lemma header_line_render n v :
  wf_hdr0 (n, v) = true ->
  header_line (n ++ [58; SP] ++ v) = Some (norm_header (n, v)).
Proof.
  unfold wf_hdr0; cbn [fst snd]. rewrite !andb_true_iff. intros [[Hn Ht] Hv].
  unfold header_line. cbn [app].
  rewrite split_at_app.
  2:{ eapply forallb_imp; [|exact Ht]. intros x Hx. rewrite (tchar_not_colon x Hx). reflexivity. }
  rewrite Hn, Ht. cbn [forallb]. rewrite Hv.
  replace (field_char SP) with true by reflexivity. reflexivity.
Qed.

Lemma render_header_no_crlf h : wf_hdr0 h = true -> no_crlf (fst h ++ [58; SP] ++ snd h) = true.
Proof.
  destruct h as [n v]. unfold wf_hdr0; cbn [fst snd]. rewrite !andb_true_iff. intros [[_ Ht] Hv].
  unfold no_crlf. rewrite forallb_app. cbn [app forallb]. rewrite !andb_true_iff. repeat split.
  - eapply forallb_imp; [|exact Ht]. intros x Hx. apply field_char_no_crlf, tchar_field_char, Hx.
  - apply field_chars_no_crlf, Hv.
Qed.

Lemma render_header_shape h tail :
  render_header h ++ tail = (fst h ++ [58; SP] ++ snd h) ++ CR :: LF :: tail.
Proof. unfold render_header. rewrite <- !app_assoc. reflexivity. Qed.

Lemma headers_render hs : forall rest fuel,
  forallb wf_hdr0 hs = true -> (length hs < fuel)%nat ->
  headers fuel (concat (map render_header hs) ++ CR :: LF :: rest)
  = POk (map norm_header hs) rest.
Proof.
  induction hs as [|h hs IH]; intros rest fuel Hwf Hf; (destruct fuel as [|f]; [cbn [length] in Hf; lia|]).
  - reflexivity.
  - cbn [forallb] in Hwf. apply andb_true_iff in Hwf as [Hh Hhs].
    cbn [map concat length] in *.
    rewrite <- app_assoc, render_header_shape.
    cbn [headers]. rewrite line_app by (apply render_header_no_crlf, Hh).
    cbn [pbind].
    assert (Hnn : is_nil (fst h ++ [58; SP] ++ snd h) = false).
    { destruct h as [n v]. unfold wf_hdr0 in Hh. cbn [fst snd] in *.
      destruct n; [discriminate|reflexivity]. }
    rewrite Hnn.
    destruct h as [n v]. cbn [fst snd]. rewrite (header_line_render n v Hh).
    rewrite IH by (auto; lia). reflexivity.
Qed.

(* ---------- numbers ---------- *)

Lemma dec_round_trip u : dec_of_bytes (bytes_of_dec u) = Some u.
Proof.
  induction u; cbn [bytes_of_dec dec_of_bytes]; try rewrite IHu; reflexivity.
Qed.

Lemma dec_digits u : forallb is_digit (bytes_of_dec u) = true.
Proof.
  induction u; cbn [bytes_of_dec forallb]; try rewrite IHu; reflexivity.
Qed.

Lemma print_dec_nonnil n : is_nil (print_dec n) = false.
Proof.
  unfold print_dec. destruct n as [|p]; [reflexivity|].
  cbn [N.to_uint]. pose proof (DecimalPos.Unsigned.to_uint_nonnil p) as H.
  destruct (Pos.to_uint p); try reflexivity. congruence.
Qed.

Lemma parse_print_dec n : parse_dec (print_dec n) = Some n.
Proof.
  unfold parse_dec. rewrite print_dec_nonnil. unfold print_dec.
  rewrite dec_round_trip, DecimalN.Unsigned.of_to. reflexivity.
Qed.

Lemma hex_round_trip u : hex_of_bytes (bytes_of_hex u) = Some u.
Proof.
  induction u; cbn [bytes_of_hex hex_of_bytes]; try rewrite IHu; reflexivity.
Qed.

Definition hexchar (b : N) : bool := is_digit b || ((65 <=? b) && (b <=? 70)).

Lemma hex_chars u : forallb hexchar (bytes_of_hex u) = true.
Proof.
  induction u; cbn [bytes_of_hex forallb]; try rewrite IHu; reflexivity.
Qed.

Lemma print_hex_nonnil n : is_nil (print_hex n) = false.
Proof.
  unfold print_hex. destruct n as [|p]; [reflexivity|].
  cbn [N.to_hex_uint]. pose proof (HexadecimalPos.Unsigned.to_uint_nonnil p) as H.
  destruct (Pos.to_hex_uint p); try reflexivity. congruence.
Qed.

Lemma parse_print_hex n : parse_hex (print_hex n) = Some n.
Proof.
  unfold parse_hex. rewrite print_hex_nonnil. unfold print_hex.
  rewrite hex_round_trip, HexadecimalN.Unsigned.of_to. reflexivity.
Qed.

Lemma chunk_size_print n : chunk_size (print_hex n) = Some n.
Proof.
  unfold chunk_size. rewrite split_at_none; [apply parse_print_hex|].
  unfold print_hex. eapply forallb_imp; [|apply hex_chars].
  intros x. unfold hexchar, is_digit. lia.
Qed.

Lemma print_hex_no_crlf n : no_crlf (print_hex n) = true.
Proof.
  unfold print_hex, no_crlf. eapply forallb_imp; [|apply hex_chars].
  intros x. unfold hexchar, is_digit, CR, LF. lia.
Qed.

(* ---------- bodies ---------- *)

Lemma take_N_app b : forall rest, take_N (b ++ rest) (N.of_nat (length b)) = POk b rest.
Proof.
  induction b as [|x b IH]; intros rest; cbn [app length].
  - destruct rest; reflexivity.
  - cbn [take_N].
    replace (N.of_nat (S (length b)) =? 0) with false by lia.
    replace (N.of_nat (S (length b)) - 1) with (N.of_nat (length b)) by lia.
    rewrite IH. reflexivity.
Qed.

Definition nonnil (c : bytes) : bool := negb (is_nil c).

Lemma render_chunk_shape c tail :
  render_chunk c ++ tail =
  print_hex (N.of_nat (length c)) ++ CR :: LF :: (c ++ CR :: LF :: tail).
Proof. unfold render_chunk. rewrite <- !app_assoc. reflexivity. Qed.

Lemma chunks_render cs : forall rest hf fuel,
  forallb nonnil cs = true -> (length cs < fuel)%nat -> (0 < hf)%nat ->
  chunks hf fuel (concat (map render_chunk cs) ++ [48; CR; LF; CR; LF] ++ rest) = POk tt rest.
Proof.
  induction cs as [|c cs IH]; intros rest hf fuel Hnn Hf Hhf;
    (destruct fuel as [|f]; [cbn [length] in Hf; lia|]).
  - destruct hf as [|h]; [lia|]. reflexivity.
  - cbn [forallb] in Hnn. apply andb_true_iff in Hnn as [Hc Hcs].
    cbn [map concat length] in *.
    rewrite <- app_assoc, render_chunk_shape.
    cbn [chunks]. rewrite line_app by apply print_hex_no_crlf.
    cbn [pbind]. rewrite chunk_size_print.
    assert (Hz : (N.of_nat (length c) =? 0) = false).
    { destruct c; [discriminate|]. cbn [length]. lia. }
    rewrite Hz, take_N_app. cbn [pbind].
    replace (expect_crlf (CR :: LF :: concat (map render_chunk cs) ++ [48; CR; LF; CR; LF] ++ rest))
      with (POk tt (concat (map render_chunk cs) ++ [48; CR; LF; CR; LF] ++ rest)) by reflexivity.
    cbn [pbind]. apply IH; auto; lia.
Qed.

(* ---------- framing ---------- *)

Lemma values_of_app name a b : values_of name (a ++ b) = values_of name a ++ values_of name b.
Proof. unfold values_of. rewrite filter_app, map_app. reflexivity. Qed.

Lemma values_of_other name hs :
  forallb (fun h => negb (str_eqb (str_lower (fst h)) name)) hs = true ->
  values_of name (map norm_header hs) = [].
Proof.
  induction hs as [|h hs IH]; cbn [forallb map]; auto.
  rewrite andb_true_iff, negb_true_iff. intros [Hh Hhs].
  unfold values_of in *. cbn [filter norm_header fst].
  match goal with |- context [if ?c then _ else _] => replace c with false by (symmetry; exact Hh) end.
  auto.
Qed.

Lemma wf_header_split hs :
  forallb wf_header hs = true ->
  forallb wf_hdr0 hs = true /\
  forallb (fun h => negb (str_eqb (str_lower (fst h)) s_content_length)) hs = true /\
  forallb (fun h => negb (str_eqb (str_lower (fst h)) s_transfer_encoding)) hs = true.
Proof.
  induction hs as [|h hs IH]; cbn [forallb]; auto.
  rewrite !andb_true_iff. intros [Hh Hhs]. destruct (IH Hhs) as (I1 & I2 & I3).
  unfold wf_header in Hh. rewrite !andb_true_iff in Hh.
  destruct Hh as [[[[H1 H2] H3] H4] H5].
  repeat split; auto. unfold wf_hdr0. rewrite H1, H2, H3. reflexivity.
Qed.

Lemma body_header_wf b : forallb wf_hdr0 (render_body_header b) = true.
Proof.
  destruct b as [|body|cs]; cbn [render_body_header forallb]; auto.
  unfold wf_hdr0. cbn [fst snd]. rewrite !andb_true_iff. repeat split.
  unfold print_dec. eapply forallb_imp; [|apply dec_digits]. apply is_digit_field_char.
Qed.

Lemma framing_render st hs b :
  (st =? 101) = false ->
  forallb wf_header hs = true ->
  match b with RNoBody => bodiless st = true | _ => bodiless st = false end ->
  framing_of false st (map norm_header (hs ++ render_body_header b)) =
  match b with
  | RNoBody => FNone
  | RLen body => FLen (N.of_nat (length body))
  | RChunked _ => FChunked
  end.
Proof.
  intros H101 Hwf Hb. destruct (wf_header_split hs Hwf) as (_ & Hcl & Hte).
  unfold framing_of. rewrite H101. cbn [orb].
  rewrite map_app, !values_of_app, (values_of_other _ _ Hcl), (values_of_other _ _ Hte).
  destruct b as [|body|cs]; rewrite Hb; cbn [render_body_header map app].
  - reflexivity.
  - unfold values_of. cbn [filter norm_header fst snd map].
    replace (str_eqb (str_lower s_content_length) s_transfer_encoding) with false by reflexivity.
    replace (str_eqb (str_lower s_content_length) s_content_length) with true by reflexivity.
    cbn [map snd is_nil negb].
    unfold norm_header. cbn [snd]. rewrite trim_ows_sp_id.
    2:{ unfold print_dec. eapply forallb_imp; [|apply dec_digits].
        intros x Hx. rewrite (is_digit_not_ws x Hx). reflexivity. }
    cbn [all_same_dec forallb]. rewrite parse_print_dec. reflexivity.
  - reflexivity.
Qed.

(* ---------- one response, a sequence of responses ---------- *)

Lemma wf_resp_fields r :
  wf_resp r = true ->
  100 <= rs_status r < 1000 /\ (rs_status r =? 101) = false /\
  forallb field_char (rs_reason r) = true /\ forallb wf_header (rs_headers r) = true /\
  match rs_body r with
  | RNoBody => bodiless (rs_status r) = true
  | RLen _ => bodiless (rs_status r) = false
  | RChunked cs => bodiless (rs_status r) = false /\ forallb nonnil cs = true
  end.
Proof.
  unfold wf_resp. rewrite !andb_true_iff, !negb_true_iff.
  intros [[[[[H1 H2] H3] H4] H5] H6]. repeat split; auto; try lia.
  destruct (rs_body r); auto.
  - apply negb_true_iff in H6; auto.
  - apply andb_true_iff in H6 as [H6 H7]. apply negb_true_iff in H6. auto.
Qed.

Lemma headers_len_le hs : (length hs <= length (concat (map render_header hs)))%nat.
Proof.
  induction hs as [|h hs IH]; cbn [map concat length]; auto.
  rewrite app_length. unfold render_header at 1. rewrite !app_length. cbn [length]. lia.
Qed.

Lemma chunks_len_le cs : (length cs <= length (concat (map render_chunk cs)))%nat.
Proof.
  induction cs as [|c cs IH]; cbn [map concat length]; auto.
  rewrite app_length. unfold render_chunk at 1. rewrite !app_length. cbn [length]. lia.
Qed.

Lemma render_length_headers r :
  (length (rs_headers r ++ render_body_header (rs_body r)) < length (render r))%nat.
Proof.
  unfold render. rewrite !app_length.
  pose proof (headers_len_le (rs_headers r ++ render_body_header (rs_body r))) as H.
  rewrite app_length in H. cbn [length]. lia.
Qed.

Lemma render_length_chunks r cs :
  rs_body r = RChunked cs -> (length cs < length (render r))%nat.
Proof.
  intros Hb. unfold render. rewrite Hb. rewrite !app_length. cbn [render_body].
  pose proof (chunks_len_le cs) as H.
  rewrite app_length. cbn [length]. lia.
Qed.

Lemma render_shape r rest :
  render r ++ rest =
  ([72;84;84;80;47;49;46] ++ [if rs_minor r then 49 else 48] ++ [SP]
     ++ digits3 (rs_status r) ++ [SP] ++ rs_reason r)
  ++ CR :: LF ::
     (concat (map render_header (rs_headers r ++ render_body_header (rs_body r)))
      ++ CR :: LF :: (render_body (rs_body r) ++ rest)).
Proof. unfold render. repeat rewrite <- app_assoc. reflexivity. Qed.

Lemma response1_render r rest fuel closed :
  wf_resp r = true -> (length (render r) <= fuel)%nat ->
  response1 fuel false closed (render r ++ rest) = POk (rs_status r) rest.
Proof.
  intros Hwf Hfuel.
  destruct (wf_resp_fields r Hwf) as (Hs & H101 & Hreason & Hhs & Hbody).
  pose proof (render_length_headers r) as Hlh.
  unfold response1. rewrite render_shape.
  set (hs := rs_headers r ++ render_body_header (rs_body r)) in *.
  set (sl := [72;84;84;80;47;49;46] ++ [if rs_minor r then 49 else 48] ++ [SP]
             ++ digits3 (rs_status r) ++ [SP] ++ rs_reason r).
  rewrite line_app.
  2:{ unfold sl, no_crlf. rewrite !forallb_app. rewrite !andb_true_iff. repeat split.
      - destruct (rs_minor r); reflexivity.
      - destruct (digits3_ok _ Hs) as (D1 & D2 & D3 & _).
        cbn [digits3 forallb].
        rewrite (field_char_no_crlf _ (is_digit_field_char _ D1)),
                (field_char_no_crlf _ (is_digit_field_char _ D2)),
                (field_char_no_crlf _ (is_digit_field_char _ D3)). reflexivity.
      - apply field_chars_no_crlf, Hreason. }
  cbn [pbind]. unfold sl. rewrite status_line_render by auto.
  destruct (wf_header_split _ Hhs) as (Hhs0 & _ & _).
  rewrite headers_render.
  2:{ unfold hs. rewrite forallb_app, Hhs0, body_header_wf. reflexivity. }
  2:{ lia. }
  cbn [pbind]. unfold hs. rewrite framing_render; auto.
  2:{ destruct (rs_body r); tauto. }
  destruct (rs_body r) as [|body|cs] eqn:Hb; cbn [render_body].
  - reflexivity.
  - rewrite take_N_app. reflexivity.
  - destruct Hbody as [_ Hnn]. rewrite <- app_assoc.
    rewrite chunks_render; auto.
    + pose proof (render_length_chunks r cs Hb). lia.
    + pose proof (render_length_chunks r cs Hb). lia.
Qed.

Lemma render_nonnil r : is_nil (render r ++ []) = false /\ forall rest, is_nil (render r ++ rest) = false.
Proof. split; intros; reflexivity. Qed.

Lemma responses_render rs : forall hf fuel closed,
  forallb wf_resp rs = true ->
  (forall r, In r rs -> (length (render r) <= hf)%nat) ->
  (length rs < fuel)%nat ->
  responses hf fuel false closed (concat (map render rs)) = AComplete (map rs_status rs).
Proof.
  induction rs as [|r rs IH]; intros hf fuel closed Hwf Hhf Hf;
    (destruct fuel as [|f]; [cbn [length] in Hf; lia|]).
  - reflexivity.
  - cbn [forallb] in Hwf. apply andb_true_iff in Hwf as [Hr Hrs].
    cbn [map concat length responses] in *.
    replace (is_nil (render r ++ concat (map render rs))) with false by reflexivity.
    rewrite response1_render by (auto; apply Hhf; left; reflexivity).
    rewrite IH; auto; try lia.
    intros r' Hin; apply Hhf; right; exact Hin.
Qed.

Lemma render_le_concat r rs : In r rs -> (length (render r) <= length (concat (map render rs)))%nat.
Proof.
  induction rs as [|x rs IH]; cbn [In map concat]; [tauto|].
  rewrite app_length. intros [->|H]; [lia|]. specialize (IH H). lia.
Qed.

Lemma length_le_concat rs : (length rs <= length (concat (map render rs)))%nat.
Proof.
  induction rs as [|x rs IH]; cbn [map concat length]; auto.
  rewrite app_length. assert (1 <= length (render x))%nat by (unfold render; cbn [app length]; lia). lia.
Qed.

(* The round trip: any sequence of well-formed responses, rendered one after
   the other, is recognised as exactly these responses. *)
Theorem render_parse_answer rs closed :
  forallb wf_resp rs = true ->
  parse_answer false closed (concat (map render rs)) = AComplete (map rs_status rs).
Proof.
  intros Hwf. unfold parse_answer. apply responses_render; auto.
  - intros r Hin. pose proof (render_le_concat r rs Hin). lia.
  - pose proof (length_le_concat rs). lia.
Qed.

Theorem render_valid r : wf_resp r = true -> valid_response (render r) = true.
Proof.
  intros Hwf. unfold valid_response.
  pose proof (render_parse_answer [r] true) as H. cbn [map concat forallb] in H.
  rewrite app_nil_r, andb_true_r in H. rewrite (H Hwf). reflexivity.
Qed.

Theorem render_valid_many rs :
  rs <> [] -> forallb wf_resp rs = true -> valid_response (concat (map render rs)) = true.
Proof.
  intros Hne Hwf. unfold valid_response. rewrite render_parse_answer by auto.
  destruct rs; [congruence|reflexivity].
Qed.

(* ---------- the recursion budget of [parse_answer] suffices ---------- *)

Lemma line_len bs l r : line bs = POk l r -> (length r + 2 <= length bs)%nat.
Proof.
  revert l r; induction bs as [|b bs IH]; intros l r; cbn [line]; [discriminate|].
  destruct (b =? CR).
  - destruct bs as [|c bs']; [discriminate|]. destruct (c =? LF); [|discriminate].
    intros [= <- <-]. cbn [length]. lia.
  - destruct (b =? LF); [discriminate|].
    destruct (line bs) as [l' r'| | |] eqn:E; try discriminate.
    intros [= <- <-]. specialize (IH _ _ eq_refl). cbn [length]. lia.
Qed.

Lemma line_no_fuel bs : line bs <> PFuel.
Proof.
  induction bs as [|b bs IH]; cbn [line]; [discriminate|].
  destruct (b =? CR).
  - destruct bs as [|c bs']; [discriminate|]. destruct (c =? LF); discriminate.
  - destruct (b =? LF); [discriminate|]. destruct (line bs); congruence.
Qed.

Lemma headers_len fuel : forall bs,
  (length bs < fuel)%nat ->
  headers fuel bs <> PFuel /\
  forall hs r, headers fuel bs = POk hs r -> (length r + 2 <= length bs)%nat.
Proof.
  induction fuel as [|f IH]; intros bs Hf; [lia|].
  cbn [headers]. pose proof (line_no_fuel bs) as Hnf.
  destruct (line bs) as [l r1| | |] eqn:El; cbn [pbind]; try (split; [discriminate|discriminate]); [|congruence].
  pose proof (line_len _ _ _ El) as Hl.
  destruct (is_nil l).
  - split; [discriminate|]. intros hs r [= <- <-]. lia.
  - destruct (header_line l); [|split; discriminate].
    destruct (IH r1 ltac:(lia)) as [I1 I2].
    destruct (headers f r1) as [hs' r'| | |] eqn:Eh; cbn [pbind]; try (split; [discriminate|discriminate]); [|congruence].
    split; [discriminate|]. intros hs r [= <- <-]. specialize (I2 _ _ eq_refl). lia.
Qed.

Lemma take_N_len bs : forall n l r, take_N bs n = POk l r -> (length r <= length bs)%nat.
Proof.
  induction bs as [|b bs IH]; intros n l r; cbn [take_N].
  - destruct (n =? 0); [|discriminate]. intros [= <- <-]. lia.
  - destruct (n =? 0); [intros [= <- <-]; lia|].
    destruct (take_N bs (n - 1)) as [l' r'| | |] eqn:E; cbn [pbind]; try discriminate.
    intros [= <- <-]. specialize (IH _ _ _ E). cbn [length]. lia.
Qed.

Lemma take_N_no_fuel bs : forall n, take_N bs n <> PFuel.
Proof.
  induction bs as [|b bs IH]; intros n; cbn [take_N]; destruct (n =? 0); try discriminate.
  specialize (IH (n - 1)). destruct (take_N bs (n - 1)); cbn [pbind]; congruence.
Qed.

Lemma expect_crlf_len bs u r : expect_crlf bs = POk u r -> (length r + 2 <= length bs)%nat.
Proof.
  unfold expect_crlf. destruct bs as [|a bs]; [discriminate|].
  destruct (a =? CR); [|discriminate]. destruct bs as [|b bs]; [discriminate|].
  destruct (b =? LF); [|discriminate]. intros [= <- <-]. cbn [length]. lia.
Qed.

Lemma expect_crlf_no_fuel bs : expect_crlf bs <> PFuel.
Proof.
  unfold expect_crlf. destruct bs as [|a bs]; [discriminate|].
  destruct (a =? CR); [|discriminate]. destruct bs as [|b bs]; [discriminate|].
  destruct (b =? LF); discriminate.
Qed.

Lemma chunks_len hf fuel : forall bs,
  (length bs < fuel)%nat -> (length bs < hf)%nat ->
  chunks hf fuel bs <> PFuel /\
  forall u r, chunks hf fuel bs = POk u r -> (length r + 2 <= length bs)%nat.
Proof.
  induction fuel as [|f IH]; intros bs Hf Hhf; [lia|].
  cbn [chunks]. pose proof (line_no_fuel bs) as Hnf.
  destruct (line bs) as [l r1| | |] eqn:El; cbn [pbind]; try (split; [discriminate|discriminate]); [|congruence].
  pose proof (line_len _ _ _ El) as Hl.
  destruct (chunk_size l) as [n|]; [|split; discriminate].
  destruct (n =? 0).
  - destruct (headers_len hf r1 ltac:(lia)) as [H1 H2].
    destruct (headers hf r1) as [hs r2| | |] eqn:Eh; cbn [pbind]; try (split; [discriminate|discriminate]); [|congruence].
    split; [discriminate|]. intros u r [= <- <-]. specialize (H2 _ _ eq_refl). lia.
  - pose proof (take_N_no_fuel r1 n) as Htf.
    destruct (take_N r1 n) as [d r2| | |] eqn:Et; cbn [pbind]; try (split; [discriminate|discriminate]); [|congruence].
    pose proof (take_N_len _ _ _ _ Et) as Htl.
    pose proof (expect_crlf_no_fuel r2) as Hef.
    destruct (expect_crlf r2) as [u' r3| | |] eqn:Ee; cbn [pbind]; try (split; [discriminate|discriminate]); [|congruence].
    pose proof (expect_crlf_len _ _ _ Ee) as Hel.
    destruct (IH r3 ltac:(lia) ltac:(lia)) as [I1 I2].
    split; [exact I1|]. intros u r Hc. specialize (I2 _ _ Hc). lia.
Qed.

Lemma response1_len fuel ho closed bs :
  (length bs < fuel)%nat ->
  response1 fuel ho closed bs <> PFuel /\
  forall st r, response1 fuel ho closed bs = POk st r -> (length r + 2 <= length bs)%nat.
Proof.
  intros Hf. unfold response1. pose proof (line_no_fuel bs) as Hnf.
  destruct (line bs) as [l r1| | |] eqn:El; cbn [pbind]; try (split; [discriminate|discriminate]); [|congruence].
  pose proof (line_len _ _ _ El) as Hl.
  destruct (status_line l) as [st|]; [|split; discriminate].
  destruct (headers_len fuel r1 ltac:(lia)) as [H1 H2].
  destruct (headers fuel r1) as [hs r2| | |] eqn:Eh; cbn [pbind]; try (split; [discriminate|discriminate]); [|congruence].
  specialize (H2 _ _ eq_refl).
  destruct (framing_of ho st hs).
  - split; [discriminate|]. intros st' r [= <- <-]. lia.
  - pose proof (take_N_no_fuel r2 n) as Htf.
    destruct (take_N r2 n) as [d r3| | |] eqn:Et; cbn [pbind]; try (split; [discriminate|discriminate]); [|congruence].
    pose proof (take_N_len _ _ _ _ Et). split; [discriminate|]. intros st' r [= <- <-]. lia.
  - destruct (chunks_len fuel fuel r2 ltac:(lia) ltac:(lia)) as [C1 C2].
    destruct (chunks fuel fuel r2) as [u r3| | |] eqn:Ec; cbn [pbind]; try (split; [discriminate|discriminate]); [|congruence].
    specialize (C2 _ _ eq_refl). split; [discriminate|]. intros st' r [= <- <-]. lia.
  - destruct closed; split; try discriminate. intros st' r [= <- <-]. cbn [length]. lia.
  - split; [discriminate|]. intros st' r [= <- <-]. cbn [length]. lia.
  - split; discriminate.
Qed.

Lemma acons_no_fuel st a : a <> AFuel -> acons st a <> AFuel.
Proof. destruct a; cbn [acons]; congruence. Qed.

Lemma responses_no_fuel hf fuel ho closed : forall bs,
  (length bs < fuel)%nat -> (length bs < hf)%nat ->
  responses hf fuel ho closed bs <> AFuel.
Proof.
  induction fuel as [|f IH]; intros bs Hf Hhf; [lia|].
  cbn [responses]. destruct (is_nil bs); [discriminate|].
  destruct (response1_len hf ho closed bs Hhf) as [R1 R2].
  destruct (response1 hf ho closed bs) as [st r| | |] eqn:E; try discriminate; [|congruence].
  specialize (R2 _ _ eq_refl). apply acons_no_fuel, IH; lia.
Qed.

Theorem parse_answer_no_fuel ho closed bs : parse_answer ho closed bs <> AFuel.
Proof. unfold parse_answer. apply responses_no_fuel; lia. Qed.
