(* PathNormProofs.v — lemmas about request-path normalisation (PathNorm.v):
   splitting on '/', slash-equivalence, decoding once after splitting, the
   refusal of dot-segments and of segments that are not UTF-8, the safety of
   delivered segments; then (second part) the route-level wrapper and the
   executable specification of run/Run_C03.v. *)
From DS Require Import Base Pct PctProofs Utf8 Router PathNorm.

(* ====================================================================== *)
(* split_on                                                                 *)
(* ====================================================================== *)

Lemma split_on_not_nil c s : split_on c s <> [].
Proof.
  destruct s as [|x s]; cbn [split_on]; [discriminate|].
  destruct (x =? c); [discriminate|].
  destruct (split_on c s); discriminate.
Qed.

(* a separator ends one piece and begins the next *)
Lemma split_on_app_sep c a b :
  split_on c (a ++ c :: b) = split_on c a ++ split_on c b.
Proof.
  induction a as [|x a IH]; cbn [app split_on].
  - rewrite N.eqb_refl. reflexivity.
  - destruct (x =? c) eqn:Hx.
    + rewrite IH. reflexivity.
    + rewrite IH. destruct (split_on c a) as [|h t] eqn:Ha.
      * exfalso; exact (split_on_not_nil c a Ha).
      * reflexivity.
Qed.

Lemma split_on_no_sep c s : ~ In c s -> split_on c s = [s].
Proof.
  induction s as [|x s IH]; intros Hn; cbn [split_on]; [reflexivity|].
  destruct (N.eqb_spec x c) as [->|Hne].
  - exfalso; apply Hn; left; reflexivity.
  - rewrite IH; [reflexivity|]. intros Hi; apply Hn; right; exact Hi.
Qed.

Lemma split_on_pieces_no_sep c s : Forall (fun x => ~ In c x) (split_on c s).
Proof.
  induction s as [|x s IH]; cbn [split_on].
  - constructor; [intros []|constructor].
  - destruct (N.eqb_spec x c) as [->|Hne].
    + constructor; [intros []|exact IH].
    + destruct (split_on c s) as [|h t]; [constructor; [|constructor]|].
      * intros [H|[]]; congruence.
      * inversion IH as [|? ? Hh Ht]; subst. constructor; [|exact Ht].
        intros [H|H]; [congruence|exact (Hh H)].
Qed.

(* ====================================================================== *)
(* raw_segments                                                             *)
(* ====================================================================== *)

Lemma raw_segments_nil : raw_segments [] = [].
Proof. reflexivity. Qed.

Lemma raw_segments_app_slash a b :
  raw_segments (a ++ 47 :: b) = raw_segments a ++ raw_segments b.
Proof. unfold raw_segments. rewrite split_on_app_sep, filter_app. reflexivity. Qed.

Lemma raw_segments_slash p : raw_segments (47 :: p) = raw_segments p.
Proof. exact (raw_segments_app_slash [] p). Qed.

Lemma raw_segments_trailing_slash p : raw_segments (p ++ [47]) = raw_segments p.
Proof. rewrite raw_segments_app_slash, raw_segments_nil, app_nil_r. reflexivity. Qed.

Lemma raw_segments_slashes k p : raw_segments (repeat 47 k ++ p) = raw_segments p.
Proof.
  induction k as [|k IH]; cbn [repeat app]; [reflexivity|].
  rewrite raw_segments_slash. exact IH.
Qed.

Lemma raw_segments_no_slash s :
  ~ In 47 s -> raw_segments s = match s with [] => [] | _ => [s] end.
Proof.
  intros Hn. unfold raw_segments. rewrite (split_on_no_sep 47 s Hn).
  destruct s; reflexivity.
Qed.

Lemma raw_segments_nonempty p : Forall (fun s => s <> []) (raw_segments p).
Proof.
  unfold raw_segments. apply Forall_forall. intros s Hs.
  apply filter_In in Hs. destruct Hs as [_ Hs]. destruct s; [discriminate|discriminate].
Qed.

Lemma raw_segments_no_slash_inside p : Forall (fun s => ~ In 47 s) (raw_segments p).
Proof.
  unfold raw_segments. apply Forall_forall. intros s Hs.
  apply filter_In in Hs. destruct Hs as [Hs _].
  exact (proj1 (Forall_forall _ _) (split_on_pieces_no_sep 47 p) s Hs).
Qed.

(* a segment followed by a slash *)
Lemma raw_segments_seg_slash s r :
  s <> [] -> ~ In 47 s -> raw_segments (s ++ 47 :: r) = s :: raw_segments r.
Proof.
  intros Hne Hn. rewrite raw_segments_app_slash, (raw_segments_no_slash s Hn).
  destruct s; [congruence|reflexivity].
Qed.

(* ---------- characterisation: segments joined by any positive number of
   slashes, any number of leading and trailing slashes ---------- *)

(* every segment preceded by [S k] slashes; [trail] slashes at the end *)
Fixpoint join_tail (l : list (nat * str)) (trail : nat) : str :=
  match l with
  | [] => repeat 47 trail
  | (k, s) :: l' => repeat 47 (S k) ++ s ++ join_tail l' trail
  end.

(* ... and the first one by [lead >= 0] slashes *)
Definition join_path (lead : nat) (first : str) (l : list (nat * str)) (trail : nat) : str :=
  repeat 47 lead ++ first ++ join_tail l trail.

Definition good_raw_segment (s : str) : Prop := s <> [] /\ ~ In 47 s.

Lemma join_tail_head l trail :
  join_tail l trail = [] \/ exists r, join_tail l trail = 47 :: r.
Proof.
  destruct l as [|[k s] l]; cbn [join_tail].
  - destruct trail; cbn [repeat]; [left; reflexivity|right; eexists; reflexivity].
  - right. cbn [repeat app]. eexists; reflexivity.
Qed.

Lemma raw_segments_seg_then s rest :
  good_raw_segment s -> (rest = [] \/ exists r, rest = 47 :: r) ->
  raw_segments (s ++ rest) = s :: raw_segments rest.
Proof.
  intros [Hne Hn] [->|[r ->]].
  - rewrite app_nil_r, (raw_segments_no_slash s Hn). destruct s; [congruence|reflexivity].
  - rewrite raw_segments_seg_slash by assumption. rewrite raw_segments_slash. reflexivity.
Qed.

Lemma raw_segments_join_tail l trail :
  Forall (fun ks => good_raw_segment (snd ks)) l ->
  raw_segments (join_tail l trail) = map snd l.
Proof.
  induction l as [|[k s] l IH]; intros HF; cbn [join_tail map snd].
  - rewrite <- (app_nil_r (repeat 47 trail)), raw_segments_slashes. reflexivity.
  - inversion HF as [|? ? Hs Hl]; subst. cbn [snd] in Hs.
    rewrite raw_segments_slashes.
    rewrite (raw_segments_seg_then s _ Hs (join_tail_head l trail)).
    rewrite (IH Hl). reflexivity.
Qed.

Lemma raw_segments_join_path lead first l trail :
  good_raw_segment first ->
  Forall (fun ks => good_raw_segment (snd ks)) l ->
  raw_segments (join_path lead first l trail) = first :: map snd l.
Proof.
  intros Hf Hl. unfold join_path. rewrite raw_segments_slashes.
  rewrite (raw_segments_seg_then first _ Hf (join_tail_head l trail)).
  rewrite (raw_segments_join_tail l trail Hl). reflexivity.
Qed.

(* ====================================================================== *)
(* slash equivalence                                                        *)
(* ====================================================================== *)

(* generated by: duplicating a '/' anywhere; appending a trailing '/' *)
Inductive slash_step : str -> str -> Prop :=
| ss_dup : forall a b, slash_step (a ++ 47 :: b) (a ++ 47 :: 47 :: b)
| ss_trail : forall a, slash_step a (a ++ [47]).

Inductive slash_equiv : str -> str -> Prop :=
| se_step : forall p q, slash_step p q -> slash_equiv p q
| se_refl : forall p, slash_equiv p p
| se_sym : forall p q, slash_equiv p q -> slash_equiv q p
| se_trans : forall p q r, slash_equiv p q -> slash_equiv q r -> slash_equiv p r.

(* for a path that starts with '/', extra leading slashes are a special case
   of duplication *)
Lemma slash_equiv_leading k p : slash_equiv (47 :: p) (repeat 47 k ++ 47 :: p).
Proof.
  induction k as [|k IH]; cbn [repeat app]; [apply se_refl|].
  eapply se_trans; [exact IH|].
  destruct k; cbn [repeat app]; apply se_step; exact (ss_dup [] _).
Qed.

Lemma slash_step_raw p q : slash_step p q -> raw_segments p = raw_segments q.
Proof.
  intros [a b|a].
  - rewrite !raw_segments_app_slash, raw_segments_slash. reflexivity.
  - rewrite raw_segments_trailing_slash. reflexivity.
Qed.

Lemma slash_equiv_raw p q : slash_equiv p q -> raw_segments p = raw_segments q.
Proof.
  induction 1 as [p q Hs| |p q _ IH|p q r _ IH1 _ IH2].
  - exact (slash_step_raw p q Hs).
  - reflexivity.
  - symmetry; exact IH.
  - congruence.
Qed.

Theorem slashes_irrelevant p q :
  slash_equiv p q -> input_segments p = input_segments q.
Proof. intros H. unfold input_segments. rewrite (slash_equiv_raw p q H). reflexivity. Qed.

(* slash_equiv is closed under a common prefix *)
Lemma slash_step_prefix x p q : slash_step p q -> slash_step (x ++ p) (x ++ q).
Proof.
  intros [a b|a].
  - rewrite !app_assoc. apply ss_dup.
  - rewrite app_assoc. apply ss_trail.
Qed.

Lemma slash_equiv_prefix x p q : slash_equiv p q -> slash_equiv (x ++ p) (x ++ q).
Proof.
  induction 1 as [p q Hs| |p q _ IH|p q r _ IH1 _ IH2].
  - apply se_step, slash_step_prefix, Hs.
  - apply se_refl.
  - apply se_sym, IH.
  - eapply se_trans; eassumption.
Qed.

(* ---------- completeness: on paths that start with '/', slash_equiv is
   exactly "same raw segments" ---------- *)

(* the canonical spelling: one '/' before each segment; "/" for none *)
Definition canon_path (segs : list str) : str :=
  match segs with
  | [] => [47]
  | _ => flat_map (fun s => 47 :: s) segs
  end.

(* cut a string at its first '/' *)
Lemma cut_at_slash (r : str) :
  ~ In 47 r \/ exists s r', r = s ++ 47 :: r' /\ ~ In 47 s.
Proof.
  induction r as [|x r IH]; [left; intros []|].
  destruct (N.eqb_spec x 47) as [->|Hne].
  - right. exists [], r. split; [reflexivity|intros []].
  - destruct IH as [Hn|[s [r' [-> Hs]]]].
    + left. intros [H|H]; [congruence|exact (Hn H)].
    + right. exists (x :: s), r'. split; [reflexivity|].
      intros [H|H]; [congruence|exact (Hs H)].
Qed.

Lemma slash_equiv_canon_aux n : forall r, (length r <= n)%nat ->
  slash_equiv (47 :: r) (canon_path (raw_segments r)).
Proof.
  induction n as [|n IH]; intros r Hlen.
  - destruct r; [apply se_refl|cbn [length] in Hlen; lia].
  - destruct (cut_at_slash r) as [Hn|[s [r' [-> Hs]]]].
    + rewrite (raw_segments_no_slash r Hn). destruct r as [|x r]; [apply se_refl|].
      cbn [canon_path flat_map]. rewrite app_nil_r. apply se_refl.
    + assert (Hlen' : (length r' <= n)%nat).
      { rewrite app_length in Hlen; cbn [length] in Hlen; lia. }
      specialize (IH r' Hlen').
      destruct s as [|x s].
      * (* r = "/" ++ r' : a doubled slash *)
        cbn [app]. rewrite raw_segments_slash.
        eapply se_trans; [|exact IH].
        apply se_sym, se_step. exact (ss_dup [] r').
      * rewrite raw_segments_seg_slash by (assumption || discriminate).
        (* "/" s "/" r'  ~  "/" s ++ canon (raw r') *)
        pose proof (slash_equiv_prefix (47 :: x :: s) _ _ IH) as Hp.
        change ((47 :: x :: s) ++ 47 :: r') with (47 :: (x :: s) ++ 47 :: r') in Hp.
        eapply se_trans; [exact Hp|].
        destruct (raw_segments r') as [|s1 rest].
        -- cbn [canon_path flat_map]. rewrite app_nil_r.
           apply se_sym, se_step. exact (ss_trail (47 :: x :: s)).
        -- cbn [canon_path flat_map app]. apply se_refl.
Qed.

Lemma slash_equiv_canon r : slash_equiv (47 :: r) (canon_path (raw_segments (47 :: r))).
Proof. rewrite raw_segments_slash. exact (slash_equiv_canon_aux (length r) r (le_n _)). Qed.

Theorem slash_equiv_iff_same_segments p q :
  slash_equiv (47 :: p) (47 :: q) <-> raw_segments (47 :: p) = raw_segments (47 :: q).
Proof.
  split; [apply slash_equiv_raw|]. intros H.
  eapply se_trans; [apply slash_equiv_canon|].
  rewrite H. apply se_sym, slash_equiv_canon.
Qed.

(* ====================================================================== *)
(* map_res                                                                  *)
(* ====================================================================== *)

Lemma map_res_ok_map {E A B} (f : A -> res E B) (g : A -> B) :
  (forall x y, f x = Ok y -> y = g x) ->
  forall l ys, map_res f l = Ok ys -> ys = map g l.
Proof.
  intros Hfg. induction l as [|x l IH]; intros ys H; cbn [map_res map] in *.
  - congruence.
  - unfold bind in H. destruct (f x) as [y|e] eqn:Hx; [|discriminate].
    destruct (map_res f l) as [ys'|e] eqn:Hl; [|discriminate].
    injection H as <-. rewrite (Hfg x y Hx), (IH ys' eq_refl). reflexivity.
Qed.

Lemma map_res_ok_each {E A B} (f : A -> res E B) :
  forall l ys, map_res f l = Ok ys -> forall x, In x l -> exists y, f x = Ok y /\ In y ys.
Proof.
  induction l as [|x l IH]; intros ys H z Hz; cbn [map_res] in H; [destruct Hz|].
  unfold bind in H. destruct (f x) as [y|e] eqn:Hx; [|discriminate].
  destruct (map_res f l) as [ys'|e] eqn:Hl; [|discriminate].
  injection H as <-. destruct Hz as [<-|Hz].
  - exists y; split; [exact Hx|left; reflexivity].
  - destruct (IH ys' eq_refl z Hz) as [y' [Hy' Hin]]. exists y'; split; [exact Hy'|right; exact Hin].
Qed.

Lemma map_res_err_in {E A B} (f : A -> res E B) :
  forall l x e, In x l -> f x = Err e -> exists e', map_res f l = Err e'.
Proof.
  intros l x e Hin Hx. destruct (map_res f l) as [ys|e'] eqn:H; [|exists e'; reflexivity].
  destruct (map_res_ok_each f l ys H x Hin) as [y [Hy _]]. congruence.
Qed.

Lemma map_res_err_inv {E A B} (f : A -> res E B) :
  forall l e, map_res f l = Err e -> exists x, In x l /\ f x = Err e.
Proof.
  induction l as [|x l IH]; intros e H; cbn [map_res] in H; [discriminate|].
  unfold bind in H. destruct (f x) as [y|e0] eqn:Hx.
  - destruct (map_res f l) as [ys'|e1] eqn:Hl; [discriminate|].
    injection H as <-. destruct (IH e1 eq_refl) as [z [Hz Hfz]].
    exists z; split; [right; exact Hz|exact Hfz].
  - injection H as <-. exists x; split; [left; reflexivity|exact Hx].
Qed.

Lemma map_res_all_ok {E A B} (f : A -> res E B) (g : A -> B) :
  forall l, (forall x, In x l -> f x = Ok (g x)) -> map_res f l = Ok (map g l).
Proof.
  induction l as [|x l IH]; intros H; cbn [map_res map]; [reflexivity|].
  unfold bind. rewrite (H x (or_introl eq_refl)), IH; [reflexivity|].
  intros z Hz; apply H; right; exact Hz.
Qed.

(* ====================================================================== *)
(* decode_segment and input_segments                                        *)
(* ====================================================================== *)

Lemma is_dot_segment_iff d : is_dot_segment d = true <-> d = DOT \/ d = DOTDOT.
Proof.
  unfold is_dot_segment. rewrite orb_true_iff, !str_eqb_eq. reflexivity.
Qed.

Lemma decode_segment_ok raw d :
  decode_segment raw = Ok d ->
  d = pct_decode raw /\ utf8_valid d = true /\ is_dot_segment d = false.
Proof.
  unfold decode_segment.
  destruct (utf8_valid (pct_decode raw)) eqn:Hu; cbn [negb]; [|discriminate].
  destruct (is_dot_segment (pct_decode raw)) eqn:Hd; [discriminate|].
  intros [= <-]. auto.
Qed.

Lemma decode_segment_ok_iff raw :
  decode_segment raw = Ok (pct_decode raw) <->
  utf8_valid (pct_decode raw) = true /\ is_dot_segment (pct_decode raw) = false.
Proof.
  split.
  - intros H. apply decode_segment_ok in H. tauto.
  - intros [Hu Hd]. unfold decode_segment. rewrite Hu, Hd. reflexivity.
Qed.

Lemma decode_segment_dot raw :
  pct_decode raw = DOT \/ pct_decode raw = DOTDOT -> decode_segment raw = Err SE_dot.
Proof.
  intros H. unfold decode_segment.
  assert (Hd : is_dot_segment (pct_decode raw) = true) by (apply is_dot_segment_iff; exact H).
  rewrite Hd. destruct H as [-> | ->]; reflexivity.
Qed.

Lemma decode_segment_bad_utf8 raw :
  utf8_valid (pct_decode raw) = false -> decode_segment raw = Err SE_utf8.
Proof. intros H. unfold decode_segment. rewrite H. reflexivity. Qed.

Lemma decode_segment_err raw e :
  decode_segment raw = Err e ->
  utf8_valid (pct_decode raw) = false \/ pct_decode raw = DOT \/ pct_decode raw = DOTDOT.
Proof.
  unfold decode_segment.
  destruct (utf8_valid (pct_decode raw)) eqn:Hu; cbn [negb]; [|auto].
  destruct (is_dot_segment (pct_decode raw)) eqn:Hd; [|discriminate].
  intros _. right. apply is_dot_segment_iff. exact Hd.
Qed.

(* 2. each raw segment is decoded exactly once, after splitting *)
Theorem decode_once_after_split p segs :
  input_segments p = Ok segs -> segs = map pct_decode (raw_segments p).
Proof.
  unfold input_segments. apply map_res_ok_map.
  intros x y H. apply decode_segment_ok in H. tauto.
Qed.

Corollary decode_keeps_segment_count p segs :
  input_segments p = Ok segs -> length segs = length (raw_segments p).
Proof. intros H. rewrite (decode_once_after_split p segs H), map_length. reflexivity. Qed.

(* an escape never makes a boundary: the number of delivered segments is the
   number of non-empty pieces between literal slashes, whatever the escapes
   decode to; and a decoded '/' stays inside its segment *)
Corollary encoded_slash_stays_inside p segs i raw :
  input_segments p = Ok segs -> nth_error (raw_segments p) i = Some raw ->
  nth_error segs i = Some (pct_decode raw).
Proof.
  intros H Hi. rewrite (decode_once_after_split p segs H).
  rewrite nth_error_map, Hi. reflexivity.
Qed.

(* 3. a dot-segment in any spelling is refused: the hypothesis is on the
   decoded value *)
Theorem dot_segments_refused p s :
  In s (raw_segments p) -> (pct_decode s = DOT \/ pct_decode s = DOTDOT) ->
  exists e, input_segments p = Err e.
Proof.
  intros Hin Hd. unfold input_segments.
  exact (map_res_err_in decode_segment _ s SE_dot Hin (decode_segment_dot s Hd)).
Qed.

(* 4. a segment that is not UTF-8 after decoding is refused *)
Theorem bad_utf8_refused p s :
  In s (raw_segments p) -> utf8_valid (pct_decode s) = false ->
  exists e, input_segments p = Err e.
Proof.
  intros Hin Hu. unfold input_segments.
  exact (map_res_err_in decode_segment _ s SE_utf8 Hin (decode_segment_bad_utf8 s Hu)).
Qed.

(* ... and those are the only refusals *)
Theorem refused_only_for_dot_or_utf8 p e :
  input_segments p = Err e ->
  exists s, In s (raw_segments p) /\
    (utf8_valid (pct_decode s) = false \/ pct_decode s = DOT \/ pct_decode s = DOTDOT).
Proof.
  unfold input_segments. intros H.
  destruct (map_res_err_inv decode_segment _ e H) as [s [Hin Hs]].
  exists s; split; [exact Hin|exact (decode_segment_err s e Hs)].
Qed.

Theorem accepted_iff_all_segments_fine p :
  input_segments p = Ok (map pct_decode (raw_segments p)) <->
  (forall s, In s (raw_segments p) ->
     utf8_valid (pct_decode s) = true /\ is_dot_segment (pct_decode s) = false).
Proof.
  split.
  - intros H s Hin. unfold input_segments in H.
    destruct (map_res_ok_each decode_segment _ _ H s Hin) as [y [Hy _]].
    apply decode_segment_ok in Hy. destruct Hy as [-> Hy]. exact Hy.
  - intros H. unfold input_segments. apply map_res_all_ok.
    intros s Hin. apply decode_segment_ok_iff. exact (H s Hin).
Qed.

(* 5. whatever is delivered is safe *)
Theorem delivered_segments_safe p segs :
  input_segments p = Ok segs ->
  Forall (fun s => s <> [] /\ s <> DOT /\ s <> DOTDOT /\ utf8_valid s = true) segs.
Proof.
  intros H. pose proof (decode_once_after_split p segs H) as ->.
  apply Forall_forall. intros d Hd. apply in_map_iff in Hd. destruct Hd as [raw [<- Hraw]].
  unfold input_segments in H.
  destruct (map_res_ok_each decode_segment _ _ H raw Hraw) as [y [Hy _]].
  apply decode_segment_ok in Hy. destruct Hy as [-> [Hu Hdot]].
  assert (Hne : raw <> []).
  { exact (proj1 (Forall_forall _ _) (raw_segments_nonempty p) raw Hraw). }
  repeat split.
  - intros Hnil. apply Hne. exact (pct_decode_nil_inv raw Hnil).
  - intros Heq. rewrite (proj2 (is_dot_segment_iff _) (or_introl Heq)) in Hdot. discriminate.
  - intros Heq. rewrite (proj2 (is_dot_segment_iff _) (or_intror Heq)) in Hdot. discriminate.
  - exact Hu.
Qed.

(* ====================================================================== *)
(* Second part: the route-level wrapper and the executable specification    *)
(* of run/Run_C03.v (definitions there, no proofs; lemmas here)             *)
(* ====================================================================== *)
From DSR Require Import Run_C03.

Section RouteWrapper.
  Variable H : Type.
  Variable lookup : list str -> res N H.

  (* 7. a segment error is a 400 and selects no handler, whatever the table *)
  Theorem segment_error_is_400_no_handler p e :
    input_segments p = Err e ->
    route_with lookup p = Err 400 /\ (forall h, route_with lookup p <> Ok h).
  Proof.
    intros He. unfold route_with. rewrite He. split; [reflexivity|discriminate].
  Qed.

  (* a handler is selected only from a safe, once-decoded segment list *)
  Theorem handler_only_from_safe_segments p h :
    route_with lookup p = Ok h ->
    exists segs, input_segments p = Ok segs /\ lookup segs = Ok h /\
      segs = map pct_decode (raw_segments p) /\
      Forall (fun s => s <> [] /\ s <> DOT /\ s <> DOTDOT /\ utf8_valid s = true) segs.
  Proof.
    unfold route_with. destruct (input_segments p) as [segs|e] eqn:Hs; [|discriminate].
    intros Hl. exists segs. repeat split.
    - exact Hl.
    - exact (decode_once_after_split p segs Hs).
    - exact (delivered_segments_safe p segs Hs).
  Qed.

  Theorem route_respects_slash_equiv p q :
    slash_equiv p q -> route_with lookup p = route_with lookup q.
  Proof. intros Hq. unfold route_with. rewrite (slashes_irrelevant p q Hq). reflexivity. Qed.
End RouteWrapper.

(* ---------- the specification's splitter is the model's ---------- *)

Lemma rev_nil_iff {A} (l : list A) : rev l = [] <-> l = [].
Proof.
  split; [|intros ->; reflexivity].
  intros Hr. apply (f_equal (@length A)) in Hr. rewrite rev_length in Hr.
  destruct l; [reflexivity|discriminate].
Qed.

Lemma spec_split_aux_raw : forall p cur, ~ In 47 cur ->
  spec_split_aux cur p = raw_segments (rev cur ++ p).
Proof.
  induction p as [|c p IH]; intros cur Hn; cbn [spec_split_aux]; rewrite <- ?rev_alt.
  - rewrite app_nil_r.
    assert (Hn' : ~ In 47 (rev cur)) by (rewrite <- in_rev; exact Hn).
    rewrite (raw_segments_no_slash _ Hn').
    destruct cur as [|x cur]; [reflexivity|].
    destruct (rev (x :: cur)) eqn:Hr; [|reflexivity].
    apply (proj1 (rev_nil_iff _)) in Hr. discriminate Hr.
  - destruct (N.eqb_spec c 47) as [->|Hne].
    + assert (Hn' : ~ In 47 (rev cur)) by (rewrite <- in_rev; exact Hn).
      rewrite raw_segments_app_slash, (raw_segments_no_slash _ Hn').
      rewrite (IH [] (fun f => f)). cbn [rev app].
      destruct cur as [|x cur]; [reflexivity|].
      destruct (rev (x :: cur)) eqn:Hr; [|reflexivity].
      apply (proj1 (rev_nil_iff _)) in Hr. discriminate Hr.
    + rewrite IH.
      * cbn [rev]. rewrite <- app_assoc. reflexivity.
      * intros [Hc|Hc]; [congruence|exact (Hn Hc)].
Qed.

Theorem spec_split_is_raw_segments p : spec_split p = raw_segments p.
Proof. exact (spec_split_aux_raw p [] (fun f => f)). Qed.

Lemma seg_is_dot_is_model d : seg_is_dot d = is_dot_segment d.
Proof. reflexivity. Qed.

Lemma path_must_be_refused_false p :
  path_must_be_refused p = false ->
  input_segments p = Ok (map pct_decode (raw_segments p)).
Proof.
  unfold path_must_be_refused. rewrite spec_split_is_raw_segments. intros Hf.
  apply accepted_iff_all_segments_fine. intros s Hin.
  assert (Hs : seg_unsafe_after_decoding s = false).
  { destruct (seg_unsafe_after_decoding s) eqn:Hu; [|reflexivity].
    rewrite (proj2 (existsb_exists _ _) (ex_intro _ s (conj Hin Hu))) in Hf. discriminate. }
  unfold seg_unsafe_after_decoding in Hs. rewrite seg_is_dot_is_model in Hs.
  apply orb_false_iff in Hs. destruct Hs as [Hd Hu].
  apply negb_false_iff in Hu. auto.
Qed.

Lemma path_must_be_refused_true p :
  path_must_be_refused p = true -> exists e, input_segments p = Err e.
Proof.
  unfold path_must_be_refused. rewrite spec_split_is_raw_segments. intros Ht.
  apply existsb_exists in Ht. destruct Ht as [s [Hin Hs]].
  unfold seg_unsafe_after_decoding in Hs. rewrite seg_is_dot_is_model in Hs.
  apply orb_true_iff in Hs. destruct Hs as [Hd|Hu].
  - apply (dot_segments_refused p s Hin). apply is_dot_segment_iff. exact Hd.
  - apply (bad_utf8_refused p s Hin). apply negb_true_iff. exact Hu.
Qed.

Theorem refused_iff_unsafe_segment p :
  (exists e, input_segments p = Err e) <-> path_must_be_refused p = true.
Proof.
  split; [|apply path_must_be_refused_true].
  intros [e He]. destruct (path_must_be_refused p) eqn:Hp; [reflexivity|].
  rewrite (path_must_be_refused_false p Hp) in He. discriminate.
Qed.

(* ---------- equality tests ---------- *)

Lemma vv_eqb_eq a b : vv_eqb a b = true <-> a = b.
Proof.
  destruct a as [x|x], b as [y|y]; cbn [vv_eqb]; try (split; congruence).
  - rewrite str_eqb_eq. split; congruence.
  - rewrite (list_eqb_spec str_eqb str_eqb_eq). split; congruence.
Qed.

Lemma obs_eqb_eq a b : obs_eqb a b = true <-> a = b.
Proof.
  destruct a as [i x|c|], b as [j y|d|]; cbn [obs_eqb]; try (split; congruence).
  - rewrite andb_true_iff, N.eqb_eq, (list_eqb_spec vv_eqb vv_eqb_eq).
    split; [intros [-> ->]; reflexivity|intros [= -> ->]; auto].
  - rewrite N.eqb_eq. split; congruence.
Qed.

Lemma obs_eqb_refl a : obs_eqb a a = true.
Proof. apply obs_eqb_eq. reflexivity. Qed.

(* ---------- what a template binds comes from the segment list ---------- *)

Lemma tmatch_values_from_segments : forall t segs vals,
  tmatch t segs = Some vals -> forall s, In s (delivered_strings vals) -> In s segs.
Proof.
  induction t as [|ts t IH]; intros segs vals Hm s Hs; cbn [tmatch] in Hm.
  - destruct segs; [|discriminate]. injection Hm as <-. destruct Hs.
  - destruct ts as [lit| |].
    + destruct segs as [|x segs]; [discriminate|].
      destruct (str_eqb lit x); [|discriminate].
      right. exact (IH segs vals Hm s Hs).
    + destruct segs as [|x segs]; [discriminate|].
      destruct (tmatch t segs) as [vs|] eqn:Ht; [|discriminate].
      injection Hm as <-. cbn [delivered_strings flat_map vv_strings app] in Hs.
      destruct Hs as [<-|Hs]; [left; reflexivity|right].
      exact (IH segs vs Ht s Hs).
    + injection Hm as <-. cbn [delivered_strings flat_map vv_strings] in Hs.
      rewrite app_nil_r in Hs. exact Hs.
Qed.

Lemma table_lookup_from_values : forall tbl i segs j vals,
  table_lookup_from i tbl segs = Ok (j, vals) ->
  forall s, In s (delivered_strings vals) -> In s segs.
Proof.
  induction tbl as [|t tbl IH]; intros i segs j vals Hl; cbn [table_lookup_from] in Hl;
    [discriminate|].
  destruct (tmatch t segs) as [vs|] eqn:Ht.
  - injection Hl as <- <-. exact (tmatch_values_from_segments t segs vs Ht).
  - exact (IH _ _ _ _ Hl).
Qed.

Lemma seg_safe_iff d :
  seg_safe d = true <-> d <> [] /\ d <> DOT /\ d <> DOTDOT /\ utf8_valid d = true.
Proof.
  unfold seg_safe. rewrite !andb_true_iff, !negb_true_iff, seg_is_dot_is_model.
  split.
  - intros [[Hn Hd] Hu]. repeat split; [intros ->; discriminate| | |exact Hu].
    + intros ->. discriminate.
    + intros ->. discriminate.
  - intros [Hn [H1 [H2 Hu]]]. repeat split; [destruct d; [congruence|reflexivity]| |exact Hu].
    destruct (is_dot_segment d) eqn:Hd; [|reflexivity].
    apply is_dot_segment_iff in Hd. tauto.
Qed.

(* ---------- the model meets the specification, for every table and path ---------- *)

Theorem model_meets_spec tbl p : spec_item tbl p (model_obs tbl p) = true.
Proof.
  unfold spec_item, model_obs, route_with.
  destruct (path_must_be_refused p) eqn:Hp.
  - destruct (path_must_be_refused_true p Hp) as [e He]. rewrite He. reflexivity.
  - rewrite (path_must_be_refused_false p Hp).
    rewrite spec_split_is_raw_segments.
    destruct (table_lookup tbl (map pct_decode (raw_segments p))) as [[i vals]|c] eqn:Hl;
      cbn [obs_of]; [|reflexivity].
    rewrite obs_eqb_refl, andb_true_r.
    apply forallb_forall. intros s Hs. apply seg_safe_iff.
    pose proof (table_lookup_from_values tbl 0 _ i vals Hl s Hs) as Hin.
    pose proof (delivered_segments_safe p _ (path_must_be_refused_false p Hp)) as HF.
    exact (proj1 (Forall_forall _ _) HF s Hin).
Qed.

Corollary judge_accepts_model tbl p : judge_item tbl p (model_obs tbl p) = V_AGREE.
Proof.
  unfold judge_item. rewrite model_meets_spec, obs_eqb_refl. reflexivity.
Qed.

(* ---------- ... and the specification says what the property says ---------- *)

(* a delivery the specification accepts is safe and is exactly the model's *)
Theorem spec_delivery_is_safe_and_decoded_once tbl p i vals :
  spec_item tbl p (ODeliver i vals) = true ->
  Forall (fun s => s <> [] /\ s <> DOT /\ s <> DOTDOT /\ utf8_valid s = true)
         (delivered_strings vals) /\
  table_lookup tbl (map pct_decode (raw_segments p)) = Ok (i, vals) /\
  model_obs tbl p = ODeliver i vals.
Proof.
  unfold spec_item. rewrite andb_true_iff. intros [Hsafe Hrest].
  split.
  { apply Forall_forall. intros s Hs. apply seg_safe_iff.
    exact (proj1 (forallb_forall _ _) Hsafe s Hs). }
  destruct (path_must_be_refused p) eqn:Hp; [discriminate|].
  rewrite spec_split_is_raw_segments in Hrest. apply obs_eqb_eq in Hrest.
  assert (Hl : table_lookup tbl (map pct_decode (raw_segments p)) = Ok (i, vals)).
  { destruct (table_lookup tbl (map pct_decode (raw_segments p))) as [[j vs]|c];
      cbn [obs_of] in Hrest; congruence. }
  split; [exact Hl|].
  unfold model_obs, route_with. rewrite (path_must_be_refused_false p Hp), Hl. reflexivity.
Qed.

(* a path with an unsafe segment passes the specification only with a 400 *)
Theorem spec_unsafe_path_is_400 tbl p o :
  spec_item tbl p o = true -> path_must_be_refused p = true -> o = OStatus 400.
Proof.
  unfold spec_item. rewrite andb_true_iff. intros [_ Hrest] Hp. rewrite Hp in Hrest.
  apply obs_eqb_eq. exact Hrest.
Qed.
