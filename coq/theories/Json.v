(* Json.v — JSON values as serde_json::Value holds them (no preserve_order, no
   arbitrary_precision): numbers are either an integer literal (serde_json's
   PosInt/NegInt: u64 / i64) or an f64.  An f64 is an exact dyadic rational, so
   it is kept as numerator/denominator; float *formatting* is never compared.
   No proofs in this file. *)
From DS Require Import Base.
Open Scope N_scope.

(* ---------- exact rationals: (numerator, positive denominator) ---------- *)
Definition q := (Z * positive)%type.

(* constructor with scoped arguments, used by the harness printer *)
Definition Q (n : Z) (d : positive) : q := (n, d).

Definition q_leb (a b : q) : bool := (fst a * Zpos (snd b) <=? fst b * Zpos (snd a))%Z.
Definition q_ltb (a b : q) : bool := (fst a * Zpos (snd b) <? fst b * Zpos (snd a))%Z.
Definition q_eqb (a b : q) : bool := (fst a * Zpos (snd b) =? fst b * Zpos (snd a))%Z.
Definition q_of_Z (z : Z) : q := (z, 1%positive).
Definition q_is_int (a : q) : bool := (fst a mod Zpos (snd a) =? 0)%Z.
(* x is an integer multiple of m  (JSON Schema multipleOf; m = 0 divides nothing) *)
Definition q_multiple (x m : q) : bool :=
  let n := (fst x * Zpos (snd m))%Z in
  let d := (Zpos (snd x) * fst m)%Z in
  if (d =? 0)%Z then false else (n mod d =? 0)%Z.

(* serde_json::Number *)
Inductive num :=
| NInt (z : Z)                  (* PosInt(u64) / NegInt(i64) *)
| NFlt (n : Z) (d : positive).  (* Float(f64), value n/d *)

Definition num_q (x : num) : q :=
  match x with NInt z => (z, 1%positive) | NFlt n d => (n, d) end.

Inductive json :=
| JNull
| JBool (b : bool)
| JNum (n : num)
| JStr (s : str)
| JArr (l : list json)
| JObj (kvs : list (str * json)).

Fixpoint lookup {A} (k : str) (kvs : list (str * A)) : option A :=
  match kvs with
  | [] => None
  | (k', v) :: r => if str_eqb k k' then Some v else lookup k r
  end.

Definition has_key {A} (k : str) (kvs : list (str * A)) : bool :=
  match lookup k kvs with Some _ => true | None => false end.

(* JSON equality as JSON Schema's enum/const/uniqueItems use it: numbers by
   value (1 = 1.0), objects as unordered maps, arrays positionally. *)
Fixpoint json_eqb (a b : json) {struct a} : bool :=
  match a, b with
  | JNull, JNull => true
  | JBool x, JBool y => Bool.eqb x y
  | JNum x, JNum y => q_eqb (num_q x) (num_q y)
  | JStr x, JStr y => str_eqb x y
  | JArr x, JArr y =>
      (fix go (x y : list json) {struct x} : bool :=
         match x, y with
         | [], [] => true
         | a' :: x', b' :: y' => json_eqb a' b' && go x' y'
         | _, _ => false
         end) x y
  | JObj x, JObj y =>
      Nat.eqb (length x) (length y) &&
      (fix go (x : list (str * json)) {struct x} : bool :=
         match x with
         | [] => true
         | (k, v) :: x' =>
             match lookup k y with
             | Some w => json_eqb v w
             | None => false
             end && go x'
         end) x
  | _, _ => false
  end.

Definition json_mem (j : json) (l : list json) : bool := existsb (json_eqb j) l.

Fixpoint json_nodup (l : list json) : bool :=
  match l with
  | [] => true
  | x :: r => negb (json_mem x r) && json_nodup r
  end.

(* number of Unicode scalar values of a UTF-8 string = bytes that are not
   continuation bytes (10xxxxxx); JSON Schema minLength/maxLength count these *)
Definition is_cont_byte (b : N) : bool := (128 <=? b) && (b <? 192).
Definition str_chars (s : str) : N :=
  N.of_nat (length (filter (fun b => negb (is_cont_byte b)) s)).

Definition len_N {A} (l : list A) : N := N.of_nat (length l).

(* option helpers used by the schema semantics *)
Definition optb {A} (o : option A) (f : A -> bool) : bool :=
  match o with None => true | Some a => f a end.

(* [f] bound outside the [fix], as in [List.forallb] *)
Definition count_true {A} (f : A -> bool) : list A -> nat :=
  fix go (l : list A) : nat :=
    match l with
    | [] => O
    | x :: r => if f x then S (go r) else go r
    end.

Definition is_null (j : json) : bool := match j with JNull => true | _ => false end.
