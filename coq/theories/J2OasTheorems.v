(* J2OasTheorems.v — the exported results of C08, assembled from
   J2OasProofs.v: convertibility, meaning preservation, per-keyword
   corollaries, extensionality in the reference environment, and the
   document-level theorem ($ref through definitions, recursive or not). *)
From DS Require Import Base Json Schema J2Oas SchemaSem J2OasSpec J2OasProofs.
Require Import Lia ZArith Btauto.
Open Scope N_scope.

(* ---------- wrappers ---------- *)
Theorem supported_converts s name : supported s = true -> exists o, j2oas name s = Ok o.
Proof.
  intros H.
  pose proof (supported_convertible_n true true _ s (le_n _) H) as Hc.
  rewrite <- (j2oas_ok_convertible_n _ s (le_n _) name) in Hc.
  destruct (j2oas name s); [eauto|discriminate].
Qed.

Theorem j2oas_ok_iff_convertible s name : is_ok (j2oas name s) = convertible s.
Proof. exact (j2oas_ok_convertible_n _ s (le_n _) name). Qed.

Theorem j2oas_err_unsupported s name e : j2oas name s = Err e -> supported s = false.
Proof.
  intros H. destruct (supported s) eqn:E; [|reflexivity].
  destruct (supported_converts s name E) as [o Ho]. congruence.
Qed.

Theorem supported_faithful_mono b1 b2 s :
  supported_faithful s = true -> supported_with b1 b2 s = true.
Proof. exact (supported_faithful_mono_n b1 b2 _ s (le_n _)). Qed.

Theorem supported_faithful_supported s : supported_faithful s = true -> supported s = true.
Proof. exact (supported_faithful_mono true true s). Qed.

Theorem meaning_preserved env pat_ok fmt_ok s name o :
  supported_faithful s = true -> j2oas name s = Ok o ->
  forall j, valid_oas env pat_ok fmt_ok o j = valid_js env pat_ok fmt_ok s j.
Proof. intros Hs Hj j. exact (preserved_all env pat_ok fmt_ok _ s (le_n _) name o Hs Hj j). Qed.

(* ---------- each named constraint is enforced by the published schema ---------- *)
Section Keywords.
  Variable env : str -> json -> bool.
  Variable pat_ok : str -> str -> bool.
  Variable fmt_ok : str -> json -> bool.
  Notation VJ := (valid_js env pat_ok fmt_ok).
  Notation VO := (valid_oas env pat_ok fmt_ok).

  Variables (so : sobj schema) (name : option str) (o : oschema).
  Hypothesis Hsup : supported_faithful (SObj so) = true.
  Hypothesis Hconv : j2oas name (SObj so) = Ok o.
  Hypothesis Hnoref : so_reference so = None.

  Lemma published_enforces j :
    VO o j = true -> is_null j = false ->
    valid_type (so_instance_type so) j = true
    /\ optb (so_format so) (fun f => fmt_ok f j) = true
    /\ optb (so_enum_values so) (json_mem j) = true
    /\ optb (so_subschemas so) (fun sb => valid_subs VJ sb j) = true
    /\ optb (so_number so) (fun nv => valid_numval nv j) = true
    /\ optb (so_string so) (fun sv => valid_strval pat_ok sv j) = true
    /\ optb (so_array so) (fun av => valid_arrval VJ av j) = true
    /\ optb (so_object so) (fun ov => valid_objval pat_ok VJ ov j) = true.
  Proof.
    intros Hv Hnn. rewrite (meaning_preserved env pat_ok fmt_ok _ name o Hsup Hconv) in Hv.
    cbn [valid_js] in Hv. rewrite Hnoref, Hnn, andb_false_r in Hv. cbn [orb] in Hv.
    rewrite !andb_true_iff in Hv. tauto.
  Qed.

  (* required *)
  Corollary required_enforced ov kvs k :
    so_object so = Some ov -> VO o (JObj kvs) = true -> In k (ov_required ov) -> has_key k kvs = true.
  Proof.
    intros Ho Hv Hk. destruct (published_enforces _ Hv eq_refl) as (_&_&_&_&_&_&_&H).
    rewrite Ho in H. cbn in H. rewrite !andb_true_iff in H.
    destruct H as [[[[[[_ _] Hr] _] _] _] _]. rewrite forallb_forall in Hr. auto.
  Qed.

  (* enum *)
  Corollary enum_enforced l j :
    so_enum_values so = Some l -> VO o j = true -> is_null j = false -> json_mem j l = true.
  Proof.
    intros He Hv Hn. destruct (published_enforces _ Hv Hn) as (_&_&H&_). rewrite He in H. exact H.
  Qed.

  (* numeric bounds: minimum, maximum, exclusive bounds, multipleOf *)
  Corollary numeric_bounds_enforced nv n :
    so_number so = Some nv -> VO o (JNum n) = true -> valid_numval nv (JNum n) = true.
  Proof.
    intros He Hv. destruct (published_enforces _ Hv eq_refl) as (_&_&_&_&H&_). rewrite He in H. exact H.
  Qed.

  (* length limits and pattern *)
  Corollary length_limits_enforced sv s :
    so_string so = Some sv -> VO o (JStr s) = true -> valid_strval pat_ok sv (JStr s) = true.
  Proof.
    intros He Hv. destruct (published_enforces _ Hv eq_refl) as (_&_&_&_&_&H&_). rewrite He in H. exact H.
  Qed.

  (* item limits, uniqueness and item schemas *)
  Corollary items_enforced av l :
    so_array so = Some av -> VO o (JArr l) = true -> valid_arrval VJ av (JArr l) = true.
  Proof.
    intros He Hv. destruct (published_enforces _ Hv eq_refl) as (_&_&_&_&_&_&H&_). rewrite He in H. exact H.
  Qed.

  (* property schemas, additionalProperties, min/max properties *)
  Corollary properties_enforced ov kvs :
    so_object so = Some ov -> VO o (JObj kvs) = true -> valid_objval pat_ok VJ ov (JObj kvs) = true.
  Proof.
    intros He Hv. destruct (published_enforces _ Hv eq_refl) as (_&_&_&_&_&_&_&H). rewrite He in H. exact H.
  Qed.

  (* allOf / anyOf / oneOf / not *)
  Corollary subschemas_enforced sb j :
    so_subschemas so = Some sb -> VO o j = true -> is_null j = false -> valid_subs VJ sb j = true.
  Proof.
    intros He Hv Hn. destruct (published_enforces _ Hv Hn) as (_&_&_&H&_). rewrite He in H. exact H.
  Qed.

  (* and nothing is added: what the type's schema accepts, the published one accepts *)
  Corollary nothing_added j : VJ (SObj so) j = true -> VO o j = true.
  Proof. intros H. rewrite (meaning_preserved env pat_ok fmt_ok _ name o Hsup Hconv). exact H. Qed.
End Keywords.

(* ---------- documents: $ref through definitions ---------- *)
Section Ext.
  Variable pat_ok : str -> str -> bool.
  Variable fmt_ok : str -> json -> bool.
  Variables env1 env2 : str -> json -> bool.
  Hypothesis Henv : forall r j, env1 r j = env2 r j.

  Lemma osize_list_In (c : oschema) l : In c l -> (oschema_size c < S (size_list oschema_size l))%nat.
  Proof.
    induction l as [|a l IH]; cbn; [tauto|]. intros [->|H]; [lia|]. specialize (IH H). lia.
  Qed.
  Lemma osize_plist_In (p : str * oschema) l :
    In p l -> (oschema_size (snd p) < S (size_plist oschema_size l))%nat.
  Proof.
    induction l as [|[k a] l IH]; cbn; [tauto|]. intros [<-|H]; cbn; [lia|]. specialize (IH H). lia.
  Qed.

  Lemma count_ext_in {A} (f g : A -> bool) l :
    (forall a, In a l -> f a = g a) -> count_true f l = count_true g l.
  Proof.
    induction l as [|a l IH]; intros H; cbn; [reflexivity|].
    rewrite (H a (or_introl eq_refl)), IH; [reflexivity|]. intros; apply H; right; assumption.
  Qed.
  Lemma existsb_ext_in {A} (f g : A -> bool) l :
    (forall a, In a l -> f a = g a) -> existsb f l = existsb g l.
  Proof.
    induction l as [|a l IH]; intros H; cbn; [reflexivity|].
    rewrite (H a (or_introl eq_refl)), IH; [reflexivity|]. intros; apply H; right; assumption.
  Qed.

  Lemma valid_oas_ext : forall n o, (oschema_size o <= n)%nat ->
    forall j, valid_oas env1 pat_ok fmt_ok o j = valid_oas env2 pat_ok fmt_ok o j.
  Proof.
    induction n as [|n IH]; intros o Hsz j.
    { destruct o; cbn in Hsz; lia. }
    destruct o as [r|d k]; cbn [valid_oas]; [apply Henv|].
    f_equal. cbn [oschema_size] in Hsz.
    destruct k as [t|l|l|l|a|]; cbn [valid_okind].
    - destruct t as [st|nt|it|ot|at_|en]; cbn [valid_otype]; try reflexivity.
      + unfold valid_oobject. destruct j; try reflexivity.
        f_equal; [f_equal|].
        * apply forallb_ext_in. intros p Hp. destruct (lookup (fst p) kvs); [|reflexivity].
          apply IH. pose proof (osize_plist_In p _ Hp). lia.
        * destruct (oo_additional_properties ot) as [[b|a]|]; try reflexivity.
          apply forallb_ext'. intros kv. destruct (has_key (fst kv) (oo_properties ot)); [reflexivity|].
          apply IH. lia.
      + unfold valid_oarray. destruct j; try reflexivity.
        do 3 f_equal. destruct (oa_items at_) as [i|]; [|reflexivity]. cbn [optb size_opt] in *.
        apply forallb_ext'. intros x. apply IH. lia.
    - f_equal. apply count_ext_in. intros c Hc. apply IH. pose proof (osize_list_In c l Hc). lia.
    - apply forallb_ext_in. intros c Hc. apply IH. pose proof (osize_list_In c l Hc). lia.
    - apply existsb_ext_in. intros c Hc. apply IH. pose proof (osize_list_In c l Hc). lia.
    - f_equal. apply IH. lia.
    - reflexivity.
  Qed.
End Ext.

Section Documents.
  Variable pat_ok : str -> str -> bool.
  Variable fmt_ok : str -> json -> bool.

  (* the published components are the conversions of the definitions *)
  Definition comps_of_defs (defs : list (str * schema)) (comps : list (str * oschema)) : Prop :=
    Forall2 (fun d c => fst d = fst c /\ supported_faithful (snd d) = true
                        /\ j2oas None (snd d) = Ok (snd c)) defs comps.

  Lemma lookup_comps defs comps r :
    comps_of_defs defs comps ->
    match lookup r defs, lookup r comps with
    | Some s, Some o => supported_faithful s = true /\ j2oas None s = Ok o
    | None, None => True
    | _, _ => False
    end.
  Proof.
    induction 1 as [|[kd s] [kc o] defs comps (Hk & Hs & Hj) _ IH]; cbn; [exact I|].
    cbn in Hk; subst kc. destruct (str_eqb r kd); [split; assumption|exact IH].
  Qed.

  Theorem env_agree defs comps :
    comps_of_defs defs comps ->
    forall fuel r j, env_oas pat_ok fmt_ok fuel comps r j = env_js pat_ok fmt_ok fuel defs r j.
  Proof.
    intros Hc. induction fuel as [|f IH]; intros r j; cbn [env_oas env_js]; [reflexivity|].
    pose proof (lookup_comps defs comps r Hc) as Hl.
    destruct (lookup r defs) as [s|], (lookup r comps) as [o|]; try contradiction; [|reflexivity].
    destruct Hl as [Hs Hj].
    rewrite (valid_oas_ext pat_ok fmt_ok _ _ IH _ o (le_n _) j).
    apply meaning_preserved with (name := None); assumption.
  Qed.

  (* the property for a whole document: the schema published at a site,
     read with the published components, accepts exactly what the type's
     schema accepts, read with its own definitions - for recursive and nested
     references alike *)
  Theorem document_meaning_preserved defs comps s name o fuel :
    comps_of_defs defs comps ->
    supported_faithful s = true -> j2oas name s = Ok o ->
    forall j, valid_oas (env_oas pat_ok fmt_ok fuel comps) pat_ok fmt_ok o j
              = valid_js (env_js pat_ok fmt_ok fuel defs) pat_ok fmt_ok s j.
  Proof.
    intros Hc Hs Hj j.
    rewrite (valid_oas_ext pat_ok fmt_ok _ _ (env_agree defs comps Hc fuel) _ o (le_n _) j).
    apply meaning_preserved with (name := name); assumption.
  Qed.
End Documents.

(* ---------- the two refuted full statements ---------- *)
Theorem meaning_preserved_full_refuted :
  ~ (forall env pat_ok fmt_ok s name o,
        supported s = true -> j2oas name s = Ok o ->
        forall j, valid_oas env pat_ok fmt_ok o j = valid_js env pat_ok fmt_ok s j).
Proof.
  intros H.
  destruct (k4_refutes (fun _ _ => false) (fun _ _ => true) (fun _ _ => true))
    as (Hs & o & Ho & Hj & Hv).
  specialize (H (fun _ _ => false) (fun _ _ => true) (fun _ _ => true) _ _ _ Hs Ho JNull).
  congruence.
Qed.

(* even with the null type excluded, an integer schema whose bound is not an
   integer is altered: {type: integer, minimum: 0.5} is published with
   minimum 0 and then accepts 0 (known finding K6) *)
Definition k6_witness : schema :=
  SObj (mkSObj None (Some (Single TInteger)) None None None None
               (Some (mkNumVal None None None (Some (Q 1 2)) None)) None None None None []).

Theorem fractional_integer_bound_refuted :
  ~ (forall env pat_ok fmt_ok s name o,
        supported_with false true s = true -> j2oas name s = Ok o ->
        forall j, valid_oas env pat_ok fmt_ok o j = valid_js env pat_ok fmt_ok s j).
Proof.
  intros H.
  specialize (H (fun _ _ => false) (fun _ _ => true) (fun _ _ => true) k6_witness None _
                eq_refl eq_refl (JNum (NInt 0))).
  vm_compute in H. discriminate.
Qed.

Theorem parameter_annotations_full_refuted :
  ~ (forall so d k,
        supported (SObj so) = true ->
        j2oas None (snd (schema_extract_description (SObj so))) = Ok (OItem d k) ->
        an_default (annot_oas d k) = an_default (annot_js None so)).
Proof.
  intros H. destruct k5_refutes as (so & d & k & Hs & Hj & Hd).
  exact (Hd (H so d k Hs Hj)).
Qed.

(* ---------- annotations of every node of the schema tree ---------- *)

Lemma flat_map'_F2 {A B C D} (N : C -> D) (R : A -> B -> Prop) (f : A -> list C) (g : B -> list C) l l' :
  Forall2 R l l' ->
  (forall a b, In a l -> R a b -> map N (f a) = map N (g b)) ->
  map N (flat_map' f l) = map N (flat_map' g l').
Proof.
  induction 1 as [|a b l l' Hab _ IH]; intros H; cbn; [reflexivity|].
  rewrite !map_app, (H a b (or_introl eq_refl) Hab), IH; [reflexivity|].
  intros; apply H; [right|]; assumption.
Qed.

Definition annots_at (s : schema) : Prop :=
  forall name o, supported s = true -> j2oas name s = Ok o ->
                 map annot_norm (annots_oas o) = map annot_norm (annots_js name s).

Lemma leaf_kind_integer fmt num en (k : okind oschema) :
  j2oas_integer fmt num en = Ok k -> exists it, k = KType (OTInteger it).
Proof.
  unfold j2oas_integer. intros H. inv_bind_as H b Hb. destruct b as [[mo [mn emn]] [mx emx]].
  inv_bind_as H e He. inversion H; eauto.
Qed.
Lemma leaf_kind_number fmt num en (k : okind oschema) :
  j2oas_number fmt num en = Ok k -> exists it, k = KType (OTNumber it).
Proof.
  unfold j2oas_number. intros H. inv_bind_as H b Hb. destruct b as [[mo [mn emn]] [mx emx]].
  inv_bind_as H e He. inversion H; eauto.
Qed.
Lemma leaf_kind_string fmt sv en (k : okind oschema) :
  j2oas_string fmt sv en = Ok k -> exists it, k = KType (OTString it).
Proof.
  unfold j2oas_string. intros H.
  destruct (match sv with
            | Some sv0 => (sv_max_length sv0, sv_min_length sv0, sv_pattern sv0)
            | None => (None, None, None)
            end) as [[mx mn] pt].
  inv_bind_as H e He. inversion H; eauto.
Qed.

Theorem annotations_kept_everywhere_n : forall n s, (schema_size s <= n)%nat -> annots_at s.
Proof.
  induction n as [|n IH]; intros s Hsz.
  { destruct s; cbn in Hsz; lia. }
  intros name o Hsup Hj.
  destruct s as [b|so].
  { cbn in Hsup. subst b. cbn in Hj. inversion Hj; subst o. reflexivity. }
  destruct (so_reference so) as [r|] eqn:Eref.
  { destruct so as [md ity fmt en cst subs num sv arr obj ref ext]; cbn in Eref; subst.
    cbn [j2oas so_reference so_extensions] in Hj.
    cbn [annots_js so_reference so_extensions].
    destruct (ext_nullable ext); inversion Hj; subst o; reflexivity. }
  assert (Hshape : exists d k, o = OItem d k).
  { destruct so; cbn in Eref; subst. cbn in Hj.
    inv_bind_as Hj ty Hty. inv_bind_as Hj kind Hk. inversion Hj; eauto. }
  destruct Hshape as (d & k & ->).
  pose proof (annotations_kept_top true true name so d k Eref Hsup Hj) as Htop.
  destruct so as [md ity fmt en cst subs num sv arr obj ref ext].
  cbn in Eref; subst ref.
  cbn [j2oas so_reference so_instance_type so_subschemas so_enum_values so_object so_array
       so_format so_number so_string] in Hj.
  unfold supported in Hsup.
  cbn [supported_with so_reference so_instance_type so_subschemas so_enum_values so_object
       so_array so_format so_number so_string so_const_value] in Hsup.
  apply andb_true_iff in Hsup as [_ Hsup].
  inv_bind_as Hj ty Hty. inv_bind_as Hj kind Hkind. inversion Hj; subst d k; clear Hj.
  cbn [annots_oas annots_js so_reference so_instance_type so_subschemas so_object so_array map].
  rewrite Htop. f_equal.
  cbn [schema_size so_subschemas so_array so_object] in Hsz.
  destruct ity as [[t|ts]|]; cbn in Hty; inversion Hty; subst ty; clear Hty.
  - destruct subs as [sb|]; [destruct t; discriminate|].
    destruct t.
    + inversion Hkind; reflexivity.
    + inv_bind_as Hkind e He. inversion Hkind; reflexivity.
    + (* object *)
      apply andb_true_iff in Hsup as [_ Hsup].
      unfold j2oas_object in Hkind. destruct obj as [ov|]; [|inversion Hkind; reflexivity].
      inv_bind_as Hkind props' Hprops. inv_bind_as Hkind ap' Hap. inversion Hkind; subst kind; clear Hkind.
      cbn [oo_properties oo_additional_properties].
      rewrite !andb_true_iff in Hsup. destruct Hsup as [[[_ _] Hsp] Hsa].
      rewrite !map_app. f_equal.
      * apply map_res_snd_Forall2 in Hprops. symmetry.
        eapply flat_map'_F2; [exact Hprops|].
        intros a b Hin [_ Hab]. symmetry.
        apply (IH (snd a)); [pose proof (size_plist_In a _ Hin); lia| |exact Hab].
        rewrite forallb_forall in Hsp. apply Hsp; exact Hin.
      * unfold j2oas_addl in Hap. destruct (ov_additional_properties ov) as [[c|oa]|] eqn:Eap.
        -- inversion Hap; reflexivity.
        -- inv_bind_as Hap oa' Hoa. inversion Hap; subst ap'.
           apply (IH (SObj oa)); [cbn [size_opt] in Hsz; lia|exact Hsa|exact Hoa].
        -- inversion Hap; reflexivity.
    + (* array *)
      apply andb_true_iff in Hsup as [_ Hsup].
      unfold j2oas_array in Hkind. destruct arr as [av|]; [|discriminate].
      inv_bind_as Hkind items' Hitems. inversion Hkind; subst kind; clear Hkind.
      cbn [oa_items]. apply andb_true_iff in Hsup as [_ Hsup].
      destruct (av_items av) as [[i|ss]|] eqn:Eit; try discriminate.
      * inv_bind_as Hitems i' Hi. inversion Hitems; subst items'.
        apply (IH i); [cbn [size_sov] in Hsz; lia|exact Hsup|exact Hi].
      * inversion Hitems; reflexivity.
    + destruct (leaf_kind_number _ _ _ _ Hkind) as [it ->]. reflexivity.
    + destruct (leaf_kind_string _ _ _ _ Hkind) as [it ->]. reflexivity.
    + destruct (leaf_kind_integer _ _ _ _ Hkind) as [it ->]. reflexivity.
  - destruct subs as [sb|]; [|inversion Hkind; reflexivity].
    rewrite !andb_true_iff in Hsup. destruct Hsup as [[_ _] Hall].
    unfold j2oas_subschemas in Hkind. unfold subs_all in Hall.
    destruct sb as [all any one nt i th el].
    cbn [sb_all_of sb_any_of sb_one_of sb_not] in *.
    assert (HL : forall l l', (S (size_list schema_size l) <= n)%nat ->
                              forallb (supported_with true true) l = true ->
                              map_res (j2oas None) l = Ok l' ->
                              map annot_norm (flat_map' annots_oas l')
                              = map annot_norm (flat_map' (annots_js None) l)).
    { intros l l' Hl Hs Hm. apply map_res_Forall2 in Hm. symmetry.
      eapply flat_map'_F2; [exact Hm|].
      intros a b Hin Hab. symmetry.
      apply (IH a); [pose proof (size_list_In a l Hin); lia| |exact Hab].
      rewrite forallb_forall in Hs. apply Hs; exact Hin. }
    destruct all as [l|], any as [l2|], one as [l3|], nt as [c|]; try discriminate.
    + inv_bind_as Hkind l' Hl. inversion Hkind; subst kind.
      apply HL; auto. cbn [size_optlist] in Hsz. lia.
    + inv_bind_as Hkind l' Hl. inversion Hkind; subst kind.
      apply HL; auto. cbn [size_optlist] in Hsz. lia.
    + inv_bind_as Hkind l' Hl. inversion Hkind; subst kind.
      apply HL; auto. cbn [size_optlist] in Hsz. lia.
    + inv_bind_as Hkind c' Hc. inversion Hkind; subst kind.
      apply (IH c); [cbn [size_opt] in Hsz; lia|exact Hall|exact Hc].
Qed.

Theorem annotations_kept_everywhere s name o :
  supported s = true -> j2oas name s = Ok o ->
  map annot_norm (annots_oas o) = map annot_norm (annots_js name s).
Proof. exact (annotations_kept_everywhere_n _ s (le_n _) name o). Qed.

(* ---------- {$ref, nullable: true}: "T or null" ---------- *)
Theorem nullable_reference_kept env pat_ok fmt_ok so name o r :
  so_reference so = Some r -> ext_nullable (so_extensions so) = true ->
  j2oas name (SObj so) = Ok o ->
  forall j, valid_oas env pat_ok fmt_ok o j = is_null j || env r j.
Proof.
  intros Hr Hn Hj j.
  destruct so as [md ity fmt en cst subs num sv arr obj ref ext].
  cbn [so_reference so_extensions] in Hr, Hn. subst ref.
  rewrite (meaning_preserved env pat_ok fmt_ok
             (SObj (mkSObj md ity fmt en cst subs num sv arr obj (Some r) ext)) name o eq_refl Hj).
  cbn [valid_js so_reference so_extensions]. rewrite Hn. reflexivity.
Qed.
