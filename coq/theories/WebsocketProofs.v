(* WebsocketProofs.v — proofs about the WebSocket upgrade model (Websocket.v).

   1. [split_on] yields exactly the maximal separator-free runs ([run]).
   2. The code's token test (split on ',' SP HTAB) against RFC 9110 list
      membership ([list_has], an independent declarative definition):
      membership implies the code's test for every field value; the converse
      holds for well-formed values ([wf_value]: every list element is free of
      inner whitespace); the exact difference is stated ([line_has_token_iff],
      [inner_space_accepted]).
   3. [decide]: accepted iff the four elements are present; each reason of
      refusal characterised; dropping or corrupting one element refuses.
   4. The endpoint: 101 + the three fields + task spawned on acceptance, 400 and
      nothing spawned otherwise; what hyper's rewriting of Connection leaves
      intact; the accept key is 28 base64 characters encoding the 20-byte
      digest.
   5. The executable classification used by the judge means what it says and
      the model meets it. *)
From DS Require Import Base Base64 Base64Proofs Sha1 Sha1Proofs Websocket.
Require Import ZifyBool ZifyN.

(* ================================================================== *)
(* 1. split_on                                                        *)
(* ================================================================== *)

Definition free (p : N -> bool) (s : str) : bool := forallb (fun c => negb (p c)) s.

Lemma free_app p a b : free p (a ++ b) = free p a && free p b.
Proof. apply forallb_app. Qed.

Lemma split_on_nonempty p s : split_on p s <> [].
Proof.
  induction s as [|c r IH]; cbn [split_on]; [discriminate|].
  destruct (p c); [discriminate|].
  destruct (split_on p r); [contradiction|discriminate].
Qed.

Lemma cons_head_app c l1 l2 : l1 <> [] -> cons_head c (l1 ++ l2) = cons_head c l1 ++ l2.
Proof. destruct l1; [contradiction|reflexivity]. Qed.

Lemma split_free p s : free p s = true -> split_on p s = [s].
Proof.
  induction s as [|c r IH]; [reflexivity|].
  cbn [free forallb]. fold (free p r). intros H. apply andb_true_iff in H. destruct H as [Hc Hr].
  cbn [split_on]. destruct (p c); [discriminate|]. rewrite (IH Hr). reflexivity.
Qed.

(* a separator ends the last piece of what precedes and begins a new one *)
Lemma split_sep_app p a c b :
  p c = true -> split_on p (a ++ c :: b) = split_on p a ++ split_on p b.
Proof.
  intros Hc. induction a as [|x a IH]; cbn [app split_on].
  - rewrite Hc. reflexivity.
  - destruct (p x); [rewrite IH; reflexivity|].
    rewrite IH. apply cons_head_app, split_on_nonempty.
Qed.

Lemma first_sep p v :
  free p v = true \/ exists h c r, v = h ++ c :: r /\ free p h = true /\ p c = true.
Proof.
  induction v as [|x v IH]; [left; reflexivity|].
  destruct (p x) eqn:Hx.
  - right. exists [], x, v. repeat split; assumption.
  - destruct IH as [Hf|(h & c & r & -> & Hh & Hc)].
    + left. cbn [free forallb]. rewrite Hx. exact Hf.
    + right. exists (x :: h), c, r. repeat split; [|exact Hc].
      cbn [free forallb]. rewrite Hx. exact Hh.
Qed.

(* [pre] is empty or ends with a separator; [post] is empty or starts with one *)
Definition ends_with_sep (p : N -> bool) (pre : str) : Prop :=
  pre = [] \/ exists pre' c, pre = pre' ++ [c] /\ p c = true.
Definition starts_with_sep (p : N -> bool) (post : str) : Prop :=
  post = [] \/ exists c post', post = c :: post' /\ p c = true.

(* [t] is a maximal run of non-separator bytes of [v] *)
Definition run (p : N -> bool) (v t : str) : Prop :=
  exists pre post, v = pre ++ t ++ post /\ free p t = true /\
                   ends_with_sep p pre /\ starts_with_sep p post.

Lemma ends_with_sep_extend p h c pre :
  p c = true -> ends_with_sep p pre -> ends_with_sep p (h ++ c :: pre).
Proof.
  intros Hc [->|(pre' & c' & -> & Hc')].
  - right. exists h, c. split; [reflexivity|exact Hc].
  - right. exists (h ++ c :: pre'), c'. split; [|exact Hc'].
    rewrite <- app_assoc. reflexivity.
Qed.

Lemma split_on_run_fwd p : forall n v, (length v <= n)%nat ->
  forall t, In t (split_on p v) -> run p v t.
Proof.
  induction n as [|n IH]; intros v Hlen t Hin.
  - destruct v; [|cbn in Hlen; lia].
    cbn in Hin. destruct Hin as [<-|[]].
    exists [], []. repeat split; left; reflexivity.
  - destruct (first_sep p v) as [Hf|(h & c & r & -> & Hh & Hc)].
    + rewrite (split_free _ _ Hf) in Hin. destruct Hin as [<-|[]].
      exists [], []. rewrite app_nil_r. repeat split; [exact Hf|left; reflexivity|left; reflexivity].
    + rewrite (split_sep_app _ _ _ _ Hc), (split_free _ _ Hh) in Hin.
      destruct Hin as [<-|Hin].
      * exists [], (c :: r). repeat split; [exact Hh|left; reflexivity|].
        right. exists c, r. split; [reflexivity|exact Hc].
      * assert (Hr : (length r <= n)%nat).
        { rewrite app_length in Hlen. cbn [length] in Hlen. lia. }
        destruct (IH r Hr t Hin) as (pre & post & -> & Ht & Hpre & Hpost).
        exists (h ++ c :: pre), post. repeat split; [|exact Ht| |exact Hpost].
        -- rewrite <- app_assoc. reflexivity.
        -- apply ends_with_sep_extend; assumption.
Qed.

Lemma split_on_head p t post :
  free p t = true -> starts_with_sep p post -> In t (split_on p (t ++ post)).
Proof.
  intros Ht [->|(c & post' & -> & Hc)].
  - rewrite app_nil_r, (split_free _ _ Ht). left; reflexivity.
  - rewrite (split_sep_app _ _ _ _ Hc), (split_free _ _ Ht). left; reflexivity.
Qed.

(* the pieces of [split_on] are exactly the maximal separator-free runs *)
Theorem split_on_In p v t : In t (split_on p v) <-> run p v t.
Proof.
  split.
  - apply (split_on_run_fwd p (length v)). lia.
  - intros (pre & post & -> & Ht & [->|(pre' & c & -> & Hc)] & Hpost).
    + cbn [app]. apply split_on_head; assumption.
    + rewrite <- app_assoc. cbn [app].
      rewrite (split_sep_app _ _ _ _ Hc). apply in_or_app. right.
      apply split_on_head; assumption.
Qed.

(* splitting on the union of two separator sets = splitting on one, then
   splitting every piece on the other *)
Lemma split_split p q pq :
  (forall c, pq c = p c || q c) ->
  forall v, split_on pq v = flat_map (split_on q) (split_on p v).
Proof.
  intros Hpq. induction v as [|c v IH]; [reflexivity|].
  cbn [split_on]. rewrite Hpq.
  destruct (p c) eqn:Hp; cbn [orb].
  - cbn [flat_map split_on app]. rewrite IH. reflexivity.
  - destruct (split_on p v) as [|h tl] eqn:E; [exfalso; exact (split_on_nonempty _ _ E)|].
    cbn [cons_head flat_map split_on] in *.
    destruct (q c) eqn:Hq.
    + rewrite IH. reflexivity.
    + rewrite IH. apply cons_head_app, split_on_nonempty.
Qed.

(* ================================================================== *)
(* 2. whitespace, trimming, case                                      *)
(* ================================================================== *)

Definition all_ows (s : str) : bool := forallb is_ows s.

Lemma is_sep_alt c : is_sep c = is_comma c || is_ows c.
Proof. unfold is_sep, is_comma, is_ows. rewrite orb_assoc. reflexivity. Qed.

Lemma ows_is_sep c : is_ows c = true -> is_sep c = true.
Proof. rewrite is_sep_alt. intros ->. apply orb_true_r. Qed.

Lemma comma_is_sep c : is_comma c = true -> is_sep c = true.
Proof. rewrite is_sep_alt. intros ->. reflexivity. Qed.

Lemma free_sep_comma s : free is_sep s = true -> free is_comma s = true.
Proof.
  unfold free. rewrite !forallb_forall. intros H c Hc. specialize (H c Hc).
  rewrite is_sep_alt in H. destruct (is_comma c); [discriminate|reflexivity].
Qed.

Lemma free_sep_ows s : free is_sep s = true -> no_ows s = true.
Proof.
  unfold free, no_ows. rewrite !forallb_forall. intros H c Hc. specialize (H c Hc).
  rewrite is_sep_alt in H. destruct (is_ows c); [rewrite orb_true_r in H; discriminate|reflexivity].
Qed.

Lemma all_ows_free_comma s : all_ows s = true -> free is_comma s = true.
Proof.
  unfold all_ows, free. rewrite !forallb_forall. intros H c Hc. specialize (H c Hc).
  unfold is_ows, is_comma in *. lia.
Qed.

Lemma no_ows_free s : no_ows s = free is_ows s.
Proof. reflexivity. Qed.

(* trim_left removes a whitespace prefix, trim_right a whitespace suffix *)
Lemma trim_left_decomp s : exists l, s = l ++ trim_left s /\ all_ows l = true.
Proof.
  induction s as [|c r (l & Hl & Hows)]; [exists []; split; reflexivity|].
  cbn [trim_left]. destruct (is_ows c) eqn:Hc.
  - exists (c :: l). split; [cbn [app]; f_equal; exact Hl|].
    cbn [all_ows forallb]. rewrite Hc. exact Hows.
  - exists []. split; reflexivity.
Qed.

Lemma trim_right_decomp s : exists r, s = trim_right s ++ r /\ all_ows r = true.
Proof.
  induction s as [|c s (r & Hr & Hows)]; [exists []; split; reflexivity|].
  cbn [trim_right]. destruct (trim_right s) as [|x r'] eqn:E.
  - destruct (is_ows c) eqn:Hc.
    + exists (c :: s). split; [reflexivity|].
      cbn [all_ows forallb]. rewrite Hc. cbn [app] in Hr. rewrite Hr. exact Hows.
    + exists s. split; [reflexivity|]. cbn [app] in Hr. rewrite Hr. exact Hows.
  - exists r. split; [|exact Hows]. cbn [app]. f_equal. exact Hr.
Qed.

Lemma trim_ows_decomp s :
  exists l r, s = l ++ trim_ows s ++ r /\ all_ows l = true /\ all_ows r = true.
Proof.
  destruct (trim_left_decomp s) as (l & Hl & Hlo).
  destruct (trim_right_decomp (trim_left s)) as (r & Hr & Hro).
  exists l, r. unfold trim_ows. rewrite <- Hr. auto.
Qed.

Lemma trim_left_ows l s : all_ows l = true -> trim_left (l ++ s) = trim_left s.
Proof.
  induction l as [|c l IH]; [reflexivity|].
  cbn [all_ows forallb]. intros H. apply andb_true_iff in H. destruct H as [Hc Hl].
  cbn [app trim_left]. rewrite Hc. apply IH, Hl.
Qed.

Lemma trim_left_id s : no_ows s = true -> trim_left (s) = s.
Proof.
  destruct s as [|c s]; [reflexivity|]. cbn [no_ows forallb trim_left].
  destruct (is_ows c); [discriminate|reflexivity].
Qed.

Lemma trim_left_word t r : no_ows t = true -> t <> [] -> trim_left (t ++ r) = t ++ r.
Proof.
  destruct t as [|c t]; [contradiction|]. cbn [no_ows forallb app trim_left].
  destruct (is_ows c); [discriminate|reflexivity].
Qed.

Lemma trim_right_ows r : all_ows r = true -> trim_right r = [].
Proof.
  induction r as [|c r IH]; [reflexivity|].
  cbn [all_ows forallb]. intros H. apply andb_true_iff in H. destruct H as [Hc Hr].
  cbn [trim_right]. rewrite (IH Hr), Hc. reflexivity.
Qed.

Lemma trim_right_word t r :
  no_ows t = true -> t <> [] -> all_ows r = true -> trim_right (t ++ r) = t.
Proof.
  intros Ht Hne Hr. induction t as [|c t IH]; [contradiction|].
  cbn [no_ows forallb] in Ht. apply andb_true_iff in Ht. destruct Ht as [Hc Ht].
  cbn [app trim_right]. destruct t as [|d t].
  - cbn [app]. rewrite (trim_right_ows _ Hr).
    destruct (is_ows c); [discriminate|reflexivity].
  - rewrite IH; [reflexivity|exact Ht|discriminate].
Qed.

(* OWS word OWS trims to the word *)
Lemma trim_ows_sandwich l t r :
  all_ows l = true -> all_ows r = true -> no_ows t = true -> t <> [] ->
  trim_ows (l ++ t ++ r) = t.
Proof.
  intros Hl Hr Ht Hne. unfold trim_ows.
  rewrite (trim_left_ows _ _ Hl), (trim_left_word _ _ Ht Hne).
  apply trim_right_word; assumption.
Qed.

(* ASCII case folding does not create or destroy separators *)
Lemma is_sep_lower c : is_sep (lower_byte c) = is_sep c.
Proof. unfold is_sep, lower_byte. destruct ((65 <=? c) && (c <=? 90)) eqn:E; [|reflexivity]. lia. Qed.

Lemma free_sep_lower s : free is_sep (str_lower s) = free is_sep s.
Proof.
  induction s as [|c s IH]; [reflexivity|].
  cbn [str_lower map free forallb]. rewrite is_sep_lower. f_equal. exact IH.
Qed.

Lemma eq_ic_lower a b : eq_ic a b = true <-> str_lower a = str_lower b.
Proof. unfold eq_ic. apply str_eqb_eq. Qed.

Lemma eq_ic_refl a : eq_ic a a = true.
Proof. apply eq_ic_lower. reflexivity. Qed.

Lemma eq_ic_free t tok : eq_ic t tok = true -> free is_sep t = free is_sep tok.
Proof.
  intros H. apply eq_ic_lower in H.
  rewrite <- (free_sep_lower t), <- (free_sep_lower tok), H. reflexivity.
Qed.

Lemma eq_ic_nonempty t tok : eq_ic t tok = true -> tok <> [] -> t <> [].
Proof.
  intros H Hne ->. apply eq_ic_lower in H. destruct tok; [contradiction|discriminate].
Qed.

(* ================================================================== *)
(* 3. the code's token test and RFC 9110 list membership              *)
(* ================================================================== *)

(* What the code tests, said without [split]: some maximal run of bytes other
   than ',' SP HTAB equals the token up to ASCII case. *)
Theorem line_has_token_iff tok v :
  line_has_token tok v = true <-> exists t, run is_sep v t /\ eq_ic t tok = true.
Proof.
  unfold line_has_token. rewrite existsb_exists.
  split; intros (t & H1 & H2); exists t; (split; [apply split_on_In; exact H1|exact H2]).
Qed.

(* RFC 9110 §5.6.1:  #element = [ element ] *( OWS "," OWS [ element ] ).
   The field value [v] has [tok] as a list element when it can be cut as
        pre  l  t  r  post
   with [pre] empty or ending in ",", [post] empty or starting with ",",
   [l] and [r] optional whitespace, and [t] the token up to ASCII case.
   (Independent of [split_on] and [trim_ows].) *)
Definition list_has (v tok : str) : Prop :=
  exists pre l t r post,
    v = pre ++ l ++ t ++ r ++ post /\
    (pre = [] \/ exists pre', pre = pre' ++ [44]) /\
    (post = [] \/ exists post', post = 44 :: post') /\
    all_ows l = true /\ all_ows r = true /\ eq_ic t tok = true.

(* a token in the sense needed here: not empty, no ',' SP HTAB *)
Definition token_ok (tok : str) : Prop := tok <> [] /\ free is_sep tok = true.

Lemma t_upgrade_ok : token_ok t_upgrade.
Proof. split; [discriminate|reflexivity]. Qed.
Lemma t_websocket_ok : token_ok t_websocket.
Proof. split; [discriminate|reflexivity]. Qed.

Lemma ends_comma_sep pre :
  (pre = [] \/ exists pre', pre = pre' ++ [44]) <-> ends_with_sep is_comma pre.
Proof.
  split; (intros [->|H]; [left; reflexivity|right]).
  - destruct H as (pre' & ->). exists pre', 44. split; reflexivity.
  - destruct H as (pre' & c & -> & Hc). exists pre'.
    unfold is_comma in Hc. apply N.eqb_eq in Hc. subst c. reflexivity.
Qed.

Lemma starts_comma_sep post :
  (post = [] \/ exists post', post = 44 :: post') <-> starts_with_sep is_comma post.
Proof.
  split; (intros [->|H]; [left; reflexivity|right]).
  - destruct H as (post' & ->). exists 44, post'. split; reflexivity.
  - destruct H as (c & post' & -> & Hc). exists post'.
    unfold is_comma in Hc. apply N.eqb_eq in Hc. subst c. reflexivity.
Qed.

Lemma last_or_nil {A} (l : list A) : l = [] \/ exists l' c, l = l' ++ [c].
Proof.
  destruct l as [|a l]; [left; reflexivity|right].
  destruct (@exists_last _ (a :: l)) as (l' & c & E); [discriminate|].
  exists l', c. exact E.
Qed.

Lemma ends_with_sep_ows pre l :
  ends_with_sep is_comma pre -> all_ows l = true -> ends_with_sep is_sep (pre ++ l).
Proof.
  intros Hpre Hl. destruct (last_or_nil l) as [->|(l' & c & ->)].
  - rewrite app_nil_r. destruct Hpre as [->|(pre' & c & -> & Hc)]; [left; reflexivity|].
    right. exists pre', c. split; [reflexivity|apply comma_is_sep, Hc].
  - right. exists (pre ++ l'), c. split; [apply app_assoc|].
    unfold all_ows in Hl. rewrite forallb_app in Hl. apply andb_true_iff in Hl.
    destruct Hl as [_ Hc]. cbn [forallb] in Hc. apply ows_is_sep.
    destruct (is_ows c); [reflexivity|discriminate].
Qed.

Lemma starts_with_sep_ows r post :
  starts_with_sep is_comma post -> all_ows r = true -> starts_with_sep is_sep (r ++ post).
Proof.
  intros Hpost Hr. destruct r as [|c r].
  - cbn [app]. destruct Hpost as [->|(c & post' & -> & Hc)]; [left; reflexivity|].
    right. exists c, post'. split; [reflexivity|apply comma_is_sep, Hc].
  - right. exists c, (r ++ post). split; [reflexivity|].
    cbn [all_ows forallb] in Hr. apply ows_is_sep.
    destruct (is_ows c); [reflexivity|discriminate].
Qed.

(* (A) Whatever else the field value contains, a proper list element equal to
   the token passes the code's test. *)
Theorem list_has_accepted v tok :
  free is_sep tok = true -> list_has v tok -> line_has_token tok v = true.
Proof.
  intros Htok (pre & l & t & r & post & -> & Hpre & Hpost & Hl & Hr & Ht).
  apply line_has_token_iff. exists t. split; [|exact Ht].
  exists (pre ++ l), (r ++ post). repeat split.
  - rewrite <- !app_assoc. reflexivity.
  - rewrite (eq_ic_free _ _ Ht). exact Htok.
  - apply ends_with_sep_ows; [apply ends_comma_sep; exact Hpre|exact Hl].
  - apply starts_with_sep_ows; [apply starts_comma_sep; exact Hpost|exact Hr].
Qed.

(* A well-formed list value: each comma-separated element is optional
   whitespace around a (possibly empty) word without whitespace.  Every value
   generated by the RFC 9110 grammar for Connection and Upgrade is of this
   kind ([rfc_list_wf] below). *)
Definition wf_element (e : str) : Prop :=
  exists l w r, e = l ++ w ++ r /\ all_ows l = true /\ all_ows r = true /\ no_ows w = true.
Definition wf_value (v : str) : Prop := forall e, run is_comma v e -> wf_element e.

Lemma split_all_ows s t : all_ows s = true -> In t (split_on is_ows s) -> t = [].
Proof.
  induction s as [|c s IH]; cbn [split_on]; intros Hs Hin.
  - destruct Hin as [<-|[]]. reflexivity.
  - cbn [all_ows forallb] in Hs. apply andb_true_iff in Hs. destruct Hs as [Hc Hs].
    rewrite Hc in Hin. destruct Hin as [<-|Hin]; [reflexivity|apply IH; assumption].
Qed.

(* the whitespace-separated words of a well-formed element: at most one *)
Lemma wf_element_words l w r t :
  all_ows l = true -> all_ows r = true -> no_ows w = true ->
  In t (split_on is_ows (l ++ w ++ r)) -> t = [] \/ t = w.
Proof.
  intros Hl Hr Hw. induction l as [|c l IH]; intros Hin.
  - cbn [app] in Hin. destruct r as [|d r].
    + rewrite app_nil_r, (split_free is_ows w Hw) in Hin. destruct Hin as [<-|[]]. right; reflexivity.
    + cbn [all_ows forallb] in Hr. apply andb_true_iff in Hr. destruct Hr as [Hd Hr].
      rewrite (split_sep_app _ _ _ _ Hd), (split_free is_ows w Hw) in Hin.
      destruct Hin as [<-|Hin]; [right; reflexivity|left].
      apply (split_all_ows r); assumption.
  - cbn [all_ows forallb] in Hl. apply andb_true_iff in Hl. destruct Hl as [Hc Hl].
    cbn [app split_on] in Hin. rewrite Hc in Hin.
    destruct Hin as [<-|Hin]; [left; reflexivity|apply IH; assumption].
Qed.

(* (B) On a well-formed value the code's test finds only proper list elements. *)
Theorem accepted_list_has v tok :
  wf_value v -> tok <> [] -> line_has_token tok v = true -> list_has v tok.
Proof.
  intros Hwf Hne H. unfold line_has_token in H. apply existsb_exists in H.
  destruct H as (t & Hin & Ht).
  rewrite (split_split is_comma is_ows is_sep is_sep_alt) in Hin.
  apply in_flat_map in Hin. destruct Hin as (e & He & Hte).
  apply split_on_In in He.
  destruct (Hwf e He) as (l & w & r & -> & Hl & Hr & Hw).
  destruct (wf_element_words l w r t Hl Hr Hw Hte) as [-> | ->].
  - exfalso. exact (eq_ic_nonempty _ _ Ht Hne eq_refl).
  - destruct He as (pre & post & -> & _ & Hpre & Hpost).
    exists pre, l, w, r, post. repeat split; try assumption.
    + rewrite <- !app_assoc. reflexivity.
    + apply ends_comma_sep, Hpre.
    + apply starts_comma_sep, Hpost.
Qed.

(* the two together *)
Corollary wf_line_has_token_iff v tok :
  wf_value v -> token_ok tok -> (line_has_token tok v = true <-> list_has v tok).
Proof.
  intros Hwf [Hne Hfree]. split.
  - apply accepted_list_has; assumption.
  - apply list_has_accepted; assumption.
Qed.

(* The exact divergence.  On an ill-formed value — a list element with inner
   whitespace — the code also accepts a word of that element: "foo upgrade"
   passes although its only list element is "foo upgrade". *)
Example inner_space_accepted :
  let v := [102;111;111;32;117;112;103;114;97;100;101] in   (* "foo upgrade" *)
  line_has_token t_upgrade v = true /\ ~ list_has v t_upgrade /\ ~ wf_value v.
Proof.
  cbn zeta. set (v := [102;111;111;32;117;112;103;114;97;100;101]).
  assert (Hcode : line_has_token t_upgrade v = true) by reflexivity.
  assert (Hrun : run is_comma v v).
  { exists [], []. repeat split; left; reflexivity. }
  assert (Hnwf : ~ wf_element v).
  { intros (l & w & r & E & Hl & Hr & Hw).
    (* the words of v are "foo" and "upgrade": two non-empty ones *)
    assert (H1 : In [102;111;111] (split_on is_ows v)) by (vm_compute; auto).
    assert (H2 : In t_upgrade (split_on is_ows v)) by (vm_compute; auto).
    rewrite E in H1, H2.
    destruct (wf_element_words l w r _ Hl Hr Hw H1) as [H|H]; [discriminate|].
    destruct (wf_element_words l w r _ Hl Hr Hw H2) as [H'|H']; [discriminate|].
    rewrite <- H in H'. discriminate. }
  split; [exact Hcode|]. split.
  - intros (pre & l & t & r & post & E & Hpre & Hpost & Hl & Hr & Ht).
    (* v has no comma, so pre and post are empty and v = l ++ t ++ r *)
    assert (Hc : free is_comma v = true) by reflexivity.
    rewrite E in Hc. rewrite !free_app in Hc. rewrite !andb_true_iff in Hc.
    destruct Hc as (Hcpre & _ & _ & _ & Hcpost).
    destruct Hpre as [->|(pre' & ->)];
      [|rewrite free_app in Hcpre; apply andb_true_iff in Hcpre; destruct Hcpre as [_ Hx]; discriminate].
    destruct Hpost as [->|(post' & ->)]; [|discriminate].
    apply Hnwf. exists l, t, r. rewrite app_nil_r in E. cbn [app] in E.
    repeat split; try assumption.
    apply free_sep_ows. rewrite (eq_ic_free _ _ Ht). reflexivity.
  - intros Hwf. exact (Hnwf (Hwf v Hrun)).
Qed.

(* ---------- the executable forms ---------- *)

Theorem memberb_iff tok v : token_ok tok -> (memberb tok v = true <-> list_has v tok).
Proof.
  intros [Hne Hfree]. unfold memberb. rewrite existsb_exists. split.
  - intros (e & He & Ht). apply split_on_In in He.
    destruct He as (pre & post & -> & _ & Hpre & Hpost).
    destruct (trim_ows_decomp e) as (l & r & E & Hl & Hr).
    exists pre, l, (trim_ows e), r, post. repeat split; try assumption.
    + rewrite E at 1. rewrite <- !app_assoc. reflexivity.
    + apply ends_comma_sep, Hpre.
    + apply starts_comma_sep, Hpost.
  - intros (pre & l & t & r & post & -> & Hpre & Hpost & Hl & Hr & Ht).
    assert (Hft : free is_sep t = true) by (rewrite (eq_ic_free _ _ Ht); exact Hfree).
    exists (l ++ t ++ r). split.
    + apply split_on_In. exists pre, post. repeat split.
      * rewrite <- !app_assoc. reflexivity.
      * rewrite !free_app, (all_ows_free_comma _ Hl), (all_ows_free_comma _ Hr),
          (free_sep_comma _ Hft). reflexivity.
      * apply ends_comma_sep, Hpre.
      * apply starts_comma_sep, Hpost.
    + rewrite trim_ows_sandwich; try assumption.
      * apply free_sep_ows, Hft.
      * exact (eq_ic_nonempty _ _ Ht Hne).
Qed.

Theorem wf_valueb_sound v : wf_valueb v = true -> to_str_ok v = true /\ wf_value v.
Proof.
  unfold wf_valueb. rewrite andb_true_iff, forallb_forall. intros [Hs H].
  split; [exact Hs|]. intros e He. apply split_on_In in He. specialize (H e He).
  destruct (trim_ows_decomp e) as (l & r & E & Hl & Hr).
  exists l, (trim_ows e), r. auto.
Qed.

(* Values generated by the RFC 9110 grammar: every list element, whitespace
   removed, is empty or made of visible ASCII other than ',' (tokens, and
   "name/version" protocols, are). *)
Definition vchar (c : N) : bool := (33 <=? c) && (c <? 127) && negb (c =? 44).
Definition rfc_list (v : str) : Prop :=
  forall e, run is_comma v e ->
    exists l w r, e = l ++ w ++ r /\ all_ows l = true /\ all_ows r = true /\ forallb vchar w = true.

Lemma vchar_not_ows c : vchar c = true -> is_ows c = false.
Proof. unfold vchar, is_ows. lia. Qed.

Lemma vchar_visible c : vchar c = true -> visible_ascii c = true.
Proof. unfold vchar, visible_ascii. lia. Qed.

Lemma ows_visible c : is_ows c = true -> visible_ascii c = true.
Proof. unfold is_ows, visible_ascii. lia. Qed.

Theorem rfc_list_wf v : rfc_list v -> wf_value v.
Proof.
  intros H e He. destruct (H e He) as (l & w & r & E & Hl & Hr & Hw).
  exists l, w, r. repeat split; try assumption.
  unfold no_ows. rewrite forallb_forall in *. intros c Hc.
  rewrite (vchar_not_ows _ (Hw c Hc)). reflexivity.
Qed.

(* ... and [HeaderValue::to_str] accepts them *)
Theorem rfc_list_to_str v : rfc_list v -> to_str_ok v = true.
Proof.
  intros H. unfold to_str_ok. apply forallb_forall. intros c Hc.
  (* c is a comma, or lies in some element *)
  destruct (is_comma c) eqn:Hcomma.
  { unfold is_comma in Hcomma. apply N.eqb_eq in Hcomma. subst c. reflexivity. }
  assert (Hel : exists e, In e (split_on is_comma v) /\ In c e).
  { clear H. induction v as [|x v IH]; [destruct Hc|].
    cbn [split_on]. destruct Hc as [->|Hc].
    - rewrite Hcomma. destruct (split_on is_comma v) as [|h tl] eqn:E;
        [exfalso; exact (split_on_nonempty _ _ E)|].
      exists (c :: h). split; left; reflexivity.
    - destruct (IH Hc) as (e & He & Hce).
      destruct (is_comma x).
      + exists e. split; [right; exact He|exact Hce].
      + destruct (split_on is_comma v) as [|h tl] eqn:E; [destruct He|].
        cbn [cons_head]. destruct He as [<-|He].
        * exists (x :: h). split; [left; reflexivity|right; exact Hce].
        * exists e. split; [right; exact He|exact Hce]. }
  destruct Hel as (e & He & Hce). apply split_on_In in He.
  destruct (H e He) as (l & w & r & -> & Hl & Hr & Hw).
  unfold all_ows in Hl, Hr. rewrite forallb_forall in Hl, Hr, Hw.
  apply in_app_or in Hce. destruct Hce as [Hce|Hce]; [apply ows_visible, Hl, Hce|].
  apply in_app_or in Hce. destruct Hce as [Hce|Hce]; [apply vchar_visible, Hw, Hce|apply ows_visible, Hr, Hce].
Qed.

(* ================================================================== *)
(* 4. the decision                                                    *)
(* ================================================================== *)

(* the field [name] of the request has the token, as the code tests it: on
   some line that [to_str] accepts *)
Theorem header_has_token_iff name tok hs :
  header_has_token name tok hs = true <->
  exists v, In v (get_all name hs) /\ to_str_ok v = true /\ line_has_token tok v = true.
Proof.
  unfold header_has_token. rewrite existsb_exists. split.
  - intros (v & Hin & H). apply filter_In in Hin. destruct Hin as [Hin Hs]. exists v. auto.
  - intros (v & Hin & Hs & H). exists v. split; [apply filter_In; auto|exact H].
Qed.

Lemma get_Some name hs v : get name hs = Some v <-> exists rest, get_all name hs = v :: rest.
Proof.
  unfold get. destruct (get_all name hs) as [|x rest]; split.
  - discriminate.
  - intros (r & H). discriminate.
  - intros [= ->]. exists rest. reflexivity.
  - intros (r & [= -> _]). reflexivity.
Qed.

Lemma get_None name hs : get name hs = None <-> get_all name hs = [].
Proof. unfold get. destruct (get_all name hs); split; congruence. Qed.

Lemma version_test hs :
  option_eqb str_eqb (get n_version hs) (Some v_13) = true <-> get n_version hs = Some v_13.
Proof.
  destruct (get n_version hs) as [v|]; cbn [option_eqb]; [|split; discriminate].
  rewrite str_eqb_eq. split; congruence.
Qed.

(* 1. upgrade_iff, exactly as the code decides *)
Theorem decide_accept_iff hs k :
  decide hs = Accept k <->
  header_has_token n_connection t_upgrade hs = true /\
  header_has_token n_upgrade t_websocket hs = true /\
  get n_version hs = Some v_13 /\
  get n_key hs = Some k.
Proof.
  unfold decide.
  destruct (header_has_token n_connection t_upgrade hs); cbn [negb];
    [|split; [discriminate|intros (H & _); discriminate]].
  destruct (header_has_token n_upgrade t_websocket hs); cbn [negb];
    [|split; [discriminate|intros (_ & H & _); discriminate]].
  destruct (option_eqb str_eqb (get n_version hs) (Some v_13)) eqn:Hv; cbn [negb].
  - apply version_test in Hv.
    destruct (get n_key hs) as [k'|]; split.
    + intros [= ->]. auto.
    + intros (_ & _ & _ & [= ->]). reflexivity.
    + discriminate.
    + intros (_ & _ & _ & H). discriminate.
  - split; [discriminate|]. intros (_ & _ & H & _). apply version_test in H. congruence.
Qed.

(* the reasons, in the code's order *)
Theorem decide_reject_connection hs :
  decide hs = Reject400 RConnection <-> header_has_token n_connection t_upgrade hs = false.
Proof.
  unfold decide. destruct (header_has_token n_connection t_upgrade hs); cbn [negb];
    [|split; reflexivity].
  split; [|discriminate].
  destruct (header_has_token n_upgrade t_websocket hs); cbn [negb]; [|discriminate].
  destruct (option_eqb _ _ _); cbn [negb]; [|discriminate].
  destruct (get n_key hs); discriminate.
Qed.

Theorem decide_reject_upgrade hs :
  decide hs = Reject400 RUpgrade <->
  header_has_token n_connection t_upgrade hs = true /\
  header_has_token n_upgrade t_websocket hs = false.
Proof.
  unfold decide. destruct (header_has_token n_connection t_upgrade hs); cbn [negb];
    [|split; [discriminate|intros [H _]; discriminate]].
  destruct (header_has_token n_upgrade t_websocket hs); cbn [negb];
    [|split; auto].
  split; [|intros [_ H]; discriminate].
  destruct (option_eqb _ _ _); cbn [negb]; [|discriminate].
  destruct (get n_key hs); discriminate.
Qed.

Theorem decide_reject_version hs :
  decide hs = Reject400 RVersion <->
  header_has_token n_connection t_upgrade hs = true /\
  header_has_token n_upgrade t_websocket hs = true /\
  get n_version hs <> Some v_13.
Proof.
  unfold decide. destruct (header_has_token n_connection t_upgrade hs); cbn [negb];
    [|split; [discriminate|intros [H _]; discriminate]].
  destruct (header_has_token n_upgrade t_websocket hs); cbn [negb];
    [|split; [discriminate|intros (_ & H & _); discriminate]].
  destruct (option_eqb str_eqb (get n_version hs) (Some v_13)) eqn:Hv; cbn [negb].
  - apply version_test in Hv. split; [|intros (_ & _ & H); contradiction].
    destruct (get n_key hs); discriminate.
  - split; [|reflexivity]. intros _. repeat split. intros H. apply version_test in H. congruence.
Qed.

Theorem decide_reject_key hs :
  decide hs = Reject400 RKey <->
  header_has_token n_connection t_upgrade hs = true /\
  header_has_token n_upgrade t_websocket hs = true /\
  get n_version hs = Some v_13 /\ get n_key hs = None.
Proof.
  unfold decide. destruct (header_has_token n_connection t_upgrade hs); cbn [negb];
    [|split; [discriminate|intros [H _]; discriminate]].
  destruct (header_has_token n_upgrade t_websocket hs); cbn [negb];
    [|split; [discriminate|intros (_ & H & _); discriminate]].
  destruct (option_eqb str_eqb (get n_version hs) (Some v_13)) eqn:Hv; cbn [negb].
  - apply version_test in Hv. destruct (get n_key hs); split; try discriminate; auto.
    intros (_ & _ & _ & H). discriminate.
  - split; [discriminate|]. intros (_ & _ & H & _). apply version_test in H. congruence.
Qed.

(* every request is either accepted with its (first) key or refused with 400 *)
Theorem decide_total hs :
  (exists k, decide hs = Accept k) \/ (exists r, decide hs = Reject400 r).
Proof. destruct (decide hs) as [k|r]; [left; exists k|right; exists r]; reflexivity. Qed.

Theorem decide_reject_iff hs :
  (exists r, decide hs = Reject400 r) <->
  ~ (header_has_token n_connection t_upgrade hs = true /\
     header_has_token n_upgrade t_websocket hs = true /\
     get n_version hs = Some v_13 /\ exists k, get n_key hs = Some k).
Proof.
  split.
  - intros (r & Hr) (H1 & H2 & H3 & k & H4).
    assert (H : decide hs = Accept k) by (apply decide_accept_iff; auto). congruence.
  - intros Hn. destruct (decide hs) as [k|r] eqn:E; [|exists r; reflexivity].
    exfalso. apply Hn. apply decide_accept_iff in E. destruct E as (H1 & H2 & H3 & H4).
    repeat split; try assumption. exists k. exact H4.
Qed.

(* ---------- the same in RFC 9110 terms ---------- *)

(* some line of the field has the token as a list element *)
Definition rfc_has (name tok : str) (hs : list header) : Prop :=
  exists v, In v (get_all name hs) /\ list_has v tok.

(* all Connection and Upgrade lines of the request are well-formed lists of
   visible ASCII *)
Definition wf_request (hs : list header) : Prop :=
  forall v, In v (get_all n_connection hs) \/ In v (get_all n_upgrade hs) ->
            to_str_ok v = true /\ wf_value v.

Lemma header_has_token_rfc name tok hs :
  token_ok tok ->
  (forall v, In v (get_all name hs) -> to_str_ok v = true /\ wf_value v) ->
  (header_has_token name tok hs = true <-> rfc_has name tok hs).
Proof.
  intros Htok Hwf. rewrite header_has_token_iff. split.
  - intros (v & Hin & _ & H). exists v. split; [exact Hin|].
    apply wf_line_has_token_iff; try assumption. apply Hwf, Hin.
  - intros (v & Hin & H). exists v. destruct (Hwf v Hin) as [Hs Hw].
    repeat split; try assumption. apply wf_line_has_token_iff; assumption.
Qed.

(* 1'. upgrade_iff for requests whose Connection / Upgrade fields are
   well-formed: accepted iff "upgrade" is an element of the Connection list
   over all its lines, "websocket" of the Upgrade list, the version is 13 and
   there is a key *)
Theorem upgrade_iff_rfc hs k :
  wf_request hs ->
  (decide hs = Accept k <->
   rfc_has n_connection t_upgrade hs /\ rfc_has n_upgrade t_websocket hs /\
   get n_version hs = Some v_13 /\ get n_key hs = Some k).
Proof.
  intros Hwf. rewrite decide_accept_iff.
  rewrite (header_has_token_rfc n_connection t_upgrade hs t_upgrade_ok)
    by (intros v Hv; apply Hwf; left; exact Hv).
  rewrite (header_has_token_rfc n_upgrade t_websocket hs t_websocket_ok)
    by (intros v Hv; apply Hwf; right; exact Hv).
  reflexivity.
Qed.

(* a conformant handshake is accepted whatever else the request contains *)
Theorem conformant_accepted hs k :
  (exists v, In v (get_all n_connection hs) /\ to_str_ok v = true /\ list_has v t_upgrade) ->
  (exists v, In v (get_all n_upgrade hs) /\ to_str_ok v = true /\ list_has v t_websocket) ->
  get n_version hs = Some v_13 -> get n_key hs = Some k ->
  decide hs = Accept k.
Proof.
  intros (v1 & Hin1 & Hs1 & H1) (v2 & Hin2 & Hs2 & H2) Hv Hk.
  apply decide_accept_iff. repeat split; try assumption.
  - apply header_has_token_iff. exists v1. repeat split; try assumption.
    apply list_has_accepted; [reflexivity|exact H1].
  - apply header_has_token_iff. exists v2. repeat split; try assumption.
    apply list_has_accepted; [reflexivity|exact H2].
Qed.

(* ---------- 2. missing_element_400 ---------- *)

Lemma lenient_has_iff name tok hs :
  lenient_has name tok hs = true <->
  exists v, In v (get_all name hs) /\ line_has_token tok v = true.
Proof. unfold lenient_has. apply existsb_exists. Qed.

Lemma header_has_lenient name tok hs :
  header_has_token name tok hs = true -> lenient_has name tok hs = true.
Proof.
  rewrite header_has_token_iff, lenient_has_iff. intros (v & H1 & _ & H2). exists v. auto.
Qed.

(* no line of the field mentions the token, on the most generous reading *)
Theorem lacking_connection_rejected hs :
  lenient_has n_connection t_upgrade hs = false -> decide hs = Reject400 RConnection.
Proof.
  intros H. apply decide_reject_connection.
  destruct (header_has_token n_connection t_upgrade hs) eqn:E; [|reflexivity].
  apply header_has_lenient in E. congruence.
Qed.

Theorem lacking_upgrade_rejected hs :
  lenient_has n_upgrade t_websocket hs = false -> exists r, decide hs = Reject400 r.
Proof.
  intros H. apply decide_reject_iff. intros (_ & E & _).
  apply header_has_lenient in E. congruence.
Qed.

Theorem wrong_version_rejected hs :
  get n_version hs <> Some v_13 -> exists r, decide hs = Reject400 r.
Proof. intros H. apply decide_reject_iff. intros (_ & _ & E & _). contradiction. Qed.

Theorem missing_key_rejected hs :
  get n_key hs = None -> exists r, decide hs = Reject400 r.
Proof. intros H. apply decide_reject_iff. intros (_ & _ & _ & k & E). congruence. Qed.

(* in RFC terms: a request without the list element is refused *)
Theorem not_rfc_has_rejected hs :
  wf_request hs ->
  ~ rfc_has n_connection t_upgrade hs \/ ~ rfc_has n_upgrade t_websocket hs ->
  exists r, decide hs = Reject400 r.
Proof.
  intros Hwf H. apply decide_reject_iff. intros (H1 & H2 & _).
  rewrite (header_has_token_rfc n_connection t_upgrade hs t_upgrade_ok) in H1
    by (intros v Hv; apply Hwf; left; exact Hv).
  rewrite (header_has_token_rfc n_upgrade t_websocket hs t_websocket_ok) in H2
    by (intros v Hv; apply Hwf; right; exact Hv).
  tauto.
Qed.

(* dropping every line of one of the four fields *)
Definition drop (name : str) (hs : list header) : list header :=
  filter (fun h => negb (str_eqb (fst h) name)) hs.

Lemma get_all_drop name hs : get_all name (drop name hs) = [].
Proof.
  unfold get_all, drop. induction hs as [|h hs IH]; [reflexivity|].
  cbn [filter]. destruct (str_eqb (fst h) name) eqn:E; cbn [negb]; [exact IH|].
  cbn [filter]. rewrite E. exact IH.
Qed.

Theorem dropped_element_rejected hs name :
  In name [n_connection; n_upgrade; n_version; n_key] ->
  exists r, decide (drop name hs) = Reject400 r.
Proof.
  intros Hin. apply decide_reject_iff. intros (H1 & H2 & H3 & k & H4).
  assert (Hnone : get name (drop name hs) = None) by (apply get_None, get_all_drop).
  assert (Hno : header_has_token name t_upgrade (drop name hs) = false /\
                header_has_token name t_websocket (drop name hs) = false).
  { unfold header_has_token. rewrite get_all_drop. split; reflexivity. }
  destruct Hno as [Hno1 Hno2].
  cbn [In] in Hin. destruct Hin as [<-|[<-|[<-|[<-|[]]]]]; congruence.
Qed.

(* corrupting: replacing the value of every line of a field *)
Definition set_field (name v : str) (hs : list header) : list header :=
  map (fun h => if str_eqb (fst h) name then (fst h, v) else h) hs.

Lemma get_all_set_field name v hs x : In x (get_all name (set_field name v hs)) -> x = v.
Proof.
  unfold get_all, set_field. induction hs as [|h hs IH]; [intros []|].
  cbn [map filter]. destruct (str_eqb (fst h) name) eqn:E; cbn [fst].
  - rewrite E. cbn [map snd]. intros [<-|H]; [reflexivity|apply IH, H].
  - rewrite E. exact IH.
Qed.

Theorem corrupted_list_rejected hs v :
  (line_has_token t_upgrade v = false ->
   exists r, decide (set_field n_connection v hs) = Reject400 r) /\
  (line_has_token t_websocket v = false ->
   exists r, decide (set_field n_upgrade v hs) = Reject400 r).
Proof.
  split; intros Hv; apply decide_reject_iff; intros (H1 & H2 & _).
  - apply header_has_token_iff in H1. destruct H1 as (x & Hin & _ & Hx).
    apply get_all_set_field in Hin. subst x. congruence.
  - apply header_has_token_iff in H2. destruct H2 as (x & Hin & _ & Hx).
    apply get_all_set_field in Hin. subst x. congruence.
Qed.

Theorem corrupted_version_rejected hs v :
  v <> v_13 -> exists r, decide (set_field n_version v hs) = Reject400 r.
Proof.
  intros Hv. apply wrong_version_rejected. intros H.
  apply get_Some in H. destruct H as (rest & E).
  assert (Hin : In v_13 (get_all n_version (set_field n_version v hs))) by (rewrite E; left; reflexivity).
  apply get_all_set_field in Hin. congruence.
Qed.

(* ================================================================== *)
(* 5. the endpoint                                                    *)
(* ================================================================== *)

(* 3. response_shape *)
Theorem accepted_response hs k :
  decide hs = Accept k ->
  channel_endpoint hs =
    Out (Resp 101 [(n_connection, v_Upgrade); (n_upgrade, v_websocket);
                   (n_accept, b64_encode Standard (sha1 (k ++ ws_guid)))]) true.
Proof. intros H. unfold channel_endpoint, from_request. rewrite H. reflexivity. Qed.

Theorem rejected_response hs r :
  decide hs = Reject400 r ->
  channel_endpoint hs = Out (Resp 400 []) false /\
  upgraded (channel_endpoint hs) = false /\ handler_invoked (channel_endpoint hs) = false.
Proof. intros H. unfold channel_endpoint, from_request. rewrite H. repeat split. Qed.

(* upgraded iff handler invoked iff accepted; never anything but 101 and 400
   ([handle]'s 500 arm is unreachable through the adapter) *)
Theorem endpoint_dichotomy hs :
  (exists k, decide hs = Accept k /\ status (resp (channel_endpoint hs)) = 101 /\
             handler_invoked (channel_endpoint hs) = true) \/
  (exists r, decide hs = Reject400 r /\ status (resp (channel_endpoint hs)) = 400 /\
             handler_invoked (channel_endpoint hs) = false).
Proof.
  unfold channel_endpoint, from_request.
  destruct (decide hs) as [k|r]; [left; exists k|right; exists r]; repeat split.
Qed.

(* the accept key: 28 base64 characters that decode to the 20-byte digest *)
Theorem accept_key_shape k :
  length (accept_key k) = 28%nat /\
  b64_decode Standard (accept_key k) = Some (sha1 (k ++ ws_guid)).
Proof.
  unfold accept_key. split.
  - pose proof (b64_length Standard (sha1 (k ++ ws_guid))) as H.
    rewrite sha1_length in H. change (4 * ((N.of_nat 20 + 2) / 3)) with 28 in H. lia.
  - apply b64_round_trip, sha1_bytes_ok.
Qed.

(* distinct digests are answered with distinct accept values *)
Theorem accept_key_faithful k1 k2 :
  accept_key k1 = accept_key k2 -> sha1 (k1 ++ ws_guid) = sha1 (k2 ++ ws_guid).
Proof. apply b64_encode_inj; apply sha1_bytes_ok. Qed.

(* hyper's rewriting of the Connection field touches nothing else *)
Lemma get_all_set_connection_close name hdrs :
  str_eqb name n_connection = false ->
  get_all name (set_connection_close hdrs) = get_all name hdrs.
Proof.
  intros Hne. unfold set_connection_close.
  match goal with |- context [if ?b then _ else _] => destruct b end.
  - unfold get_all. induction hdrs as [|h hdrs IH]; [reflexivity|].
    cbn [map filter]. destruct (str_eqb (fst h) n_connection) eqn:E.
    + cbn [fst]. rewrite (str_eqb_sym n_connection name), Hne.
      apply str_eqb_eq in E. rewrite E. rewrite (str_eqb_sym n_connection name), Hne. exact IH.
    + destruct (str_eqb (fst h) name); cbn [map]; [f_equal|]; exact IH.
  - unfold get_all. rewrite filter_app, map_app. cbn [filter fst].
    rewrite (str_eqb_sym n_connection name), Hne. apply app_nil_r.
Qed.

Theorem served_preserves hs :
  status (resp (served hs)) = status (resp (channel_endpoint hs)) /\
  task_spawned (served hs) = task_spawned (channel_endpoint hs) /\
  get_all n_accept (resp_headers (resp (served hs))) =
  get_all n_accept (resp_headers (resp (channel_endpoint hs))) /\
  get_all n_upgrade (resp_headers (resp (served hs))) =
  get_all n_upgrade (resp_headers (resp (channel_endpoint hs))).
Proof.
  unfold served. cbn zeta. destruct (req_close hs); [|auto].
  cbn [resp status resp_headers task_spawned].
  repeat split; apply get_all_set_connection_close; reflexivity.
Qed.

(* when the request does not ask to close, the response leaves as [handle]
   built it *)
Theorem served_keep_alive hs : req_close hs = false -> served hs = channel_endpoint hs.
Proof. unfold served. cbn zeta. intros ->. reflexivity. Qed.

(* the byte pipe: whatever the cutting, the echo handler returns the bytes sent *)
Theorem echo_unmodified pieces : client_receives pieces = concat pieces.
Proof. reflexivity. Qed.

Theorem echo_chunking_irrelevant p1 p2 :
  concat p1 = concat p2 -> client_receives p1 = client_receives p2.
Proof. unfold client_receives, echo_handler, pipe_to_handler. auto. Qed.

(* ================================================================== *)
(* 6. the judge's classification                                      *)
(* ================================================================== *)

Lemma all_eq_iff v l : all_eq v l = true <-> forall x, In x l -> x = v.
Proof.
  unfold all_eq. rewrite forallb_forall. split; intros H x Hx.
  - symmetry. apply str_eqb_eq, H, Hx.
  - apply str_eqb_eq. symmetry. apply H, Hx.
Qed.

(* [carries] = every line a well-formed list, one of them with the element *)
Theorem carries_iff name tok hs :
  token_ok tok ->
  (carries name tok hs = true <->
   (forall v, In v (get_all name hs) -> wf_valueb v = true) /\ rfc_has name tok hs).
Proof.
  intros Htok. unfold carries. rewrite andb_true_iff, forallb_forall, existsb_exists.
  unfold rfc_has. split; intros [H1 (v & Hin & H2)]; (split; [exact H1|]); exists v;
    (split; [exact Hin|]); apply (memberb_iff tok v Htok); exact H2.
Qed.

Lemma carries_code name tok hs :
  token_ok tok -> carries name tok hs = true -> header_has_token name tok hs = true.
Proof.
  intros Htok H. apply (carries_iff name tok hs Htok) in H. destruct H as [Hwf Hhas].
  apply header_has_token_rfc; [exact Htok| |exact Hhas].
  intros v Hv. apply wf_valueb_sound, Hwf, Hv.
Qed.

(* the model meets the specification the judge evaluates on the
   implementation's observation *)
Lemma classify_guard hs :
  (lacks n_connection t_upgrade hs || lacks n_upgrade t_websocket hs
   || negb (existsb (str_eqb v_13) (get_all n_version hs))
   || is_nil (get_all n_key hs)) = false ->
  lenient_has n_connection t_upgrade hs = true /\
  lenient_has n_upgrade t_websocket hs = true /\
  existsb (str_eqb v_13) (get_all n_version hs) = true /\
  get_all n_key hs <> [].
Proof.
  unfold lacks. rewrite !orb_false_iff, !negb_false_iff.
  intros (((H1 & H2) & H3) & H4). repeat split; try assumption.
  intros E. rewrite E in H4. discriminate.
Qed.

Theorem classify_must_accept hs k :
  classify hs = MustAccept k -> decide hs = Accept k.
Proof.
  unfold classify. cbn zeta.
  destruct (lacks n_connection t_upgrade hs || lacks n_upgrade t_websocket hs
            || negb (existsb (str_eqb v_13) (get_all n_version hs))
            || is_nil (get_all n_key hs)) eqn:G; [discriminate|].
  apply classify_guard in G. destruct G as (_ & _ & Gv & _).
  destruct (get_all n_key hs) as [|k0 keys] eqn:Ek; [discriminate|].
  destruct (carries n_connection t_upgrade hs) eqn:Hc; [|discriminate].
  destruct (carries n_upgrade t_websocket hs) eqn:Hu; [|discriminate].
  destruct (all_eq v_13 (get_all n_version hs)) eqn:Hv; [|discriminate].
  destruct (all_eq k0 (k0 :: keys)) eqn:Hk; [|discriminate].
  cbn [andb]. intros [= <-].
  apply decide_accept_iff. repeat split.
  - apply carries_code; [apply t_upgrade_ok|exact Hc].
  - apply carries_code; [apply t_websocket_ok|exact Hu].
  - (* some line is "13" and all lines are: the first is *)
    unfold get. destruct (get_all n_version hs) as [|v vs] eqn:Ev; [discriminate|].
    f_equal. apply (proj1 (all_eq_iff v_13 (v :: vs)) Hv). left; reflexivity.
  - unfold get. rewrite Ek. reflexivity.
Qed.

Theorem classify_must_reject hs :
  classify hs = MustReject -> exists r, decide hs = Reject400 r.
Proof.
  unfold classify. cbn zeta.
  destruct (lacks n_connection t_upgrade hs || lacks n_upgrade t_websocket hs
            || negb (existsb (str_eqb v_13) (get_all n_version hs))
            || is_nil (get_all n_key hs)) eqn:G.
  - intros _. unfold lacks in G. rewrite !orb_true_iff, !negb_true_iff in G.
    destruct G as [[[G|G]|G]|G].
    + exists RConnection. apply lacking_connection_rejected, G.
    + apply lacking_upgrade_rejected, G.
    + apply wrong_version_rejected. intros H. apply get_Some in H. destruct H as (rest & E).
      rewrite E in G. cbn [existsb] in G. rewrite str_eqb_refl in G. discriminate.
    + apply missing_key_rejected, get_None.
      destruct (get_all n_key hs); [reflexivity|discriminate].
  - apply classify_guard in G. destruct G as (_ & _ & _ & G).
    destruct (get_all n_key hs) as [|k0 keys]; [contradiction|].
    destruct (carries n_connection t_upgrade hs && carries n_upgrade t_websocket hs
              && all_eq v_13 (get_all n_version hs) && all_eq k0 (k0 :: keys)); discriminate.
Qed.

(* what the two decided classes mean, in RFC terms *)
Theorem classify_must_accept_meaning hs k :
  classify hs = MustAccept k ->
  rfc_has n_connection t_upgrade hs /\ rfc_has n_upgrade t_websocket hs /\
  (forall v, In v (get_all n_version hs) -> v = v_13) /\ get_all n_version hs <> [] /\
  (forall x, In x (get_all n_key hs) -> x = k) /\ get n_key hs = Some k.
Proof.
  unfold classify. cbn zeta.
  destruct (lacks n_connection t_upgrade hs || lacks n_upgrade t_websocket hs
            || negb (existsb (str_eqb v_13) (get_all n_version hs))
            || is_nil (get_all n_key hs)) eqn:G; [discriminate|].
  apply classify_guard in G. destruct G as (_ & _ & Gv & _).
  destruct (get_all n_key hs) as [|k0 keys] eqn:Ek; [discriminate|].
  destruct (carries n_connection t_upgrade hs) eqn:Hc; [|discriminate].
  destruct (carries n_upgrade t_websocket hs) eqn:Hu; [|discriminate].
  destruct (all_eq v_13 (get_all n_version hs)) eqn:Hv; [|discriminate].
  destruct (all_eq k0 (k0 :: keys)) eqn:Hk; [|discriminate].
  cbn [andb]. intros [= <-].
  apply (carries_iff _ _ _ t_upgrade_ok) in Hc. apply (carries_iff _ _ _ t_websocket_ok) in Hu.
  repeat split.
  - apply Hc.
  - apply Hu.
  - apply all_eq_iff, Hv.
  - intros E. rewrite E in Gv. discriminate.
  - apply all_eq_iff, Hk.
  - unfold get. rewrite Ek. reflexivity.
Qed.

(* a request refused by the classification lacks an element on every reading,
   in particular the RFC one *)
Theorem lacks_not_rfc_has name tok hs :
  token_ok tok -> lacks name tok hs = true -> ~ rfc_has name tok hs.
Proof.
  intros [_ Hfree] H (v & Hin & Hhas). unfold lacks in H. apply negb_true_iff in H.
  assert (E : lenient_has name tok hs = true).
  { apply lenient_has_iff. exists v. split; [exact Hin|apply list_has_accepted; assumption]. }
  congruence.
Qed.

(* ---------- forms used verbatim by props/C20.v ---------- *)

Theorem header_has_token_run_iff name tok hs :
  header_has_token name tok hs = true <->
  exists v, In v (get_all name hs) /\ to_str_ok v = true /\
            exists t, run is_sep v t /\ eq_ic t tok = true.
Proof.
  rewrite header_has_token_iff.
  split; intros (v & H1 & H2 & H3); exists v; (split; [exact H1|split; [exact H2|]]);
    apply line_has_token_iff; exact H3.
Qed.

Theorem rfc_list_wellformed v : rfc_list v -> wf_value v /\ to_str_ok v = true.
Proof. intros H. split; [exact (rfc_list_wf v H)|exact (rfc_list_to_str v H)]. Qed.

Theorem model_meets_spec hs :
  (forall k, classify hs = MustAccept k -> decide hs = Accept k) /\
  (classify hs = MustReject -> exists r, decide hs = Reject400 r).
Proof.
  split; [intros k; exact (classify_must_accept hs k)|exact (classify_must_reject hs)].
Qed.
