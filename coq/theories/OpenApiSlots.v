(* OpenApiSlots.v — from the walk to the document's [paths] map.  gen_openapi
   inserts each operation under (path string, method) into an IndexMap of path
   items, a later operation for an occupied slot REPLACING the earlier one
   ([slot_insert]).  For templates that registration can produce (segments
   without '/', literals non-empty and not starting with a brace — what
   [parse_template] yields) the rendering of a template as a path string is
   injective, the walk is strictly sorted by (template, method), hence no slot
   is ever occupied twice: the document holds exactly one operation per item
   of [doc_ops], in that order, none lost to a replacement. *)
From DS Require Import Base Versions VersionsProofs Router RouterSpec RouterProofs OpenApiGen OpenApiGenProofs OpenApiOrder
     Pct Utf8 PathNorm PathNormProofs.
From Coq Require Import Sorted.

(* ---- what parse_template yields ---- *)
Definition no_slash (s : str) : Prop := ~ In 47 s.
Definition clean_seg (p : pseg) : Prop :=
  match p with
  | PLit s => no_slash s /\ s <> [] /\ hd 0 s <> 123
  | PVar x | PWild x => no_slash x
  end.
Definition clean (t : list pseg) : Prop := Forall clean_seg t.

Lemma removelast_in {A} (x : A) l : In x (removelast l) -> In x l.
Proof.
  induction l as [|a l IH]; cbn [removelast]; [tauto|].
  destruct l as [|b l]; [intros []|]. intros [->|H]; [left; reflexivity|right; apply IH; exact H].
Qed.

Lemma find_byte_no c s a b : ~ In 47 s -> find_byte c s = Some (a, b) -> ~ In 47 a.
Proof.
  revert a b. induction s as [|x s IH]; cbn [find_byte]; intros a b Hn; [discriminate|].
  destruct (x =? c); [intros [= <- <-]; intros []|].
  destruct (find_byte c s) as [[a' b']|] eqn:E; [|discriminate].
  intros [= <- <-]. intros [Hx|H]; [apply Hn; left; exact Hx|].
  apply (IH a' b' (fun H' => Hn (or_intror H')) eq_refl). exact H.
Qed.

Lemma pseg_of_clean seg p : ~ In 47 seg -> seg <> [] -> pseg_of seg = Ok p -> clean_seg p.
Proof.
  intros Hn Hne. unfold pseg_of.
  destruct seg as [|c seg']; [congruence|].
  destruct (match c :: seg' with 123 :: _ => true | _ => false end) eqn:Hs.
  - (* starts with a brace *)
    cbn [orb negb].
    destruct (match last_byte (c :: seg') with Some 125 => true | _ => false end); cbn [negb]; [|discriminate].
    assert (Hv : ~ In 47 (removelast (tl (c :: seg')))).
    { intros H. apply removelast_in in H. apply Hn. right. exact H. }
    destruct (find_byte 58 (removelast (tl (c :: seg')))) as [[a b]|] eqn:Ef.
    + pose proof (find_byte_no 58 _ a b Hv Ef) as Ha.
      destruct a as [|a0 a']; [discriminate|].
      destruct (str_eqb b [46; 42]); [|discriminate]. intros [= <-]. exact Ha.
    + destruct (removelast (tl (c :: seg'))) as [|a0 a'] eqn:Er; [discriminate|].
      intros [= <-]. exact Hv.
  - cbn [orb].
    destruct (match last_byte (c :: seg') with Some 125 => true | _ => false end); cbn [negb]; [discriminate|].
    intros [= <-]. cbn [clean_seg hd]. split; [exact Hn|split; [discriminate|]].
    intros ->. discriminate.
Qed.

Lemma map_res_clean segs : forall t,
  Forall (fun s => ~ In 47 s /\ s <> []) segs -> map_res pseg_of segs = Ok t -> clean t.
Proof.
  induction segs as [|s segs IH]; cbn [map_res]; intros t HF.
  - intros [= <-]. constructor.
  - inversion HF as [|? ? [Hn Hne] HF']; subst.
    destruct (pseg_of s) as [p|e] eqn:Ep; cbn [bind]; [|discriminate].
    destruct (map_res pseg_of segs) as [ps|e] eqn:Em; cbn [bind]; [|discriminate].
    intros [= <-]. constructor; [eapply pseg_of_clean; eauto|apply IH; auto].
Qed.

Theorem parse_template_clean path t : parse_template path = Ok t -> clean t.
Proof.
  unfold parse_template, route_segments. destruct path as [|c rest]; [discriminate|].
  destruct (c =? 47) eqn:Hc; [apply N.eqb_eq in Hc; subst c|].
  2:{ destruct c as [|p]; [discriminate|]. repeat (destruct p as [p|p|]; try discriminate). }
  pose proof (split_on_pieces_no_sep 47 rest) as Hno. rewrite Forall_forall in Hno.
  destruct (exists_last (split_on_not_nil 47 rest)) as (l & a & E). rewrite E in *.
  rewrite removelast_last, last_last.
  destruct (existsb (fun s => match s with [] => true | _ => false end) l) eqn:He; cbn [bind]; [discriminate|].
  destruct (existsb _ (l ++ [a])); cbn [bind]; [discriminate|].
  assert (Hinner : forall s, In s l -> s <> []).
  { intros s Hs ->. assert (existsb (fun s => match s with [] => true | _ => false end) l = true).
    { apply existsb_exists. exists []. split; [exact Hs|reflexivity]. } congruence. }
  destruct a as [|a0 a'] eqn:Ea; cbn [bind].
  - apply map_res_clean. apply Forall_forall. intros s Hs.
    split; [apply Hno; apply in_app_iff; left; exact Hs|apply Hinner; exact Hs].
  - apply map_res_clean. apply Forall_forall. intros s Hs. split; [apply Hno; exact Hs|].
    apply in_app_iff in Hs. destruct Hs as [Hs|[<-|[]]]; [apply Hinner; exact Hs|discriminate].
Qed.

(* ---- rendering is injective ---- *)
Lemma doc_seg_no_slash p : clean_seg (undoc_seg p) -> ~ In 47 (doc_seg (undoc_seg p)).
Proof.
  destruct p as [s|x|x]; cbn [undoc_seg doc_seg clean_seg]; unfold no_slash.
  - intros (H & _ & _). exact H.
  - intros Hn [H|H]; [discriminate|]. apply in_app_iff in H. destruct H as [H|[H|[]]]; [exact (Hn H)|discriminate].
  - intros Hn [H|H]; [discriminate|]. apply in_app_iff in H. destruct H as [H|[H|[]]]; [exact (Hn H)|discriminate].
Qed.

Lemma undoc_clean_seg p : clean_seg p -> clean_seg (undoc_seg p).
Proof. destruct p; cbn [undoc_seg clean_seg]; auto. Qed.

Lemma doc_seg_nonempty p : clean_seg (undoc_seg p) -> doc_seg (undoc_seg p) <> [].
Proof. destruct p as [s|x|x]; cbn [undoc_seg doc_seg clean_seg]; [tauto|discriminate|discriminate]. Qed.

Lemma app_inv_snoc {A} (l1 l2 : list A) a b : l1 ++ [a] = l2 ++ [b] -> l1 = l2 /\ a = b.
Proof. intros H. apply app_inj_tail in H. exact H. Qed.

Lemma doc_seg_inj p q : clean_seg (undoc_seg p) -> clean_seg (undoc_seg q) ->
  doc_seg (undoc_seg p) = doc_seg (undoc_seg q) -> undoc_seg p = undoc_seg q.
Proof.
  destruct p as [s|x|x], q as [s'|y|y]; cbn [undoc_seg doc_seg clean_seg]; intros Hp Hq H;
    try (f_equal; exact H);
    try (exfalso; destruct Hp as (_ & _ & Hh); rewrite H in Hh; apply Hh; reflexivity);
    try (exfalso; destruct Hq as (_ & _ & Hh); rewrite <- H in Hh; apply Hh; reflexivity);
    try (injection H as H; apply app_inv_snoc in H; destruct H as [-> _]; reflexivity).
Qed.

Lemma split_at_slash (a b a' b' : str) :
  ~ In 47 a -> ~ In 47 a' -> a ++ 47 :: b = a' ++ 47 :: b' -> a = a' /\ b = b'.
Proof.
  revert a'. induction a as [|x a IH]; intros [|y a'] Ha Ha' H; cbn [app] in H.
  - injection H as ->. auto.
  - injection H as <- _. exfalso. apply Ha'. left; reflexivity.
  - injection H as -> _. exfalso. apply Ha. left; reflexivity.
  - injection H as -> H. destruct (IH a' (fun h => Ha (or_intror h)) (fun h => Ha' (or_intror h)) H) as [-> ->]. auto.
Qed.

Lemma join_slash_inj (l1 : list str) : forall l2,
  Forall (fun s => ~ In 47 s /\ s <> []) l1 -> Forall (fun s => ~ In 47 s /\ s <> []) l2 ->
  join_slash l1 = join_slash l2 -> l1 = l2.
Proof.
  induction l1 as [|a l1 IH]; intros [|b l2] F1 F2 H.
  - reflexivity.
  - exfalso. inversion F2 as [|? ? [_ Hb] _]; subst. cbn [join_slash] in H.
    destruct l2; cbn [join_slash] in H; [congruence|]. destruct b; [congruence|discriminate].
  - exfalso. inversion F1 as [|? ? [_ Ha] _]; subst. cbn [join_slash] in H.
    destruct l1; cbn [join_slash] in H; [congruence|]. destruct a; [congruence|discriminate].
  - inversion F1 as [|? ? [Ha Hane] F1']; subst. inversion F2 as [|? ? [Hb Hbne] F2']; subst.
    destruct l1 as [|a1 l1], l2 as [|b1 l2]; cbn [join_slash] in H.
    + rewrite H. reflexivity.
    + exfalso. assert (In 47 a). { rewrite H. apply in_app_iff. right. left. reflexivity. } tauto.
    + exfalso. assert (In 47 b). { rewrite <- H. apply in_app_iff. right. left. reflexivity. } tauto.
    + destruct (split_at_slash a (join_slash (a1 :: l1)) b (join_slash (b1 :: l2)) Ha Hb H) as [-> Hj].
      f_equal. apply IH; auto.
Qed.

Theorem doc_path_inj t1 t2 : clean t1 -> clean t2 ->
  doc_path (undoc t1) = doc_path (undoc t2) -> undoc t1 = undoc t2.
Proof.
  intros C1 C2 H. unfold doc_path in H. injection H as H.
  assert (Hm : map doc_seg (undoc t1) = map doc_seg (undoc t2)).
  { apply join_slash_inj; [| |exact H].
    - unfold undoc. rewrite map_map. apply Forall_forall. intros s Hs. apply in_map_iff in Hs.
      destruct Hs as (p & <- & Hp). unfold clean in C1. rewrite Forall_forall in C1.
      split; [apply doc_seg_no_slash|apply doc_seg_nonempty]; apply undoc_clean_seg, C1, Hp.
    - unfold undoc. rewrite map_map. apply Forall_forall. intros s Hs. apply in_map_iff in Hs.
      destruct Hs as (p & <- & Hp). unfold clean in C2. rewrite Forall_forall in C2.
      split; [apply doc_seg_no_slash|apply doc_seg_nonempty]; apply undoc_clean_seg, C2, Hp. }
  clear H. unfold undoc in *. revert t2 C2 Hm. induction t1 as [|p t1 IH]; intros [|q t2] C2 Hm; cbn [map] in *;
    try discriminate; [reflexivity|].
  injection Hm as Hpq Hm. inversion C1; subst. inversion C2; subst.
  f_equal; [apply doc_seg_inj; auto using undoc_clean_seg|apply IH; auto].
Qed.

(* ---- no slot is occupied twice ---- *)
Section Slots.
  Variable V : Type.
  Variable cmp : V -> V -> comparison.
  Variable bot : V.
  Hypothesis TO : total_order V cmp bot.
  Notation item := (list pseg * str * endpoint V)%type.

  Definition slot_of (x : item) : str * str * endpoint V := ((doc_path (fst (fst x)), snd (fst x)), snd x).
  Definition same_slot (k k' : str * str) : Prop := fst k = fst k' /\ snd k = snd k'.

  Lemma slot_insert_fresh k e (l : list (str * str * endpoint V)) :
    (forall ke, In ke l -> ~ same_slot k (fst ke)) -> slot_insert V k e l = l ++ [(k, e)].
  Proof.
    induction l as [|[k' e'] l IH]; cbn [slot_insert app]; intros H; [reflexivity|].
    destruct (str_eqb (fst k) (fst k') && str_eqb (snd k) (snd k')) eqn:E.
    - exfalso. apply andb_true_iff in E. destruct E as [E1 E2]. apply str_eqb_eq in E1, E2.
      apply (H (k', e') (or_introl eq_refl)). split; assumption.
    - f_equal. apply IH. intros ke Hke. apply H. right. exact Hke.
  Qed.

  Definition rendered (x : item) : Prop := exists t, clean t /\ fst (fst x) = undoc t.

  Lemma key_lt_neq a b : key_lt a b -> a <> b.
  Proof. intros H ->. exact (key_lt_irrefl b H). Qed.

  Lemma distinct_slots (a x : item) :
    rendered a -> rendered x -> key_lt (ikey V a) (ikey V x) -> ~ same_slot (fst (slot_of a)) (fst (slot_of x)).
  Proof.
    intros (ta & Ca & Ha) (tx & Cx & Hx) Hlt [H1 H2]. unfold slot_of in H1, H2. cbn [fst snd] in H1, H2.
    apply (key_lt_neq _ _ Hlt). unfold ikey. rewrite Ha, Hx in H1.
    apply (doc_path_inj ta tx Ca Cx) in H1.
    destruct a as [[t1 m1] e1], x as [[t2 m2] e2]. cbn [fst snd] in *. subst. rewrite H1. reflexivity.
  Qed.

  Lemma fold_slots (ops : list item) : forall acc,
    StronglySorted key_lt (map (ikey V) ops) -> (forall x, In x ops -> rendered x) ->
    (forall ke x, In ke acc -> In x ops -> ~ same_slot (fst (slot_of x)) (fst ke)) ->
    fold_left (fun acc x => slot_insert V (doc_path (fst (fst x)), snd (fst x)) (snd x) acc) ops acc
    = acc ++ map slot_of ops.
  Proof.
    induction ops as [|a ops IH]; intros acc S R D; cbn [fold_left map]; [rewrite app_nil_r; reflexivity|].
    cbn [map] in S. apply StronglySorted_inv in S. destruct S as [S F]. rewrite Forall_forall in F.
    rewrite (slot_insert_fresh _ _ acc).
    2:{ intros ke Hke. apply (D ke a Hke (or_introl eq_refl)). }
    rewrite IH; [rewrite <- app_assoc; reflexivity|exact S|intros x Hx; apply R; right; exact Hx|].
    intros ke x Hke Hx. apply in_app_iff in Hke. destruct Hke as [Hke|[<-|[]]].
    - apply (D ke x Hke (or_intror Hx)).
    - intros [H1 H2]. apply (distinct_slots a x (R a (or_introl eq_refl)) (R x (or_intror Hx))).
      + apply F. apply in_map. exact Hx.
      + split; [symmetry; exact H1|symmetry; exact H2].
  Qed.

  (* the document's path items: one slot per operation of the walk, in order *)
  Theorem doc_slots_exact (eps : list (decl V)) (r : node V) (v : V) :
    build V cmp eps = Ok r ->
    (forall d, In d eps -> wf_range V cmp (e_versions (snd d))) ->
    (forall d, In d eps -> clean (fst d)) ->
    (forall x, In x (doc_ops V cmp r v) -> openapi_method (snd (fst x)) = true) ->
    doc V cmp r v = DocOk (map slot_of (doc_ops V cmp r v)).
  Proof.
    intros Hb Hw Hc Hm. unfold doc.
    assert (Hall : forallb (fun x : item => openapi_method (snd (fst x))) (doc_ops V cmp r v) = true).
    { apply forallb_forall. exact Hm. }
    rewrite Hall. f_equal.
    pose proof (build_spec V cmp eps) as Hs. rewrite Hb in Hs. destruct Hs as (_ & Hwf & Hr).
    rewrite (fold_slots (doc_ops V cmp r v) []); [reflexivity| | |intros ke x []].
    - unfold doc_ops, iter. apply sorted_filter.
      apply (proj1 (iter_sorted V cmp bot TO v) r Hwf (build_novl V cmp eps r Hb)).
      intros d Hd. apply Hw. apply Hr. exact Hd.
    - intros x Hx. unfold doc_ops in Hx. apply filter_In in Hx. destruct Hx as [Hx _]. unfold iter in Hx.
      apply (proj1 (iter_spec V cmp (Some v)) r Hwf [] x) in Hx. destruct Hx as (d & Hd & (_ & Ht & _)).
      cbn [rev app] in Ht. exists (fst d). split; [apply Hc; apply Hr; exact Hd|exact Ht].
  Qed.

  (* hence nothing is lost: every published endpoint served at v has its own
     (path, method) slot holding it *)
  Corollary doc_slot_of_each (eps : list (decl V)) (r : node V) (v : V) t e :
    build V cmp eps = Ok r ->
    (forall d, In d eps -> wf_range V cmp (e_versions (snd d))) ->
    (forall d, In d eps -> clean (fst d)) ->
    (forall x, In x (doc_ops V cmp r v) -> openapi_method (snd (fst x)) = true) ->
    In (t, e) eps -> e_visible e = true -> vmatches V cmp (e_versions e) (Some v) = true ->
    exists slots, doc V cmp r v = DocOk slots /\
                  In ((doc_path (undoc t), str_upper (e_method e)), e) slots /\
                  length slots = length (doc_ops V cmp r v).
  Proof.
    intros Hb Hw Hc Hm Hin Hvis Hv. exists (map slot_of (doc_ops V cmp r v)).
    split; [apply (doc_slots_exact eps); assumption|split; [|apply map_length]].
    apply in_map_iff. exists (undoc t, str_upper (e_method e), e). split; [reflexivity|].
    apply (doc_ops_exact V cmp eps r v (undoc t) (str_upper (e_method e)) e Hb).
    exists t. auto.
  Qed.
End Slots.
