(* OpenApiOrder.v — the operations of the document come in an order that the
   set of registered endpoints determines: the walk of the trie is strictly
   sorted (a node's own handlers before its children, children by key, methods
   by key, at most one handler per method at a version), so two tries that
   stand for the same table give the same LIST of operations. *)
From DS Require Import Base Versions VersionsProofs Router RouterSpec RouterProofs OpenApiGen OpenApiGenProofs.
From Coq Require Import Sorting.Sorted Permutation.

Section Ord.
  Variable V : Type.
  Variable cmp : V -> V -> comparison.
  Notation endpoint := (endpoint V).
  Notation decl := (decl V).
  Notation item := (list pseg * str * endpoint)%type.

  (* ---- handler lists never hold two overlapping ranges ---- *)
  Definition novl_hs (hs : list endpoint) : Prop :=
    ForallOrdPairs (fun h1 h2 => overlaps V cmp (e_versions h1) (e_versions h2) = false) hs.
  Definition novl_ms (ms : methods V) : Prop := forall k hs, In (k, hs) ms -> novl_hs hs.

  Fixpoint novl (n : node V) : Prop :=
    match n with Node _ ms ed => novl_ms ms /\ novl_e ed end
  with novl_e (ed : edges V) : Prop :=
    match ed with
    | ENone _ => True
    | ELits _ cs => novl_c cs
    | EVar _ _ c => novl c
    | ERest _ _ c => novl c
    end
  with novl_c (cs : children V) : Prop :=
    match cs with
    | CNil _ => True
    | CCons _ _ c cs' => novl c /\ novl_c cs'
    end.

  Lemma novl_empty : novl (empty_node V).
  Proof. cbn. split; auto. intros k hs []. Qed.

  Lemma FOP_snoc {A} (R : A -> A -> Prop) l x :
    ForallOrdPairs R l -> (forall y, In y l -> R y x) -> ForallOrdPairs R (l ++ [x]).
  Proof.
    induction l as [|a l IH]; cbn; intros H Hx.
    - repeat constructor.
    - inversion H; subst. constructor.
      + apply Forall_app. split; auto.
      + apply IH; auto.
  Qed.

  Lemma push_handler_novl e ms ed n' :
    wf_methods V ms -> novl_ms ms -> push_handler V cmp e ms ed = Ok n' ->
    novl_ms (node_methods V n') /\ node_edges V n' = ed.
  Proof.
    intros [Hs _] Hn. unfold push_handler.
    set (m := str_upper (e_method e)).
    destruct (find (fun h => overlaps V cmp (e_versions h) (e_versions e)) (get_method V m ms)) as [h|] eqn:Hf.
    - destruct (vrange_eqb V cmp (e_versions h) (e_versions e)); discriminate.
    - intros [= <-]. cbn [node_methods node_edges]. split; [|reflexivity].
      intros k hs Hin. apply (set_method_in V _ _ _ _ _ Hs) in Hin.
      destruct Hin as [[-> ->]|[_ Hin]]; [|eapply Hn; eauto].
      apply FOP_snoc.
      + destruct (get_method V m ms) as [|h0 hs0] eqn:Hg; [constructor|].
        assert (Hin0 : In h0 (get_method V m ms)) by (rewrite Hg; left; reflexivity).
        apply get_method_some in Hin0. destruct Hin0 as (hs' & H1 & _).
        rewrite <- Hg, (get_method_in V _ _ _ Hs H1). eapply Hn; eauto.
      + intros y Hy. apply (find_none _ _ Hf _ Hy).
  Qed.

  Lemma add_handler_novl e (n n' : node V) :
    wfn V n -> novl n -> add_handler V cmp e n = Ok n' -> novl n'.
  Proof.
    destruct n as [ms ed]. intros (Hm & _) [Hn He]. unfold add_handler.
    destruct ed as [|cs|x c|x c]; try discriminate; intros H;
      destruct (push_handler_novl e ms _ n' Hm Hn H) as [H1 H2];
      destruct n' as [ms' ed']; cbn [node_methods node_edges] in *; subst ed'; split; auto.
  Qed.

  Lemma upd_child_novl k (f : node V -> res reg_err (node V)) :
    (forall c c', wfn V c -> novl c -> f c = Ok c' -> novl c') ->
    forall cs cs', wfc V cs -> novl_c cs -> upd_child V k f cs = Ok cs' -> novl_c cs'.
  Proof.
    intros Hf. induction cs as [|k' n cs IH]; intros cs' Hwf Hn; cbn [upd_child]; unfold bind.
    - destruct (f (empty_node V)) as [c|] eqn:Hc; [|discriminate]. intros [= <-].
      cbn. split; auto. exact (Hf _ _ (wfn_empty V) novl_empty Hc).
    - destruct Hwf as (Hwn & _ & _ & Hwc). destruct Hn as [Hnn Hnc].
      destruct (str_cmp k k').
      + destruct (f n) as [c|] eqn:Hc; [|discriminate]. intros [= <-]. cbn. split; [exact (Hf _ _ Hwn Hnn Hc)|exact Hnc].
      + destruct (f (empty_node V)) as [c|] eqn:Hc; [|discriminate]. intros [= <-].
        cbn. split; [exact (Hf _ _ (wfn_empty V) novl_empty Hc)|split; auto].
      + destruct (upd_child V k f cs) as [cs''|] eqn:Hu; [|discriminate]. intros [= <-].
        cbn. split; [exact Hnn|exact (IH cs'' Hwc Hnc eq_refl)].
  Qed.

  Lemma insert_at_novl e : forall t seen (n n' : node V),
    wfn V n -> novl n -> insert_at V cmp e t seen n = Ok n' -> novl n'.
  Proof.
    induction t as [|p t IH]; intros seen n n' Hwf Hn.
    - cbn [insert_at]. apply add_handler_novl; auto.
    - destruct p as [s|x|x]; cbn [insert_at].
      + destruct n as [ms ed]. destruct Hn as [Hnm Hne]. destruct ed as [|cs|y c|y c]; try discriminate; unfold bind.
        * destruct (insert_at V cmp e t seen (empty_node V)) as [c|] eqn:Hc; [|discriminate].
          intros [= <-]. cbn. repeat split; auto. exact (IH _ _ _ (wfn_empty V) novl_empty Hc).
        * destruct (upd_child V s (insert_at V cmp e t seen) cs) as [cs'|] eqn:Hu; [|discriminate].
          intros [= <-]. cbn. split; auto.
          destruct Hwf as (_ & (_ & Hcs) & _).
          eapply upd_child_novl; [|exact Hcs|exact Hne|exact Hu].
          intros c c' Hwc Hnc Hi. exact (IH _ _ _ Hwc Hnc Hi).
      + destruct (mem_str x seen); [discriminate|].
        destruct n as [ms ed]. destruct Hn as [Hnm Hne]. destruct ed as [|cs|y c|y c]; try discriminate; unfold bind.
        * destruct (insert_at V cmp e t (x :: seen) (empty_node V)) as [c|] eqn:Hc; [|discriminate].
          intros [= <-]. cbn. split; auto. exact (IH _ _ _ (wfn_empty V) novl_empty Hc).
        * destruct (str_eqb x y); [|discriminate].
          destruct (insert_at V cmp e t (x :: seen) c) as [c'|] eqn:Hc; [|discriminate].
          intros [= <-]. cbn. split; auto. destruct Hwf as (_ & (Hwc & _) & _). exact (IH _ _ _ Hwc Hne Hc).
      + destruct t; [|discriminate]. destruct (mem_str x seen); [discriminate|].
        destruct n as [ms ed]. destruct Hn as [Hnm Hne].
        destruct (has_handlers V ms); [discriminate|].
        destruct ed as [|cs|y c|y c]; try discriminate; unfold bind.
        * destruct (add_handler V cmp e (empty_node V)) as [c|] eqn:Hc; [|discriminate].
          intros [= <-]. cbn. split; auto. exact (add_handler_novl e _ _ (wfn_empty V) novl_empty Hc).
        * destruct (str_eqb x y); [|discriminate].
          destruct (add_handler V cmp e c) as [c'|] eqn:Hc; [|discriminate].
          intros [= <-]. cbn. split; auto. destruct Hwf as (_ & (Hwc & _) & _).
          exact (add_handler_novl e _ _ Hwc Hne Hc).
  Qed.

  Lemma build_from_novl : forall (eps : list decl) (r r' : node V),
    wfn V r -> novl r -> build_from V cmp r eps = Ok r' -> novl r'.
  Proof.
    induction eps as [|[t e] eps IH]; intros r r' Hwf Hn; cbn [build_from].
    - intros [= <-]; auto.
    - unfold insert, bind. cbn [fst snd].
      pose proof (insert_spec V cmp e t [] r Hwf) as Hi.
      destruct (insert_at V cmp e t [] r) as [r1|] eqn:H1; [|discriminate].
      destruct Hi as [_ [Hwf1 _]]. intros Hb.
      exact (IH r1 r' Hwf1 (insert_at_novl e t [] r r1 Hwf Hn H1) Hb).
  Qed.

  Lemma build_novl (eps : list decl) r : build V cmp eps = Ok r -> novl r.
  Proof. apply build_from_novl; auto using wfn_empty, novl_empty. Qed.

  (* ---- an order on (template, method) keys ---- *)
  Definition seg_lt (p q : pseg) : bool :=
    match p, q with PLit a, PLit b => str_ltb a b | _, _ => false end.
  Fixpoint tlt (t1 t2 : list pseg) : bool :=
    match t1, t2 with
    | [], _ :: _ => true
    | p :: t1', q :: t2' => seg_lt p q || (pseg_eqb p q && tlt t1' t2')
    | _, _ => false
    end.
  Definition key_lt (a b : list pseg * str) : Prop :=
    tlt (fst a) (fst b) = true \/ (fst a = fst b /\ str_ltb (snd a) (snd b) = true).

  Lemma seg_lt_irrefl p : seg_lt p p = false.
  Proof. destruct p; cbn; auto using str_ltb_irrefl. Qed.

  Lemma tlt_irrefl t : tlt t t = false.
  Proof.
    induction t as [|p t IH]; cbn [tlt]; auto.
    rewrite seg_lt_irrefl, IH, andb_false_r. reflexivity.
  Qed.

  Lemma seg_lt_trans p q r : seg_lt p q = true -> seg_lt q r = true -> seg_lt p r = true.
  Proof. destruct p, q, r; cbn; try discriminate. apply str_ltb_trans. Qed.

  Lemma tlt_trans a : forall b c, tlt a b = true -> tlt b c = true -> tlt a c = true.
  Proof.
    induction a as [|p a IH]; intros [|q b] [|r c]; cbn [tlt]; try discriminate; auto.
    rewrite !orb_true_iff, !andb_true_iff. intros [H1|[E1 H1]] [H2|[E2 H2]].
    - left. eapply seg_lt_trans; eauto.
    - apply pseg_eqb_eq in E2. subst r. auto.
    - apply pseg_eqb_eq in E1. subst q. auto.
    - apply pseg_eqb_eq in E1. apply pseg_eqb_eq in E2. subst q r. right. split.
      + apply pseg_eqb_eq; reflexivity.
      + eapply IH; eauto.
  Qed.

  Lemma key_lt_irrefl a : ~ key_lt a a.
  Proof.
    intros [H|[_ H]].
    - rewrite tlt_irrefl in H. discriminate.
    - rewrite str_ltb_irrefl in H. discriminate.
  Qed.

  Lemma key_lt_trans a b c : key_lt a b -> key_lt b c -> key_lt a c.
  Proof.
    intros [H1|[E1 H1]] [H2|[E2 H2]].
    - left. eapply tlt_trans; eauto.
    - left. rewrite <- E2. exact H1.
    - left. rewrite E1. exact H2.
    - right. split; [congruence|]. eapply str_ltb_trans; eauto.
  Qed.

  Definition ikey (x : item) : list pseg * str := fst x.

  (* two strictly sorted lists with the same elements are the same list *)
  Lemma sorted_ext (l1 : list item) : forall l2,
    StronglySorted key_lt (map ikey l1) -> StronglySorted key_lt (map ikey l2) ->
    (forall x, In x l1 <-> In x l2) -> l1 = l2.
  Proof.
    induction l1 as [|a l1 IH]; intros [|b l2] S1 S2 Hiff.
    - reflexivity.
    - exfalso. apply (proj2 (Hiff b)). left; reflexivity.
    - exfalso. apply (proj1 (Hiff a)). left; reflexivity.
    - cbn [map] in S1, S2. apply StronglySorted_inv in S1. apply StronglySorted_inv in S2.
      destruct S1 as [S1 F1], S2 as [S2 F2]. rewrite Forall_forall in F1, F2.
      assert (Hab : a = b).
      { destruct (proj1 (Hiff a) (or_introl eq_refl)) as [Hba|Hin]; [auto|].
        destruct (proj2 (Hiff b) (or_introl eq_refl)) as [Hba|Hin']; [auto|].
        exfalso. apply (key_lt_irrefl (ikey a)).
        eapply key_lt_trans; [apply F1; apply in_map; exact Hin'|apply F2; apply in_map; exact Hin]. }
      subst b. f_equal. apply IH; auto.
      intros x. split; intros Hx.
      + destruct (proj1 (Hiff x) (or_intror Hx)) as [<-|]; auto.
        exfalso. apply (key_lt_irrefl (ikey a)). apply F1. apply in_map. exact Hx.
      + destruct (proj2 (Hiff x) (or_intror Hx)) as [<-|]; auto.
        exfalso. apply (key_lt_irrefl (ikey a)). apply F2. apply in_map. exact Hx.
  Qed.

  Lemma sorted_filter (f : item -> bool) (l : list item) :
    StronglySorted key_lt (map ikey l) -> StronglySorted key_lt (map ikey (filter f l)).
  Proof.
    induction l as [|a l IH]; cbn [filter map]; intros S; [constructor|].
    apply StronglySorted_inv in S. destruct S as [S F]. destruct (f a); cbn [map]; auto.
    constructor; auto. rewrite Forall_forall in *. intros k Hk. apply F.
    apply in_map_iff in Hk. destruct Hk as (x & <- & Hx). apply filter_In in Hx. apply in_map. tauto.
  Qed.

  Lemma sorted_app (l1 l2 : list (list pseg * str)) :
    StronglySorted key_lt l1 -> StronglySorted key_lt l2 ->
    (forall a b, In a l1 -> In b l2 -> key_lt a b) -> StronglySorted key_lt (l1 ++ l2).
  Proof.
    induction l1 as [|a l1 IH]; cbn [app]; intros S1 S2 H; auto.
    apply StronglySorted_inv in S1. destruct S1 as [S1 F1]. constructor.
    - apply IH; auto. intros x y Hx Hy. apply H; auto. right; auto.
    - apply Forall_app. split; auto. rewrite Forall_forall. intros y Hy. apply H; auto. left; reflexivity.
  Qed.

  Lemma sorted_map_cons p (l : list (list pseg * str)) :
    StronglySorted key_lt l -> StronglySorted key_lt (map (fun k => (p :: fst k, snd k)) l).
  Proof.
    induction l as [|a l IH]; cbn [map]; intros S; [constructor|].
    apply StronglySorted_inv in S. destruct S as [S F]. constructor; auto.
    rewrite Forall_forall in *. intros k Hk. apply in_map_iff in Hk. destruct Hk as (x & <- & Hx).
    destruct (F x Hx) as [H|[E H]]; [left|right]; cbn [fst snd].
    - cbn [tlt]. rewrite (proj2 (pseg_eqb_eq p p) eq_refl), H. apply orb_true_r.
    - split; [congruence|exact H].
  Qed.

  (* ---- the walk below a path prefix is the walk from the root, prefixed ---- *)
  Definition pre_item (pre : list pseg) (x : item) : item := (pre ++ fst (fst x), snd (fst x), snd x).

  Lemma iter_node_eq ms ed v rpath :
    iter_node V cmp (Node V ms ed) v rpath =
    map (fun mh : str * endpoint => (rev rpath, fst mh, snd mh)) (handlers_at V cmp ms v) ++ iter_edges V cmp ed v rpath.
  Proof. reflexivity. Qed.
  Lemma iter_edges_lits cs v rpath : iter_edges V cmp (ELits V cs) v rpath = iter_children V cmp cs v rpath.
  Proof. reflexivity. Qed.
  Lemma iter_edges_var x c v rpath : iter_edges V cmp (EVar V x c) v rpath = iter_node V cmp c v (PVar x :: rpath).
  Proof. reflexivity. Qed.
  Lemma iter_edges_rest x c v rpath : iter_edges V cmp (ERest V x c) v rpath = iter_node V cmp c v (PVar x :: rpath).
  Proof. reflexivity. Qed.
  Lemma iter_children_cons k c cs v rpath :
    iter_children V cmp (CCons V k c cs) v rpath = iter_node V cmp c v (PLit k :: rpath) ++ iter_children V cmp cs v rpath.
  Proof. reflexivity. Qed.

  Lemma iter_prefix v :
    (forall n : node V, forall rpath, iter_node V cmp n v rpath = map (pre_item (rev rpath)) (iter_node V cmp n v [])) /\
    (forall ed : edges V, forall rpath, iter_edges V cmp ed v rpath = map (pre_item (rev rpath)) (iter_edges V cmp ed v [])) /\
    (forall cs : children V, forall rpath, iter_children V cmp cs v rpath = map (pre_item (rev rpath)) (iter_children V cmp cs v [])).
  Proof.
    apply trie_mutind.
    - intros ms ed IHe rpath. rewrite !iter_node_eq, map_app, (IHe rpath). f_equal.
      rewrite !map_map. apply map_ext. intros [m h]. unfold pre_item. cbn [fst snd rev]. rewrite app_nil_r. reflexivity.
    - intros rpath. reflexivity.
    - intros cs IH rpath. rewrite !iter_edges_lits. apply IH.
    - intros x c IH rpath. rewrite !iter_edges_var, (IH (PVar x :: rpath)), (IH [PVar x]), map_map.
      apply map_ext. intros [[t m] e]. unfold pre_item. cbn [fst snd rev app]. rewrite <- app_assoc. reflexivity.
    - intros x c IH rpath. rewrite !iter_edges_rest, (IH (PVar x :: rpath)), (IH [PVar x]), map_map.
      apply map_ext. intros [[t m] e]. unfold pre_item. cbn [fst snd rev app]. rewrite <- app_assoc. reflexivity.
    - intros rpath. reflexivity.
    - intros k c IHc cs IHcs rpath. rewrite !iter_children_cons.
      rewrite map_app, (IHc (PLit k :: rpath)), (IHc [PLit k]), (IHcs rpath), map_map. f_equal.
      apply map_ext. intros [[t m] e]. unfold pre_item. cbn [fst snd rev app]. rewrite <- app_assoc. reflexivity.
  Qed.

  Lemma ikey_pre_item p (l : list item) :
    map ikey (map (pre_item [p]) l) = map (fun k => (p :: fst k, snd k)) (map ikey l).
  Proof. rewrite !map_map. apply map_ext. intros [[t m] e]. reflexivity. Qed.

  Section Sorted.
    Variable bot : V.
    Hypothesis TO : total_order V cmp bot.
    Variable v : V.

    (* at most one handler of a list without overlapping ranges serves v *)
    Lemma filter_le1 (hs : list endpoint) :
      novl_hs hs -> (forall h, In h hs -> wf_range V cmp (e_versions h)) ->
      filter (fun h => vmatches V cmp (e_versions h) (Some v)) hs = [] \/
      exists h, filter (fun h => vmatches V cmp (e_versions h) (Some v)) hs = [h].
    Proof.
      induction hs as [|a hs IH]; cbn [filter]; intros Hn Hw; auto.
      inversion Hn as [|? ? Hfa Hn']; subst.
      destruct (vmatches V cmp (e_versions a) (Some v)) eqn:Ha.
      - right. exists a. f_equal.
        destruct (filter (fun h => vmatches V cmp (e_versions h) (Some v)) hs) as [|b l] eqn:Hf; auto.
        exfalso. assert (Hb : In b (filter (fun h => vmatches V cmp (e_versions h) (Some v)) hs))
          by (rewrite Hf; left; reflexivity).
        apply filter_In in Hb. destruct Hb as [Hin Hb].
        rewrite Forall_forall in Hfa. specialize (Hfa b Hin).
        rewrite (shared_overlaps V cmp bot TO _ _ v (Hw a (or_introl eq_refl)) (Hw b (or_intror Hin)) Ha Hb) in Hfa.
        discriminate.
      - apply IH; auto. intros h Hh. apply Hw; right; auto.
    Qed.

    Lemma own_sorted (ms : methods V) :
      wf_methods V ms -> novl_ms ms ->
      (forall k hs h, In (k, hs) ms -> In h hs -> wf_range V cmp (e_versions h)) ->
      StronglySorted key_lt
        (map ikey (map (fun mh : str * endpoint => (@nil pseg, fst mh, snd mh)) (handlers_at V cmp ms (Some v)))) /\
      forall x, In x (handlers_at V cmp ms (Some v)) -> In (fst x) (map fst ms).
    Proof.
      intros [Hs _]. induction ms as [|[k hs] ms IH]; intros Hn Hw.
      - cbn. split; [constructor|intros x []].
      - cbn [map fst keys_sorted] in Hs. destruct Hs as [Hlt Hs].
        assert (Hn' : novl_ms ms) by (intros k' hs' H'; apply (Hn k' hs'); right; auto).
        assert (Hw' : forall k' hs' h, In (k', hs') ms -> In h hs' -> wf_range V cmp (e_versions h))
          by (intros k' hs' h H1 H2; apply (Hw k' hs' h); [right; auto|auto]).
        destruct (IH Hs Hn' Hw') as [IHs IHk].
        unfold handlers_at in *. cbn [flat_map fst snd].
        split.
        + rewrite !map_app. apply sorted_app; auto.
          * destruct (filter_le1 hs (Hn k hs (or_introl eq_refl)) (fun h Hh => Hw k hs h (or_introl eq_refl) Hh))
              as [->|[h ->]]; cbn; repeat constructor.
          * intros a b Ha Hb.
            apply in_map_iff in Ha. destruct Ha as (x1 & <- & Hx1).
            apply in_map_iff in Hx1. destruct Hx1 as (y1 & <- & Hy1).
            apply in_map_iff in Hy1. destruct Hy1 as (h1 & <- & _).
            apply in_map_iff in Hb. destruct Hb as (x2 & <- & Hx2).
            apply in_map_iff in Hx2. destruct Hx2 as ([m2 h2] & <- & Hin2).
            right. cbn [ikey fst snd]. split; [reflexivity|].
            rewrite Forall_forall in Hlt. apply Hlt. apply (IHk (m2, h2) Hin2).
        + intros [m h] Hx. apply in_app_iff in Hx. destruct Hx as [Hx|Hx].
          * apply in_map_iff in Hx. destruct Hx as (h' & [= <- <-] & _). left; reflexivity.
          * right. apply (IHk (m, h) Hx).
    Qed.

    (* the walk is strictly sorted *)
    Lemma iter_sorted :
      (forall n : node V, wfn V n -> novl n ->
          (forall d, In d (routes V n) -> wf_range V cmp (e_versions (snd d))) ->
          StronglySorted key_lt (map ikey (iter_node V cmp n (Some v) []))) /\
      (forall ed : edges V, wfe V ed -> novl_e ed ->
          (forall d, In d (routes_e V ed) -> wf_range V cmp (e_versions (snd d))) ->
          StronglySorted key_lt (map ikey (iter_edges V cmp ed (Some v) [])) /\
          forall x, In x (iter_edges V cmp ed (Some v) []) -> fst (fst x) <> []) /\
      (forall cs : children V, wfc V cs -> novl_c cs ->
          (forall d, In d (routes_c V cs) -> wf_range V cmp (e_versions (snd d))) ->
          StronglySorted key_lt (map ikey (iter_children V cmp cs (Some v) [])) /\
          forall x, In x (iter_children V cmp cs (Some v) []) ->
                    exists k t, fst (fst x) = PLit k :: t /\ In k (ckeys V cs)).
    Proof.
      apply trie_mutind.
      - intros ms ed IHe (Hm & He & _) [Hnm Hne] Hw. rewrite iter_node_eq. cbn [rev].
        assert (Hwo : forall k hs h, In (k, hs) ms -> In h hs -> wf_range V cmp (e_versions h)).
        { intros k hs h H1 H2. apply (Hw ([], h)). apply in_routes_node; left. apply in_own_routes. exists k, hs; auto. }
        assert (Hwe : forall d, In d (routes_e V ed) -> wf_range V cmp (e_versions (snd d))).
        { intros d Hd. apply Hw. apply in_routes_node; right; auto. }
        destruct (own_sorted ms Hm Hnm Hwo) as [Hos _]. destruct (IHe He Hne Hwe) as [Hes Hne'].
        rewrite map_app. apply sorted_app; auto.
        intros a b Ha Hb. rewrite map_map in Ha. apply in_map_iff in Ha. destruct Ha as (mh & <- & _).
        apply in_map_iff in Hb. destruct Hb as (x & <- & Hx). specialize (Hne' x Hx).
        left. cbn [ikey fst]. destruct x as [[t m] e]. cbn [fst] in *. destruct t; [congruence|reflexivity].
      - intros _ _ _. cbn. split; [constructor|intros x []].
      - intros cs IH [_ Hcs] Hn Hw. rewrite iter_edges_lits. cbn [routes_e novl_e] in *. destruct (IH Hcs Hn Hw) as [Hs Hk].
        split; auto. intros x Hx. destruct (Hk x Hx) as (k & t & -> & _). discriminate.
      - intros y c IH [Hc _] Hn Hw. rewrite iter_edges_var.
        rewrite (proj1 (iter_prefix (Some v)) c [PVar y]). cbn [rev app].
        assert (Hwc : forall d, In d (routes V c) -> wf_range V cmp (e_versions (snd d))).
        { intros d Hd. apply (Hw (pcons V (PVar y) d)). cbn [routes_e]. apply in_map; auto. }
        split.
        + rewrite ikey_pre_item. apply sorted_map_cons. apply IH; auto.
        + intros x Hx. apply in_map_iff in Hx. destruct Hx as (x0 & <- & _). discriminate.
      - intros y c IH (Hc & _ & _) Hn Hw. rewrite iter_edges_rest.
        rewrite (proj1 (iter_prefix (Some v)) c [PVar y]). cbn [rev app].
        assert (Hwc : forall d, In d (routes V c) -> wf_range V cmp (e_versions (snd d))).
        { intros d Hd. apply (Hw (pcons V (PWild y) d)). cbn [routes_e]. apply in_map; auto. }
        split.
        + rewrite ikey_pre_item. apply sorted_map_cons. apply IH; auto.
        + intros x Hx. apply in_map_iff in Hx. destruct Hx as (x0 & <- & _). discriminate.
      - intros _ _ _. cbn. split; [constructor|intros x []].
      - intros k c IHc cs IHcs (Hc & _ & Hlt & Hcs) [Hnc Hncs] Hw. rewrite iter_children_cons.
        rewrite (proj1 (iter_prefix (Some v)) c [PLit k]). cbn [rev app].
        assert (Hwc : forall d, In d (routes V c) -> wf_range V cmp (e_versions (snd d))).
        { intros d Hd. apply (Hw (pcons V (PLit k) d)). cbn [routes_c]. apply in_app_iff; left. apply in_map; auto. }
        assert (Hwcs : forall d, In d (routes_c V cs) -> wf_range V cmp (e_versions (snd d))).
        { intros d Hd. apply Hw. cbn [routes_c]. apply in_app_iff; right; auto. }
        destruct (IHcs Hcs Hncs Hwcs) as [Hss Hsk]. split.
        + rewrite map_app, ikey_pre_item. apply sorted_app; auto.
          * apply sorted_map_cons. apply IHc; auto.
          * intros a b Ha Hb. apply in_map_iff in Ha. destruct Ha as (ka & <- & _).
            apply in_map_iff in Hb. destruct Hb as (x & <- & Hx).
            destruct (Hsk x Hx) as (k2 & t2 & Hf & Hk2). left. unfold ikey. cbn [fst]. rewrite Hf. cbn [tlt seg_lt].
            rewrite Forall_forall in Hlt. rewrite (Hlt k2 Hk2). reflexivity.
        + intros x Hx. apply in_app_iff in Hx. destruct Hx as [Hx|Hx].
          * apply in_map_iff in Hx. destruct Hx as (x0 & <- & _). exists k, (fst (fst x0)). split; [reflexivity|left; reflexivity].
          * destruct (Hsk x Hx) as (k2 & t2 & Hf & Hk2). exists k2, t2. split; auto. right; auto.
    Qed.
  End Sorted.
End Ord.

(* C06: the list of operations of the document — not only the set — is the
   same whatever order the endpoints were registered in *)
Theorem doc_ops_list_order_irrelevant V cmp bot (TO : total_order V cmp bot)
        (eps eps' : list (decl V)) (r r' : node V) (v : V) :
  Permutation eps eps' -> build V cmp eps = Ok r -> build V cmp eps' = Ok r' ->
  (forall d, In d eps -> wf_range V cmp (e_versions (snd d))) ->
  doc_ops V cmp r v = doc_ops V cmp r' v.
Proof.
  intros Hp Hb Hb' Hw.
  pose proof (build_spec V cmp eps) as Hs. rewrite Hb in Hs. destruct Hs as (_ & Hwf & Hr).
  pose proof (build_spec V cmp eps') as Hs'. rewrite Hb' in Hs'. destruct Hs' as (_ & Hwf' & Hr').
  apply sorted_ext.
  - unfold doc_ops, iter. apply sorted_filter.
    apply (proj1 (iter_sorted V cmp bot TO v) r Hwf (build_novl V cmp eps r Hb)).
    intros d Hd. apply Hw. apply Hr; exact Hd.
  - unfold doc_ops, iter. apply sorted_filter.
    apply (proj1 (iter_sorted V cmp bot TO v) r' Hwf' (build_novl V cmp eps' r' Hb')).
    intros d Hd. apply Hw. apply Hr' in Hd. apply Permutation_sym in Hp. eapply Permutation_in; eauto.
  - intros x. apply (doc_ops_order_irrelevant V cmp eps eps' r r' v x Hp Hb Hb').
Qed.
