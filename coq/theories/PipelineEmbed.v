(* PipelineEmbed.v — the whole request pipeline commutes with an order
   embedding of the version type relative to the known versions (the range
   bounds and the policy's maximum): judging a request over ranks (N) is
   judging it over semver.  With RankEmbed.rank_embeds this is what the
   pipeline judge of Run_Router.v relies on. *)
From DS Require Import Base Versions VersionsProofs VersionsEmbed RankEmbed Router RouterSpec RouterProofs RouterEmbed
     Pct Utf8 PathNorm Route Pipeline PipelineProofs.

Section PEmbed.
  Variable V W : Type.
  Variable cmpV : V -> V -> comparison.
  Variable cmpW : W -> W -> comparison.
  Variable botV : V.
  Variable botW : W.
  Hypothesis TOV : total_order V cmpV botV.
  Hypothesis TOW : total_order W cmpW botW.
  Variable f : V -> W.
  Variable P : V -> Prop.
  Hypothesis f_embeds : forall a b, P a \/ P b -> cmpW (f a) (f b) = cmpV a b.
  Variable parse : str -> option V.

  Definition map_policy (p : policy V) : policy W :=
    match p with PUnversioned => PUnversioned | PHeader max => PHeader (f max) end.
  Definition policy_known (p : policy V) : Prop :=
    match p with PUnversioned => True | PHeader max => P max end.
  Definition map_handled (o : handled V) : handled W :=
    match o with
    | HBadVersion => HBadVersion
    | HBadPath => HBadPath
    | HNotFound => HNotFound
    | HNotAllowed a => HNotAllowed a
    | HInvoke e vars ov => HInvoke (map_ep V W f e) vars (option_map f ov)
    | HPanic => HPanic
    end.

  Lemma request_version_embed p h : policy_known p ->
    request_version W cmpW (fun s => option_map f (parse s)) (map_policy p) h =
    match request_version V cmpV parse p h with Ok ov => Ok (option_map f ov) | Err c => Err c end.
  Proof.
    intros Hp. destruct p as [|max]; cbn [map_policy request_version policy_known] in *; [reflexivity|].
    rewrite (extract_version_embed V W cmpV cmpW f P f_embeds parse max h Hp).
    destruct (extract_version V cmpV parse max h); reflexivity.
  Qed.

  Lemma starts_embed p eps : starts W (map_policy p) (map (map_decl V W f) eps) = starts V p eps.
  Proof.
    destruct p; cbn [map_policy starts]; [|reflexivity]. f_equal. unfold has_versioned.
    induction eps as [|d eps IH]; cbn [map existsb]; [reflexivity|]. rewrite IH. f_equal.
    unfold map_decl, map_ep. cbn [snd e_versions]. destruct (e_versions (snd d)); reflexivity.
  Qed.

  Theorem handle_embed (p : policy V) (eps : list (decl V)) r r' m rawpath h :
    known V P eps -> policy_known p ->
    (forall d, In d eps -> wf_range V cmpV (e_versions (snd d))) ->
    starts V p eps = true ->
    build V cmpV eps = Ok r -> build W cmpW (map (map_decl V W f) eps) = Ok r' ->
    handle W cmpW (fun s => option_map f (parse s)) (map_policy p) r' m rawpath h =
    map_handled (handle V cmpV parse p r m rawpath h).
  Proof.
    intros Hk Hp Hw Hs Hb Hb'. unfold handle. rewrite (request_version_embed p h Hp).
    destruct (request_version V cmpV parse p h) as [ov|c] eqn:Hr; [|reflexivity].
    pose proof (started_version_ok V cmpV parse p eps h ov Hw Hs Hr) as Hv.
    unfold route. destruct (input_segments rawpath) as [segs|err]; [|reflexivity].
    rewrite (lookup_embed V W cmpV cmpW botV botW TOV TOW f P f_embeds eps r r' Hk Hb Hb' m segs ov Hv).
    destruct (lookup V cmpV r m segs ov); reflexivity.
  Qed.
End PEmbed.

(* the instance the pipeline judge uses: semver (or any totally ordered version
   type) ranked against a chain that contains every range bound and the
   policy's maximum *)
Theorem handle_by_rank V cmp bot (TO : total_order V cmp bot) (chain : list V) (parse : str -> option V)
        (p : policy V) (eps : list (decl V)) r r' m rawpath h :
  known V (fun v => In v chain) eps -> policy_known V (fun v => In v chain) p ->
  (forall d, In d eps -> wf_range V cmp (e_versions (snd d))) ->
  starts V p eps = true ->
  build V cmp eps = Ok r -> build N N.compare (map (map_decl V N (rank V cmp chain)) eps) = Ok r' ->
  handle N N.compare (fun s => option_map (rank V cmp chain) (parse s)) (map_policy V N (rank V cmp chain) p) r' m rawpath h =
  map_handled V N (rank V cmp chain) (handle V cmp parse p r m rawpath h).
Proof.
  intros Hk Hp Hw Hs Hb Hb'.
  assert (TON : total_order N N.compare 0%N).
  { constructor.
    - intros a b H. apply N.compare_eq_iff. exact H.
    - apply N.compare_refl.
    - intros a b. apply N.compare_antisym.
    - intros a b c H1 H2. apply N.compare_lt_iff in H1, H2. apply N.compare_lt_iff. eapply N.lt_trans; eauto.
    - intros v H. apply N.compare_gt_iff in H. apply N.nlt_0_r in H. exact H. }
  apply (handle_embed V N cmp N.compare bot 0%N TO TON (rank V cmp chain) (fun v => In v chain)
           (rank_embeds V cmp bot TO chain) parse p eps r r' m rawpath h Hk Hp Hw Hs Hb Hb').
Qed.
