(* J2Oas.v — dropshot/src/schema_util.rs, the JSON Schema -> OpenAPI conversion,
   transcribed function by function:
     j2oas_schema, j2oas_schema_object, j2oas_subschemas, j2oas_integer,
     j2oas_number, j2oas_string, j2oas_array, box_reference_or, j2oas_object.
   Every panic!/unwrap that can fire is an explicit [Err]; the [f64 as i64]
   casts are explicit saturating truncations; [Number::as_i64]/[as_f64] are the
   serde_json functions.  No proofs in this file. *)
From DS Require Import Base Json Schema.
Open Scope N_scope.

(* one constructor per panic site of the converter *)
Inductive j2err :=
| EBoolFalse          (* "We don't expect to see a schema that matches the null set" *)
| ETypeArray          (* "a type array is unsupported by openapiv3" *)
| ETypeAndSubschemas  (* "a schema can't have both a type and subschemas" *)
| EEnumValue          (* "unexpected enumeration value" (boolean/integer/number/string) *)
| EIntEnumNotI64      (* value.as_i64().unwrap() on a float or a u64 above i64::MAX *)
| EInvalidSubschema   (* "invalid subschema" *)
| EBoundsBoth         (* panic!("invalid"): minimum and exclusiveMinimum (or the max pair) both set *)
| EArrayNone          (* array.as_ref().unwrap() on a type-array schema without array validation *)
| ETupleItems.        (* "OpenAPI v3.0.x cannot support tuple-like arrays" *)

Definition jres := res j2err.

(* [f] is bound outside the [fix] (as in [List.map]) so that a recursive
   function may be passed for it *)
Definition map_res {A B} (f : A -> jres B) : list A -> jres (list B) :=
  fix go (l : list A) : jres (list B) :=
    match l with
    | [] => Ok []
    | a :: r => do b <- f a; do r' <- go r; Ok (b :: r')
    end.

Definition map_res_snd {A B} (f : A -> jres B) : list (str * A) -> jres (list (str * B)) :=
  fix go (l : list (str * A)) : jres (list (str * B)) :=
    match l with
    | [] => Ok []
    | (k, a) :: r => do b <- f a; do r' <- go r; Ok ((k, b) :: r')
    end.

(* ---------- string constants ---------- *)
Definition s_int32 : str := [105;110;116;51;50].
Definition s_int64 : str := [105;110;116;54;52].
Definition s_float : str := [102;108;111;97;116].
Definition s_double : str := [100;111;117;98;108;101].
Definition s_date : str := [100;97;116;101].
Definition s_date_time : str := [100;97;116;101;45;116;105;109;101].
Definition s_password : str := [112;97;115;115;119;111;114;100].
Definition s_byte : str := [98;121;116;101].
Definition s_binary : str := [98;105;110;97;114;121].
Definition s_nullable : str := [110;117;108;108;97;98;108;101].
Definition s_example : str := [101;120;97;109;112;108;101].

(* ---------- Rust numeric conversions ---------- *)
Definition i64_min : Z := (-9223372036854775808)%Z.
Definition i64_max : Z := 9223372036854775807%Z.

(* [f as i64] for a finite f64: truncate toward zero, saturate *)
Definition f64_as_i64 (x : q) : Z :=
  Z.max i64_min (Z.min i64_max (Z.quot (fst x) (Zpos (snd x)))).

(* serde_json::Number::as_i64: PosInt(n) if n <= i64::MAX, NegInt(n); a Float
   gives None (even when integral) *)
Definition num_as_i64 (n : num) : option Z :=
  match n with
  | NInt z => if ((i64_min <=? z) && (z <=? i64_max))%Z then Some z else None
  | NFlt _ _ => None
  end.

(* [u64 as f64] / [i64 as f64]: round to nearest, ties to even, 53-bit mantissa *)
Definition f64_of_Z (z : Z) : q :=
  let a := Z.abs z in
  let l := Z.log2 a in
  if (l <? 53)%Z then (z, 1%positive) else
  let p := (2 ^ (l - 52))%Z in
  let qd := (a / p)%Z in
  let r := (a mod p)%Z in
  let half := (p / 2)%Z in
  let qd' := if ((half <? r) || ((r =? half) && Z.odd qd))%Z then (qd + 1)%Z else qd in
  ((Z.sgn z * qd' * p)%Z, 1%positive).

(* serde_json::Number::as_f64 (always Some without arbitrary_precision) *)
Definition num_as_f64 (n : num) : q :=
  match n with
  | NInt z => f64_of_Z z
  | NFlt a d => (a, d)
  end.

(* ---------- formats ---------- *)
Definition int_format (f : option str) : vou intfmt :=
  match f with
  | None => VEmpty
  | Some s =>
      if str_eqb s s_int32 then VItem IFInt32
      else if str_eqb s s_int64 then VItem IFInt64
      else VUnknown s
  end.

Definition num_format (f : option str) : vou numfmt :=
  match f with
  | None => VEmpty
  | Some s =>
      if str_eqb s s_float then VItem NFFloat
      else if str_eqb s s_double then VItem NFDouble
      else VUnknown s
  end.

Definition str_format (f : option str) : vou strfmt :=
  match f with
  | None => VEmpty
  | Some s =>
      if str_eqb s s_date then VItem SFDate
      else if str_eqb s s_date_time then VItem SFDateTime
      else if str_eqb s s_password then VItem SFPassword
      else if str_eqb s s_byte then VItem SFByte
      else if str_eqb s s_binary then VItem SFBinary
      else VUnknown s
  end.

(* ---------- shared pieces of j2oas_integer / j2oas_number ---------- *)

(* match (number.minimum, number.exclusive_minimum) { ... _ => panic!("invalid") } *)
Definition bound_pair {B} (cast : q -> B) (incl excl : option q) : jres (option B * bool) :=
  match incl, excl with
  | None, None => Ok (None, false)
  | Some f, None => Ok (Some (cast f), false)
  | None, Some f => Ok (Some (cast f), true)
  | Some _, Some _ => Err EBoundsBoth
  end.

Definition enum_list {B} (f : json -> jres (option B)) (e : option (list json)) : jres (list (option B)) :=
  match e with
  | None => Ok []
  | Some l => map_res f l
  end.

Definition enum_bool (v : json) : jres (option bool) :=
  match v with
  | JNull => Ok None
  | JBool b => Ok (Some b)
  | _ => Err EEnumValue
  end.

Definition enum_int (v : json) : jres (option Z) :=
  match v with
  | JNull => Ok None
  | JNum n => match num_as_i64 n with Some z => Ok (Some z) | None => Err EIntEnumNotI64 end
  | _ => Err EEnumValue
  end.

Definition enum_num (v : json) : jres (option q) :=
  match v with
  | JNull => Ok None
  | JNum n => Ok (Some (num_as_f64 n))
  | _ => Err EEnumValue
  end.

Definition enum_str (v : json) : jres (option str) :=
  match v with
  | JNull => Ok None
  | JStr s => Ok (Some s)
  | _ => Err EEnumValue
  end.

Definition j2oas_integer {A} (format : option str) (number : option numval)
           (enum_values : option (list json)) : jres (okind A) :=
  let format := int_format format in
  do b <- match number with
          | None => Ok (None, (None, false), (None, false))
          | Some nv =>
              let multiple_of := option_map f64_as_i64 (nv_multiple_of nv) in
              do mn <- bound_pair f64_as_i64 (nv_minimum nv) (nv_exclusive_minimum nv);
              do mx <- bound_pair f64_as_i64 (nv_maximum nv) (nv_exclusive_maximum nv);
              Ok (multiple_of, mn, mx)
          end;
  let '(multiple_of, (minimum, exclusive_minimum), (maximum, exclusive_maximum)) := b in
  do enumeration <- enum_list enum_int enum_values;
  Ok (KType (OTInteger (mkOInteger format multiple_of exclusive_minimum exclusive_maximum
                                   minimum maximum enumeration))).

Definition j2oas_number {A} (format : option str) (number : option numval)
           (enum_values : option (list json)) : jres (okind A) :=
  let format := num_format format in
  do b <- match number with
          | None => Ok (None, (None, false), (None, false))
          | Some nv =>
              let multiple_of := nv_multiple_of nv in
              do mn <- bound_pair (fun x => x) (nv_minimum nv) (nv_exclusive_minimum nv);
              do mx <- bound_pair (fun x => x) (nv_maximum nv) (nv_exclusive_maximum nv);
              Ok (multiple_of, mn, mx)
          end;
  let '(multiple_of, (minimum, exclusive_minimum), (maximum, exclusive_maximum)) := b in
  do enumeration <- enum_list enum_num enum_values;
  Ok (KType (OTNumber (mkONumber format multiple_of exclusive_minimum exclusive_maximum
                                 minimum maximum enumeration))).

Definition j2oas_string {A} (format : option str) (string : option strval)
           (enum_values : option (list json)) : jres (okind A) :=
  let format := str_format format in
  let '(max_length, min_length, pattern) :=
    match string with
    | None => (None, None, None)
    | Some sv => (sv_max_length sv, sv_min_length sv, sv_pattern sv)   (* u32 as usize *)
    end in
  do enumeration <- enum_list enum_str enum_values;
  Ok (KType (OTString (mkOString format pattern enumeration min_length max_length))).

(* ---------- the recursive pieces, parameterised by the recursive call
   [rec = j2oas_schema(None, _)] ---------- *)

Definition j2oas_subschemas (rec : schema -> jres oschema) (sb : subsval schema)
  : jres (okind oschema) :=
  match sb_all_of sb, sb_any_of sb, sb_one_of sb, sb_not sb with
  | Some all_of, None, None, None => do l <- map_res rec all_of; Ok (KAllOf l)
  | None, Some any_of, None, None => do l <- map_res rec any_of; Ok (KAnyOf l)
  | None, None, Some one_of, None => do l <- map_res rec one_of; Ok (KOneOf l)
  | None, None, None, Some n => do o <- rec n; Ok (KNot o)
  | _, _, _, _ => Err EInvalidSubschema
  end.

Definition j2oas_array (rec : schema -> jres oschema) (array : option (arrval schema))
  : jres (okind oschema) :=
  match array with
  | None => Err EArrayNone
  | Some arr =>
      do items <- match av_items arr with
                  | Some (Single s) => do o <- rec s; Ok (Some o)
                  | Some (Multi _) => Err ETupleItems
                  | None => Ok None
                  end;
      Ok (KType (OTArray (mkOArray items (av_min_items arr) (av_max_items arr)
                                   (match av_unique_items arr with Some b => b | None => false end))))
  end.

(* additional_properties: Bool(b) => Any(b); Object(obj) => Schema(j2oas_schema_object(None, obj)).
   [j2oas_schema(None, Object(obj))] is by definition [j2oas_schema_object(None, obj)],
   so the second arm is [rec] on the same schema. *)
Definition j2oas_addl (rec : schema -> jres oschema) (ap : option schema)
  : jres (option (oaddl oschema)) :=
  match ap with
  | None => Ok None
  | Some (SBool b) => Ok (Some (AAny b))
  | Some s => do o <- rec s; Ok (Some (ASchema o))
  end.

Definition j2oas_object (rec : schema -> jres oschema) (object : option (objval schema))
  : jres (okind oschema) :=
  match object with
  | None => Ok (KType (OTObject (mkOObject [] [] None None None)))
  | Some obj =>
      do properties <- map_res_snd rec (ov_properties obj);
      do additional_properties <- j2oas_addl rec (ov_additional_properties obj);
      Ok (KType (OTObject (mkOObject properties (ov_required obj) additional_properties
                                     (ov_min_properties obj) (ov_max_properties obj))))
  end.

(* ---------- SchemaData ---------- *)
Definition starts_with_x (k : str) : bool :=
  match k with 120 :: 45 :: _ => true | _ => false end.

Definition ext_nullable (ext : list (str * json)) : bool :=
  match lookup s_nullable ext with Some (JBool true) => true | _ => false end.

Definition j2oas_data (name : option str) (o : sobj schema) : sdata :=
  let m := so_metadata o in
  let ext := so_extensions o in
  mkSData
    (ext_nullable ext)
    (match m with Some m => m_read_only m | None => false end)
    (match m with Some m => m_write_only m | None => false end)
    (match m with Some m => m_deprecated m | None => false end)
    (lookup s_example ext)
    (match name with
     | Some n => Some n
     | None => match m with Some m => m_title m | None => None end
     end)
    (match m with Some m => m_description m | None => None end)
    (match m with Some m => m_default m | None => None end)
    (filter (fun kv => starts_with_x (fst kv)) ext).

(* ---------- j2oas_schema / j2oas_schema_object ---------- *)
Fixpoint j2oas (name : option str) (s : schema) {struct s} : jres oschema :=
  match s with
  | SBool true => Ok (OItem sdata_default KAny)
  | SBool false => Err EBoolFalse
  | SObj o =>
      match so_reference o with
      | Some r =>
          (* A reference cannot carry siblings in OpenAPI 3.0; [Option<T>] of a
             referenceable [T] arrives as {$ref, nullable: true} when it is a
             whole body or response type: the nullability is kept by wrapping
             the reference (SchemaData::default() with nullable = true) *)
          if ext_nullable (so_extensions o)
          then Ok (OItem (mkSData true false false false None None None None []) (KAllOf [ORef r]))
          else Ok (ORef r)
      | None =>
          do ty <- match so_instance_type o with
                   | Some (Single t) => Ok (Some t)
                   | Some (Multi _) => Err ETypeArray
                   | None => Ok None
                   end;
          do kind <-
             match ty, so_subschemas o with
             | Some TNull, None =>
                 Ok (KType (OTString (mkOString VEmpty None [None] None None)))
             | Some TBoolean, None =>
                 do e <- enum_list enum_bool (so_enum_values o); Ok (KType (OTBoolean e))
             | Some TObject, None => j2oas_object (j2oas None) (so_object o)
             | Some TArray, None => j2oas_array (j2oas None) (so_array o)
             | Some TNumber, None => j2oas_number (so_format o) (so_number o) (so_enum_values o)
             | Some TString, None => j2oas_string (so_format o) (so_string o) (so_enum_values o)
             | Some TInteger, None => j2oas_integer (so_format o) (so_number o) (so_enum_values o)
             | None, Some sb => j2oas_subschemas (j2oas None) sb
             | None, None => Ok KAny
             | Some _, Some _ => Err ETypeAndSubschemas
             end;
          Ok (OItem (j2oas_data name o) kind)
      end
  end.

Definition j2oas_schema := j2oas.
Definition j2oas_schema_object (name : option str) (o : sobj schema) : jres oschema :=
  j2oas name (SObj o).

(* ---------- schema_util.rs: schema_extract_description (used for path and
   query parameters before the member schema is stored and later converted) ---------- *)
Definition schema_extract_description (s : schema) : option str * schema :=
  let general :=
    match s with
    | SBool _ => (None, s)
    | SObj o =>
        (match so_metadata o with Some m => m_description m | None => None end,
         SObj (mkSObj None (so_instance_type o) (so_format o) (so_enum_values o) (so_const_value o)
                      (so_subschemas o) (so_number o) (so_string o) (so_array o) (so_object o)
                      (so_reference o) (so_extensions o)))
    end in
  match s with
  | SObj (mkSObj metadata None None None None (Some sb) None None None None None _) =>
      match sb with
      | mkSubs (Some [sub]) None None None None None None =>
          (match metadata with Some m => m_description m | None => None end, sub)
      | _ => general
      end
  | _ => general
  end.
