(* RouterSpec.v — the declarative side of C01/C02/C04: what a route table
   (a plain list of declared endpoints) means, with no reference to the trie. *)
From DS Require Import Base Versions Router.

Definition pseg_eqb (a b : pseg) : bool :=
  match a, b with
  | PLit x, PLit y => str_eqb x y
  | PVar x, PVar y => str_eqb x y
  | PWild x, PWild y => str_eqb x y
  | _, _ => false
  end.

Definition tpl_eqb := list_eqb pseg_eqb.

(* template matching: a literal matches itself, a variable one segment, a
   trailing wildcard all remaining segments (possibly none).  Bindings in
   path order. *)
Fixpoint tmatch (t : list pseg) (segs : list str) : option (list (str * varval)) :=
  match t with
  | [] => match segs with [] => Some [] | _ => None end
  | PWild x :: t' =>
      match t' with
      | [] => Some [(x, Multi segs)]
      | _ => None                       (* ill-formed template *)
      end
  | PLit l :: t' =>
      match segs with
      | s :: segs' => if str_eqb l s then tmatch t' segs' else None
      | [] => None
      end
  | PVar x :: t' =>
      match segs with
      | s :: segs' =>
          match tmatch t' segs' with
          | Some b => Some ((x, Single s) :: b)
          | None => None
          end
      | [] => None
      end
  end.

Definition vars_of (t : list pseg) : list str :=
  flat_map (fun p => match p with PLit _ => [] | PVar x => [x] | PWild x => [x] end) t.

Fixpoint nodup_str (l : list str) : bool :=
  match l with
  | [] => true
  | x :: l' => negb (mem_str x l') && nodup_str l'
  end.

Fixpoint wild_only_last (t : list pseg) : bool :=
  match t with
  | [] => true
  | PWild _ :: t' => is_nil t'
  | _ :: t' => wild_only_last t'
  end.

Definition wf_template (t : list pseg) : bool := nodup_str (vars_of t) && wild_only_last t.

(* two templates may coexist in one trie: at each common position equal
   literals recurse, different literals are fine, variables must carry the same
   name, wildcards too; any other pairing of kinds conflicts.  A template that
   ends where the other has its wildcard conflicts as well (the wildcard also
   matches the empty remainder); one that ends where the other continues with
   a literal or a variable imposes nothing. *)
Fixpoint tcompat (t1 t2 : list pseg) : bool :=
  match t1, t2 with
  | [], PWild _ :: _ => false
  | PWild _ :: _, [] => false
  | [], _ => true
  | _, [] => true
  | PLit a :: t1', PLit b :: t2' => if str_eqb a b then tcompat t1' t2' else true
  | PVar x :: t1', PVar y :: t2' => str_eqb x y && tcompat t1' t2'
  | PWild x :: _, PWild y :: _ => str_eqb x y
  | _, _ => false
  end.

(* vocabulary for the per-kind conflict lemmas *)
Definition no_wild (t : list pseg) : bool :=
  forallb (fun p => match p with PWild _ => false | _ => true end) t.
Definition kind_clash (p1 p2 : pseg) : bool :=
  match p1, p2 with
  | PLit _, PLit _ => false
  | PVar x, PVar y => negb (str_eqb x y)
  | PWild x, PWild y => negb (str_eqb x y)
  | _, _ => true
  end.
Definition count_var (x : str) (t : list pseg) : nat := length (filter (str_eqb x) (vars_of t)).

Section Spec.
  Variable V : Type.
  Variable cmp : V -> V -> comparison.
  Notation endpoint := (endpoint V).
  Definition decl := (list pseg * endpoint)%type.

  Definition same_method (m1 m2 : str) : bool := str_eqb (str_upper m1) (str_upper m2).

  (* does declaration [d] serve the request (m, segs, v)? *)
  Definition serves (d : decl) (m : str) (segs : list str) (v : option V)
    : option (list (str * varval)) :=
    if same_method m (e_method (snd d)) && vmatches V cmp (e_versions (snd d)) v
    then tmatch (fst d) segs else None.
  (* method left free: is the path served at this version at all? *)
  Definition tserves (d : decl) (segs : list str) (v : option V) : bool :=
    vmatches V cmp (e_versions (snd d)) v &&
    match tmatch (fst d) segs with Some _ => true | None => false end.

  Definition bm_of (b : list (str * varval)) : bmap :=
    fold_left (fun m kv => bm_insert (fst kv) (snd kv) m) b [].

  (* sorted, duplicate-free list of strings (insertion into a BTreeSet) *)
  Fixpoint sset_insert (k : str) (l : list str) : list str :=
    match l with
    | [] => [k]
    | k' :: l' =>
        match str_cmp k k' with
        | Eq => l
        | Lt => k :: l
        | Gt => k' :: sset_insert k l'
        end
    end.
  Definition sset_of (l : list str) : list str := fold_right sset_insert [] l.

  (* what the properties prescribe for a request against a table *)
  Inductive expected :=
  | XFound (d : decl) (vars : bmap)
  | X404
  | X405 (allow : list str)
  | XAmbiguous.

  Definition expect (eps : list decl) (m : str) (segs : list str) (v : option V) : expected :=
    match filter (fun d => match serves d m segs v with Some _ => true | None => false end) eps with
    | [d] => match serves d m segs v with
             | Some b => XFound d (bm_of b)
             | None => XAmbiguous     (* unreachable *)
             end
    | _ :: _ :: _ => XAmbiguous
    | [] =>
        match filter (fun d => tserves d segs v) eps with
        | [] => X404
        | ts => X405 (sset_of (map (fun d => str_upper (e_method (snd d))) ts))
        end
    end.

  (* registration: the new declaration is acceptable beside the accepted ones *)
  Definition conflicts (d d' : decl) : bool :=
    negb (tcompat (fst d) (fst d')) ||
    (tpl_eqb (fst d) (fst d') && same_method (e_method (snd d)) (e_method (snd d'))
     && overlaps V cmp (e_versions (snd d')) (e_versions (snd d))).
  Definition acceptable (eps : list decl) (d : decl) : bool :=
    wf_template (fst d) && forallb (fun d' => negb (conflicts d d')) eps.

End Spec.

Arguments XFound {V}.
Arguments X404 {V}.
Arguments X405 {V}.
Arguments XAmbiguous {V}.
