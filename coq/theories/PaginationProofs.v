(* PaginationProofs.v — a full scan visits every item exactly once, in order,
   terminates, respects the page bound, and carries a token exactly on
   non-empty pages (C15). *)
From DS Require Import Base Base64 Base64Proofs PageToken PageTokenProofs Pagination.
From Coq Require Import Sorted Permutation RelationClasses.
Require Import ZifyBool ZifyN.

(* ------------------------------------------------------------------ *)
(* lists                                                               *)
(* ------------------------------------------------------------------ *)

Lemma takeN_firstn {A} : forall (l : list A) n, takeN n l = firstn (N.to_nat n) l.
Proof.
  induction l as [|x r IH]; intros n; cbn [takeN].
  - destruct (N.to_nat n); reflexivity.
  - destruct (N.eqb_spec n 0) as [->|Hn]; [reflexivity|].
    replace (N.to_nat n) with (S (N.to_nat (N.pred n))) by lia.
    cbn [firstn]. rewrite IH. reflexivity.
Qed.

Lemma dropN_skipn {A} : forall (l : list A) n, dropN n l = skipn (N.to_nat n) l.
Proof.
  induction l as [|x r IH]; intros n; cbn [dropN].
  - destruct (N.to_nat n); reflexivity.
  - destruct (N.eqb_spec n 0) as [->|Hn]; [reflexivity|].
    replace (N.to_nat n) with (S (N.to_nat (N.pred n))) by lia.
    cbn [skipn]. rewrite IH. reflexivity.
Qed.

Lemma take_drop {A} (l : list A) n : takeN n l ++ dropN n l = l.
Proof. rewrite takeN_firstn, dropN_skipn. apply firstn_skipn. Qed.

Lemma takeN_length {A} (l : list A) n :
  N.of_nat (length (takeN n l)) = N.min n (N.of_nat (length l)).
Proof. rewrite takeN_firstn, firstn_length. lia. Qed.

Lemma dropN_length {A} (l : list A) n :
  N.of_nat (length (dropN n l)) = N.of_nat (length l) - n.
Proof. rewrite dropN_skipn, skipn_length. lia. Qed.

Lemma takeN_nil_inv {A} (l : list A) n : 1 <= n -> takeN n l = [] -> l = [].
Proof.
  intros Hn H. destruct l as [|x r]; [reflexivity|].
  cbn [takeN] in H. destruct (N.eqb_spec n 0); [lia|discriminate].
Qed.

Lemma last_opt_spec {A} : forall (l : list A),
  match last_opt l with
  | None => l = []
  | Some x => exists l', l = l' ++ [x]
  end.
Proof.
  induction l as [|x r IH]; cbn [last_opt]; [reflexivity|].
  destruct r as [|y r'].
  - exists []. reflexivity.
  - destruct (last_opt (y :: r')) as [z|].
    + destruct IH as [l' ->]. exists (x :: l'). reflexivity.
    + discriminate.
Qed.

Lemma filter_all {A} (f : A -> bool) l :
  (forall x, In x l -> f x = true) -> filter f l = l.
Proof.
  induction l as [|x r IH]; intros H; cbn [filter]; [reflexivity|].
  rewrite (H x (or_introl eq_refl)). f_equal. apply IH. intros y Hy. apply H. right; exact Hy.
Qed.

Lemma filter_none {A} (f : A -> bool) l :
  (forall x, In x l -> f x = false) -> filter f l = [].
Proof.
  induction l as [|x r IH]; intros H; cbn [filter]; [reflexivity|].
  rewrite (H x (or_introl eq_refl)). apply IH. intros y Hy. apply H. right; exact Hy.
Qed.

(* ------------------------------------------------------------------ *)
(* the scan's order                                                    *)
(* ------------------------------------------------------------------ *)

Definition lt_o (o : order) (a b : N) : Prop := ltb_of o a b = true.

Lemma lt_o_irrefl o a : ~ lt_o o a a.
Proof. unfold lt_o, ltb_of. destruct o; lia. Qed.
Lemma lt_o_asym o a b : lt_o o a b -> ltb_of o b a = false.
Proof. unfold lt_o, ltb_of. destruct o; lia. Qed.
Lemma lt_o_trans o a b c : lt_o o a b -> lt_o o b c -> lt_o o a c.
Proof. unfold lt_o, ltb_of. destruct o; lia. Qed.

Lemma SS_app_inv {A} (R : A -> A -> Prop) : forall a b,
  StronglySorted R (a ++ b) ->
  StronglySorted R a /\ StronglySorted R b /\ (forall x y, In x a -> In y b -> R x y).
Proof.
  induction a as [|h a IH]; intros b H; cbn [app] in H.
  - repeat split; [constructor|exact H|intros x y []].
  - inversion H as [|h' l' Hss Hfa]; subst.
    destruct (IH b Hss) as (Ha & Hb & Hab).
    rewrite Forall_forall in Hfa.
    repeat split.
    + constructor; [exact Ha|]. rewrite Forall_forall. intros x Hx. apply Hfa.
      apply in_or_app; left; exact Hx.
    + exact Hb.
    + intros x y [<-|Hx] Hy; [apply Hfa, in_or_app; right; exact Hy|].
      apply Hab; assumption.
Qed.

Lemma SS_app {A} (R : A -> A -> Prop) : forall a b,
  StronglySorted R a -> StronglySorted R b ->
  (forall x y, In x a -> In y b -> R x y) -> StronglySorted R (a ++ b).
Proof.
  induction a as [|h a IH]; intros b Ha Hb Hab; cbn [app]; [exact Hb|].
  inversion Ha as [|h' l' Hss Hfa]; subst.
  constructor.
  - apply IH; auto. intros x y Hx Hy. apply Hab; [right; exact Hx|exact Hy].
  - rewrite Forall_forall in *. intros x Hx. apply in_app_or in Hx.
    destruct Hx as [Hx|Hx]; [apply Hfa, Hx|apply Hab; [left; reflexivity|exact Hx]].
Qed.

Lemma SS_rev {A} (R : A -> A -> Prop) : forall l,
  StronglySorted R l -> StronglySorted (fun a b => R b a) (rev l).
Proof.
  induction l as [|h l IH]; intros H; cbn [rev]; [constructor|].
  inversion H as [|h' l' Hss Hfa]; subst.
  apply SS_app.
  - apply IH, Hss.
  - constructor; constructor.
  - rewrite Forall_forall in Hfa. intros x y Hx [<-|[]]. apply Hfa. apply in_rev. exact Hx.
Qed.

Lemma sortedb_SS : forall l, sortedb l = true -> StronglySorted N.lt l.
Proof.
  intros l H. apply Sorted_StronglySorted.
  - intros a b c. apply N.lt_trans.
  - induction l as [|x r IH]; [constructor|].
    cbn [sortedb] in H. destruct r as [|y r'].
    + constructor; constructor.
    + apply andb_true_iff in H. destruct H as [Hxy Hr].
      constructor; [apply IH, Hr|]. constructor. lia.
Qed.

Lemma view_sorted o coll :
  sortedb coll = true -> StronglySorted (lt_o o) (view o coll).
Proof.
  intros H. apply sortedb_SS in H. destruct o; cbn [view].
  - eapply StronglySorted_ind with (P := fun l => StronglySorted (lt_o Asc) l);
      [constructor| |exact H].
    intros a l _ IH Hfa. constructor; [exact IH|].
    rewrite Forall_forall in *. intros x Hx. unfold lt_o, ltb_of.
    specialize (Hfa x Hx). lia.
  - rewrite <- rev_alt. apply SS_rev in H.
    eapply StronglySorted_ind with (P := fun l => StronglySorted (lt_o Desc) l);
      [constructor| |exact H].
    intros a l _ IH Hfa. constructor; [exact IH|].
    rewrite Forall_forall in *. intros x Hx. unfold lt_o, ltb_of.
    specialize (Hfa x Hx). cbv beta in Hfa. lia.
Qed.

Lemma view_In o coll k : In k (view o coll) <-> In k coll.
Proof. destruct o; cbn [view]; [tauto|]. rewrite <- rev_alt. symmetry. apply in_rev. Qed.

Lemma view_length o coll : length (view o coll) = length coll.
Proof. destruct o; cbn [view]; [reflexivity|rewrite <- rev_alt; apply rev_length]. Qed.

(* everything strictly after key k of a sorted list is the part behind k *)
Lemma filter_after_split o v pre k rest :
  StronglySorted (lt_o o) v -> v = pre ++ k :: rest ->
  filter (after o (Some k)) v = rest.
Proof.
  intros Hss ->. apply SS_app_inv in Hss. destruct Hss as (_ & Hkr & Hpre).
  inversion Hkr as [|k' l' _ Hfa]; subst. rewrite Forall_forall in Hfa.
  rewrite filter_app. cbn [filter].
  rewrite filter_none.
  2:{ intros x Hx. cbn [after]. apply lt_o_asym. apply Hpre; [exact Hx|left; reflexivity]. }
  cbn [after app].
  destruct (ltb_of o k k) eqn:E; [exfalso; exact (lt_o_irrefl o k E)|].
  apply filter_all. intros x Hx. apply Hfa, Hx.
Qed.

(* ------------------------------------------------------------------ *)
(* ceil-division step                                                  *)
(* ------------------------------------------------------------------ *)

Lemma expected_requests_zero eff : 1 <= eff -> expected_requests 0 eff = 1.
Proof.
  intros H. unfold expected_requests.
  rewrite N.div_small by lia. reflexivity.
Qed.

Lemma expected_requests_step r eff :
  1 <= eff -> 1 <= r ->
  expected_requests r eff = 1 + expected_requests (r - N.min eff r) eff.
Proof.
  intros He Hr. unfold expected_requests.
  destruct (N.le_gt_cases r eff) as [Hle|Hgt].
  - replace (r - N.min eff r) with 0 by lia.
    replace (0 + eff - 1) with (eff - 1) by lia.
    rewrite (N.div_small (eff - 1) eff) by lia.
    replace (r + eff - 1) with ((r - 1) + 1 * eff) by lia.
    rewrite N.div_add by lia. rewrite (N.div_small (r - 1) eff) by lia. lia.
  - replace (r - N.min eff r) with (r - eff) by lia.
    replace (r + eff - 1) with ((r - eff + eff - 1) + 1 * eff) by lia.
    rewrite N.div_add by lia. lia.
Qed.

(* ------------------------------------------------------------------ *)
(* ResultsPage::new on its own                                         *)
(* ------------------------------------------------------------------ *)

Lemma results_page_token_iff : forall env_ser its sp get p,
  results_page env_ser its sp get = Ok p ->
  items p = its /\ (next_page p = None <-> its = []).
Proof.
  intros env_ser its sp get p. unfold results_page.
  pose proof (last_opt_spec its) as Hl.
  destruct (last_opt its) as [k|].
  - destruct (serialize sel env_ser (get k sp)) as [t|e]; [|discriminate].
    intros [= <-]. cbn [items next_page]. split; [reflexivity|].
    split; [discriminate|]. intros ->. destruct Hl as [l' E]. destruct l'; discriminate.
  - intros [= <-]. cbn [items next_page]. split; [reflexivity|]. tauto.
Qed.

Lemma tokens_fit_sufficient : forall env_ser (s : sel) bs,
  env_ser s = Some bs -> slen bs <= 384 -> is_ok (serialize sel env_ser s) = true.
Proof.
  intros env_ser s bs E H. rewrite (serialize_ok_small sel env_ser s bs E H). reflexivity.
Qed.

(* ------------------------------------------------------------------ *)
(* the scan                                                            *)
(* ------------------------------------------------------------------ *)

Section ScanProofs.
  Variable env_ser : sel -> option (list N).
  Variable env_de : list N -> option (pag_version * sel).
  Variable max default : N.
  Variable coll : list N.

  Notation serialize := (serialize sel env_ser).
  Notation deserialize := (deserialize sel env_de).
  Notation results_page := (results_page env_ser).
  Notation handler := (handler env_ser max default coll).
  Notation request := (request env_ser env_de max default coll).
  Notation scan := (scan env_ser env_de max default coll).
  Notation full_scan := (full_scan env_ser env_de max default coll).

  (* fuel only matters until the scan ends *)
  Lemma scan_fuel_mono : forall f f' o0 lim tok ps,
    scan f o0 lim tok = Done ps -> (f <= f')%nat -> scan f' o0 lim tok = Done ps.
  Proof.
    induction f as [|f IH]; intros f' o0 lim tok ps H Hle; cbn [Pagination.scan] in H;
      [discriminate|].
    destruct f' as [|f']; [lia|]. cbn [Pagination.scan].
    destruct (request o0 lim tok) as [p|e]; [|discriminate].
    destruct (next_page p) as [t|]; [|exact H].
    destruct (scan f o0 lim (Some t)) as [ps'| |] eqn:E; cbn [cons_pages] in H;
      try discriminate.
    rewrite (IH f' o0 lim (Some t) ps' E) by lia. exact H.
  Qed.

  (* serde_json round-trip contract for the envelope of this selector type *)
  Hypothesis env_round_trip : forall s bs, env_ser s = Some bs -> env_de bs = Some (V1, s).
  Hypothesis env_bytes : forall s bs, env_ser s = Some bs -> bytes_ok bs = true.

  Variable o : order.
  Variable lim : option N.

  (* the collection is strictly sorted (keys of a BTreeMap) *)
  Hypothesis coll_sorted : sortedb coll = true.
  (* NonZeroU32 client limit; server configuration 1 <= default <= max *)
  Hypothesis lim_nonzero : forall l, lim = Some l -> 1 <= l.
  Hypothesis cfg_default : 1 <= default.
  Hypothesis cfg_max : default <= max.
  (* every token this scan may have to issue fits under the 512-byte bound *)
  Hypothesis tokens_fit : forall k, In k coll -> is_ok (serialize (o, k)) = true.

  Collection ScanHyps :=
    env_round_trip env_bytes coll_sorted lim_nonzero cfg_default cfg_max tokens_fit.

  Let v := view o coll.
  Let eff := page_limit lim max default.

  Lemma eff_pos : 1 <= eff.
  Proof. apply page_limit_range; assumption. Qed.

  Definition page_ok (p : page) : Prop :=
    N.of_nat (length (items p)) <= eff /\ (next_page p = None <-> items p = []).

  Lemma v_sorted : StronglySorted (lt_o o) v.
  Proof. apply view_sorted, coll_sorted. Qed.

  (* one page over the remaining items [rest] *)
  Lemma results_page_rest : forall rest,
    (forall k, In k rest -> In k coll) ->
    match last_opt (takeN eff rest) with
    | None => rest = [] /\
              results_page (takeN eff rest) o (fun k o => (o, k)) =
              Ok {| next_page := None; items := [] |}
    | Some k' => exists t its', takeN eff rest = its' ++ [k'] /\
                 serialize (o, k') = Ok t /\
                 results_page (takeN eff rest) o (fun k o => (o, k)) =
                 Ok {| next_page := Some t; items := takeN eff rest |}
    end.
  Proof.
    intros rest Hin. unfold Pagination.results_page.
    pose proof (last_opt_spec (takeN eff rest)) as Hl.
    destruct (last_opt (takeN eff rest)) as [k'|].
    - destruct Hl as [its' Hits].
      assert (Hk : In k' coll).
      { apply Hin. rewrite <- (take_drop rest eff), Hits.
        apply in_or_app; left. apply in_or_app; right. left; reflexivity. }
      pose proof (tokens_fit k' Hk) as Hf.
      destruct (serialize (o, k')) as [t|e] eqn:Es; [|discriminate].
      exists t, its'. auto.
    - rewrite Hl. split; [|reflexivity].
      apply (takeN_nil_inv rest eff eff_pos Hl).
  Qed.

  (* the scan from a token for key k with [rest] still to come *)
  Lemma scan_from_token : forall n rest pre k t fuel o0,
    (length rest <= n)%nat -> v = pre ++ k :: rest -> serialize (o, k) = Ok t ->
    (n + 1 <= fuel)%nat ->
    exists pages, scan fuel o0 lim (Some t) = Done pages /\
                  concat (map items pages) = rest /\
                  Forall page_ok pages /\
                  N.of_nat (length pages) = expected_requests (N.of_nat (length rest)) eff.
  Proof.
    induction n as [|n IH]; intros rest pre k t fuel o0 Hlen Hv Hs Hfuel.
    - destruct rest; [|cbn [length] in Hlen; lia].
      destruct fuel as [|f]; [lia|]. cbn [Pagination.scan Pagination.request].
      rewrite (token_round_trip sel env_ser env_de env_round_trip env_bytes _ _ Hs).
      cbn [Pagination.handler]. unfold page_items. fold v. fold eff.
      rewrite (filter_after_split o v pre k [] v_sorted Hv).
      cbn [takeN]. unfold Pagination.results_page. cbn [last_opt next_page].
      eexists. split; [reflexivity|]. cbn [map concat items length].
      repeat split; auto.
      + constructor; [|constructor]. unfold page_ok. cbn [items next_page length]. split; [lia|tauto].
      + rewrite expected_requests_zero by exact eff_pos. reflexivity.
    - destruct fuel as [|f]; [lia|]. cbn [Pagination.scan Pagination.request].
      rewrite (token_round_trip sel env_ser env_de env_round_trip env_bytes _ _ Hs).
      cbn [Pagination.handler]. unfold page_items. fold v. fold eff.
      rewrite (filter_after_split o v pre k rest v_sorted Hv).
      assert (Hin : forall x, In x rest -> In x coll).
      { intros x Hx. apply (view_In o). fold v. rewrite Hv.
        apply in_or_app; right; right; exact Hx. }
      pose proof (results_page_rest rest Hin) as Hp.
      destruct (last_opt (takeN eff rest)) as [k'|].
      + destruct Hp as (t' & its' & Hits & Hs' & ->). cbn [next_page].
        pose proof (take_drop rest eff) as Htd.
        assert (Hlt : (length (dropN eff rest) <= n)%nat).
        { pose proof (dropN_length rest eff). pose proof eff_pos.
          assert (rest <> []) by (intros ->; cbn [takeN] in Hits; destruct its'; discriminate).
          destruct rest; [congruence|]. cbn [length] in *. lia. }
        destruct (IH (dropN eff rest) (pre ++ k :: its') k' t' f o0 Hlt) as
            (pages & Hsc & Hcat & Hok & Hcnt); [| exact Hs' | lia |].
        { rewrite Hv. rewrite <- app_assoc. cbn [app]. f_equal. f_equal.
          rewrite <- Htd at 1. rewrite Hits, <- app_assoc. reflexivity. }
        rewrite Hsc. cbn [cons_pages]. eexists. split; [reflexivity|].
        cbn [map concat items length]. rewrite Hcat.
        split; [exact Htd|]. split.
        * constructor; [|exact Hok]. unfold page_ok. cbn [items next_page].
          split; [rewrite takeN_length; lia|].
          split; [discriminate|]. intros E. rewrite E in Hits. destruct its'; discriminate.
        * assert (Hr1 : 1 <= N.of_nat (length rest)).
          { destruct rest; [cbn [takeN] in Hits; destruct its'; discriminate|cbn [length]; lia]. }
          rewrite (expected_requests_step _ eff eff_pos Hr1).
          replace (N.of_nat (length rest) - N.min eff (N.of_nat (length rest)))
            with (N.of_nat (length (dropN eff rest))) by (rewrite dropN_length; lia).
          rewrite <- Hcnt. lia.
      + destruct Hp as [-> ->]. cbn [next_page].
        eexists. split; [reflexivity|]. cbn [map concat items length].
        repeat split; auto.
        * constructor; [|constructor]. unfold page_ok. cbn [items next_page length]. split; [lia|tauto].
        * rewrite expected_requests_zero by exact eff_pos. reflexivity.
  Qed.

  (* the whole scan, with enough fuel *)
  Lemma full_scan_enough : forall fuel,
    (length coll + 1 <= fuel)%nat ->
    exists pages, full_scan fuel o lim = Done pages /\
                  concat (map items pages) = v /\
                  Forall page_ok pages /\
                  N.of_nat (length pages) = expected_requests (N.of_nat (length coll)) eff.
  Proof.
    intros fuel Hfuel. unfold Pagination.full_scan.
    destruct fuel as [|f]; [lia|]. cbn [Pagination.scan Pagination.request Pagination.handler].
    unfold page_items. fold v. fold eff.
    replace (filter (after o None) v) with v
      by (symmetry; apply filter_all; reflexivity).
    assert (Hin : forall x, In x v -> In x coll) by (intros x; apply view_In).
    pose proof (results_page_rest v Hin) as Hp.
    assert (Hvl : length v = length coll) by apply view_length.
    destruct (last_opt (takeN eff v)) as [k'|].
    - destruct Hp as (t' & its' & Hits & Hs' & ->). cbn [next_page].
      pose proof (take_drop v eff) as Htd.
      assert (Hr1 : 1 <= N.of_nat (length v)).
      { destruct v; [cbn [takeN] in Hits; destruct its'; discriminate|cbn [length]; lia]. }
      destruct (scan_from_token (length (dropN eff v)) (dropN eff v) its' k' t' f o (le_n _))
        as (pages & Hsc & Hcat & Hok & Hcnt); [| exact Hs' | |].
      { rewrite <- Htd at 1. rewrite Hits, <- app_assoc. reflexivity. }
      { pose proof (dropN_length v eff). pose proof eff_pos. lia. }
      rewrite Hsc. cbn [cons_pages]. eexists. split; [reflexivity|].
      cbn [map concat items length]. rewrite Hcat.
      split; [exact Htd|]. split.
      + constructor; [|exact Hok]. unfold page_ok. cbn [items next_page].
        split; [rewrite takeN_length; lia|].
        split; [discriminate|]. intros E. rewrite E in Hits. destruct its'; discriminate.
      + rewrite <- Hvl. rewrite (expected_requests_step _ eff eff_pos Hr1).
        replace (N.of_nat (length v) - N.min eff (N.of_nat (length v)))
          with (N.of_nat (length (dropN eff v))) by (rewrite dropN_length; lia).
        rewrite <- Hcnt. lia.
    - destruct Hp as [Hnil ->]. cbn [next_page].
      eexists. split; [reflexivity|]. cbn [map concat items length].
      rewrite Hnil. repeat split; auto.
      + constructor; [|constructor]. unfold page_ok. cbn [items next_page length]. split; [lia|tauto].
      + rewrite <- Hvl, Hnil. cbn [length].
        rewrite expected_requests_zero by exact eff_pos. reflexivity.
  Qed.

  (* scan_terminates: |coll| + 2 requests always suffice; the scan ends with a
     page that carries no token — it neither runs out of fuel nor fails *)
  Theorem scan_terminates : forall fuel,
    (length coll + 2 <= fuel)%nat -> exists pages, full_scan fuel o lim = Done pages.
  Proof using ScanHyps.
    intros fuel H. destruct (full_scan_enough fuel) as (pages & Hd & _); [lia|].
    exists pages. exact Hd.
  Qed.

  Lemma full_scan_done_inv : forall fuel pages,
    full_scan fuel o lim = Done pages ->
    concat (map items pages) = v /\ Forall page_ok pages /\
    N.of_nat (length pages) = expected_requests (N.of_nat (length coll)) eff.
  Proof.
    intros fuel pages H.
    destruct (full_scan_enough (Nat.max fuel (length coll + 1))) as (pages' & Hd & Hrest);
      [lia|].
    unfold Pagination.full_scan in *.
    rewrite (scan_fuel_mono fuel _ o lim None pages H) in Hd by lia.
    injection Hd as <-. exact Hrest.
  Qed.

  (* scan_complete_exact: the pages, concatenated, are the collection in the
     order of the scan: every item exactly once, none skipped, none repeated *)
  Theorem scan_complete_exact : forall fuel pages,
    full_scan fuel o lim = Done pages -> concat (map items pages) = view o coll.
  Proof using ScanHyps. intros fuel pages H. apply (full_scan_done_inv fuel pages H). Qed.

  (* page_bounded: no page holds more than the effective limit
     (= min(client limit, max), or the default) *)
  Theorem page_bounded : forall fuel pages p,
    full_scan fuel o lim = Done pages -> In p pages ->
    N.of_nat (length (items p)) <= page_limit lim max default.
  Proof using ScanHyps.
    intros fuel pages p H Hin.
    destruct (full_scan_done_inv fuel pages H) as (_ & Hok & _).
    rewrite Forall_forall in Hok. apply (Hok p Hin).
  Qed.

  (* token_iff_nonempty *)
  Theorem token_iff_nonempty : forall fuel pages p,
    full_scan fuel o lim = Done pages -> In p pages ->
    (next_page p = None <-> items p = []).
  Proof using ScanHyps.
    intros fuel pages p H Hin.
    destruct (full_scan_done_inv fuel pages H) as (_ & Hok & _).
    rewrite Forall_forall in Hok. apply (Hok p Hin).
  Qed.

  (* the scan takes ceil(|coll| / eff) + 1 requests *)
  Theorem scan_request_count : forall fuel pages,
    full_scan fuel o lim = Done pages ->
    N.of_nat (length pages) =
    expected_requests (N.of_nat (length coll)) (page_limit lim max default).
  Proof using ScanHyps. intros fuel pages H. apply (full_scan_done_inv fuel pages H). Qed.

  (* "exactly once", spelled out with multiplicities *)
  Theorem scan_each_item_once : forall fuel pages k,
    full_scan fuel o lim = Done pages ->
    count_occ N.eq_dec (concat (map items pages)) k = if in_dec N.eq_dec k coll then 1%nat else 0%nat.
  Proof using ScanHyps.
    intros fuel pages k H. rewrite (scan_complete_exact fuel pages H).
    assert (Hnd : NoDup (view o coll)).
    { pose proof v_sorted as Hss. unfold v in Hss.
      induction Hss as [|a l Hss IH Hfa]; constructor; auto.
      intros Hin. rewrite Forall_forall in Hfa. exact (lt_o_irrefl o a (Hfa a Hin)). }
    destruct (in_dec N.eq_dec k coll) as [Hin|Hnin].
    - apply NoDup_count_occ'; [exact Hnd|]. apply view_In, Hin.
    - apply count_occ_not_In. intros Hin. apply Hnin. apply (view_In o), Hin.
  Qed.

  (* ---------------------------------------------------------------- *)
  (* without the premise that every token fits: the scan is never      *)
  (* silently incomplete                                               *)
  (* ---------------------------------------------------------------- *)

  (* what a scan over the remaining items [rest] may end in: all of [rest]
     delivered; or an explicit failure (500) of the request for the page that
     ends on an item whose token cannot be issued, everything before it
     delivered; or (too little fuel) still going *)
  Definition outcome_ok (rest : list N) (r : scan_result) : Prop :=
    match r with
    | Done ps => concat (map items ps) = rest /\ Forall page_ok ps
    | OutOfFuel ps => True
    | Failed e ps =>
        status_of e = 500 /\ Forall page_ok ps /\
        (forall p, In p ps -> next_page p <> None) /\
        exists its' k' tail,
          rest = concat (map items ps) ++ its' ++ k' :: tail /\
          N.of_nat (length (its' ++ [k'])) <= eff /\
          serialize (o, k') = Err e
    end.

  Lemma outcome_cons : forall p rest' r,
    outcome_ok rest' r -> page_ok p -> next_page p <> None ->
    outcome_ok (items p ++ rest') (cons_pages p r).
  Proof using Type.
    intros p rest' r H Hp Hn. destruct r as [ps|ps|e ps]; cbn [cons_pages outcome_ok] in *.
    - destruct H as [Hc Hf]. cbn [map concat]. rewrite Hc. split; [reflexivity|].
      constructor; assumption.
    - exact I.
    - destruct H as (Hs & Hf & Hnn & its' & k' & tail & Hr & Hl & He).
      split; [exact Hs|]. split; [constructor; assumption|]. split.
      { intros q [<-|Hq]; [exact Hn|apply Hnn, Hq]. }
      exists its', k', tail. cbn [map concat]. rewrite Hr, <- app_assoc. auto.
  Qed.

  (* one page over the remaining items, whatever fits *)
  Lemma results_page_rest_gen : forall rest,
    match last_opt (takeN eff rest) with
    | None => rest = [] /\
              results_page (takeN eff rest) o (fun k o => (o, k)) =
              Ok {| next_page := None; items := [] |}
    | Some k' => exists its', takeN eff rest = its' ++ [k'] /\
                 match serialize (o, k') with
                 | Ok t => results_page (takeN eff rest) o (fun k o => (o, k)) =
                           Ok {| next_page := Some t; items := takeN eff rest |}
                 | Err e => results_page (takeN eff rest) o (fun k o => (o, k)) = Err e
                 end
    end.
  Proof using lim_nonzero cfg_default cfg_max.
    intros rest. unfold Pagination.results_page.
    pose proof (last_opt_spec (takeN eff rest)) as Hl.
    destruct (last_opt (takeN eff rest)) as [k'|].
    - destruct Hl as [its' Hits]. exists its'. split; [exact Hits|].
      destruct (serialize (o, k')); reflexivity.
    - rewrite Hl. split; [|reflexivity].
      apply (takeN_nil_inv rest eff eff_pos Hl).
  Qed.

  Lemma page_step : forall rest,
    match results_page (takeN eff rest) o (fun k o => (o, k)) with
    | Ok p =>
        items p = takeN eff rest /\ page_ok p /\
        match next_page p with
        | None => rest = []
        | Some t => exists its' k', takeN eff rest = its' ++ [k'] /\ serialize (o, k') = Ok t
        end
    | Err e =>
        status_of e = 500 /\
        exists its' k', takeN eff rest = its' ++ [k'] /\ serialize (o, k') = Err e
    end.
  Proof using lim_nonzero cfg_default cfg_max.
    intros rest. pose proof (results_page_rest_gen rest) as H.
    destruct (last_opt (takeN eff rest)) as [k'|].
    - destruct H as (its' & Hits & H).
      destruct (serialize (o, k')) as [t|e] eqn:Es; rewrite H.
      + cbn [items next_page]. split; [reflexivity|]. split.
        * unfold page_ok. cbn [items next_page]. split; [rewrite takeN_length; apply N.le_min_l|].
          split; [discriminate|]. intros E. rewrite E in Hits. destruct its'; discriminate.
        * exists its', k'. auto.
      + split; [eapply serialize_failure_500; eauto|]. exists its', k'. auto.
    - destruct H as [-> ->]. cbn [items next_page takeN]. split; [reflexivity|].
      split; [|reflexivity]. unfold page_ok. cbn [items next_page length]. split; [apply N.le_0_l|tauto].
  Qed.

  Lemma scan_from_token_gen : forall fuel rest pre k t o0,
    v = pre ++ k :: rest -> serialize (o, k) = Ok t ->
    outcome_ok rest (scan fuel o0 lim (Some t)).
  Proof using env_round_trip env_bytes coll_sorted lim_nonzero cfg_default cfg_max.
    induction fuel as [|f IH]; intros rest pre k t o0 Hv Hs; [exact I|].
    cbn [Pagination.scan Pagination.request].
    rewrite (token_round_trip sel env_ser env_de env_round_trip env_bytes _ _ Hs).
    cbn [Pagination.handler]. unfold page_items. fold v. fold eff.
    rewrite (filter_after_split o v pre k rest v_sorted Hv).
    pose proof (page_step rest) as Hp.
    pose proof (take_drop rest eff) as Htd.
    destruct (results_page (takeN eff rest) o (fun k0 o1 => (o1, k0))) as [p|e].
    - destruct Hp as (Hi & Hok & Hn).
      destruct (next_page p) as [t'|] eqn:En.
      + destruct Hn as (its' & k' & Hits & Hs').
        rewrite <- Htd, <- Hi.
        apply outcome_cons; [|exact Hok|rewrite En; discriminate].
        apply (IH (dropN eff rest) (pre ++ k :: its') k' t' o0); [|exact Hs'].
        rewrite Hv. rewrite <- app_assoc. cbn [app]. f_equal. f_equal.
        rewrite <- Htd at 1. rewrite Hits, <- app_assoc. reflexivity.
      + cbn [outcome_ok map concat]. rewrite app_nil_r, Hi, Hn. cbn [takeN].
        split; [reflexivity|]. constructor; [exact Hok|constructor].
    - destruct Hp as (H5 & its' & k' & Hits & He).
      cbn [outcome_ok map concat app]. split; [exact H5|]. split; [constructor|].
      split; [intros q []|].
      exists its', k', (dropN eff rest). split.
      + rewrite <- Htd at 1. rewrite Hits, <- app_assoc. reflexivity.
      + split; [|exact He]. rewrite <- Hits, takeN_length. apply N.le_min_l.
  Qed.

  Lemma full_scan_gen : forall fuel, outcome_ok v (full_scan fuel o lim).
  Proof using env_round_trip env_bytes coll_sorted lim_nonzero cfg_default cfg_max.
    intros [|f]; [exact I|]. unfold Pagination.full_scan.
    cbn [Pagination.scan Pagination.request Pagination.handler].
    unfold page_items. fold v. fold eff.
    replace (filter (after o None) v) with v
      by (symmetry; apply filter_all; reflexivity).
    pose proof (page_step v) as Hp.
    pose proof (take_drop v eff) as Htd.
    destruct (results_page (takeN eff v) o (fun k0 o1 => (o1, k0))) as [p|e].
    - destruct Hp as (Hi & Hok & Hn).
      destruct (next_page p) as [t'|] eqn:En.
      + destruct Hn as (its' & k' & Hits & Hs').
        rewrite <- Htd at 1. rewrite <- Hi.
        apply outcome_cons; [|exact Hok|rewrite En; discriminate].
        apply (scan_from_token_gen f (dropN eff v) its' k' t' o); [|exact Hs'].
        rewrite <- Htd at 1. rewrite Hits, <- app_assoc. reflexivity.
      + cbn [outcome_ok map concat]. rewrite app_nil_r, Hi, Hn. cbn [takeN].
        split; [reflexivity|]. constructor; [exact Hok|constructor].
    - destruct Hp as (H5 & its' & k' & Hits & He).
      cbn [outcome_ok map concat app]. split; [exact H5|]. split; [constructor|].
      split; [intros q []|].
      exists its', k', (dropN eff v). split.
      + rewrite <- Htd at 1. rewrite Hits, <- app_assoc. reflexivity.
      + split; [|exact He]. rewrite <- Hits, takeN_length. apply N.le_min_l.
  Qed.

  (* Whatever the sizes of the tokens: a scan that ends (a page without
     token) has delivered every item exactly once, in order — it is never
     cut short silently. *)
  Theorem scan_done_is_complete : forall fuel pages,
    full_scan fuel o lim = Done pages ->
    concat (map items pages) = view o coll /\
    (forall p, In p pages ->
       N.of_nat (length (items p)) <= page_limit lim max default /\
       (next_page p = None <-> items p = [])).
  Proof using env_round_trip env_bytes coll_sorted lim_nonzero cfg_default cfg_max.
    intros fuel pages H. pose proof (full_scan_gen fuel) as Ho. rewrite H in Ho.
    destruct Ho as [Hc Hf]. split; [exact Hc|].
    rewrite Forall_forall in Hf. intros p Hp. apply (Hf p Hp).
  Qed.

  (* ... and the only other way it stops is an explicit 500 for the request
     whose page would end on an item whose token cannot be issued; every
     earlier page was delivered intact, with its token *)
  Theorem scan_failure_is_explicit : forall fuel e pages,
    full_scan fuel o lim = Failed e pages ->
    status_of e = 500 /\
    (forall p, In p pages ->
       N.of_nat (length (items p)) <= page_limit lim max default /\
       items p <> [] /\ next_page p <> None) /\
    exists its' k' tail,
      view o coll = concat (map items pages) ++ its' ++ k' :: tail /\
      N.of_nat (length (its' ++ [k'])) <= page_limit lim max default /\
      serialize (o, k') = Err e.
  Proof using env_round_trip env_bytes coll_sorted lim_nonzero cfg_default cfg_max.
    intros fuel e pages H. pose proof (full_scan_gen fuel) as Ho. rewrite H in Ho.
    destruct Ho as (H5 & Hf & Hnn & Hex). split; [exact H5|]. split; [|exact Hex].
    rewrite Forall_forall in Hf. intros p Hp. destruct (Hf p Hp) as [Hl Hiff].
    split; [exact Hl|]. split; [|apply Hnn, Hp].
    intros E. apply Hiff in E. exact (Hnn p Hp E).
  Qed.

  (* ---------------------------------------------------------------- *)
  (* the threaded scan is the scan                                     *)
  (* ---------------------------------------------------------------- *)

  Lemma chunk_scan_from_token : forall fuel rest pre k t o0,
    v = pre ++ k :: rest -> serialize (o, k) = Ok t ->
    scan fuel o0 lim (Some t) = chunk_scan env_ser max default fuel o lim rest.
  Proof using env_round_trip env_bytes coll_sorted lim_nonzero cfg_default cfg_max.
    induction fuel as [|f IH]; intros rest pre k t o0 Hv Hs; [reflexivity|].
    cbn [Pagination.scan Pagination.request Pagination.chunk_scan].
    rewrite (token_round_trip sel env_ser env_de env_round_trip env_bytes _ _ Hs).
    cbn [Pagination.handler]. unfold page_items. fold v. fold eff.
    rewrite (filter_after_split o v pre k rest v_sorted Hv).
    pose proof (page_step rest) as Hp.
    pose proof (take_drop rest eff) as Htd.
    destruct (results_page (takeN eff rest) o (fun k0 o1 => (o1, k0))) as [p|e]; [|reflexivity].
    destruct Hp as (Hi & Hok & Hn).
    destruct (next_page p) as [t'|]; [|reflexivity].
    destruct Hn as (its' & k' & Hits & Hs').
    f_equal. apply (IH (dropN eff rest) (pre ++ k :: its') k' t' o0); [|exact Hs'].
    rewrite Hv. rewrite <- app_assoc. cbn [app]. f_equal. f_equal.
    rewrite <- Htd at 1. rewrite Hits, <- app_assoc. reflexivity.
  Qed.

  Theorem fast_scan_is_scan : forall fuel,
    full_scan fuel o lim = fast_scan env_ser max default coll fuel o lim.
  Proof using env_round_trip env_bytes coll_sorted lim_nonzero cfg_default cfg_max.
    intros [|f]; [reflexivity|]. unfold Pagination.full_scan, Pagination.fast_scan.
    cbn [Pagination.scan Pagination.request Pagination.handler Pagination.chunk_scan].
    unfold page_items. fold v. fold eff.
    replace (filter (after o None) v) with v
      by (symmetry; apply filter_all; reflexivity).
    pose proof (page_step v) as Hp.
    pose proof (take_drop v eff) as Htd.
    destruct (results_page (takeN eff v) o (fun k0 o1 => (o1, k0))) as [p|e]; [|reflexivity].
    destruct Hp as (Hi & Hok & Hn).
    destruct (next_page p) as [t'|]; [|reflexivity].
    destruct Hn as (its' & k' & Hits & Hs').
    f_equal. apply (chunk_scan_from_token f (dropN eff v) its' k' t' o); [|exact Hs'].
    rewrite <- Htd at 1. rewrite Hits, <- app_assoc. reflexivity.
  Qed.
End ScanProofs.
