(* ConnProofs.v — theorems about Conn.v: totality and status class of
   dropshot's response function, locality of everything that happens on one
   connection, tolerance of the accept loop. *)
From DS Require Import Base Conn.
From Coq Require Import Lia ZifyBool.

(* ================================================================== *)
(* 1. respond                                                           *)
(* ================================================================== *)

Lemma run_handler_mode_independent h :
  run_handler Detached h = run_handler CancelOnDisconnect h.
Proof. destruct h; reflexivity. Qed.

Lemma respond_mode_independent a : respond Detached a = respond CancelOnDisconnect a.
Proof.
  unfold respond. rewrite run_handler_mode_independent. reflexivity.
Qed.

(* a malformed request never reaches the handler: dropshot itself answers, 4xx *)
Lemma malformed_is_refused m a :
  malformed a = true ->
  exists s, respond m a = Resp s true /\ 400 <= s < 500.
Proof.
  unfold malformed, respond. intros H.
  destruct (a_version a); cbn [negb]; [|exists 400; split; [reflexivity|lia]].
  destruct (a_path a); cbn [negb]; [|exists 400; split; [reflexivity|lia]].
  destruct (a_route a).
  - cbn [negb orb] in H.
    destruct (forallb (fun ok => ok) (a_shared a)); cbn [negb orb] in *;
      [|exists 400; split; [reflexivity|lia]].
    rewrite H. exists 400; split; [reflexivity|lia].
  - exists 404; split; [reflexivity|lia].
  - exists 405; split; [reflexivity|lia].
Qed.

(* a request that is well formed and routed gets what its handler produces *)
Lemma wellformed_reaches_handler m a :
  malformed a = false -> a_route a = RouteFound ->
  respond m a = run_handler m (a_handler a).
Proof.
  unfold malformed, respond. intros H Hr. rewrite Hr.
  apply orb_false_iff in H as [H Hb]. apply orb_false_iff in H as [H Hs].
  apply orb_false_iff in H as [Hv Hp].
  rewrite Hv, Hp, Hs, Hb. reflexivity.
Qed.

(* totality: a status in 100..599 (4xx when dropshot itself made the
   response) or a panic of the handler, and nothing else *)
Lemma respond_total m a :
  handler_wf (a_handler a) = true ->
  (exists s fw, respond m a = Resp s fw /\ 100 <= s < 600 /\
                (fw = true -> 400 <= s < 500) /\
                (malformed a = true -> fw = true)) \/
  (respond m a = ConnPanic /\ a_handler a = HPanic /\ malformed a = false
   /\ a_route a = RouteFound).
Proof.
  intros Hwf. destruct (malformed a) eqn:Hm.
  - left. destruct (malformed_is_refused m a Hm) as (s & Hs & Hr).
    exists s, true. repeat split; auto; lia.
  - destruct (a_route a) eqn:Hr.
    + rewrite (wellformed_reaches_handler m a Hm Hr).
      destruct (a_handler a) as [s|s|] eqn:Hh; cbn [handler_wf] in Hwf.
      * left. exists s, false. destruct m; cbn [run_handler];
          repeat split; try discriminate; lia.
      * left. exists s, false. destruct m; cbn [run_handler];
          repeat split; try discriminate; lia.
      * right. destruct m; cbn [run_handler]; auto.
    + left. exists 404, true. unfold malformed in Hm. unfold respond.
      apply orb_false_iff in Hm as [H _]. apply orb_false_iff in H as [H _].
      apply orb_false_iff in H as [Hv Hp]. rewrite Hv, Hp, Hr.
      repeat split; try discriminate; lia.
    + left. exists 405, true. unfold malformed in Hm. unfold respond.
      apply orb_false_iff in Hm as [H _]. apply orb_false_iff in H as [H _].
      apply orb_false_iff in H as [Hv Hp]. rewrite Hv, Hp, Hr.
      repeat split; try discriminate; lia.
Qed.

(* K18: outside the class (invalid body framing that nobody reads) a request
   that is malformed on the wire is refused ... *)
Lemma wire_malformed_refused_outside_k18 m fr a :
  framing_consistent fr a = true -> k18_class fr a = false ->
  wire_malformed fr a = true ->
  exists s, respond m a = Resp s true /\ 400 <= s < 500.
Proof.
  unfold wire_malformed, k18_class, framing_consistent. intros Hc Hk Hw.
  apply malformed_is_refused.
  destruct (malformed a) eqn:Hm; [reflexivity|]. cbn [orb] in Hw.
  apply negb_true_iff in Hw. subst fr. cbn [negb andb] in Hk.
  apply negb_false_iff in Hk.
  unfold malformed in Hm. apply orb_false_iff in Hm as [_ Hb]. apply negb_false_iff in Hb.
  destruct (a_body a) as [|f c s0 k mm p|f c| | |]; cbn [extractor_reads_body] in Hk; try discriminate.
  - apply Bool.eqb_prop in Hc. subst f. cbn [body_ok andb] in Hb. discriminate.
  - apply Bool.eqb_prop in Hc. subst f. cbn [body_ok andb] in Hb. discriminate.
Qed.

(* ... and inside it is not: the handler runs and its 200 is sent *)
Lemma k18_refuted m :
  exists fr a, framing_consistent fr a = true /\ handler_wf (a_handler a) = true /\
               wire_malformed fr a = true /\ respond m a = Resp 200 false.
Proof.
  exists false, (AR true true RouteFound [] BNone (HOk 200)).
  destruct m; repeat split.
Qed.

(* ================================================================== *)
(* 2. one connection                                                    *)
(* ================================================================== *)

Section ConnProofs.
  Variable req : Type.
  Variable parse_all : list N -> list req * tail.
  Variable respond_req : req -> outcome.

  Notation serve := (serve req respond_req).
  Notation conn_step := (conn_step req parse_all respond_req).
  Notation srv_step := (srv_step req parse_all respond_req).
  Notation srv_run := (srv_run req parse_all respond_req).

  Definition sent_of (c : cstate) : list N :=
    match c with Open _ s => s | Closed s => s end.

  Lemma serve_extends rs : forall sent, exists more, fst (serve rs sent) = sent ++ more.
  Proof.
    induction rs as [|r rs IH]; intros sent; cbn [serve].
    - exists []. rewrite app_nil_r. reflexivity.
    - destruct (respond_req r) as [s fw|].
      + destruct (IH (sent ++ [s])) as [more Hm]. exists (s :: more).
        rewrite Hm, <- app_assoc. reflexivity.
      + exists []. rewrite app_nil_r. reflexivity.
  Qed.

  (* what has been written on a connection is never retracted *)
  Lemma conn_step_extends c e : exists more, sent_of (conn_step c e) = sent_of c ++ more.
  Proof.
    destruct c as [buf sent|sent]; cbn [conn_step sent_of].
    2:{ exists []; rewrite app_nil_r; reflexivity. }
    destruct e; cbn [sent_of]; try (exists []; rewrite app_nil_r; reflexivity).
    destruct (parse_all (buf ++ bs)) as [rs t].
    destruct (serve_extends rs sent) as [more Hm].
    destruct (serve rs sent) as [sent' p]. cbn [fst] in Hm. subst sent'.
    destruct p; cbn [sent_of]; [exists more; reflexivity|].
    destruct t as [rest|[st|]]; cbn [sent_of].
    - exists more; reflexivity.
    - exists (more ++ [st]). rewrite app_assoc. reflexivity.
    - exists more; reflexivity.
  Qed.

  Lemma closed_is_final sent e : conn_step (Closed sent) e = Closed sent.
  Proof. reflexivity. Qed.

  (* a panicking handler: the responses before it stand, the connection's
     task ends, nothing else is written *)
  Lemma panic_closes_connection buf sent bs r t :
    parse_all (buf ++ bs) = ([r], t) -> respond_req r = ConnPanic ->
    conn_step (Open buf sent) (Bytes bs) = Closed sent.
  Proof.
    intros Hp Hr. cbn [conn_step]. rewrite Hp. cbn [Conn.serve]. rewrite Hr. reflexivity.
  Qed.

  (* a complete well-formed request on a fresh connection is answered *)
  Lemma request_answered bs r st fw :
    parse_all bs = ([r], TIncomplete []) -> respond_req r = Resp st fw ->
    conn_step (Open [] []) (Bytes bs) = Open [] [st].
  Proof.
    intros Hp Hr. cbn [conn_step app]. rewrite Hp. cbn [Conn.serve]. rewrite Hr. reflexivity.
  Qed.

  (* ================================================================ *)
  (* 3. locality                                                       *)
  (* ================================================================ *)

  Lemma lookup_update_other a b f l : a <> b -> lookup b (update a f l) = lookup b l.
  Proof.
    intros Hab. induction l as [|[k v] l IH]; cbn [update lookup]; auto.
    destruct (k =? a) eqn:Ea; cbn [lookup].
    - apply N.eqb_eq in Ea. subst k.
      destruct (a =? b) eqn:Eb; auto. apply N.eqb_eq in Eb. congruence.
    - destruct (k =? b); auto.
  Qed.

  Lemma lookup_update_same a f l : lookup a (update a f l) = option_map f (lookup a l).
  Proof.
    induction l as [|[k v] l IH]; cbn [update lookup option_map]; auto.
    destruct (k =? a) eqn:Ea; cbn [lookup]; rewrite Ea; auto.
  Qed.

  Lemma existsb_remove_other a c l :
    a <> c -> existsb (N.eqb c) (remove_cid a l) = existsb (N.eqb c) l.
  Proof.
    intros Hac. induction l as [|k l IH]; cbn [remove_cid existsb]; auto.
    destruct (k =? a) eqn:Ea.
    - apply N.eqb_eq in Ea. subst k. rewrite IH.
      destruct (c =? a) eqn:Ec; auto. apply N.eqb_eq in Ec. congruence.
    - cbn [existsb]. rewrite IH. reflexivity.
  Qed.

  (* An event on connection a — bytes, truncation, abort, whatever the parser
     and the handler make of it, a panic included — leaves every other
     connection, the accept loop and the negotiations in flight unchanged. *)
  Theorem faults_are_local s a e b :
    a <> b ->
    let s' := srv_step s (OnConn a e) in
    lookup b (s_conns s') = lookup b (s_conns s) /\
    s_loop s' = s_loop s /\ s_pending s' = s_pending s /\ s_tls s' = s_tls s.
  Proof.
    intros Hab. cbn [Conn.srv_step s_conns s_loop s_pending s_tls].
    rewrite lookup_update_other by auto. auto.
  Qed.

  (* the same for every event that is foreign to connection c *)
  Lemma foreign_step c s e :
    foreign c e = true ->
    let s' := srv_step s e in
    lookup c (s_conns s') = lookup c (s_conns s) /\
    s_loop s' = s_loop s /\ s_tls s' = s_tls s /\
    existsb (N.eqb c) (s_pending s') = existsb (N.eqb c) (s_pending s).
  Proof.
    intros Hf. destruct e as [le|a ev].
    - cbn [Conn.srv_step]. destruct (s_loop s) eqn:Hl; [|auto].
      destruct le as [[a|k]|a ok|]; cbn [foreign] in Hf.
      + apply negb_true_iff, N.eqb_neq in Hf.
        destruct (s_tls s) eqn:Ht.
        * cbn [s_conns s_loop s_tls s_pending existsb].
          replace (c =? a) with false by (symmetry; apply N.eqb_neq; congruence). auto.
        * unfold spawn. cbn [s_conns s_loop s_tls s_pending lookup].
          replace (a =? c) with false by (symmetry; apply N.eqb_neq; congruence). auto.
      + destruct (accept_error k); cbn [s_conns s_loop s_tls s_pending]; auto.
      + apply negb_true_iff, N.eqb_neq in Hf.
        destruct (existsb (N.eqb a) (s_pending s)); [|auto].
        destruct ok; unfold spawn; cbn [s_conns s_loop s_tls s_pending lookup].
        * replace (a =? c) with false by (symmetry; apply N.eqb_neq; congruence).
          rewrite existsb_remove_other by auto. auto.
        * rewrite existsb_remove_other by auto. auto.
      + discriminate.
    - cbn [foreign] in Hf. apply negb_true_iff, N.eqb_neq in Hf.
      destruct (faults_are_local s a ev c Hf) as (H1 & H2 & H3 & H4).
      cbv zeta in *. rewrite H1, H2, H3, H4. auto.
  Qed.

  Lemma foreign_run c fs : forall s,
    forallb (foreign c) fs = true ->
    let s' := srv_run fs s in
    lookup c (s_conns s') = lookup c (s_conns s) /\
    s_loop s' = s_loop s /\ s_tls s' = s_tls s /\
    existsb (N.eqb c) (s_pending s') = existsb (N.eqb c) (s_pending s).
  Proof.
    induction fs as [|e fs IH]; intros s Hf; cbn [Conn.srv_run fold_left]; auto.
    cbn [forallb] in Hf. apply andb_true_iff in Hf as [He Hfs].
    destruct (foreign_step c s e He) as (A1 & A2 & A3 & A4).
    destruct (IH (srv_step s e) Hfs) as (B1 & B2 & B3 & B4).
    cbv zeta in *. unfold Conn.srv_run in *.
    rewrite B1, B2, B3, B4, A1, A2, A3, A4. auto.
  Qed.

  (* opening a connection and sending on it, while the loop is accepting *)
  Lemma open_and_send_result s c bs :
    s_loop s = Accepting ->
    lookup c (s_conns (srv_run (open_and_send (s_tls s) c bs) s))
    = Some (conn_step (Open [] []) (Bytes bs)).
  Proof.
    intros Hl. unfold open_and_send, Conn.srv_run.
    destruct (s_tls s) eqn:Ht; cbn [fold_left Conn.srv_step]; rewrite Hl, Ht.
    - cbn [s_loop s_pending existsb]. rewrite N.eqb_refl. cbn [orb].
      unfold spawn. cbn [s_conns s_tls s_loop s_pending update lookup].
      rewrite N.eqb_refl. cbn [lookup]. rewrite N.eqb_refl. reflexivity.
    - unfold spawn. cbn [s_conns s_tls s_loop s_pending update lookup].
      rewrite N.eqb_refl. cbn [lookup]. rewrite N.eqb_refl. reflexivity.
  Qed.

  (* After ANY finite sequence of events on other connections (faults of every
     kind, accept errors, failed TLS negotiations), a client that opens a new
     connection and sends [bs] is served exactly as on an idle server. *)
  Theorem fresh_connection_unaffected tls fs c bs :
    forallb (foreign c) fs = true ->
    lookup c (s_conns (srv_run (fs ++ open_and_send tls c bs) (srv_init tls)))
    = lookup c (s_conns (srv_run (open_and_send tls c bs) (srv_init tls))).
  Proof.
    intros Hf. unfold Conn.srv_run at 1. rewrite fold_left_app.
    fold (srv_run fs (srv_init tls)).
    destruct (foreign_run c fs (srv_init tls) Hf) as (_ & Hl & Ht & _). cbv zeta in *.
    cbn [srv_init s_loop s_tls] in Hl, Ht.
    pose proof (open_and_send_result (srv_run fs (srv_init tls)) c bs Hl) as H1.
    rewrite Ht in H1. unfold Conn.srv_run in H1 at 1. rewrite H1.
    pose proof (open_and_send_result (srv_init tls) c bs eq_refl) as H2.
    cbn [srv_init s_tls] in H2. rewrite H2. reflexivity.
  Qed.

  (* ... hence a well-formed request is answered *)
  Corollary wellformed_request_answered_after_faults tls fs c bs r st fw :
    forallb (foreign c) fs = true ->
    parse_all bs = ([r], TIncomplete []) -> respond_req r = Resp st fw ->
    lookup c (s_conns (srv_run (fs ++ open_and_send tls c bs) (srv_init tls)))
    = Some (Open [] [st]).
  Proof.
    intros Hf Hp Hr. rewrite fresh_connection_unaffected by auto.
    pose proof (open_and_send_result (srv_init tls) c bs eq_refl) as H.
    cbn [srv_init s_tls] in H. rewrite H.
    rewrite (request_answered bs r st fw Hp Hr). reflexivity.
  Qed.

  (* ================================================================ *)
  (* 4. the accept loop                                                *)
  (* ================================================================ *)

  Definition is_shutdown (e : sevent) : bool :=
    match e with Loop Shutdown => true | _ => false end.

  Lemma step_keeps_accepting s e :
    s_loop s = Accepting -> is_shutdown e = false -> s_loop (srv_step s e) = Accepting.
  Proof.
    intros Hl Hs. destruct e as [le|a ev]; cbn [Conn.srv_step]; [|exact Hl].
    rewrite Hl. destruct le as [[a|k]|a ok|]; try discriminate.
    - destruct (s_tls s); [reflexivity|exact Hl].
    - destruct (accept_error k); [exact Hl|reflexivity].
    - destruct (existsb (N.eqb a) (s_pending s)); [|exact Hl]. destruct ok; reflexivity.
  Qed.

  (* Whatever accept(2) returns, in whatever order — sockets, the three
     ignored error kinds, any other error (sleep and retry) — and however TLS
     negotiations end, the loop keeps accepting: only the shutdown signal
     ends it. *)
  Theorem accept_loop_total es : forall s,
    s_loop s = Accepting -> forallb (fun e => negb (is_shutdown e)) es = true ->
    s_loop (srv_run es s) = Accepting.
  Proof.
    induction es as [|e es IH]; intros s Hl Hes; cbn [Conn.srv_run fold_left]; auto.
    cbn [forallb] in Hes. apply andb_true_iff in Hes as [He Hes].
    apply negb_true_iff in He. apply IH; auto. apply step_keeps_accepting; auto.
  Qed.

  Definition has (c : cid) (l : list (cid * cstate)) : bool :=
    match lookup c l with Some _ => true | None => false end.

  Lemma has_update c a f l : has c (update a f l) = has c l.
  Proof.
    unfold has. destruct (N.eq_dec a c) as [->|Hne].
    - rewrite lookup_update_same. destruct (lookup c l); reflexivity.
    - rewrite lookup_update_other by auto. reflexivity.
  Qed.

  Lemma has_step c s e : has c (s_conns s) = true -> has c (s_conns (srv_step s e)) = true.
  Proof.
    intros H. destruct e as [le|a ev]; cbn [Conn.srv_step].
    2:{ cbn [s_conns]. rewrite has_update. exact H. }
    destruct (s_loop s); [|exact H].
    assert (Hsp : forall a s0, has c (s_conns s0) = true -> has c (s_conns (spawn a s0)) = true).
    { intros a s0 H0. unfold spawn, has in *. cbn [s_conns lookup]. destruct (a =? c); auto. }
    destruct le as [[a|k]|a ok|]; cbn [s_conns]; auto.
    - destruct (s_tls s); [exact H|apply Hsp, H].
    - destruct (accept_error k); exact H.
    - destruct (existsb (N.eqb a) (s_pending s)); [|exact H].
      destruct ok; [apply Hsp|]; exact H.
  Qed.

  Lemma has_run c es : forall s, has c (s_conns s) = true -> has c (s_conns (srv_run es s)) = true.
  Proof.
    induction es as [|e es IH]; intros s H; cbn [Conn.srv_run fold_left]; auto.
    apply IH, has_step, H.
  Qed.

  (* on the plain-HTTP listener every socket accept(2) hands over gets its
     connection task, whatever errors surround it in the result sequence *)
  Theorem every_accepted_socket_is_served (rs : list (res errkind cid)) c :
    In (Ok c) rs ->
    has c (s_conns (srv_run (map (fun r => Loop (AcceptResult r)) rs) (srv_init false))) = true.
  Proof.
    intros Hin.
    assert (G : forall s, s_loop s = Accepting -> s_tls s = false ->
                has c (s_conns (srv_run (map (fun r => Loop (AcceptResult r)) rs) s)) = true).
    { induction rs as [|r rs IH]; [destruct Hin|].
      intros s Hl Ht. cbn [map Conn.srv_run fold_left].
      destruct Hin as [->|Hin].
      - apply has_run. cbn [Conn.srv_step]. rewrite Hl, Ht. unfold spawn, has.
        cbn [s_conns lookup]. rewrite N.eqb_refl. reflexivity.
      - apply IH; auto.
        + apply step_keeps_accepting; auto.
        + cbn [Conn.srv_step]. rewrite Hl. destruct r as [a|k].
          * rewrite Ht. exact Ht.
          * destruct (accept_error k); exact Ht. }
    apply G; reflexivity.
  Qed.
End ConnProofs.
