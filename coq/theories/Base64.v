(* Base64.v — executable model of strict RFC 4648 base64 with '=' padding, as
   implemented by the Rust [base64] 0.22.1 crate's
   [engine::general_purpose::URL_SAFE] and [STANDARD] engines (both built from
   the [PAD] config: encode_padding = true, decode_allow_trailing_bits = false,
   decode_padding_mode = RequireCanonical).

   dropshot uses URL_SAFE for page tokens (pagination.rs:
   [serialize_page_token] / [deserialize_page_token]) and STANDARD for the
   websocket accept key (websocket.rs).

   Definitions only; proofs are in Base64Proofs.v. *)
From DS Require Import Base.

Inductive alphabet := UrlSafe | Standard.

(* '=' *)
Definition pad_char : N := 61.

(* sextet (< 64) -> ASCII code.
     0..25  -> 'A'..'Z' (65..90)
     26..51 -> 'a'..'z' (97..122)
     52..61 -> '0'..'9' (48..57)
     62     -> '-' (45) url-safe | '+' (43) standard
     63     -> '_' (95) url-safe | '/' (47) standard
   (Out-of-range sextets fall in the last branch; they never arise from
   well-formed bytes.) *)
Definition enc_char (al : alphabet) (sextet : N) : N :=
  if sextet <? 26 then sextet + 65
  else if sextet <? 52 then sextet + 71
  else if sextet <? 62 then sextet - 4
  else if sextet =? 62 then match al with UrlSafe => 45 | Standard => 43 end
  else match al with UrlSafe => 95 | Standard => 47 end.

(* ASCII code -> sextet; [None] if the character is not one of the 64
   alphabet characters.  In particular '=' is not in the alphabet. *)
Definition dec_char (al : alphabet) (c : N) : option N :=
  if (65 <=? c) && (c <=? 90) then Some (c - 65)
  else if (97 <=? c) && (c <=? 122) then Some (c - 71)
  else if (48 <=? c) && (c <=? 57) then Some (c + 4)
  else match al with
       | UrlSafe =>
           if c =? 45 then Some 62 else if c =? 95 then Some 63 else None
       | Standard =>
           if c =? 43 then Some 62 else if c =? 47 then Some 63 else None
       end.

(* A character that may legally occur somewhere in a padded token. *)
Definition is_b64_char (al : alphabet) (c : N) : bool :=
  match dec_char al c with
  | Some _ => true
  | None => c =? pad_char
  end.

(* 3 bytes -> 4 characters; a final group of 1 or 2 bytes is zero-extended
   and padded with '='. *)
Fixpoint b64_encode (al : alphabet) (bs : list N) : str :=
  match bs with
  | [] => []
  | [a] =>
      [enc_char al (a / 4); enc_char al ((a mod 4) * 16); pad_char; pad_char]
  | [a; b] =>
      [enc_char al (a / 4); enc_char al ((a mod 4) * 16 + b / 16);
       enc_char al ((b mod 16) * 4); pad_char]
  | a :: b :: c :: rest =>
      enc_char al (a / 4)
        :: enc_char al ((a mod 4) * 16 + b / 16)
        :: enc_char al ((b mod 16) * 4 + c / 64)
        :: enc_char al (c mod 64)
        :: b64_encode al rest
  end.

(* A quad of four alphabet characters (no padding) -> 3 bytes. *)
Definition dec_quad (al : alphabet) (c1 c2 c3 c4 : N) : option (list N) :=
  match dec_char al c1, dec_char al c2, dec_char al c3, dec_char al c4 with
  | Some s1, Some s2, Some s3, Some s4 =>
      Some [s1 * 4 + s2 / 16; (s2 mod 16) * 16 + s3 / 4; (s3 mod 4) * 64 + s4]
  | _, _, _, _ => None
  end.

(* The final quad: "xx==", "xxx=" or "xxxx".  Padding is only recognised
   here, only as a suffix of the quad, and the bits of the last sextet that do
   not contribute to an output byte must be zero
   (decode_allow_trailing_bits = false). *)
Definition dec_last (al : alphabet) (c1 c2 c3 c4 : N) : option (list N) :=
  if c4 =? pad_char then
    if c3 =? pad_char then
      match dec_char al c1, dec_char al c2 with
      | Some s1, Some s2 =>
          if s2 mod 16 =? 0 then Some [s1 * 4 + s2 / 16] else None
      | _, _ => None
      end
    else
      match dec_char al c1, dec_char al c2, dec_char al c3 with
      | Some s1, Some s2, Some s3 =>
          if s3 mod 4 =? 0
          then Some [s1 * 4 + s2 / 16; (s2 mod 16) * 16 + s3 / 4]
          else None
      | _, _, _ => None
      end
  else dec_quad al c1 c2 c3 c4.

(* Strict decoding: length a multiple of 4 (the empty token decodes to the
   empty byte string), alphabet characters only, canonical padding only in the
   last quad, zero trailing bits. *)
Fixpoint b64_decode (al : alphabet) (t : str) : option (list N) :=
  match t with
  | [] => Some []
  | c1 :: c2 :: c3 :: c4 :: rest =>
      match rest with
      | [] => dec_last al c1 c2 c3 c4
      | _ :: _ =>
          match dec_quad al c1 c2 c3 c4, b64_decode al rest with
          | Some x, Some y => Some (x ++ y)
          | _, _ => None
          end
      end
  | _ => None
  end.
