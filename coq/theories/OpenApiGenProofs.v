(* OpenApiGenProofs.v — the operations of the document for version v are
   exactly the published endpoints served at v. *)
From DS Require Import Base Versions VersionsProofs Router RouterSpec RouterProofs OpenApiGen.

Scheme node_mut := Induction for node Sort Prop
  with edges_mut := Induction for edges Sort Prop
  with children_mut := Induction for children Sort Prop.
Combined Scheme trie_mutind from node_mut, edges_mut, children_mut.

Section DP.
  Variable V : Type.
  Variable cmp : V -> V -> comparison.
  Notation endpoint := (endpoint V).
  Notation decl := (decl V).

  Definition iter_item (rpath : list pseg) (v : option V) (x : list pseg * str * endpoint) (d : decl) : Prop :=
    snd x = snd d /\ fst (fst x) = rev rpath ++ undoc (fst d) /\
    snd (fst x) = str_upper (e_method (snd d)) /\
    vmatches V cmp (e_versions (snd d)) v = true.

  Lemma in_handlers_at ms v m h :
    In (m, h) (handlers_at V cmp ms v) <->
    exists hs, In (m, hs) ms /\ In h hs /\ vmatches V cmp (e_versions h) v = true.
  Proof.
    unfold handlers_at. rewrite in_flat_map. split.
    - intros ([k hs] & Hin & Hx). cbn [fst snd] in Hx. apply in_map_iff in Hx.
      destruct Hx as (h' & [= <- <-] & Hh). apply filter_In in Hh. exists hs. tauto.
    - intros (hs & H1 & H2 & H3). exists (m, hs). split; auto. cbn [fst snd].
      apply in_map_iff. exists h. split; auto. apply filter_In. auto.
  Qed.

  (* every item the walk yields below a node stands for a route of that node,
     and conversely *)
  Lemma iter_spec v :
    (forall n : node V, wfn V n -> forall rpath x,
        In x (iter_node V cmp n v rpath) <-> exists d, In d (routes V n) /\ iter_item rpath v x d) /\
    (forall ed : edges V, wfe V ed -> forall rpath x,
        In x (iter_edges V cmp ed v rpath) <-> exists d, In d (routes_e V ed) /\ iter_item rpath v x d) /\
    (forall cs : children V, wfc V cs -> forall rpath x,
        In x (iter_children V cmp cs v rpath) <-> exists d, In d (routes_c V cs) /\ iter_item rpath v x d).
  Proof.
    apply trie_mutind.
    - (* node *)
      intros ms ed IHe Hwf rpath x. cbn [iter_node]. destruct Hwf as (Hm & He & _).
      rewrite in_app_iff, in_map_iff, (IHe He). split.
      + intros [([m h] & <- & Hin)|(d & Hd & Hi)].
        * apply in_handlers_at in Hin. destruct Hin as (hs & H1 & H2 & H3).
          exists ([], h). split.
          -- apply in_routes_node; left. apply in_own_routes. exists m, hs; auto.
          -- unfold iter_item. cbn [fst snd undoc map]. rewrite app_nil_r. repeat split; auto.
             destruct Hm as [_ Hk]. symmetry. eapply Hk; eauto.
        * exists d. split; auto. apply in_routes_node; right; auto.
      + intros (d & Hd & Hi). apply in_routes_node in Hd. destruct Hd as [Hd|Hd].
        * left. apply in_own_routes in Hd. destruct Hd as (k & hs & H1 & H2 & H3).
          destruct x as [[t m] e]. destruct Hi as (Hs & Ht & Hmth & Hv). cbn [fst snd] in *.
          exists (m, e). split.
          -- rewrite Ht, H3. cbn [undoc map]. rewrite app_nil_r. reflexivity.
          -- apply in_handlers_at. subst e. exists hs. split; [|auto].
             destruct Hm as [_ Hk]. rewrite Hmth, (Hk _ _ _ H1 H2). exact H1.
        * right. exists d; auto.
    - (* no edges *)
      intros _ rpath x. cbn. split; [intros []|intros (d & [] & _)].
    - (* literal children *)
      intros cs IH [_ Hcs] rpath x. cbn [iter_edges routes_e]. apply IH; auto.
    - (* variable *)
      intros y c IH [Hc _] rpath x. cbn [iter_edges routes_e]. rewrite (IH Hc). split.
      + intros (d & Hd & Hi). exists (pcons V (PVar y) d). split; [apply in_map; auto|].
        destruct Hi as (H1 & H2 & H3 & H4). unfold iter_item, pcons. cbn [fst snd undoc map undoc_seg rev] in *.
        rewrite <- app_assoc in H2. auto.
      + intros (d & Hd & Hi). apply in_map_iff in Hd. destruct Hd as (d' & <- & Hd').
        exists d'. split; auto. destruct Hi as (H1 & H2 & H3 & H4).
        unfold iter_item, pcons in *. cbn [fst snd undoc map undoc_seg rev] in *.
        rewrite <- app_assoc. auto.
    - (* wildcard: shown as a variable *)
      intros y c IH (Hc & _ & _) rpath x. cbn [iter_edges routes_e]. rewrite (IH Hc). split.
      + intros (d & Hd & Hi). exists (pcons V (PWild y) d). split; [apply in_map; auto|].
        destruct Hi as (H1 & H2 & H3 & H4). unfold iter_item, pcons. cbn [fst snd undoc map undoc_seg rev] in *.
        rewrite <- app_assoc in H2. auto.
      + intros (d & Hd & Hi). apply in_map_iff in Hd. destruct Hd as (d' & <- & Hd').
        exists d'. split; auto. destruct Hi as (H1 & H2 & H3 & H4).
        unfold iter_item, pcons in *. cbn [fst snd undoc map undoc_seg rev] in *.
        rewrite <- app_assoc. auto.
    - (* no children *)
      intros _ rpath x. cbn. split; [intros []|intros (d & [] & _)].
    - (* a child and the rest *)
      intros k c IHc cs IHcs (Hc & _ & _ & Hcs) rpath x. cbn [iter_children routes_c].
      rewrite in_app_iff, (IHc Hc), (IHcs Hcs). split.
      + intros [(d & Hd & Hi)|(d & Hd & Hi)].
        * exists (pcons V (PLit k) d). split; [apply in_app_iff; left; apply in_map; auto|].
          destruct Hi as (H1 & H2 & H3 & H4). unfold iter_item, pcons. cbn [fst snd undoc map undoc_seg rev] in *.
          rewrite <- app_assoc in H2. auto.
        * exists d. split; auto. apply in_app_iff; right; auto.
      + intros (d & Hd & Hi). apply in_app_iff in Hd. destruct Hd as [Hd|Hd].
        * left. apply in_map_iff in Hd. destruct Hd as (d' & <- & Hd').
          exists d'. split; auto. destruct Hi as (H1 & H2 & H3 & H4).
          unfold iter_item, pcons in *. cbn [fst snd undoc map undoc_seg rev] in *.
          rewrite <- app_assoc. auto.
        * right. exists d; auto.
  Qed.

  (* C06.1: the document for v has one operation — under its method, path
     template and endpoint — for each published endpoint whose range contains
     v, and nothing else *)
  Theorem doc_ops_exact (eps : list decl) (r : node V) (v : V) t' m e :
    build V cmp eps = Ok r ->
    (In (t', m, e) (doc_ops V cmp r v) <->
     exists t, In (t, e) eps /\ e_visible e = true /\
               vmatches V cmp (e_versions e) (Some v) = true /\
               t' = undoc t /\ m = str_upper (e_method e)).
  Proof.
    intros Hb. pose proof (build_spec V cmp eps) as Hs. rewrite Hb in Hs. destruct Hs as (_ & Hwf & Hr).
    unfold doc_ops, iter. rewrite filter_In. cbn [snd].
    rewrite (proj1 (iter_spec (Some v)) r Hwf [] (t', m, e)). split.
    - intros [([t e'] & Hd & (H1 & H2 & H3 & H4)) Hvis]. cbn [fst snd rev app] in *. subst e'.
      exists t. rewrite <- Hr. auto.
    - intros (t & Hin & Hvis & Hv & -> & ->). split; auto.
      exists (t, e). rewrite Hr. split; auto. unfold iter_item. cbn [fst snd rev app]. auto.
  Qed.
End DP.

Section DU.
  Variable V : Type.
  Variable cmp : V -> V -> comparison.
  Variable bot : V.
  Hypothesis TO : total_order V cmp bot.
  Notation decl := (decl V).

  (* showing the wildcard as a variable cannot merge two coexisting templates *)
  Lemma undoc_compat_eq t1 : forall t2,
    tcompat t1 t2 = true -> undoc t1 = undoc t2 -> wild_only_last t1 = true -> wild_only_last t2 = true -> t1 = t2.
  Proof.
    induction t1 as [|p1 t1 IH]; intros [|p2 t2] Hc Hu W1 W2; try reflexivity; try discriminate.
    cbn [undoc map] in Hu. injection Hu as Hp Ht.
    destruct p1 as [a|x|x], p2 as [b|y|y]; cbn [undoc_seg] in Hp; try discriminate;
      cbn [tcompat] in Hc; try discriminate; injection Hp as ->.
    - rewrite str_eqb_refl in Hc. f_equal. apply IH; auto.
    - apply andb_true_iff in Hc. f_equal. apply IH; tauto.
    - cbn [wild_only_last] in W1, W2. destruct t1; [|discriminate]. destruct t2; [|discriminate]. reflexivity.
  Qed.

  (* no two operations of the document share (path template as shown, method) *)
  Theorem doc_ops_unique (eps : list decl) (r : node V) (v : V) t' m e1 e2 :
    build V cmp eps = Ok r ->
    (forall d, In d eps -> wf_range V cmp (e_versions (snd d))) ->
    In (t', m, e1) (doc_ops V cmp r v) -> In (t', m, e2) (doc_ops V cmp r v) -> e1 = e2.
  Proof.
    intros Hb Hwf H1 H2.
    apply (doc_ops_exact V cmp eps r v t' m e1 Hb) in H1. destruct H1 as (t1 & I1 & _ & V1 & -> & ->).
    apply (doc_ops_exact V cmp eps r v _ _ e2 Hb) in H2. destruct H2 as (t2 & I2 & _ & V2 & U & M).
    pose proof (build_spec V cmp eps) as Hs. rewrite Hb in Hs. destruct Hs as ([Hwt Hfop] & _ & _).
    destruct (ForallOrdPairs_In Hfop _ _ I1 I2) as [Heq|[Hc|Hc]]; [congruence| |]; exfalso.
    1: rewrite (conflicts_sym V cmp) in Hc.
    all: unfold RouterSpec.conflicts in Hc; cbn [fst snd] in Hc; apply orb_false_iff in Hc;
      destruct Hc as [Hc1 Hc2]; apply negb_false_iff in Hc1;
      rewrite Forall_forall in Hwt; pose proof (Hwt _ I1) as W1; pose proof (Hwt _ I2) as W2;
      cbn [fst] in W1, W2; unfold wf_template in W1, W2;
      apply andb_true_iff in W1; apply andb_true_iff in W2;
      assert (Ht : t1 = t2) by (apply undoc_compat_eq; tauto);
      rewrite (proj2 (tpl_eqb_eq _ _) Ht) in Hc2;
      assert (Hsm : same_method (e_method e1) (e_method e2) = true) by (apply same_method_upper; exact M);
      rewrite Hsm in Hc2; cbn [andb] in Hc2;
      pose proof (Hwf _ I1) as R1; pose proof (Hwf _ I2) as R2; cbn [snd] in R1, R2;
      rewrite (shared_overlaps V cmp bot TO _ _ v R2 R1 V2 V1) in Hc2; discriminate.
  Qed.
End DU.

Section DO.
  Variable V : Type.
  Variable cmp : V -> V -> comparison.
  Variable bot : V.
  Hypothesis TO : total_order V cmp bot.
  Notation decl := (decl V).

  (* registration order does not change which operations the document has *)
  Theorem doc_ops_order_irrelevant (eps eps' : list decl) (r r' : node V) (v : V) x :
    Permutation.Permutation eps eps' -> build V cmp eps = Ok r -> build V cmp eps' = Ok r' ->
    (In x (doc_ops V cmp r v) <-> In x (doc_ops V cmp r' v)).
  Proof.
    intros Hp Hb Hb'. destruct x as [[t' m] e].
    rewrite (doc_ops_exact V cmp eps r v t' m e Hb), (doc_ops_exact V cmp eps' r' v t' m e Hb').
    split; intros (t & Hin & H); exists t; (split; [|exact H]).
    - eapply Permutation.Permutation_in; eauto.
    - eapply Permutation.Permutation_in; [apply Permutation.Permutation_sym|]; eauto.
  Qed.

  (* an unpublished endpoint is left out of the document and still served *)
  Theorem unpublished_omitted_yet_served (eps : list decl) (r : node V) (v : V) t e :
    build V cmp eps = Ok r -> version_ok V cmp eps (Some v) ->
    In (t, e) eps -> e_visible e = false ->
    vmatches V cmp (e_versions e) (Some v) = true ->
    (forall t' m, ~ In (t', m, e) (doc_ops V cmp r v)) /\
    exists vars, lookup V cmp r (e_method e) (witness_segs t) (Some v) = Found e vars.
  Proof.
    intros Hb Hv Hin Hvis Hm. split.
    - intros t' m H. apply (doc_ops_exact V cmp eps r v t' m e Hb) in H.
      destruct H as (_ & _ & Hvis' & _). congruence.
    - eapply accepted_reachable; eauto.
  Qed.

  (* what the document shows at v is what the router serves at v *)
  Theorem documented_is_served (eps : list decl) (r : node V) (v : V) t' m e :
    build V cmp eps = Ok r -> version_ok V cmp eps (Some v) ->
    In (t', m, e) (doc_ops V cmp r v) ->
    exists t vars, t' = undoc t /\ In (t, e) eps /\
                   lookup V cmp r (e_method e) (witness_segs t) (Some v) = Found e vars.
  Proof.
    intros Hb Hv H. apply (doc_ops_exact V cmp eps r v t' m e Hb) in H.
    destruct H as (t & Hin & _ & Hm & -> & _).
    destruct (accepted_reachable V cmp bot TO eps r t e (Some v) Hb Hv Hin Hm) as [vars Hl].
    exists t, vars. auto.
  Qed.
End DO.
