(* QueryProofs.v — form-urlencoded parsing inverts every legal encoding. *)
From DS Require Import Base Utf8 Pct PctProofs Query.
From Coq Require Import ZifyBool.

(* ---------- lossy UTF-8 decoding is the identity on well-formed input ---------- *)

Lemma utf8_lossy_valid_len n : forall s,
  (length s <= n)%nat -> utf8_valid s = true -> utf8_lossy s = s.
Proof.
  induction n as [|n IH]; intros s Hlen Hv.
  - destruct s; [reflexivity|cbn [length] in Hlen; lia].
  - destruct s as [|b0 t0]; [reflexivity|].
    cbn [utf8_valid] in Hv. cbn [utf8_lossy]. cbn [length] in Hlen.
    destruct (b0 <? 128).
    { rewrite IH; [reflexivity|lia|exact Hv]. }
    destruct (in_range 194 223 b0).
    { destruct t0 as [|b1 t1]; [discriminate|].
      apply andb_true_iff in Hv as [H1 Hv]. rewrite H1.
      cbn [length] in Hlen. rewrite IH; [reflexivity|lia|exact Hv]. }
    destruct (in_range 224 239 b0).
    { destruct t0 as [|b1 [|b2 t2]]; try discriminate.
      apply andb_true_iff in Hv as [H Hv]. apply andb_true_iff in H as [H1 H2].
      rewrite H1, H2. cbn [length] in Hlen. rewrite IH; [reflexivity|lia|exact Hv]. }
    destruct (in_range 240 244 b0); [|discriminate].
    destruct t0 as [|b1 [|b2 [|b3 t3]]]; try discriminate.
    apply andb_true_iff in Hv as [H Hv]. apply andb_true_iff in H as [H H3].
    apply andb_true_iff in H as [H1 H2].
    rewrite H1, H2, H3. cbn [length] in Hlen. rewrite IH; [reflexivity|lia|exact Hv].
Qed.

Theorem utf8_lossy_valid s : utf8_valid s = true -> utf8_lossy s = s.
Proof. apply (utf8_lossy_valid_len (length s)). lia. Qed.

(* ---------- one name or value ---------- *)

Lemma hex_val_not_plus h a : hex_val h = Some a -> (h =? 43) = false.
Proof.
  unfold hex_val.
  destruct ((48 <=? h) && (h <=? 57)) eqn:E1; [lia|].
  destruct ((97 <=? h) && (h <=? 102)) eqn:E2; [lia|].
  destruct ((65 <=? h) && (h <=? 70)) eqn:E3; [lia|discriminate].
Qed.

Lemma hex_val_not_sep h a : hex_val h = Some a -> h <> 38 /\ h <> 61 /\ h <> 47.
Proof.
  unfold hex_val.
  destruct ((48 <=? h) && (h <=? 57)) eqn:E1; [lia|].
  destruct ((97 <=? h) && (h <=? 102)) eqn:E2; [lia|].
  destruct ((65 <=? h) && (h <=? 70)) eqn:E3; [lia|discriminate].
Qed.

Lemma form_enc_pct_decode s e : form_enc s e -> pct_decode (replace_plus e) = s.
Proof.
  induction 1 as [|c s e Hc _ IH|s e _ IH|c h l s e Hc Hh Hl _ IH].
  - reflexivity.
  - unfold form_literal_ok in Hc. cbn [replace_plus map].
    replace (c =? 43) with false by lia.
    rewrite pct_decode_cons_other by lia.
    fold (replace_plus e). rewrite IH. reflexivity.
  - cbn [replace_plus map]. change (43 =? 43) with true. cbn iota.
    rewrite pct_decode_cons_other by lia.
    fold (replace_plus e). rewrite IH. reflexivity.
  - cbn [replace_plus map]. change (37 =? 43) with false. cbn iota.
    rewrite (hex_val_not_plus _ _ Hh), (hex_val_not_plus _ _ Hl).
    fold (replace_plus e).
    rewrite (pct_decode_escape _ _ _ _ _ Hh Hl), IH. f_equal. lia.
Qed.

Theorem form_enc_decode s e :
  form_enc s e -> utf8_valid s = true -> form_decode e = s.
Proof.
  intros He Hv. unfold form_decode. rewrite (form_enc_pct_decode _ _ He).
  apply utf8_lossy_valid, Hv.
Qed.

Lemma form_enc_no_sep s e : form_enc s e -> ~ In 38 e /\ ~ In 61 e.
Proof.
  induction 1 as [|c s e Hc _ [IH1 IH2]|s e _ [IH1 IH2]|c h l s e Hc Hh Hl _ [IH1 IH2]];
    cbn [In].
  - tauto.
  - unfold form_literal_ok in Hc. split; intros [H|H]; try tauto; lia.
  - split; intros [H|H]; try tauto; lia.
  - pose proof (hex_val_not_sep _ _ Hh). pose proof (hex_val_not_sep _ _ Hl).
    split; intros [H1|[H1|[H1|H1]]]; try tauto; lia.
Qed.

(* ---------- splitting ---------- *)

Lemma split_first_none sep s : ~ In sep s -> split_first sep s = (s, None).
Proof.
  induction s as [|c t IH]; intros H; cbn [split_first]; [reflexivity|].
  cbn [In] in H.
  destruct (N.eqb_spec c sep) as [->|Hne]; [tauto|].
  rewrite IH by tauto. reflexivity.
Qed.

Lemma split_first_app sep a b :
  ~ In sep a -> split_first sep (a ++ sep :: b) = (a, Some b).
Proof.
  induction a as [|c t IH]; intros H; cbn [app split_first].
  - rewrite N.eqb_refl. reflexivity.
  - cbn [In] in H. destruct (N.eqb_spec c sep) as [->|Hne]; [tauto|].
    rewrite IH by tauto. reflexivity.
Qed.

Lemma split_aux_none sep s : ~ In sep s -> split_aux sep s = (s, []).
Proof.
  induction s as [|c t IH]; intros H; cbn [split_aux]; [reflexivity|].
  cbn [In] in H. rewrite IH by tauto.
  destruct (N.eqb_spec c sep) as [->|Hne]; [tauto|reflexivity].
Qed.

Lemma split_all_none sep s : ~ In sep s -> split_all sep s = [s].
Proof. intros H. unfold split_all. rewrite split_aux_none by exact H. reflexivity. Qed.

Lemma split_all_app sep a b :
  ~ In sep a -> split_all sep (a ++ sep :: b) = a :: split_all sep b.
Proof.
  unfold split_all. induction a as [|c t IH]; intros H; cbn [app split_aux].
  - destruct (split_aux sep b) as [p ps]. rewrite N.eqb_refl. reflexivity.
  - cbn [In] in H. destruct (split_aux sep (t ++ sep :: b)) as [p ps] eqn:E.
    destruct (N.eqb_spec c sep) as [->|Hne]; [tauto|].
    specialize (IH ltac:(tauto)). destruct (split_aux sep b) as [q qs].
    injection IH as -> ->. reflexivity.
Qed.

Definition piece_list (e : str) : list (str * str) :=
  if is_nil e then [] else [parse_piece e].

Lemma form_parse_single e : ~ In AMP e -> form_parse e = piece_list e.
Proof.
  intros H. unfold form_parse, piece_list. rewrite split_all_none by exact H.
  cbn [filter]. destruct e; reflexivity.
Qed.

Lemma form_parse_app e es :
  ~ In AMP e -> form_parse (e ++ AMP :: es) = piece_list e ++ form_parse es.
Proof.
  intros H. unfold form_parse, piece_list. rewrite split_all_app by exact H.
  cbn [filter]. destruct e; reflexivity.
Qed.

(* ---------- pairs and lists of pairs ---------- *)

Lemma pair_enc_shape kv e :
  pair_enc kv e -> e <> [] /\ ~ In AMP e.
Proof.
  intros H. destruct H as [k v ek ev Hk Hv|k ek Hk Hne].
  - destruct (form_enc_no_sep _ _ Hk) as [A1 _]. destruct (form_enc_no_sep _ _ Hv) as [A2 _].
    split; [destruct ek; discriminate|].
    intros Hin. apply in_app_or in Hin as [Hin|[Hin|Hin]]; [tauto|unfold EQS, AMP in Hin; lia|tauto].
  - destruct (form_enc_no_sep _ _ Hk) as [A1 _]. split; assumption.
Qed.

Lemma pair_enc_parse kv e :
  pair_enc kv e -> utf8_valid (fst kv) = true -> utf8_valid (snd kv) = true ->
  parse_piece e = kv.
Proof.
  intros H. destruct H as [k v ek ev Hk Hv|k ek Hk Hne]; cbn [fst snd]; intros Uk Uv;
    unfold parse_piece, EQS.
  - destruct (form_enc_no_sep _ _ Hk) as [_ E1].
    rewrite (split_first_app _ _ _ E1).
    rewrite (form_enc_decode _ _ Hk Uk), (form_enc_decode _ _ Hv Uv). reflexivity.
  - destruct (form_enc_no_sep _ _ Hk) as [_ E1].
    rewrite (split_first_none _ _ E1).
    rewrite (form_enc_decode _ _ Hk Uk). reflexivity.
Qed.

Definition kv_valid (kv : str * str) : Prop :=
  utf8_valid (fst kv) = true /\ utf8_valid (snd kv) = true.

(* C09 clause 3a: parsing inverts every legal encoding of a list of
   name/value strings (any Unicode, reserved characters escaped or not as the
   syntax allows, either hex case, '+' or %20 for a space, stray '&'s) *)
Theorem form_parse_enc kvs e :
  query_enc kvs e -> Forall kv_valid kvs -> form_parse e = kvs.
Proof.
  induction 1 as [|kv e Hp|kv e kvs es Hp _ IH|kvs es _ IH]; intros Hall.
  - reflexivity.
  - destruct (pair_enc_shape _ _ Hp) as [Hne Hamp].
    rewrite (form_parse_single _ Hamp). unfold piece_list.
    destruct e; [congruence|]. cbn [is_nil].
    inversion Hall as [|? ? [U1 U2] _]; subst.
    rewrite (pair_enc_parse _ _ Hp U1 U2). reflexivity.
  - destruct (pair_enc_shape _ _ Hp) as [Hne Hamp].
    rewrite (form_parse_app _ _ Hamp). unfold piece_list.
    destruct e as [|c e']; [congruence|]. cbn [is_nil app].
    inversion Hall as [|? ? [U1 U2] Hrest]; subst.
    rewrite (pair_enc_parse _ _ Hp U1 U2), (IH Hrest). reflexivity.
  - change (AMP :: es) with ([] ++ AMP :: es).
    rewrite form_parse_app by (intros []). cbn [piece_list is_nil app]. apply IH, Hall.
Qed.

(* ---------- the deterministic client encoder is one legal encoding ---------- *)

Lemma form_encode_str_enc s : bytes_ok s = true -> form_enc s (form_encode_str s).
Proof.
  induction s as [|c t IH]; intros H; cbn [form_encode_str]; [constructor|].
  unfold bytes_ok in H. cbn [forallb] in H. apply andb_true_iff in H as [Hc Ht].
  unfold byte_ok in Hc. specialize (IH Ht).
  unfold form_encode_byte.
  destruct (form_unchanged c) eqn:Hu.
  - cbn [app]. apply fe_lit; [|exact IH].
    unfold form_unchanged in Hu. unfold form_literal_ok. lia.
  - destruct (N.eqb_spec c 32) as [->|Hne]; cbn [app].
    + apply fe_plus, IH.
    + apply fe_pct; [lia| | |exact IH]; apply hex_val_upper; lia.
Qed.

Lemma encode_pair_enc kv :
  bytes_ok (fst kv) = true -> bytes_ok (snd kv) = true -> pair_enc kv (encode_pair kv).
Proof.
  destruct kv as [k v]. cbn [fst snd]. intros Hk Hv. unfold encode_pair. cbn [fst snd].
  apply pe_eq; apply form_encode_str_enc; assumption.
Qed.

Lemma form_encode_enc kvs :
  Forall (fun kv => bytes_ok (fst kv) = true /\ bytes_ok (snd kv) = true) kvs ->
  query_enc kvs (form_encode kvs).
Proof.
  unfold form_encode.
  induction kvs as [|kv kvs IH]; intros H; cbn [map join_amp]; [constructor|].
  inversion H as [|? ? [H1 H2] Hrest]; subst.
  destruct kvs as [|kv' kvs'].
  - cbn [map]. apply qe_last, encode_pair_enc; assumption.
  - change (map encode_pair (kv' :: kvs')) with (encode_pair kv' :: map encode_pair kvs').
    apply qe_cons; [apply encode_pair_enc; assumption|apply IH, Hrest].
Qed.

Theorem form_parse_encode kvs :
  Forall kv_valid kvs -> form_parse (form_encode kvs) = kvs.
Proof.
  intros H. apply form_parse_enc; [|exact H].
  apply form_encode_enc. eapply Forall_impl; [|exact H].
  intros kv [U1 U2]. split; apply utf8_valid_bytes_ok; assumption.
Qed.

(* ---------- path segments ---------- *)

Theorem seg_enc_decode s e : seg_enc s e -> pct_decode e = s.
Proof.
  induction 1 as [|c s e Hc _ IH|c h l s e Hc Hh Hl _ IH].
  - reflexivity.
  - unfold seg_literal_ok in Hc. rewrite pct_decode_cons_other by lia. rewrite IH. reflexivity.
  - rewrite (pct_decode_escape _ _ _ _ _ Hh Hl), IH. f_equal. lia.
Qed.

Lemma seg_enc_no_slash s e : seg_enc s e -> ~ In 47 e.
Proof.
  induction 1 as [|c s e Hc _ IH|c h l s e Hc Hh Hl _ IH]; cbn [In].
  - tauto.
  - unfold seg_literal_ok in Hc. intros [H|H]; [lia|tauto].
  - pose proof (hex_val_not_sep _ _ Hh). pose proof (hex_val_not_sep _ _ Hl).
    intros [H1|[H1|[H1|H1]]]; try tauto; lia.
Qed.

Lemma seg_enc_nonempty s e : seg_enc s e -> s <> [] -> e <> [].
Proof. intros H Hs. destruct H; congruence. Qed.

Lemma pct_encode_with_seg_enc hex :
  (forall n, n < 16 -> hex_val (hex n) = Some n) ->
  forall s, bytes_ok s = true -> seg_enc s (pct_encode_with hex s).
Proof.
  intros Hhex. induction s as [|c t IH]; intros H; cbn [pct_encode_with]; [constructor|].
  unfold bytes_ok in H. cbn [forallb] in H. apply andb_true_iff in H as [Hc Ht].
  unfold byte_ok in Hc. specialize (IH Ht). unfold pct_encode_byte.
  destruct (unreserved c) eqn:Hu; cbn [app].
  - apply se_lit; [|exact IH]. unfold unreserved in Hu. unfold seg_literal_ok. lia.
  - apply se_pct; [lia| | |exact IH]; apply Hhex; lia.
Qed.

Lemma pct_encode_seg_enc s : bytes_ok s = true -> seg_enc s (pct_encode s).
Proof. apply pct_encode_with_seg_enc, hex_val_upper. Qed.
