(* DocTagsProofs.v — the tag array of the document is the strictly sorted
   enumeration of (configured tags) ∪ (tags of endpoints served at v), hence a
   function of the SET of registered endpoints: registration order and repeated
   generation cannot change it. *)
From DS Require Import Base Versions VersionsProofs Router RouterSpec RouterProofs OpenApiGen OpenApiGenProofs DocTags.
From Coq Require Import Permutation Sorted.

Definition str_lt (a b : str) : Prop := str_ltb a b = true.

Lemma str_cmp_lt a b : str_cmp a b = Lt <-> str_lt a b.
Proof. unfold str_lt, str_ltb. destruct (str_cmp a b); split; congruence. Qed.

Lemma str_cmp_gt a b : str_cmp a b = Gt -> str_lt b a.
Proof.
  intros H. apply str_cmp_lt. rewrite (str_cmp_antisym a b), H. reflexivity.
Qed.

Lemma ins_uniq_in x l y : In y (ins_uniq x l) <-> y = x \/ In y l.
Proof.
  induction l as [|z l IH]; cbn [ins_uniq In].
  - intuition.
  - destruct (str_cmp x z) eqn:Hc; cbn [In].
    + apply str_cmp_eq in Hc. subst z. intuition.
    + intuition.
    + rewrite IH. intuition.
Qed.

Lemma ins_uniq_sorted x l : StronglySorted str_lt l -> StronglySorted str_lt (ins_uniq x l).
Proof.
  induction l as [|z l IH]; cbn [ins_uniq]; intros S.
  - constructor; constructor.
  - pose proof S as S0. apply StronglySorted_inv in S. destruct S as [S F].
    destruct (str_cmp x z) eqn:Hc.
    + exact S0.
    + constructor; [exact S0|]. apply str_cmp_lt in Hc. constructor; [exact Hc|].
      rewrite Forall_forall in *. intros y Hy. unfold str_lt in *. eapply str_ltb_trans; eauto.
    + constructor; [apply IH; exact S|]. rewrite Forall_forall in *. intros y Hy.
      apply ins_uniq_in in Hy. destruct Hy as [->|Hy]; [apply str_cmp_gt; exact Hc|apply F; exact Hy].
Qed.

Lemma sort_uniq_in l y : In y (sort_uniq l) <-> In y l.
Proof.
  induction l as [|x l IH]; cbn [sort_uniq fold_right In]; [tauto|].
  fold (sort_uniq l). rewrite ins_uniq_in, IH. intuition.
Qed.

Lemma sort_uniq_sorted l : StronglySorted str_lt (sort_uniq l).
Proof.
  induction l as [|x l IH]; cbn [sort_uniq fold_right]; [constructor|].
  apply ins_uniq_sorted. exact IH.
Qed.

(* two strictly increasing lists with the same members are the same list *)
Lemma str_sorted_ext (l1 : list str) : forall l2,
  StronglySorted str_lt l1 -> StronglySorted str_lt l2 -> (forall x, In x l1 <-> In x l2) -> l1 = l2.
Proof.
  assert (Hirr : forall a, ~ str_lt a a) by (intros a H; unfold str_lt in H; rewrite str_ltb_irrefl in H; discriminate).
  induction l1 as [|a l1 IH]; intros [|b l2] S1 S2 Hiff.
  - reflexivity.
  - exfalso. apply (proj2 (Hiff b)). left; reflexivity.
  - exfalso. apply (proj1 (Hiff a)). left; reflexivity.
  - apply StronglySorted_inv in S1. apply StronglySorted_inv in S2.
    destruct S1 as [S1 F1], S2 as [S2 F2]. rewrite Forall_forall in F1, F2.
    assert (Hab : a = b).
    { destruct (proj1 (Hiff a) (or_introl eq_refl)) as [Hba|Hin]; [auto|].
      destruct (proj2 (Hiff b) (or_introl eq_refl)) as [Hba|Hin']; [auto|].
      exfalso. apply (Hirr a). unfold str_lt in *. eapply str_ltb_trans; [apply F1; exact Hin'|apply F2; exact Hin]. }
    subst b. f_equal. apply IH; auto.
    intros x. split; intros Hx.
    + destruct (proj1 (Hiff x) (or_intror Hx)) as [<-|]; auto.
      exfalso. apply (Hirr a). apply F1. exact Hx.
    + destruct (proj2 (Hiff x) (or_intror Hx)) as [<-|]; auto.
      exfalso. apply (Hirr a). apply F2. exact Hx.
Qed.

Lemma sorted_nodup l : StronglySorted str_lt l -> NoDup l.
Proof.
  induction l as [|a l IH]; intros S; [constructor|].
  apply StronglySorted_inv in S. destruct S as [S F]. constructor; auto.
  intros Hin. rewrite Forall_forall in F. specialize (F a Hin).
  unfold str_lt in F. rewrite str_ltb_irrefl in F. discriminate.
Qed.

Section TP.
  Variable V : Type.
  Variable cmp : V -> V -> comparison.
  Variable tags_of : endpoint V -> list str.
  Notation decl := (decl V).

  (* the tag array is strictly increasing in byte order: no name twice, and one
     possible arrangement only *)
  Theorem doc_tags_sorted cfg (r : node V) v : StronglySorted str_lt (doc_tags V cmp tags_of cfg r v).
  Proof. apply sort_uniq_sorted. Qed.

  Theorem doc_tags_nodup cfg (r : node V) v : NoDup (doc_tags V cmp tags_of cfg r v).
  Proof. apply sorted_nodup, doc_tags_sorted. Qed.

  (* its members: every configured tag, and every tag of an endpoint — published
     or not — whose range contains v; nothing else *)
  Theorem doc_tags_exact (eps : list decl) (r : node V) cfg v t :
    build V cmp eps = Ok r ->
    (In t (doc_tags V cmp tags_of cfg r v) <->
     In t cfg \/ exists tpl e, In (tpl, e) eps /\ vmatches V cmp (e_versions e) (Some v) = true /\ In t (tags_of e)).
  Proof.
    intros Hb. pose proof (build_spec V cmp eps) as Hs. rewrite Hb in Hs. destruct Hs as (_ & Hwf & Hr).
    unfold doc_tags, adhoc_tags. rewrite sort_uniq_in, in_app_iff, filter_In, in_flat_map. split.
    - intros [Hc|[(x & Hx & Ht) _]]; [left; exact Hc|right].
      unfold iter in Hx. apply (proj1 (iter_spec V cmp (Some v)) r Hwf [] x) in Hx.
      destruct Hx as ([tpl e] & Hd & (H1 & _ & _ & H4)). cbn [fst snd] in *.
      exists tpl, e. rewrite <- Hr. rewrite H1 in Ht. auto.
    - intros [Hc|(tpl & e & Hin & Hv & Ht)]; [left; exact Hc|].
      destruct (mem_str t cfg) eqn:Hm; [left; apply mem_str_In; exact Hm|right].
      split; [|reflexivity].
      exists (undoc tpl, str_upper (e_method e), e). split; [|exact Ht].
      unfold iter. apply (proj1 (iter_spec V cmp (Some v)) r Hwf [] _).
      exists (tpl, e). rewrite Hr. split; [exact Hin|]. unfold iter_item. cbn [fst snd rev app]. auto.
  Qed.

  (* hence it does not depend on the order of registration *)
  Theorem doc_tags_order_irrelevant (eps eps' : list decl) (r r' : node V) cfg v :
    Permutation eps eps' -> build V cmp eps = Ok r -> build V cmp eps' = Ok r' ->
    doc_tags V cmp tags_of cfg r v = doc_tags V cmp tags_of cfg r' v.
  Proof.
    intros Hp Hb Hb'. apply str_sorted_ext; try apply doc_tags_sorted.
    intros t. rewrite (doc_tags_exact eps r cfg v t Hb), (doc_tags_exact eps' r' cfg v t Hb').
    split; (intros [Hc|(tpl & e & Hin & H)]; [left; exact Hc|right; exists tpl, e; split; [|exact H]]).
    - eapply Permutation_in; eauto.
    - eapply Permutation_in; [apply Permutation_sym|]; eauto.
  Qed.

  (* ... nor on the order in which the configured tags are enumerated (the
     iteration order of the HashMap) *)
  Theorem doc_tags_cfg_order_irrelevant (r : node V) cfg cfg' v :
    Permutation cfg cfg' -> doc_tags V cmp tags_of cfg r v = doc_tags V cmp tags_of cfg' r v.
  Proof.
    intros Hp. apply str_sorted_ext; try apply doc_tags_sorted.
    intros t. unfold doc_tags, adhoc_tags. rewrite !sort_uniq_in, !in_app_iff, !filter_In.
    assert (Hm : forall x, mem_str x cfg = mem_str x cfg').
    { intros x. destruct (mem_str x cfg) eqn:H1, (mem_str x cfg') eqn:H2; auto.
      - apply mem_str_In in H1. apply (Permutation_in _ Hp) in H1. apply mem_str_In in H1. congruence.
      - apply mem_str_In in H2. apply (Permutation_in _ (Permutation_sym Hp)) in H2. apply mem_str_In in H2. congruence. }
    rewrite Hm. split; (intros [Hc|H]; [left|right; exact H]).
    - eapply Permutation_in; eauto.
    - eapply Permutation_in; [apply Permutation_sym|]; eauto.
  Qed.
End TP.
