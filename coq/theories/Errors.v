(* Errors.v — executable model of dropshot's error path:
   error_status_code.rs (ErrorStatusCode / ClientErrorStatusCode: from_u16,
   from_status, as_client_error), error.rs (every public constructor of
   HttpError, add_header / with_header, into_response), handler.rs
   (HandlerError, From<E: HttpResponseError>, HandlerError::into_response) and
   server.rs (http_request_handle_wrap / http_request_handle: one request id
   threaded into the request context, the success stamp, the error path).
   No proofs here (ErrorsProofs.v). *)
From Coq Require Import String.
From DS Require Import Base Response.

(* ---------- http::StatusCode and the refinement types ---------- *)

Inductive status_err :=
| InvalidStatus        (* http::status::InvalidStatusCode *)
| NotAnError           (* NotAnError / InvalidErrorStatusCode::NotAnError *)
| NotAClientError.     (* NotAClientError / InvalidClientErrorStatusCode::NotAClientError *)

(* http::StatusCode::from_u16:
     if !(100..1000).contains(&src) { return Err(..) }
     NonZeroU16::new(src).map(StatusCode).ok_or_else(..)            *)
Definition status_from_u16 (c : N) : res status_err N :=
  if negb ((100 <=? c) && (c <? 1000)) then Err InvalidStatus
  else if c =? 0 then Err InvalidStatus
  else Ok c.

(* StatusCode::is_client_error / is_server_error *)
Definition is_client_error (s : N) : bool := (400 <=? s) && (s <? 500).
Definition is_server_error (s : N) : bool := (500 <=? s) && (s <? 600).

(* ErrorStatusCode::from_status *)
Definition err_from_status (s : N) : res status_err N :=
  if is_client_error s || is_server_error s then Ok s else Err NotAnError.

(* ErrorStatusCode::from_u16 (= TryFrom<u16>) *)
Definition err_from_u16 (c : N) : res status_err N :=
  do s <- status_from_u16 c; err_from_status s.

(* ClientErrorStatusCode::from_status *)
Definition client_from_status (s : N) : res status_err N :=
  if is_client_error s then Ok s else Err NotAClientError.

(* ClientErrorStatusCode::from_u16 *)
Definition client_from_u16 (c : N) : res status_err N :=
  do s <- status_from_u16 c; client_from_status s.

(* ErrorStatusCode::as_client_error (= TryFrom<ErrorStatusCode> for
   ClientErrorStatusCode); From<ClientErrorStatusCode> for ErrorStatusCode is
   the identity on the wrapped status *)
Definition as_client_error (s : N) : res status_err N :=
  if is_client_error s then Ok s else Err NotAClientError.
Definition client_into_error (s : N) : N := s.

(* http::StatusCode::canonical_reason is Some exactly for these codes
   (status.rs, the [status_codes!] table of http 1.3.1); the wording of the
   phrase is left to an oracle *)
Definition has_reason (c : N) : bool :=
  ((100 <=? c) && (c <=? 102)) || ((200 <=? c) && (c <=? 208)) || (c =? 226) ||
  ((300 <=? c) && (c <=? 305)) || (c =? 307) || (c =? 308) ||
  ((400 <=? c) && (c <=? 418)) || ((421 <=? c) && (c <=? 426)) ||
  (c =? 428) || (c =? 429) || (c =? 431) || (c =? 451) ||
  ((500 <=? c) && (c <=? 508)) || (c =? 510) || (c =? 511).

(* ---------- HttpError ---------- *)

Record http_error := mkErr {
  e_status : N;                    (* status_code : ErrorStatusCode *)
  e_code : option str;             (* error_code *)
  e_external : str;                (* external_message *)
  e_internal : str;                (* internal_message *)
  e_headers : option hmap          (* headers : Option<Box<HeaderMap>> *)
}.

Definition set_internal (e : http_error) (m : str) : http_error :=
  mkErr (e_status e) (e_code e) (e_external e) m (e_headers e).

(* a Rust panic *)
Inductive panic := Panic.

Section Constructors.
  (* wording of the canonical reason phrase of a status *)
  Variable reason_text : N -> str.

  Definition canonical_reason (c : N) : option str :=
    if has_reason c then Some (reason_text c) else None.

  (* for_client_error(error_code, status_code: ClientErrorStatusCode, message) *)
  Definition for_client_error (code : option str) (status : N) (message : str) : http_error :=
    mkErr (client_into_error status) code message message None.

  (* for_internal_error(internal_message):
       external_message: status_code.canonical_reason().unwrap().to_string() *)
  Definition for_internal_error (internal : str) : res panic http_error :=
    match canonical_reason 500 with
    | Some r => Ok (mkErr 500 (Some (bytes_of "Internal")) r internal None)
    | None => Err Panic
    end.

  (* for_unavail(error_code, internal_message) *)
  Definition for_unavail (code : option str) (internal : str) : res panic http_error :=
    match canonical_reason 503 with
    | Some r => Ok (mkErr 503 code r internal None)
    | None => Err Panic
    end.

  (* for_bad_request(error_code, message) *)
  Definition for_bad_request (code : option str) (message : str) : http_error :=
    for_client_error code 400 message.

  (* for_client_error_with_status(error_code, status_code):
       let message =
           status_code.canonical_reason().unwrap_or("Client Error").to_string();
     (not every 4xx code has a standard label, e.g. 444) *)
  Definition with_status_message (status : N) : str :=
    match canonical_reason status with
    | Some m => m
    | None => bytes_of "Client Error"
    end.

  Definition for_client_error_with_status (code : option str) (status : N) : http_error :=
    for_client_error code status (with_status_message status).

  (* for_not_found(error_code, internal_message) *)
  Definition for_not_found (code : option str) (internal : str) : res panic http_error :=
    match canonical_reason 404 with
    | Some r => Ok (mkErr 404 code r internal None)
    | None => Err Panic
    end.
End Constructors.

(* From<hyper::Error> / From<http::Error> for HttpError:
   for_bad_request(None, format!("error processing request: {}", error)) —
   [message] stands for the formatted text *)
Definition from_library_error (message : str) : http_error :=
  mkErr 400 None message message None.

(* headers_mut(): get_or_insert_with(HeaderMap::new) *)
Definition headers_or_empty (e : http_error) : hmap :=
  match e_headers e with Some h => h | None => [] end.

(* add_header(name, value) / with_header(name, value): HeaderName::try_from,
   HeaderValue::try_from, headers_mut().try_append; Err (tt) is the
   http::Error returned to the caller (the error is left unchanged) *)
Definition add_header (e : http_error) (name value : str) : res unit http_error :=
  match header_name name with
  | None => Err tt
  | Some n =>
      if header_legal value
      then Ok (mkErr (e_status e) (e_code e) (e_external e) (e_internal e)
                     (Some (hm_append (headers_or_empty e) n value)))
      else Err tt
  end.

(* HttpError::into_response(self, request_id):
     builder headers := self.headers (if any)
     .status(..).header(CONTENT_TYPE, CONTENT_TYPE_JSON)      -- append
     .header(HEADER_REQUEST_ID, request_id)                   -- append; an
        illegal value puts the builder in an error state and the final
        [.body(..).unwrap()] panics
     body: serde_json::to_string_pretty(&HttpErrorResponseBody {
             request_id, message: external_message, error_code })           *)
Definition into_response (e : http_error) (request_id : str) : res panic response :=
  if header_legal request_id then
    Ok (mkResponse (e_status e)
          (hm_append (hm_append (headers_or_empty e) H_CONTENT_TYPE CT_JSON)
                     H_REQUEST_ID request_id)
          (BErrJson request_id (e_code e) (e_external e)))
  else Err Panic.

(* ---------- HandlerError (handler.rs) ---------- *)

Inductive handler_error :=
| HEHandler (message : str) (rsp : response)    (* Handler { message, rsp } *)
| HEDropshot (e : http_error).                  (* Dropshot(HttpError) *)

(* From<E: HttpResponseError> for HandlerError, for E = HttpError:
   HttpResponseContent::to_response returns Err(self) *)
Definition herr_of_http_error (e : http_error) : handler_error := HEDropshot e.

(* ... for a user-defined E: [message] is e.to_string(), [rendered] the result
   of e.to_response(Response::builder().status(e.status_code())) *)
Definition herr_of_custom (message : str) (rendered : res http_error response)
  : handler_error :=
  match rendered with
  | Ok rsp => HEHandler message rsp
  | Err e => HEDropshot e
  end.

(* HandlerError::into_response(self, request_id) *)
Definition herr_into_response (h : handler_error) (request_id : str)
  : res panic response :=
  match h with
  | HEHandler _ rsp =>
      if header_legal request_id    (* HeaderValue::from_str; Err => unreachable!() *)
      then Ok (mkResponse (r_status rsp)
                          (hm_insert (r_headers rsp) H_REQUEST_ID request_id)
                          (r_body rsp))
      else Err Panic
  | HEDropshot e => into_response e request_id
  end.

(* ---------- the request wrapper (server.rs) ---------- *)

(* What one request does, abstracted to what decides the response:
   - the version policy may refuse it (request_version(..)? : HttpError)
   - routing may fail (lookup_route(..)? : HttpError)
   - otherwise handler.handle_request(rqctx, request) runs extractors, the
     handler function and to_result; all it can learn about the request id is
     rqctx.request_id, so it is a function of that id.  Its error is a
     HandlerError (extractor errors and to_result errors go through
     From<HttpError> for the endpoint's error type and From<E> above). *)
Record request_model := mkRq {
  rq_version : option http_error;
  rq_route : option http_error;
  rq_run : str -> res handler_error response
}.

(* http_request_handle(server, request, request_id, ..) *)
Definition http_request_handle (rq : request_model) (request_id : str)
  : res panic (res handler_error response) :=
  match rq_version rq with
  | Some e => Ok (Err (herr_of_http_error e))
  | None =>
      match rq_route rq with
      | Some e => Ok (Err (herr_of_http_error e))
      | None =>
          (* RequestContext { request_id: request_id.to_string(), .. } *)
          match rq_run rq request_id with
          | Err h => Ok (Err h)
          | Ok rsp =>
              (* response.headers_mut().insert(HEADER_REQUEST_ID,
                   HeaderValue::from_str(&request_id).unwrap()) *)
              if header_legal request_id
              then Ok (Ok (mkResponse (r_status rsp)
                                      (hm_insert (r_headers rsp) H_REQUEST_ID request_id)
                                      (r_body rsp)))
              else Err Panic
          end
      end
  end.

(* http_request_handle_wrap, given the id generate_request_id() returned *)
Definition handle_wrap (rq : request_model) (request_id : str) : res panic response :=
  match http_request_handle rq request_id with
  | Err p => Err p
  | Ok (Ok rsp) => Ok rsp
  | Ok (Err h) => herr_into_response h request_id
  end.

(* a server handling a sequence of requests: the k-th call of
   generate_request_id() returns [fresh k].  The id is a function of the call
   count alone: generate_request_id() takes no argument, so nothing the client
   sends (in particular an x-request-id REQUEST header) can influence it —
   [fresh] is not given the request. *)
Fixpoint serve (fresh : nat -> str) (k : nat) (rqs : list request_model)
  : list (res panic response) :=
  match rqs with
  | [] => []
  | rq :: t => handle_wrap rq (fresh k) :: serve fresh (S k) t
  end.

(* the request id a response carries: the last x-request-id value *)
Definition last_opt {A} (l : list A) : option A :=
  match rev l with [] => None | x :: _ => Some x end.

Definition response_request_id (r : response) : option str :=
  match hm_get (r_headers r) H_REQUEST_ID with
  | Some vs => last_opt vs
  | None => None
  end.

(* the shape of generate_request_id(): format!("{}", Uuid::new_v4()) —
   8-4-4-4-12 lower-case hex digits *)
Definition is_lower_hex (b : N) : bool :=
  ((48 <=? b) && (b <=? 57)) || ((97 <=? b) && (b <=? 102)).

Fixpoint uuid_groups (groups : list nat) (s : str) : bool :=
  match groups with
  | [] => is_nil s
  | g :: gs =>
      forallb is_lower_hex (firstn g s) && (List.length (firstn g s) =? g)%nat &&
      match gs with
      | [] => is_nil (skipn g s)
      | _ => match skipn g s with
             | 45 :: s' => uuid_groups gs s'
             | _ => false
             end
      end
  end.

Definition uuid_shaped (s : str) : bool := uuid_groups [8; 4; 4; 4; 12]%nat s.
