(* Versions.v — model of [ApiEndpointVersions] (api_description.rs):
   [matches], [overlaps_with], [from_until]; and of the header version policy
   [ClientSpecifiesVersionInHeader::request_extract_version] (versioning.rs).

   The version type is abstract: any type with a three-way comparison.  The
   code inspects versions only through [Ord]/[Eq], so the same definitions
   serve for ranks (N, used to evaluate cases) and for the concrete semver
   order of Semver.v.  Model only — proofs are in VersionsProofs.v. *)
From DS Require Import Base.

Section Versions.
  Variable V : Type.
  Variable cmp : V -> V -> comparison.

  Definition vlt (a b : V) : bool := match cmp a b with Lt => true | _ => false end.
  Definition vle (a b : V) : bool := match cmp a b with Gt => false | _ => true end.
  Definition veq (a b : V) : bool := match cmp a b with Eq => true | _ => false end.

  Inductive vrange : Type :=
  | VAll
  | VFrom (a : V)
  | VFromUntil (a b : V)
  | VUntil (b : V).

  (* [ApiEndpointVersions::from_until]: Err iff until < earliest. *)
  Definition from_until (a b : V) : res unit vrange :=
    if vlt b a then Err tt else Ok (VFromUntil a b).

  (* [ApiEndpointVersions::matches], arm by arm. *)
  Definition vmatches (r : vrange) (ov : option V) : bool :=
    match ov with
    | None => true
    | Some v =>
        match r with
        | VAll => true
        | VFrom a => vle a v
        | VFromUntil a b => vle a v && (vlt v b || (veq v b && veq a b))
        | VUntil b => vlt v b
        end
    end.

  (* [ApiEndpointVersions::overlaps_with], arm by arm (all 16 pairs). *)
  Definition overlaps (r1 r2 : vrange) : bool :=
    match r1, r2 with
    | VAll, _ => true
    | _, VAll => true
    | VFrom _, VFrom _ => true
    | VUntil _, VUntil _ => true
    | VFrom a, VUntil _ => vmatches r2 (Some a)
    | VUntil _, VFrom a => vmatches r1 (Some a)
    | VFrom a, VFromUntil e _ => vmatches r2 (Some a) || vle a e
    | VFromUntil e _, VFrom a => vmatches r1 (Some a) || vle a e
    | VUntil _, VFromUntil e _ => vmatches r1 (Some e)
    | VFromUntil e _, VUntil _ => vmatches r2 (Some e)
    | VFromUntil e1 _, VFromUntil e2 _ =>
        vmatches r1 (Some e2) || vmatches r2 (Some e1)
    end.

  (* ---- the specification side: what the property text says ---- *)

  Definition lt (a b : V) : Prop := cmp a b = Lt.
  Definition le (a b : V) : Prop := cmp a b <> Gt.

  (* 'from A' >= A; 'until B' < B; 'from A until B' A <= v < B, exactly A when
     A = B; unrestricted: every version. *)
  Definition vin (r : vrange) (v : V) : Prop :=
    match r with
    | VAll => True
    | VFrom a => le a v
    | VUntil b => lt v b
    | VFromUntil a b => (a = b /\ v = a) \/ (a <> b /\ le a v /\ lt v b)
    end.

  (* decidable form of the same statement, used to judge implementation
     observations case by case *)
  Definition vinb (r : vrange) (v : V) : bool :=
    match r with
    | VAll => true
    | VFrom a => vle a v
    | VUntil b => vlt v b
    | VFromUntil a b => if veq a b then veq v a else vle a v && vlt v b
    end.

  (* ranges that [from_until] can construct *)
  Definition wf_range (r : vrange) : Prop :=
    match r with VFromUntil a b => le a b | _ => True end.
  Definition wf_rangeb (r : vrange) : bool :=
    match r with VFromUntil a b => vle a b | _ => true end.

  (* K2: the known-finding class — [until <minimum version>] is an empty
     range, yet the code treats it as overlapping [All] and every [Until]. *)
  Variable bot : V.
  Definition until_bot (r : vrange) : bool :=
    match r with VUntil b => veq b bot | _ => false end.
  Definition k2_class (r1 r2 : vrange) : bool :=
    (until_bot r1 && match r2 with VAll | VUntil _ => true | _ => false end)
    || (until_bot r2 && match r1 with VAll | VUntil _ => true | _ => false end).

  (* decidable "some version belongs to both": it suffices to try the lower
     bounds of the two ranges and the minimum version (proved equivalent to
     the existential in VersionsProofs.sharedb_iff) *)
  Definition lows (r : vrange) : list V :=
    match r with VFrom a => [a] | VFromUntil a _ => [a] | _ => [] end.
  Definition sharedb (r1 r2 : vrange) : bool :=
    existsb (fun c => vinb r1 c && vinb r2 c) (lows r1 ++ lows r2 ++ [bot]).

  (* ---- header policy ---- *)
  (* The header value as the code sees it: absent, present but not visible
     ASCII ([HeaderValue::to_str] fails), or a string.  [parse] is the semver
     parser (library oracle). *)
  Inductive hdr := HAbsent | HNotAscii | HStr (s : str).
  Variable parse : str -> option V.

  (* Ok v: route at v.  Err 400: no handler runs. *)
  Definition extract_version (max : V) (h : hdr) : res N V :=
    match h with
    | HAbsent => Err 400
    | HNotAscii => Err 400
    | HStr s =>
        match parse s with
        | None => Err 400
        | Some v => if vle v max then Ok v else Err 400
        end
    end.
End Versions.

Arguments VAll {V}.

Arguments VFrom {V} a.
Arguments VFromUntil {V} a b.
Arguments VUntil {V} b.

Definition map_range {V W} (f : V -> W) (r : vrange V) : vrange W :=
  match r with
  | VAll => VAll
  | VFrom a => VFrom (f a)
  | VFromUntil a b => VFromUntil (f a) (f b)
  | VUntil b => VUntil (f b)
  end.
