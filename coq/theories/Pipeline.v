(* Pipeline.v — [http_request_handle] (server.rs) from the request line and
   headers to the handler call: the version policy is asked first
   ([VersionPolicy::request_version]: nothing for an unversioned server, the
   header rule of [ClientSpecifiesVersionInHeader] otherwise) and its error ends
   the request; then [lookup_route] normalises the raw path and walks the trie
   (Route.v); only a found endpoint reaches [handle_request].  Server start
   ([ServerBuilder::build_starter]) refuses an unversioned policy over a router
   holding a version-restricted route.  Model only; proofs in
   PipelineProofs.v. *)
From DS Require Import Base Versions Router RouterSpec Pct Utf8 PathNorm Route.

Section Pipeline.
  Variable V : Type.
  Variable cmp : V -> V -> comparison.
  (* the semver parser (Semver.parse for the real instance) *)
  Variable parse : str -> option V.

  Inductive policy :=
  | PUnversioned
  | PHeader (max : V).              (* Dynamic(ClientSpecifiesVersionInHeader { name, max_version }) *)

  (* what the request's version header looks like to the policy *)
  Notation hdr := (hdr).

  Definition request_version (p : policy) (h : hdr) : res N (option V) :=
    match p with
    | PUnversioned => Ok None
    | PHeader max =>
        match extract_version V cmp parse max h with
        | Ok v => Ok (Some v)
        | Err c => Err c
        end
    end.

  Inductive handled :=
  | HBadVersion                      (* 400 from the policy; nothing is looked up *)
  | HBadPath                         (* 400 "invalid path encoding"; no endpoint is looked up *)
  | HNotFound                        (* 404 *)
  | HNotAllowed (allow : list str)   (* 405 with Allow *)
  | HInvoke (e : endpoint V) (vars : bmap) (v : option V)
                                     (* handle_request of e runs with these path variables *)
  | HPanic.

  Definition handle (p : policy) (r : node V) (m rawpath : str) (h : hdr) : handled :=
    match request_version p h with
    | Err _ => HBadVersion
    | Ok ov =>
        match route V cmp r m rawpath ov with
        | R400 => HBadPath
        | RLookup (Found e vars) => HInvoke e vars ov
        | RLookup E404 => HNotFound
        | RLookup (E405 allow) => HNotAllowed allow
        | RLookup EPanic => HPanic
        end
    end.

  Definition status_of (o : handled) : option N :=
    match o with
    | HBadVersion | HBadPath => Some 400
    | HNotFound => Some 404
    | HNotAllowed _ => Some 405
    | HInvoke _ _ _ => None         (* the handler's own answer *)
    | HPanic => Some 500
    end.

  Definition is_all (r : vrange V) : bool := match r with VAll => true | _ => false end.
  Definition has_versioned (eps : list (decl V)) : bool :=
    existsb (fun d : decl V => negb (is_all (e_versions (snd d)))) eps.

  (* build_starter: Err(UnversionedServerHasVersionedRoutes) *)
  Definition starts (p : policy) (eps : list (decl V)) : bool :=
    match p with
    | PUnversioned => negb (has_versioned eps)
    | PHeader _ => true
    end.
End Pipeline.

Arguments PUnversioned {V}.
Arguments PHeader {V}.
Arguments HBadVersion {V}.
Arguments HBadPath {V}.
Arguments HNotFound {V}.
Arguments HNotAllowed {V}.
Arguments HInvoke {V}.
Arguments HPanic {V}.
