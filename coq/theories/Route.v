(* Route.v — [lookup_route] as the server calls it: normalise the raw request
   path (PathNorm.v), answer 400 on a segment error, otherwise walk the trie
   (Router.v).  Model only. *)
From DS Require Import Base Versions Router Pct Utf8 PathNorm.

Section Route.
  Variable V : Type.
  Variable cmp : V -> V -> comparison.

  Inductive routed :=
  | R400                              (* "invalid path encoding": no handler is looked up *)
  | RLookup (o : outcome V).

  Definition route (r : node V) (m : str) (rawpath : str) (v : option V) : routed :=
    match input_segments rawpath with
    | Err _ => R400
    | Ok segs => RLookup (lookup V cmp r m segs v)
    end.
End Route.
Arguments R400 {V}.
Arguments RLookup {V}.
