(* Scalars.v — Rust's [FromStr] (what dropshot's [from_map.rs] [de_value!] and
   [serde_urlencoded]'s [forward_parsed_value!] call) and [Display] for the
   scalar types a path / query / form parameter can have: [bool], the integer
   types [u8 .. u128], [i8 .. i128], [char], [String], unit-variant enums
   (matched by wire name) and [uuid::Uuid].  [f32]/[f64] are not members of the [sty]
   universe; their grammar and correct rounding to binary32 / binary64 are
   modelled separately ([parse_f32], [parse_f64] below).

   Integers ([core::num] [from_str_radix] with radix 10):

       if src.is_empty() { return Err(Empty) }
       let (is_positive, digits) = match src {
           [b'+' | b'-'] => return Err(InvalidDigit),
           [b'+', rest @ ..] => (true, rest),
           [b'-', rest @ ..] if is_signed_ty => (false, rest),
           _ => (true, src),
       };
       // every byte of [digits] must be '0'..'9' (to_digit(10));
       // accumulate with checked mul/add (positive) or checked mul/sub
       // (negative): PosOverflow / NegOverflow when the value leaves the type

   so: '+' is accepted for every integer type, '-' only for signed ones
   ("-0" is an error for unsigned types), at least one digit, no white space,
   leading zeros are fine, and the value must be in range.  The checked
   accumulation is monotone in the prefix, so "some step overflows" is the
   same as "the final value is out of range": the model accumulates in
   unbounded [N] and range-checks once.

   Model only; proofs in ScalarsProofs.v. *)
From DS Require Import Base Utf8 Pct.

Inductive sty :=
| TStr
| TBool
| TChar
| TInt (signed : bool) (bits : N)
| TEnum (variants : list str)
| TUuid.                (* uuid::Uuid (string schema, format uuid) *)

Inductive sval :=
| VStr (s : str)
| VBool (b : bool)
| VChar (c : N)
| VInt (z : Z)
| VEnum (name : str)
| VUuid (bytes : list N). (* the 16 bytes *)

(* ---------- integers ---------- *)

Definition is_digit (c : N) : bool := (48 <=? c) && (c <=? 57).

Fixpoint digits_val (acc : N) (s : str) : option N :=
  match s with
  | [] => Some acc
  | c :: t => if is_digit c then digits_val (10 * acc + (c - 48)) t else None
  end.

(* at least one digit *)
Definition parse_digits (s : str) : option N :=
  match s with
  | [] => None
  | _ :: _ => digits_val 0 s
  end.

Definition int_min (signed : bool) (bits : N) : Z :=
  if signed then (- 2 ^ (Z.of_N bits - 1))%Z else 0%Z.
Definition int_max (signed : bool) (bits : N) : Z :=
  if signed then (2 ^ (Z.of_N bits - 1) - 1)%Z else (2 ^ Z.of_N bits - 1)%Z.
Definition int_in_range (signed : bool) (bits : N) (z : Z) : bool :=
  (int_min signed bits <=? z)%Z && (z <=? int_max signed bits)%Z.

(* the sign match of [from_str_radix]: [Some (is_positive, digits)] *)
Definition split_sign (signed : bool) (s : str) : option (bool * str) :=
  match s with
  | [] => None
  | [c] => if (c =? 43) || (c =? 45) then None else Some (true, s)
  | c :: rest =>
      if c =? 43 then Some (true, rest)
      else if (c =? 45) && signed then Some (false, rest)
      else Some (true, s)
  end.

Definition parse_int (signed : bool) (bits : N) (s : str) : option Z :=
  match split_sign signed s with
  | None => None
  | Some (pos, ds) =>
      match parse_digits ds with
      | None => None
      | Some n =>
          let z := if pos then Z.of_N n else (- Z.of_N n)%Z in
          if int_in_range signed bits z then Some z else None
      end
  end.

(* [Display] for integers: decimal, no '+', no leading zeros, "0" for zero.
   [fuel] bounds the number of digits; [S (log2 n)] always suffices
   (ScalarsProofs.digits_acc_enough), so the [O] branch is never reached from
   [print_N]. *)
Fixpoint digits_acc (fuel : nat) (n : N) (acc : str) : str :=
  match fuel with
  | O => acc
  | S f =>
      let acc' := (48 + n mod 10) :: acc in
      if n <? 10 then acc' else digits_acc f (n / 10) acc'
  end.

Definition print_N (n : N) : str := digits_acc (S (N.to_nat (N.log2 n))) n [].

Definition print_int (z : Z) : str :=
  if (z <? 0)%Z then 45 :: print_N (Z.to_N (- z)) else print_N (Z.to_N z).

(* ---------- bool ---------- *)

Definition S_TRUE : str := [116; 114; 117; 101].
Definition S_FALSE : str := [102; 97; 108; 115; 101].

Definition parse_bool (s : str) : option bool :=
  if str_eqb s S_TRUE then Some true
  else if str_eqb s S_FALSE then Some false
  else None.
Definition print_bool (b : bool) : str := if b then S_TRUE else S_FALSE.

(* ---------- char ---------- *)

(* a Unicode scalar value: 0 .. 0x10FFFF without the surrogates D800 .. DFFF *)
Definition is_scalar (c : N) : bool :=
  (c <? 55296) || ((57344 <=? c) && (c <? 1114112)).

(* one UTF-8 encoded scalar value off the front, with exactly the
   well-formedness conditions of Utf8.utf8_valid *)
Definition utf8_decode1 (s : str) : option (N * str) :=
  match s with
  | [] => None
  | b0 :: t0 =>
      if b0 <? 128 then Some (b0, t0)
      else if in_range 194 223 b0 then
        match t0 with
        | b1 :: t1 =>
            if utf8_cont b1 then Some ((b0 - 192) * 64 + (b1 - 128), t1) else None
        | _ => None
        end
      else if in_range 224 239 b0 then
        match t0 with
        | b1 :: b2 :: t2 =>
            if utf8_second3 b0 b1 && utf8_cont b2
            then Some ((b0 - 224) * 4096 + (b1 - 128) * 64 + (b2 - 128), t2) else None
        | _ => None
        end
      else if in_range 240 244 b0 then
        match t0 with
        | b1 :: b2 :: b3 :: t3 =>
            if utf8_second4 b0 b1 && utf8_cont b2 && utf8_cont b3
            then Some ((b0 - 240) * 262144 + (b1 - 128) * 4096 + (b2 - 128) * 64 + (b3 - 128), t3)
            else None
        | _ => None
        end
      else None
  end.

Definition utf8_encode (c : N) : str :=
  if c <? 128 then [c]
  else if c <? 2048 then [192 + c / 64; 128 + c mod 64]
  else if c <? 65536 then [224 + c / 4096; 128 + (c / 64) mod 64; 128 + c mod 64]
  else [240 + c / 262144; 128 + (c / 4096) mod 64; 128 + (c / 64) mod 64; 128 + c mod 64].

(* [char::from_str]: the string must consist of exactly one char *)
Definition parse_char (s : str) : option N :=
  match utf8_decode1 s with
  | Some (c, []) => Some c
  | _ => None
  end.

(* ---------- uuid::Uuid (uuid 1.16 parser.rs) ----------

     const fn try_parse(input: &[u8]) -> Result<[u8; 16], InvalidUuid> {
         match (input.len(), input) {
             (32, s) => parse_simple(s),
             (36, s)
             | (38, [b'{', s @ .., b'}'])
             | (45, [b'u', b'r', b'n', b':', b'u', b'u', b'i', b'd', b':', s @ ..]) => parse_hyphenated(s),
             _ => Err(InvalidUuid(input)),
         } }

   parse_simple: 32 hex digits (either case, HEX_TABLE); parse_hyphenated:
   length 36, '-' at 8, 13, 18, 23, hex digits everywhere else.  Display is
   the lower-case hyphenated form.  ([Uuid]'s Deserialize for a
   human-readable format is [deserialize_str] -> [Uuid::from_str].) *)

Fixpoint hex_pairs (s : str) : option (list N) :=
  match s with
  | [] => Some []
  | h :: l :: rest =>
      match hex_val h, hex_val l, hex_pairs rest with
      | Some a, Some b, Some bs => Some ((16 * a + b) :: bs)
      | _, _, _ => None
      end
  | [_] => None
  end.

Definition parse_uuid_simple (s : str) : option (list N) :=
  if (length s =? 32)%nat then hex_pairs s else None.

Definition HYPHEN : N := 45.

(* 8-4-4-4-12 with '-' between the groups *)
Definition parse_uuid_hyphenated (s : str) : option (list N) :=
  if negb (length s =? 36)%nat then None else
  let g1 := firstn 8 s in let r1 := skipn 8 s in
  let g2 := firstn 4 (skipn 1 r1) in let r2 := skipn 5 r1 in
  let g3 := firstn 4 (skipn 1 r2) in let r3 := skipn 5 r2 in
  let g4 := firstn 4 (skipn 1 r3) in let r4 := skipn 5 r3 in
  let g5 := skipn 1 r4 in
  match r1, r2, r3, r4 with
  | h1 :: _, h2 :: _, h3 :: _, h4 :: _ =>
      if (h1 =? HYPHEN) && (h2 =? HYPHEN) && (h3 =? HYPHEN) && (h4 =? HYPHEN)
      then hex_pairs (g1 ++ g2 ++ g3 ++ g4 ++ g5) else None
  | _, _, _, _ => None
  end.

Definition URN_UUID : str := [117; 114; 110; 58; 117; 117; 105; 100; 58].   (* urn:uuid: *)

Definition parse_uuid (s : str) : option (list N) :=
  let n := length s in
  if (n =? 32)%nat then parse_uuid_simple s
  else if (n =? 36)%nat then parse_uuid_hyphenated s
  else if (n =? 38)%nat then
    match s with
    | 123 :: rest =>
        match rev rest with
        | 125 :: inner_rev => parse_uuid_hyphenated (rev inner_rev)
        | _ => None
        end
    | _ => None
    end
  else if (n =? 45)%nat then
    if str_eqb (firstn 9 s) URN_UUID then parse_uuid_hyphenated (skipn 9 s) else None
  else None.

Fixpoint hex_lower (bs : list N) : str :=
  match bs with
  | [] => []
  | b :: t => hex_digit_lower (b / 16) :: hex_digit_lower (b mod 16) :: hex_lower t
  end.

Definition print_uuid (bs : list N) : str :=
  hex_lower (firstn 4 bs) ++ HYPHEN :: hex_lower (firstn 2 (skipn 4 bs)) ++
  HYPHEN :: hex_lower (firstn 2 (skipn 6 bs)) ++ HYPHEN :: hex_lower (firstn 2 (skipn 8 bs)) ++
  HYPHEN :: hex_lower (skipn 10 bs).

Definition uuid_ok (bs : list N) : bool := (length bs =? 16)%nat && bytes_ok bs.

(* ---------- f32 / f64: [f32::from_str] / [f64::from_str] (core::num::dec2flt) ----------

   Not members of [sty] (other developments match on it exhaustively): a
   separate parser from text to the IEEE 754 bit pattern.

   Grammar (dec2flt::parse): an optional '+' or '-'; then either one of "nan",
   "inf", "infinity" in any letter case, or digits with an optional '.' and
   more digits (at least one digit in all: "5.", ".5" are fine, "." is not),
   optionally followed by 'e' / 'E', an optional sign and at least one digit;
   nothing else (no blanks, no '_', no hex).

   Value: the decimal d * 10^e denotes an exact rational; the result is the
   binary32 / binary64 number nearest to it, ties to the even significand,
   gradual underflow (subnormals), overflow to infinity - computed here on
   unbounded integers: scale the rational so that its integer part has exactly
   p bits (or the least exponent is reached), divide with remainder, round. *)

Record fmt := { f_p : Z;       (* precision: 24 / 53 *)
                f_emin : Z;    (* exponent of the least subnormal: -149 / -1074 *)
                f_w : Z }.     (* width of the exponent field: 8 / 11 *)
Definition binary32 : fmt := {| f_p := 24; f_emin := -149; f_w := 8 |}.
Definition binary64 : fmt := {| f_p := 53; f_emin := -1074; f_w := 11 |}.

(* A / B rounded to the nearest integer, ties to even (A >= 0, B > 0) *)
Definition rne (A B : Z) : Z :=
  let m0 := (A / B)%Z in
  let r := (A mod B)%Z in
  if (2 * r <? B)%Z then m0
  else if (2 * r =? B)%Z then (if Z.even m0 then m0 else m0 + 1)%Z
  else (m0 + 1)%Z.

(* floor (log2 (num / den)) for num, den > 0 *)
Definition flog2_ratio (num den : Z) : Z :=
  let l := (Z.log2 num - Z.log2 den)%Z in
  let ge := if (0 <=? l)%Z then (den * 2 ^ l <=? num)%Z else (den <=? num * 2 ^ (- l))%Z in
  if ge then l else (l - 1)%Z.

(* the magnitude bits of num / den (num, den > 0) in format fm *)
Definition round_ratio (fm : fmt) (num den : Z) : Z :=
  let p := f_p fm in
  let k := Z.max (f_emin fm) (flog2_ratio num den - (p - 1)) in
  let m := if (0 <=? k)%Z then rne num (den * 2 ^ k) else rne (num * 2 ^ (- k)) den in
  (* biased exponent and fraction in one sum: a subnormal has k = emin and
     m < 2^(p-1); a carry out of the significand lands in the exponent *)
  let bits := ((k - f_emin fm) * 2 ^ (p - 1) + m)%Z in
  let inf := ((2 ^ f_w fm - 1) * 2 ^ (p - 1))%Z in
  Z.min bits inf.

Definition sign_bit (fm : fmt) : Z := (2 ^ (f_w fm + f_p fm - 1))%Z.

(* d * 10^e10, d given with [nd] digits (leading zeros included) *)
Definition decimal_bits (fm : fmt) (d : N) (nd : Z) (e10 : Z) : Z :=
  if (d =? 0)%N then 0%Z
  else if (400 <? e10)%Z then ((2 ^ f_w fm - 1) * 2 ^ (f_p fm - 1))%Z   (* >= 10^401: infinity *)
  else if (e10 + nd <? -400)%Z then 0%Z                                  (* < 10^-400: rounds to zero *)
  else if (0 <=? e10)%Z then round_ratio fm (Z.of_N d * 10 ^ e10) 1
  else round_ratio fm (Z.of_N d) (10 ^ (- e10)).

Definition S_NAN : str := [110; 97; 110].
Definition S_INF : str := [105; 110; 102].
Definition S_INFINITY : str := [105; 110; 102; 105; 110; 105; 116; 121].

Fixpoint span_digits (s : str) : str * str :=
  match s with
  | c :: t => if is_digit c then let (a, r) := span_digits t in (c :: a, r) else ([], s)
  | [] => ([], [])
  end.

Definition digits_N (s : str) : N := match digits_val 0 s with Some n => n | None => 0 end.
  (* only ever applied to the output of [span_digits]: all digits *)

(* the exponent part: [Some e] for "" (0) or e/E [sign] digits+ up to the end *)
Definition parse_exponent (s : str) : option Z :=
  match s with
  | [] => Some 0%Z
  | c :: t =>
      if (c =? 101) || (c =? 69) then
        let (neg, t') := match t with
                         | 45 :: r => (true, r)
                         | 43 :: r => (false, r)
                         | _ => (false, t)
                         end in
        let (ds, rest) := span_digits t' in
        if is_nil ds || negb (is_nil rest) then None
        else Some (if neg then (- Z.of_N (digits_N ds))%Z else Z.of_N (digits_N ds))
      else None
  end.

(* the magnitude: [Some bits] *)
Definition parse_float_magnitude (fm : fmt) (s : str) : option Z :=
  let low := str_lower s in
  if str_eqb low S_NAN then Some (((2 ^ f_w fm - 1) * 2 ^ (f_p fm - 1) + 2 ^ (f_p fm - 2))%Z)   (* quiet NaN *)
  else if str_eqb low S_INF || str_eqb low S_INFINITY then Some (((2 ^ f_w fm - 1) * 2 ^ (f_p fm - 1))%Z)
  else
    let (d1, r1) := span_digits s in
    let (d2, r2) := match r1 with
                    | 46 :: t => span_digits t
                    | _ => ([], r1)
                    end in
    if is_nil d1 && is_nil d2 then None else
    match parse_exponent r2 with
    | None => None
    | Some e =>
        let ds := d1 ++ d2 in
        Some (decimal_bits fm (digits_N ds) (Z.of_nat (length ds)) (e - Z.of_nat (length d2))%Z)
    end.

(* text -> bit pattern *)
Definition parse_float (fm : fmt) (s : str) : option N :=
  let (neg, body) := match s with
                     | 45 :: t => (true, t)
                     | 43 :: t => (false, t)
                     | _ => (false, s)
                     end in
  match body with
  | [] => None
  | _ :: _ =>
      match parse_float_magnitude fm body with
      | Some m => Some (Z.to_N (if neg then m + sign_bit fm else m)%Z)
      | None => None
      end
  end.

Definition parse_f32 : str -> option N := parse_float binary32.
Definition parse_f64 : str -> option N := parse_float binary64.

(* ---------- all scalar types ---------- *)

Definition parse_scalar (ty : sty) (s : str) : option sval :=
  match ty with
  | TStr => Some (VStr s)
  | TBool => option_map VBool (parse_bool s)
  | TChar => option_map VChar (parse_char s)
  | TInt sg bits => option_map VInt (parse_int sg bits s)
  | TEnum vs => if mem_str s vs then Some (VEnum s) else None
  | TUuid => option_map VUuid (parse_uuid s)
  end.

Definition print_scalar (v : sval) : str :=
  match v with
  | VStr s => s
  | VBool b => print_bool b
  | VChar c => utf8_encode c
  | VInt z => print_int z
  | VEnum n => n
  | VUuid bs => print_uuid bs
  end.

(* [v] is a value of type [ty] *)
Definition sval_ok (ty : sty) (v : sval) : bool :=
  match ty, v with
  | TStr, VStr _ => true
  | TBool, VBool _ => true
  | TChar, VChar c => is_scalar c
  | TInt sg bits, VInt z => int_in_range sg bits z
  | TEnum vs, VEnum n => mem_str n vs
  | TUuid, VUuid bs => uuid_ok bs
  | _, _ => false
  end.

Definition sval_eqb (a b : sval) : bool :=
  match a, b with
  | VStr x, VStr y => str_eqb x y
  | VBool x, VBool y => Bool.eqb x y
  | VChar x, VChar y => x =? y
  | VInt x, VInt y => (x =? y)%Z
  | VEnum x, VEnum y => str_eqb x y
  | VUuid x, VUuid y => str_eqb x y
  | _, _ => false
  end.

(* the integer types Rust has *)
Definition int_types : list sty :=
  [TInt false 8; TInt false 16; TInt false 32; TInt false 64; TInt false 128;
   TInt true 8; TInt true 16; TInt true 32; TInt true 64; TInt true 128].
