(* SemverProofs.v — the order [cmp] (= [Ord for semver::Version], 1.0.26) is a
   total order on ALL values of the model type, refines semver precedence, has
   [bot] = 0.0.0-0 as least element; [parse] only produces well-formed values
   and is a left inverse of [print] on them. *)
From DS Require Import Base Semver.

(* ================================================================== *)
(* Generic comparator algebra                                          *)
(* ================================================================== *)

Record cmp_ok {A} (c : A -> A -> comparison) : Prop := mk_cmp_ok {
  ok_eq : forall a b, c a b = Eq <-> a = b;
  ok_anti : forall a b, c b a = CompOpp (c a b);
  ok_trans : forall a b d, c a b = Lt -> c b d = Lt -> c a d = Lt
}.
Arguments ok_eq {A c}.
Arguments ok_anti {A c}.
Arguments ok_trans {A c}.

Lemma ok_refl {A} {c : A -> A -> comparison} (H : cmp_ok c) a : c a a = Eq.
Proof. apply (ok_eq H); reflexivity. Qed.

Lemma N_cmp_ok : cmp_ok N.compare.
Proof.
  constructor.
  - apply N.compare_eq_iff.
  - intros a b. apply N.compare_antisym.
  - intros a b d. rewrite !N.compare_lt_iff. lia.
Qed.

Lemma nat_cmp_ok : cmp_ok Nat.compare.
Proof.
  constructor.
  - apply Nat.compare_eq_iff.
  - intros a b. apply Nat.compare_antisym.
  - intros a b d. rewrite !Nat.compare_lt_iff. lia.
Qed.

Lemma str_cmp_ok : cmp_ok str_cmp.
Proof.
  constructor.
  - apply str_cmp_eq.
  - intros a b. apply str_cmp_antisym.
  - apply str_cmp_trans.
Qed.

Definition pair_cmp {A B} (c1 : A -> A -> comparison) (c2 : B -> B -> comparison)
           (a b : A * B) : comparison :=
  then_cmp (c1 (fst a) (fst b)) (c2 (snd a) (snd b)).

Lemma pair_cmp_ok {A B} (c1 : A -> A -> comparison) (c2 : B -> B -> comparison) :
  cmp_ok c1 -> cmp_ok c2 -> cmp_ok (pair_cmp c1 c2).
Proof.
  intros H1 H2. constructor.
  - intros [a1 a2] [b1 b2]. unfold pair_cmp; cbn [fst snd].
    destruct (c1 a1 b1) eqn:E; cbn [then_cmp].
    + apply (ok_eq H1) in E; subst b1. rewrite (ok_eq H2).
      split; [intros ->; reflexivity|intros [= ->]; reflexivity].
    + split; [discriminate|]. intros [= -> ->].
      rewrite (ok_refl H1) in E; discriminate.
    + split; [discriminate|]. intros [= -> ->].
      rewrite (ok_refl H1) in E; discriminate.
  - intros [a1 a2] [b1 b2]. unfold pair_cmp; cbn [fst snd].
    rewrite (ok_anti H1 a1 b1), (ok_anti H2 a2 b2).
    destruct (c1 a1 b1), (c2 a2 b2); reflexivity.
  - intros [a1 a2] [b1 b2] [d1 d2]. unfold pair_cmp; cbn [fst snd].
    destruct (c1 a1 b1) eqn:E1; cbn [then_cmp]; try discriminate.
    + apply (ok_eq H1) in E1; subst b1.
      destruct (c1 a1 d1) eqn:E2; cbn [then_cmp]; try discriminate; auto.
      apply (ok_trans H2).
    + intros _. destruct (c1 b1 d1) eqn:E2; cbn [then_cmp]; try discriminate.
      * apply (ok_eq H1) in E2; subst d1. rewrite E1; reflexivity.
      * rewrite (ok_trans H1 _ _ _ E1 E2); reflexivity.
Qed.

Lemma cmp_ok_inj {A B} (f : A -> B) (c : B -> B -> comparison) :
  (forall x y, f x = f y -> x = y) -> cmp_ok c ->
  cmp_ok (fun x y => c (f x) (f y)).
Proof.
  intros Hinj H. constructor.
  - intros a b. rewrite (ok_eq H). split; [apply Hinj|intros ->; reflexivity].
  - intros a b. apply (ok_anti H).
  - intros a b d. apply (ok_trans H).
Qed.

Lemma cmp_ok_ext {A} (c c' : A -> A -> comparison) :
  (forall a b, c' a b = c a b) -> cmp_ok c -> cmp_ok c'.
Proof.
  intros E H. constructor.
  - intros a b. rewrite E. apply (ok_eq H).
  - intros a b. rewrite !E. apply (ok_anti H).
  - intros a b d. rewrite !E. apply (ok_trans H).
Qed.

Lemma lex_cmp_ok {A} (c : A -> A -> comparison) : cmp_ok c -> cmp_ok (lex_cmp c).
Proof.
  intros H.
  pose proof (pair_cmp_ok c (lex_cmp c) H) as HP.
  constructor.
  - intros a; induction a as [|x a IH]; intros [|y b]; cbn [lex_cmp];
      try (split; congruence).
    destruct (c x y) eqn:E; cbn [then_cmp].
    + apply (ok_eq H) in E; subst y. rewrite IH.
      split; [intros ->; reflexivity|intros [= ->]; reflexivity].
    + split; [discriminate|]. intros [= -> ->].
      rewrite (ok_refl H) in E; discriminate.
    + split; [discriminate|]. intros [= -> ->].
      rewrite (ok_refl H) in E; discriminate.
  - intros a; induction a as [|x a IH]; intros [|y b]; cbn [lex_cmp];
      try reflexivity.
    rewrite (ok_anti H x y), (IH b).
    destruct (c x y), (lex_cmp c a b); reflexivity.
  - intros a; induction a as [|x a IH]; intros [|y b] [|z d]; cbn [lex_cmp];
      try congruence.
    destruct (c x y) eqn:E1; cbn [then_cmp]; try discriminate.
    + apply (ok_eq H) in E1; subst y.
      destruct (c x z) eqn:E2; cbn [then_cmp]; try discriminate; auto.
      apply IH.
    + intros _. destruct (c y z) eqn:E2; cbn [then_cmp]; try discriminate.
      * apply (ok_eq H) in E2; subst z. rewrite E1; reflexivity.
      * rewrite (ok_trans H _ _ _ E1 E2); reflexivity.
Qed.

(* two classes, the [true] class below the [false] class *)
Definition sum_cmp {A} (cls : A -> bool) (ct cf : A -> A -> comparison)
           (a b : A) : comparison :=
  match cls a, cls b with
  | true, true => ct a b
  | true, false => Lt
  | false, true => Gt
  | false, false => cf a b
  end.

Lemma sum_cmp_ok {A} (cls : A -> bool) (ct cf : A -> A -> comparison) :
  cmp_ok ct -> cmp_ok cf -> cmp_ok (sum_cmp cls ct cf).
Proof.
  intros Ht Hf. constructor.
  - intros a b. unfold sum_cmp.
    destruct (cls a) eqn:Ea, (cls b) eqn:Eb.
    + apply (ok_eq Ht).
    + split; [discriminate|]. intros ->; congruence.
    + split; [discriminate|]. intros ->; congruence.
    + apply (ok_eq Hf).
  - intros a b. unfold sum_cmp.
    destruct (cls a), (cls b); try reflexivity.
    + apply (ok_anti Ht).
    + apply (ok_anti Hf).
  - intros a b d. unfold sum_cmp.
    destruct (cls a), (cls b), (cls d); try congruence.
    + apply (ok_trans Ht).
    + apply (ok_trans Hf).
Qed.

(* ================================================================== *)
(* The component orders                                                *)
(* ================================================================== *)

Lemma ident_cmp_ok : cmp_ok ident_cmp.
Proof.
  constructor.
  - intros [n|s] [m|t]; cbn [ident_cmp]; try (split; congruence).
    + rewrite N.compare_eq_iff. split; congruence.
    + rewrite str_cmp_eq. split; congruence.
  - intros [n|s] [m|t]; cbn [ident_cmp]; try reflexivity.
    + apply N.compare_antisym.
    + apply str_cmp_antisym.
  - intros [n|s] [m|t] [k|u]; cbn [ident_cmp]; try congruence.
    + apply (ok_trans N_cmp_ok).
    + apply str_cmp_trans.
Qed.

Lemma pre_cmp_cons x a y b :
  pre_cmp (x :: a) (y :: b) = lex_cmp ident_cmp (x :: a) (y :: b).
Proof. reflexivity. Qed.

Lemma pre_cmp_ok : cmp_ok pre_cmp.
Proof.
  pose proof (lex_cmp_ok _ ident_cmp_ok) as HL.
  constructor.
  - intros [|x a] [|y b]; try (cbn [pre_cmp]; split; congruence).
    rewrite pre_cmp_cons. apply (ok_eq HL).
  - intros [|x a] [|y b]; try reflexivity.
    rewrite !pre_cmp_cons. apply (ok_anti HL).
  - intros [|x a] [|y b] [|z d]; try (cbn [pre_cmp]; congruence).
    rewrite !pre_cmp_cons. apply (ok_trans HL).
Qed.

Lemma trim0_length_le s : (length (trim0 s) <= length s)%nat.
Proof.
  induction s as [|c s IH]; cbn [trim0 length]; [lia|].
  destruct (c =? 48); cbn [length]; lia.
Qed.

(* [trim0] only strips '0's, so the total length recovers what was stripped *)
Lemma trim0_decomp s :
  s = repeat 48 (length s - length (trim0 s)) ++ trim0 s.
Proof.
  induction s as [|c s IH]; [reflexivity|].
  cbn [trim0]. destruct (N.eqb_spec c 48) as [->|Hne].
  - pose proof (trim0_length_le s).
    replace (length (48%N :: s) - length (trim0 s))%nat
      with (S (length s - length (trim0 s))) by (cbn [length]; lia).
    cbn [repeat app]. f_equal. exact IH.
  - replace (length (c :: s) - length (c :: s))%nat with O by lia.
    reflexivity.
Qed.

Lemma trim0_inj a b : trim0 a = trim0 b -> length a = length b -> a = b.
Proof.
  intros Ht Hl. rewrite (trim0_decomp a), (trim0_decomp b), Ht, Hl. reflexivity.
Qed.

Definition num_key (s : str) : nat * (str * nat) :=
  (length (trim0 s), (trim0 s, length s)).

Lemma num_seg_cmp_ok : cmp_ok num_seg_cmp.
Proof.
  apply (cmp_ok_ext
           (fun a b => pair_cmp Nat.compare (pair_cmp str_cmp Nat.compare)
                                (num_key a) (num_key b))).
  - reflexivity.
  - apply (cmp_ok_inj num_key).
    + unfold num_key. intros x y [= _ Ht Hl]. apply trim0_inj; assumption.
    + apply pair_cmp_ok; [apply nat_cmp_ok|].
      apply pair_cmp_ok; [apply str_cmp_ok|apply nat_cmp_ok].
Qed.

Lemma seg_cmp_ok : cmp_ok seg_cmp.
Proof.
  apply (cmp_ok_ext (sum_cmp (forallb is_digit) num_seg_cmp str_cmp)).
  - reflexivity.
  - apply sum_cmp_ok; [apply num_seg_cmp_ok|apply str_cmp_ok].
Qed.

Lemma build_cmp_ok : cmp_ok build_cmp.
Proof. apply lex_cmp_ok, seg_cmp_ok. Qed.

(* ================================================================== *)
(* [cmp] is a total order on every value of the type                   *)
(* ================================================================== *)

Definition vkey (v : version) : N * (N * (N * (list ident * list str))) :=
  (major v, (minor v, (patch v, (pre v, build v)))).

Lemma vkey_inj a b : vkey a = vkey b -> a = b.
Proof. destruct a, b; unfold vkey; cbn. intros [= -> -> -> -> ->]; reflexivity. Qed.

Lemma cmp_ok_cmp : cmp_ok cmp.
Proof.
  apply (cmp_ok_ext
           (fun a b =>
              pair_cmp N.compare
                (pair_cmp N.compare
                   (pair_cmp N.compare (pair_cmp pre_cmp build_cmp)))
                (vkey a) (vkey b))).
  - reflexivity.
  - apply (cmp_ok_inj vkey); [apply vkey_inj|].
    repeat (apply pair_cmp_ok; [apply N_cmp_ok|]).
    apply pair_cmp_ok; [apply pre_cmp_ok|apply build_cmp_ok].
Qed.

Lemma cmp_refl : forall a, cmp a a = Eq.
Proof. exact (ok_refl cmp_ok_cmp). Qed.

(* no well-formedness needed *)
Lemma cmp_eq_strong : forall a b, cmp a b = Eq -> a = b.
Proof. intros a b. apply (ok_eq cmp_ok_cmp). Qed.

Lemma cmp_eq : forall a b,
  wf_version a = true -> wf_version b = true -> cmp a b = Eq -> a = b.
Proof. intros a b _ _. apply cmp_eq_strong. Qed.

Lemma cmp_eq_iff : forall a b, cmp a b = Eq <-> a = b.
Proof. exact (ok_eq cmp_ok_cmp). Qed.

Lemma cmp_antisym : forall a b, cmp b a = CompOpp (cmp a b).
Proof. exact (ok_anti cmp_ok_cmp). Qed.

Lemma cmp_trans : forall a b c, cmp a b = Lt -> cmp b c = Lt -> cmp a c = Lt.
Proof. exact (ok_trans cmp_ok_cmp). Qed.

Lemma cmp_gt_lt : forall a b, cmp a b = Gt <-> cmp b a = Lt.
Proof.
  intros a b. rewrite (cmp_antisym a b).
  destruct (cmp a b); cbn [CompOpp]; split; congruence.
Qed.

Lemma cmp_trans_gt : forall a b c, cmp a b = Gt -> cmp b c = Gt -> cmp a c = Gt.
Proof.
  intros a b c. rewrite !cmp_gt_lt. intros H1 H2. exact (cmp_trans _ _ _ H2 H1).
Qed.

(* [<=] is transitive as well *)
Lemma cmp_trans_le : forall a b c, cmp a b <> Gt -> cmp b c <> Gt -> cmp a c <> Gt.
Proof.
  intros a b c Hab Hbc Hac.
  destruct (cmp a b) eqn:E1; try congruence.
  - apply cmp_eq_strong in E1; subst b. congruence.
  - destruct (cmp b c) eqn:E2; try congruence.
    + apply cmp_eq_strong in E2; subst c. congruence.
    + rewrite (cmp_trans _ _ _ E1 E2) in Hac; discriminate.
Qed.

(* ================================================================== *)
(* Least element                                                       *)
(* ================================================================== *)

Lemma N_compare_0_l n : (0 ?= n) <> Gt.
Proof. rewrite N.compare_gt_iff. lia. Qed.

Lemma bot_min_strong : forall v, cmp bot v <> Gt.
Proof.
  intros [ma mi pa p b]. unfold cmp, bot; cbn [major minor patch pre build].
  pose proof (N_compare_0_l ma). destruct (0 ?= ma); cbn [then_cmp]; try congruence.
  pose proof (N_compare_0_l mi). destruct (0 ?= mi); cbn [then_cmp]; try congruence.
  pose proof (N_compare_0_l pa). destruct (0 ?= pa); cbn [then_cmp]; try congruence.
  destruct p as [|[n|s] p]; cbn [pre_cmp lex_cmp ident_cmp then_cmp]; try congruence.
  pose proof (N_compare_0_l n). destruct (0 ?= n); cbn [then_cmp]; try congruence.
  destruct p; cbn [lex_cmp then_cmp]; try congruence.
  destruct b; cbn [build_cmp lex_cmp]; congruence.
Qed.

Lemma bot_min : forall v, wf_version v = true -> cmp bot v <> Gt.
Proof. intros v _. apply bot_min_strong. Qed.

Lemma bot_wf : wf_version bot = true.
Proof. reflexivity. Qed.

(* ================================================================== *)
(* [cmp] refines semver precedence                                     *)
(* ================================================================== *)

Lemma cmp_prec a b : cmp a b = then_cmp (prec_cmp a b) (build_cmp (build a) (build b)).
Proof.
  unfold cmp, prec_cmp.
  destruct (major a ?= major b), (minor a ?= minor b), (patch a ?= patch b);
    reflexivity.
Qed.

Lemma cmp_refines_precedence : forall a b, prec_cmp a b = Lt -> cmp a b = Lt.
Proof. intros a b H. rewrite cmp_prec, H. reflexivity. Qed.

Lemma cmp_refines_precedence_gt : forall a b, prec_cmp a b = Gt -> cmp a b = Gt.
Proof. intros a b H. rewrite cmp_prec, H. reflexivity. Qed.

Lemma cmp_precedence_eq : forall a b,
  prec_cmp a b = Eq -> build a = build b -> cmp a b = Eq.
Proof.
  intros a b H Hb. rewrite cmp_prec, H, Hb. cbn [then_cmp].
  apply (ok_refl build_cmp_ok).
Qed.

Lemma prec_cmp_eq_iff : forall a b, prec_cmp a b = Eq <-> same_precedence a b.
Proof.
  intros a b. unfold prec_cmp, same_precedence.
  destruct (N.compare_spec (major a) (major b)) as [->|H|H]; cbn [then_cmp];
    [|split; [discriminate|intros [? _]; lia]..].
  destruct (N.compare_spec (minor a) (minor b)) as [->|H|H]; cbn [then_cmp];
    [|split; [discriminate|intros (_ & ? & _); lia]..].
  destruct (N.compare_spec (patch a) (patch b)) as [->|H|H]; cbn [then_cmp];
    [|split; [discriminate|intros (_ & _ & ? & _); lia]..].
  rewrite (ok_eq pre_cmp_ok). tauto.
Qed.

(* versions of equal precedence are ordered by their build metadata alone *)
Lemma cmp_same_precedence : forall a b,
  same_precedence a b -> cmp a b = build_cmp (build a) (build b).
Proof.
  intros a b H. apply prec_cmp_eq_iff in H. rewrite cmp_prec, H. reflexivity.
Qed.

(* the empty build is the least build; the empty pre-release the greatest *)
Lemma build_nil_min : forall b, build_cmp [] b <> Gt.
Proof. intros [|x b]; cbn; congruence. Qed.

Lemma pre_nil_max : forall p, pre_cmp p [] <> Gt.
Proof. intros [|x p]; cbn; congruence. Qed.

(* ================================================================== *)
(* Lexing helpers                                                      *)
(* ================================================================== *)

Definition stops (p : N -> bool) (r : str) : Prop :=
  match r with [] => True | c :: _ => p c = false end.

Lemma span_spec p s :
  s = fst (span p s) ++ snd (span p s)
  /\ forallb p (fst (span p s)) = true
  /\ stops p (snd (span p s)).
Proof.
  induction s as [|c s IH]; cbn [span]; [cbn; auto|].
  destruct (p c) eqn:E.
  - destruct (span p s) as [a r]; cbn [fst snd] in *.
    destruct IH as (H1 & H2 & H3). cbn [forallb app]. rewrite E, H2.
    repeat split; auto. congruence.
  - cbn [fst snd forallb app stops]. auto.
Qed.

Lemma span_app p a r :
  forallb p a = true -> stops p r -> span p (a ++ r) = (a, r).
Proof.
  induction a as [|c a IH]; cbn [forallb app]; intros Ha Hr.
  - destruct r as [|x r]; cbn [span]; [reflexivity|].
    cbn [stops] in Hr. rewrite Hr. reflexivity.
  - apply andb_true_iff in Ha as [Hc Ha]. cbn [span]. rewrite Hc, (IH Ha Hr).
    reflexivity.
Qed.

Lemma forallb_rev {A} (f : A -> bool) l : forallb f (rev l) = forallb f l.
Proof.
  induction l as [|x l IH]; [reflexivity|].
  cbn [rev forallb]. rewrite forallb_app, IH. cbn [forallb].
  rewrite andb_true_r, andb_comm. reflexivity.
Qed.

Lemma forallb_impl {A} (f g : A -> bool) l :
  (forall x, f x = true -> g x = true) -> forallb f l = true -> forallb g l = true.
Proof.
  intros H. rewrite !forallb_forall. auto.
Qed.

Lemma digit_ident_char c : is_digit c = true -> is_ident_char c = true.
Proof. unfold is_ident_char. intros ->. reflexivity. Qed.

Lemma ident_seg_char c : is_ident_char c = true -> is_seg_char c = true.
Proof. unfold is_seg_char. intros ->. reflexivity. Qed.

Lemma ident_char_not_dot c : is_ident_char c = true -> (c =? 46) = false.
Proof.
  intros H. destruct (N.eqb_spec c 46) as [->|]; [|reflexivity].
  vm_compute in H. discriminate.
Qed.

Lemma seg_char_not_dot c :
  is_seg_char c = true -> (c =? 46) = false -> is_ident_char c = true.
Proof.
  unfold is_seg_char. intros H E. rewrite E, orb_false_r in H. exact H.
Qed.

(* ================================================================== *)
(* Decimal numerals                                                    *)
(* ================================================================== *)

Lemma dec_val_snoc l d : dec_val (l ++ [d]) = dec_val l * 10 + (d - 48).
Proof. unfold dec_val. rewrite fold_left_app. reflexivity. Qed.

Lemma pow2_succ f : 2 ^ N.of_nat (S f) = 2 * 2 ^ N.of_nat f.
Proof. rewrite Nat2N.inj_succ, N.pow_succ_r'. reflexivity. Qed.

Lemma div10_bound f n : n < 2 ^ N.of_nat (S f) -> n / 10 < 2 ^ N.of_nat f.
Proof.
  rewrite pow2_succ. intros H. apply N.div_lt_upper_bound; lia.
Qed.

Lemma rdigits_val f n : n < 2 ^ N.of_nat f -> dec_val (rev (rdigits f n)) = n.
Proof.
  revert n; induction f as [|f IH]; intros n Hn.
  - cbn in Hn. cbn [rdigits rev]. unfold dec_val; cbn [fold_left]. lia.
  - cbn [rdigits rev]. rewrite dec_val_snoc.
    pose proof (N.div_mod' n 10) as Hdm.
    pose proof (N.mod_upper_bound n 10) as Hm.
    destruct (N.ltb_spec n 10) as [Hlt|Hge].
    + cbn [rev]. unfold dec_val; cbn [fold_left].
      rewrite (N.mod_small n 10 Hlt). lia.
    + rewrite (IH _ (div10_bound _ _ Hn)). clear IH Hn.
      generalize dependent (n / 10). generalize dependent (n mod 10). intros; lia.
Qed.

Lemma is_digit_mod n : is_digit (48 + n mod 10) = true.
Proof.
  assert (H : n mod 10 < 10) by (apply N.mod_upper_bound; discriminate).
  unfold is_digit. rewrite andb_true_iff, !N.leb_le.
  generalize dependent (n mod 10). intros; lia.
Qed.

Lemma rdigits_digits f n : forallb is_digit (rdigits f n) = true.
Proof.
  revert n; induction f as [|f IH]; intros n; cbn [rdigits forallb]; [reflexivity|].
  rewrite is_digit_mod. destruct (n <? 10); [reflexivity|apply IH].
Qed.

Lemma rdigits_hd f n :
  0 < n -> n < 2 ^ N.of_nat f ->
  exists d r, rev (rdigits f n) = d :: r /\ d <> 48.
Proof.
  revert n; induction f as [|f IH]; intros n Hpos Hn.
  - cbn in Hn. lia.
  - cbn [rdigits rev].
    destruct (N.ltb_spec n 10) as [Hlt|Hge].
    + exists (48 + n mod 10), []. split; [reflexivity|].
      rewrite (N.mod_small n 10 Hlt). lia.
    + assert (Hq : 0 < n / 10) by (apply N.div_str_pos; lia).
      destruct (IH _ Hq (div10_bound _ _ Hn)) as (d & r & E & Hd).
      rewrite E. exists d, (r ++ [48 + n mod 10]). split; [reflexivity|exact Hd].
Qed.

Lemma print_N_bound n : n < 2 ^ N.of_nat (S (N.to_nat (N.log2 n))).
Proof.
  rewrite Nat2N.inj_succ, N2Nat.id.
  destruct (N.eq_dec n 0) as [->|Hne].
  - cbn. lia.
  - apply N.log2_spec. lia.
Qed.

Lemma print_N_val n : dec_val (print_N n) = n.
Proof. apply rdigits_val, print_N_bound. Qed.

Lemma print_N_digits n : forallb is_digit (print_N n) = true.
Proof. unfold print_N. rewrite forallb_rev. apply rdigits_digits. Qed.

Lemma print_N_canon n : canon_num (print_N n) = true.
Proof.
  destruct (N.eq_dec n 0) as [->|Hne]; [reflexivity|].
  destruct (rdigits_hd _ n ltac:(lia) (print_N_bound n)) as (d & r & E & Hd).
  unfold print_N. rewrite E. cbn [canon_num].
  apply N.eqb_neq in Hd. rewrite Hd. reflexivity.
Qed.

Lemma canon_nonempty s : canon_num s = true -> nonempty s = true.
Proof. destruct s; [discriminate|reflexivity]. Qed.

Lemma parse_num_print n r :
  n <= u64_max -> stops is_digit r -> parse_num (print_N n ++ r) = Some (n, r).
Proof.
  intros Hn Hr. unfold parse_num.
  rewrite (span_app _ _ _ (print_N_digits n) Hr).
  rewrite print_N_canon, print_N_val.
  apply N.leb_le in Hn. rewrite Hn. reflexivity.
Qed.

Lemma parse_num_bound s n r : parse_num s = Some (n, r) -> n <=? u64_max = true.
Proof.
  unfold parse_num. destruct (span is_digit s) as [ds r'].
  destruct (canon_num ds); cbn [andb]; [|discriminate].
  destruct (dec_val ds <=? u64_max) eqn:E; [|discriminate].
  intros [= <- _]. exact E.
Qed.

(* ================================================================== *)
(* split / join                                                        *)
(* ================================================================== *)

Definition nodot (s : str) : bool := forallb (fun c => negb (c =? 46)) s.

Lemma ident_nodot s : forallb is_ident_char s = true -> nodot s = true.
Proof.
  apply forallb_impl. intros c H. rewrite (ident_char_not_dot c H). reflexivity.
Qed.

Lemma split_nodot s : nodot s = true -> split_dot s = [s].
Proof.
  induction s as [|c s IH]; [reflexivity|].
  unfold nodot; cbn [forallb]. intros H. apply andb_true_iff in H as [Hc Hs].
  cbn [split_dot]. apply negb_true_iff in Hc. rewrite Hc, (IH Hs). reflexivity.
Qed.

Lemma split_app s x : nodot s = true -> split_dot (s ++ 46 :: x) = s :: split_dot x.
Proof.
  induction s as [|c s IH].
  - intros _. cbn [app split_dot]. rewrite N.eqb_refl. reflexivity.
  - unfold nodot; cbn [forallb]. intros H. apply andb_true_iff in H as [Hc Hs].
    cbn [app split_dot]. apply negb_true_iff in Hc. rewrite Hc, (IH Hs). reflexivity.
Qed.

Lemma split_join segs :
  segs <> [] -> forallb nodot segs = true -> split_dot (join_dot segs) = segs.
Proof.
  induction segs as [|s segs IH]; [congruence|].
  intros _. cbn [forallb]. intros H. apply andb_true_iff in H as [Hs Hr].
  destruct segs as [|t segs].
  - cbn [join_dot]. apply split_nodot, Hs.
  - change (join_dot (s :: t :: segs)) with (s ++ 46 :: join_dot (t :: segs)).
    rewrite (split_app _ _ Hs), IH; [reflexivity|congruence|exact Hr].
Qed.

Lemma join_seg_chars segs :
  forallb (forallb is_ident_char) segs = true ->
  forallb is_seg_char (join_dot segs) = true.
Proof.
  induction segs as [|s segs IH]; [reflexivity|].
  cbn [forallb]. intros H. apply andb_true_iff in H as [Hs Hr].
  assert (Hs' : forallb is_seg_char s = true)
    by (revert Hs; apply forallb_impl, ident_seg_char).
  destruct segs as [|t segs]; [exact Hs'|].
  change (join_dot (s :: t :: segs)) with (s ++ 46 :: join_dot (t :: segs)).
  rewrite forallb_app, Hs'. cbn [forallb andb]. apply IH, Hr.
Qed.

Lemma split_chars body :
  forallb is_seg_char body = true ->
  forallb (forallb is_ident_char) (split_dot body) = true.
Proof.
  induction body as [|c s IH]; [reflexivity|].
  cbn [forallb]. intros H. apply andb_true_iff in H as [Hc Hs].
  specialize (IH Hs). cbn [split_dot].
  destruct (c =? 46) eqn:E.
  - cbn [forallb]. exact IH.
  - pose proof (seg_char_not_dot c Hc E) as Hi.
    destruct (split_dot s) as [|seg segs]; cbn [forallb] in *.
    + rewrite Hi. reflexivity.
    + apply andb_true_iff in IH as [H1 H2]. rewrite Hi, H1, H2. reflexivity.
Qed.

Lemma wf_seg_split segs :
  forallb wf_seg segs = true <->
  forallb nonempty segs = true /\ forallb (forallb is_ident_char) segs = true.
Proof.
  induction segs as [|s segs IH]; cbn [forallb]; [tauto|].
  unfold wf_seg at 1. rewrite !andb_true_iff, IH. tauto.
Qed.

Lemma parse_segs_wf s segs rest :
  parse_segs s = Some (segs, rest) -> forallb wf_seg segs = true.
Proof.
  unfold parse_segs.
  pose proof (span_spec is_seg_char s) as (_ & Hb & _).
  destruct (span is_seg_char s) as [body r]; cbn [fst snd] in *.
  destruct (forallb nonempty (split_dot body)) eqn:E; [|discriminate].
  intros [= <- _]. apply wf_seg_split. split; [exact E|].
  apply split_chars, Hb.
Qed.

Lemma parse_segs_join segs rest :
  segs <> [] -> forallb wf_seg segs = true -> stops is_seg_char rest ->
  parse_segs (join_dot segs ++ rest) = Some (segs, rest).
Proof.
  intros Hne Hwf Hr. apply wf_seg_split in Hwf as [Hn Hc].
  unfold parse_segs. rewrite (span_app _ _ _ (join_seg_chars _ Hc) Hr).
  rewrite split_join; [rewrite Hn; reflexivity|exact Hne|].
  revert Hc. apply forallb_impl, ident_nodot.
Qed.

(* ================================================================== *)
(* [parse] produces well-formed values                                 *)
(* ================================================================== *)

Lemma seg_to_ident_wf seg i :
  wf_seg seg = true -> seg_to_ident seg = Some i -> wf_ident i = true.
Proof.
  unfold wf_seg, seg_to_ident. intros Hw.
  destruct (forallb is_digit seg) eqn:E.
  - destruct (canon_num seg); [|discriminate]. intros [= <-]. reflexivity.
  - intros [= <-]. cbn [wf_ident]. rewrite Hw, E. reflexivity.
Qed.

Lemma map_seg_to_ident_wf segs ids :
  forallb wf_seg segs = true -> map_opt seg_to_ident segs = Some ids ->
  forallb wf_ident ids = true.
Proof.
  revert ids; induction segs as [|s segs IH]; intros ids; cbn [forallb map_opt].
  - intros _ [= <-]. reflexivity.
  - intros H. apply andb_true_iff in H as [Hs Hr].
    destruct (seg_to_ident s) as [i|] eqn:Ei; [|discriminate].
    destruct (map_opt seg_to_ident segs) as [is|] eqn:Em; [|discriminate].
    intros [= <-]. cbn [forallb].
    rewrite (seg_to_ident_wf _ _ Hs Ei), (IH _ Hr eq_refl). reflexivity.
Qed.

Lemma parse_pre_opt_wf s p r :
  parse_pre_opt s = Some (p, r) -> forallb wf_ident p = true.
Proof.
  unfold parse_pre_opt. destruct s as [|c s]; [intros [= <- _]; reflexivity|].
  destruct (c =? 45); [|intros [= <- _]; reflexivity].
  destruct (parse_segs s) as [[segs rest]|] eqn:E; [|discriminate].
  destruct (map_opt seg_to_ident segs) as [ids|] eqn:Em; [|discriminate].
  intros [= <- _]. eapply map_seg_to_ident_wf; [|exact Em].
  eapply parse_segs_wf, E.
Qed.

Lemma parse_build_opt_wf s b :
  parse_build_opt s = Some b -> forallb wf_seg b = true.
Proof.
  unfold parse_build_opt. destruct s as [|c s]; [intros [= <-]; reflexivity|].
  destruct (c =? 43); [|discriminate].
  destruct (parse_segs s) as [[segs [|x rest]]|] eqn:E; try discriminate.
  intros [= <-]. eapply parse_segs_wf, E.
Qed.

Lemma parse_wf : forall s v, parse s = Some v -> wf_version v = true.
Proof.
  intros s v. unfold parse.
  destruct (parse_num s) as [[ma s1]|] eqn:E1; [|discriminate].
  destruct (expect 46 s1) as [s2|]; [|discriminate].
  destruct (parse_num s2) as [[mi s3]|] eqn:E2; [|discriminate].
  destruct (expect 46 s3) as [s4|]; [|discriminate].
  destruct (parse_num s4) as [[pa s5]|] eqn:E3; [|discriminate].
  destruct (parse_pre_opt s5) as [[p s6]|] eqn:E4; [|discriminate].
  destruct (parse_build_opt s6) as [b|] eqn:E5; [|discriminate].
  intros [= <-]. unfold wf_version; cbn [major minor patch pre build].
  rewrite (parse_num_bound _ _ _ E1), (parse_num_bound _ _ _ E2),
    (parse_num_bound _ _ _ E3), (parse_pre_opt_wf _ _ _ E4),
    (parse_build_opt_wf _ _ E5).
  reflexivity.
Qed.

(* ================================================================== *)
(* parse (print v) = Some v                                            *)
(* ================================================================== *)

Lemma print_ident_wf_seg i : wf_ident i = true -> wf_seg (print_ident i) = true.
Proof.
  destruct i as [n|s]; cbn [wf_ident print_ident]; unfold wf_seg.
  - intros _. rewrite (canon_nonempty _ (print_N_canon n)). cbn [andb].
    generalize (print_N_digits n). apply forallb_impl, digit_ident_char.
  - intros H. apply andb_true_iff in H as [H _]. exact H.
Qed.

Lemma seg_to_ident_print i :
  wf_ident i = true -> seg_to_ident (print_ident i) = Some i.
Proof.
  destruct i as [n|s]; cbn [wf_ident print_ident]; unfold seg_to_ident.
  - intros _. rewrite print_N_digits, print_N_canon, print_N_val. reflexivity.
  - intros H. apply andb_true_iff in H as [_ H]. apply negb_true_iff in H.
    rewrite H. reflexivity.
Qed.

Lemma map_print_ident_wf p :
  forallb wf_ident p = true -> forallb wf_seg (map print_ident p) = true.
Proof.
  induction p as [|i p IH]; [reflexivity|].
  cbn [forallb map]. intros H. apply andb_true_iff in H as [Hi Hp].
  rewrite (print_ident_wf_seg _ Hi), (IH Hp). reflexivity.
Qed.

Lemma map_opt_print_ident p :
  forallb wf_ident p = true -> map_opt seg_to_ident (map print_ident p) = Some p.
Proof.
  induction p as [|i p IH]; [reflexivity|].
  cbn [forallb map map_opt]. intros H. apply andb_true_iff in H as [Hi Hp].
  rewrite (seg_to_ident_print _ Hi), (IH Hp). reflexivity.
Qed.

Lemma stops_print_build (p : N -> bool) b : p 43 = false -> stops p (print_build b).
Proof. intros H. destruct b; cbn [print_build stops]; auto. Qed.

Lemma parse_build_opt_print b :
  forallb wf_seg b = true -> parse_build_opt (print_build b) = Some b.
Proof.
  intros Hb. destruct b as [|x b]; [reflexivity|].
  cbn [print_build parse_build_opt]. rewrite N.eqb_refl.
  rewrite <- (app_nil_r (join_dot (x :: b))).
  rewrite parse_segs_join; [reflexivity|congruence|exact Hb|exact I].
Qed.

Lemma parse_pre_opt_print p b :
  forallb wf_ident p = true ->
  parse_pre_opt (print_pre p ++ print_build b) = Some (p, print_build b).
Proof.
  intros Hp. destruct p as [|i p].
  - cbn [print_pre app]. destruct b as [|x b]; [reflexivity|].
    cbn [print_build parse_pre_opt].
    replace (43 =? 45) with false by reflexivity. reflexivity.
  - cbn [print_pre app parse_pre_opt]. rewrite N.eqb_refl.
    rewrite parse_segs_join.
    + rewrite (map_opt_print_ident _ Hp). reflexivity.
    + cbn [map]. congruence.
    + apply map_print_ident_wf, Hp.
    + apply stops_print_build. reflexivity.
Qed.

Lemma stops_digit_tail p b : stops is_digit (print_pre p ++ print_build b).
Proof.
  destruct p as [|i p].
  - cbn [print_pre app]. apply stops_print_build. reflexivity.
  - cbn [print_pre app stops]. reflexivity.
Qed.

Lemma parse_print : forall v, wf_version v = true -> parse (print v) = Some v.
Proof.
  intros [ma mi pa p b]. unfold wf_version, print; cbn [major minor patch pre build].
  rewrite !andb_true_iff, !N.leb_le. intros ((((Hma & Hmi) & Hpa) & Hp) & Hb).
  unfold parse.
  rewrite (parse_num_print ma _ Hma) by reflexivity.
  cbn [expect]. rewrite N.eqb_refl.
  rewrite (parse_num_print mi _ Hmi) by reflexivity.
  cbn [expect]. rewrite N.eqb_refl.
  rewrite (parse_num_print pa _ Hpa) by apply stops_digit_tail.
  rewrite (parse_pre_opt_print _ _ Hp), (parse_build_opt_print _ Hb).
  reflexivity.
Qed.

(* printing is injective on well-formed versions *)
Lemma print_inj : forall a b,
  wf_version a = true -> wf_version b = true -> print a = print b -> a = b.
Proof.
  intros a b Ha Hb E. apply parse_print in Ha, Hb. rewrite E in Ha. congruence.
Qed.

(* ================================================================== *)
(* Faithfulness of the structured model to the crate's string-level    *)
(* comparisons                                                         *)
(* ================================================================== *)

Definition dstep (acc d : N) : N := acc * 10 + (d - 48).

Lemma dec_val_fold s : dec_val s = fold_left dstep s 0.
Proof. reflexivity. Qed.

Lemma is_digit_range c : is_digit c = true -> 48 <= c /\ c <= 57.
Proof. unfold is_digit. rewrite andb_true_iff, !N.leb_le. tauto. Qed.

(* equal length: accumulators decide, then the bytes *)
Lemma fold_same_len a : forall b x y,
  length a = length b ->
  forallb is_digit a = true -> forallb is_digit b = true ->
  (x < y -> fold_left dstep a x < fold_left dstep b y)
  /\ (y < x -> fold_left dstep b y < fold_left dstep a x)
  /\ (x = y -> (fold_left dstep a x ?= fold_left dstep b y) = str_cmp a b).
Proof.
  induction a as [|c a IH]; intros [|d b] x y Hl Ha Hb; try discriminate.
  - cbn [fold_left str_cmp]. repeat split; auto. intros ->. apply N.compare_refl.
  - cbn [forallb] in Ha, Hb.
    apply andb_true_iff in Ha as [Hc Ha]. apply andb_true_iff in Hb as [Hd Hb].
    apply is_digit_range in Hc, Hd. injection Hl as Hl.
    cbn [fold_left str_cmp].
    destruct (IH b (dstep x c) (dstep y d) Hl Ha Hb) as (I1 & I2 & I3).
    unfold dstep in I1, I2, I3 at 1 2. unfold dstep at 2 4 6 8 10 12.
    repeat split.
    + intros H. apply I1. lia.
    + intros H. apply I2. lia.
    + intros ->. destruct (N.compare_spec c d) as [->|H|H].
      * apply I3. reflexivity.
      * apply N.compare_lt_iff, I1. lia.
      * apply N.compare_gt_iff, I2. lia.
Qed.

Lemma fold_shorter b : forall a x y,
  (length a <= length b)%nat ->
  forallb is_digit a = true -> forallb is_digit b = true ->
  x < y -> fold_left dstep a x < fold_left dstep b y.
Proof.
  induction b as [|d b IH]; intros a x y Hl Ha Hb Hxy.
  - destruct a; [exact Hxy|cbn [length] in Hl; lia].
  - destruct (Nat.eq_dec (length a) (length (d :: b))) as [E|E].
    + apply (fold_same_len a (d :: b) x y E Ha Hb), Hxy.
    + cbn [forallb] in Hb. apply andb_true_iff in Hb as [Hd Hb].
      cbn [fold_left]. apply IH; auto.
      * cbn [length] in Hl, E. lia.
      * unfold dstep. lia.
Qed.

Lemma dec_val_shorter a b :
  forallb is_digit a = true -> forallb is_digit b = true ->
  canon_num b = true -> (0 < length a < length b)%nat ->
  dec_val a < dec_val b.
Proof.
  intros Ha Hb Hc Hl. rewrite !dec_val_fold.
  destruct b as [|d b]; [cbn [length] in Hl; lia|].
  cbn [canon_num] in Hc. cbn [forallb] in Hb.
  apply andb_true_iff in Hb as [Hd Hb]. apply is_digit_range in Hd.
  destruct b as [|e b]; [cbn [length] in Hl; lia|].
  cbn [nonempty negb] in Hc. rewrite orb_false_r in Hc.
  apply negb_true_iff, N.eqb_neq in Hc.
  change (fold_left dstep (d :: e :: b) 0)
    with (fold_left dstep (e :: b) (dstep 0 d)).
  apply fold_shorter; auto.
  - cbn [length] in *. lia.
  - unfold dstep. lia.
Qed.

(* [len().cmp().then_with(string_cmp)] on canonical numerals IS numeric order,
   so representing numeric pre-release identifiers by their value is exact. *)
Lemma raw_num_cmp_spec : forall a b,
  forallb is_digit a = true -> forallb is_digit b = true ->
  canon_num a = true -> canon_num b = true ->
  raw_num_cmp a b = (dec_val a ?= dec_val b).
Proof.
  intros a b Ha Hb Ca Cb. unfold raw_num_cmp.
  assert (La : (0 < length a)%nat) by (destruct a; [discriminate|cbn; lia]).
  assert (Lb : (0 < length b)%nat) by (destruct b; [discriminate|cbn; lia]).
  destruct (Nat.compare_spec (length a) (length b)) as [E|E|E]; cbn [then_cmp].
  - rewrite !dec_val_fold. symmetry.
    apply (fold_same_len a b 0 0 E Ha Hb). reflexivity.
  - symmetry. apply N.compare_lt_iff, dec_val_shorter; auto.
  - symmetry. apply N.compare_gt_iff, dec_val_shorter; auto.
Qed.

(* comparing two accepted pre-release pieces the way impls.rs does, on the raw
   strings, is [ident_cmp] on their parsed forms *)
Lemma raw_pre_seg_cmp_spec : forall a b i j,
  seg_to_ident a = Some i -> seg_to_ident b = Some j ->
  raw_pre_seg_cmp a b = ident_cmp i j.
Proof.
  intros a b i j. unfold seg_to_ident, raw_pre_seg_cmp.
  destruct (forallb is_digit a) eqn:Da, (forallb is_digit b) eqn:Db.
  - destruct (canon_num a) eqn:Ca; [|discriminate].
    destruct (canon_num b) eqn:Cb; [|discriminate].
    intros [= <-] [= <-]. cbn [ident_cmp]. apply raw_num_cmp_spec; assumption.
  - destruct (canon_num a); [|discriminate]. intros [= <-] [= <-]. reflexivity.
  - destruct (canon_num b); [|discriminate]. intros [= <-] [= <-]. reflexivity.
  - intros [= <-] [= <-]. reflexivity.
Qed.

(* The crate splits the EMPTY build into the single piece ""; on well-formed
   values that gives the same order as the empty list used here. *)
Lemma seg_cmp_nil_l y : nonempty y = true -> seg_cmp [] y = Lt.
Proof.
  destruct y as [|c y]; [discriminate|]. intros _.
  unfold seg_cmp. cbn [forallb].
  destruct (is_digit c && forallb is_digit y); [|reflexivity].
  unfold num_seg_cmp. change (trim0 []) with (@nil N).
  destruct (trim0 (c :: y)); reflexivity.
Qed.

Lemma seg_cmp_nil_r x : nonempty x = true -> seg_cmp x [] = Gt.
Proof.
  intros H. rewrite (ok_anti seg_cmp_ok [] x), (seg_cmp_nil_l x H). reflexivity.
Qed.

Lemma build_cmp_rust_view : forall a b,
  forallb wf_seg a = true -> forallb wf_seg b = true ->
  lex_cmp seg_cmp (rust_build_pieces a) (rust_build_pieces b) = build_cmp a b.
Proof.
  intros [|x a] [|y b] Ha Hb; try reflexivity; cbn [forallb] in *.
  - apply andb_true_iff in Hb as [Hy _]. unfold wf_seg in Hy.
    apply andb_true_iff in Hy as [Hy _].
    cbn [rust_build_pieces lex_cmp build_cmp]. rewrite (seg_cmp_nil_l y Hy). reflexivity.
  - apply andb_true_iff in Ha as [Hx _]. unfold wf_seg in Hx.
    apply andb_true_iff in Hx as [Hx _].
    cbn [rust_build_pieces lex_cmp build_cmp]. rewrite (seg_cmp_nil_r x Hx). reflexivity.
Qed.

(* the documented chain  0 < 00 < 1 < 01 < 001 < 2 < 02 < 002 < 10  *)
Example build_chain :
  map (fun p => seg_cmp (fst p) (snd p))
      [([48],[48;48]); ([48;48],[49]); ([49],[48;49]); ([48;49],[48;48;49]);
       ([48;48;49],[50]); ([50],[48;50]); ([48;50],[48;48;50]); ([48;48;50],[49;48])]
  = [Lt; Lt; Lt; Lt; Lt; Lt; Lt; Lt].
Proof. reflexivity. Qed.
