(* HttpSyntax.v — an executable recogniser for what an HTTP/1.x server may
   write on a connection: zero or more syntactically valid responses
   (RFC 7230 §3: status-line, header fields, empty line, message body framed by
   Content-Length, by chunked transfer coding, by connection close, or absent
   for 1xx / 204 / 304 / answers to HEAD).  This is the SPECIFICATION the C18
   judge evaluates on the raw bytes the live server sent back; it shares no
   code with dropshot or hyper.  Also a renderer [render] for the round-trip
   theorem (HttpSyntaxProofs.v), and two tiny recognisers for the non-HTTP/1
   answers a server may legitimately give: HTTP/2 frames (after a complete
   HTTP/2 client preface) and TLS records (on a TLS listener).

   No proofs here. *)
From DS Require Import Base.
From Coq Require Decimal Hexadecimal.

Definition bytes := list N.

(* Result of recognising one element at the front of the input. *)
Inductive pres (A : Type) : Type :=
| POk (a : A) (rest : bytes)   (* recognised; [rest] follows it *)
| PMore                        (* the input ended inside the element *)
| PBad                         (* not valid *)
| PFuel.                       (* recursion budget exhausted (see [answer]) *)
Arguments POk {A} a rest.
Arguments PMore {A}.
Arguments PBad {A}.
Arguments PFuel {A}.

Definition pbind {A B} (p : pres A) (k : A -> bytes -> pres B) : pres B :=
  match p with
  | POk a r => k a r
  | PMore => PMore
  | PBad => PBad
  | PFuel => PFuel
  end.

(* ---------- character classes (RFC 7230 §3.2.6, RFC 5234) ---------- *)

Definition CR : N := 13.
Definition LF : N := 10.
Definition SP : N := 32.
Definition HTAB : N := 9.

Definition is_digit (b : N) : bool := (48 <=? b) && (b <=? 57).
Definition is_alpha (b : N) : bool :=
  ((65 <=? b) && (b <=? 90)) || ((97 <=? b) && (b <=? 122)).
(* tchar = "!" / "#" / "$" / "%" / "&" / "'" / "*" / "+" / "-" / "." /
           "^" / "_" / "`" / "|" / "~" / DIGIT / ALPHA *)
Definition tchar (b : N) : bool :=
  is_digit b || is_alpha b ||
  existsb (N.eqb b) [33;35;36;37;38;39;42;43;45;46;94;95;96;124;126].
(* field-content / reason-phrase bytes: HTAB / SP / VCHAR / obs-text *)
Definition field_char (b : N) : bool :=
  (b =? HTAB) || ((32 <=? b) && (b <=? 126)) || ((128 <=? b) && (b <=? 255)).
Definition is_ws (b : N) : bool := (b =? SP) || (b =? HTAB).

(* ---------- lines ---------- *)

(* Everything up to the first CRLF.  A bare CR or LF is invalid. *)
Fixpoint line (bs : bytes) : pres bytes :=
  match bs with
  | [] => PMore
  | b :: rest =>
      if b =? CR then
        match rest with
        | [] => PMore
        | c :: rest' => if c =? LF then POk [] rest' else PBad
        end
      else if b =? LF then PBad
      else match line rest with
           | POk l r => POk (b :: l) r
           | PMore => PMore
           | PBad => PBad
           | PFuel => PFuel
           end
  end.

Fixpoint strip_prefix (p bs : bytes) : option bytes :=
  match p, bs with
  | [], _ => Some bs
  | x :: p', y :: bs' => if x =? y then strip_prefix p' bs' else None
  | _ :: _, [] => None
  end.

(* status-line = HTTP-version SP status-code SP reason-phrase
   (HTTP/1.0 or HTTP/1.1; hyper answers an HTTP/1.0 request with HTTP/1.0) *)
Definition status_line (l : bytes) : option N :=
  match strip_prefix [72;84;84;80;47;49;46] l with      (* "HTTP/1." *)
  | Some (v :: sp1 :: d1 :: d2 :: d3 :: sp2 :: reason) =>
      if ((v =? 48) || (v =? 49)) && (sp1 =? SP)
         && is_digit d1 && is_digit d2 && is_digit d3
         && (sp2 =? SP) && forallb field_char reason
      then Some (100 * (d1 - 48) + 10 * (d2 - 48) + (d3 - 48))
      else None
  | _ => None
  end.

(* split at the first occurrence of [c] *)
Fixpoint split_at (c : N) (l : bytes) : option (bytes * bytes) :=
  match l with
  | [] => None
  | b :: r =>
      if b =? c then Some ([], r)
      else match split_at c r with
           | Some (n, v) => Some (b :: n, v)
           | None => None
           end
  end.

Fixpoint trim_left (v : bytes) : bytes :=
  match v with
  | [] => []
  | b :: r => if is_ws b then trim_left r else v
  end.
Fixpoint trim_right (v : bytes) : bytes :=
  match v with
  | [] => []
  | b :: r =>
      let r' := trim_right r in
      if is_ws b && is_nil r' then [] else b :: r'
  end.
Definition trim_ows (v : bytes) : bytes := trim_right (trim_left v).

(* header-field = field-name ":" OWS field-value OWS; the result is the
   lower-cased name and the trimmed value *)
Definition header_line (l : bytes) : option (str * str) :=
  match split_at 58 l with
  | Some (n, v) =>
      if negb (is_nil n) && forallb tchar n && forallb field_char v
      then Some (str_lower n, trim_ows v)
      else None
  | None => None
  end.

(* header lines up to and including the empty line *)
Fixpoint headers (fuel : nat) (bs : bytes) : pres (list (str * str)) :=
  match fuel with
  | O => PFuel
  | S f =>
      pbind (line bs) (fun l rest =>
        if is_nil l then POk [] rest
        else match header_line l with
             | None => PBad
             | Some h => pbind (headers f rest) (fun hs r => POk (h :: hs) r)
             end)
  end.

(* ---------- numbers ---------- *)

Fixpoint dec_of_bytes (bs : bytes) : option Decimal.uint :=
  match bs with
  | [] => Some Decimal.Nil
  | b :: r =>
      match dec_of_bytes r with
      | None => None
      | Some u =>
          if b =? 48 then Some (Decimal.D0 u) else
          if b =? 49 then Some (Decimal.D1 u) else
          if b =? 50 then Some (Decimal.D2 u) else
          if b =? 51 then Some (Decimal.D3 u) else
          if b =? 52 then Some (Decimal.D4 u) else
          if b =? 53 then Some (Decimal.D5 u) else
          if b =? 54 then Some (Decimal.D6 u) else
          if b =? 55 then Some (Decimal.D7 u) else
          if b =? 56 then Some (Decimal.D8 u) else
          if b =? 57 then Some (Decimal.D9 u) else None
      end
  end.

Fixpoint bytes_of_dec (u : Decimal.uint) : bytes :=
  match u with
  | Decimal.Nil => []
  | Decimal.D0 u => 48 :: bytes_of_dec u
  | Decimal.D1 u => 49 :: bytes_of_dec u
  | Decimal.D2 u => 50 :: bytes_of_dec u
  | Decimal.D3 u => 51 :: bytes_of_dec u
  | Decimal.D4 u => 52 :: bytes_of_dec u
  | Decimal.D5 u => 53 :: bytes_of_dec u
  | Decimal.D6 u => 54 :: bytes_of_dec u
  | Decimal.D7 u => 55 :: bytes_of_dec u
  | Decimal.D8 u => 56 :: bytes_of_dec u
  | Decimal.D9 u => 57 :: bytes_of_dec u
  end.

(* 1*DIGIT *)
Definition parse_dec (bs : bytes) : option N :=
  if is_nil bs then None
  else match dec_of_bytes bs with
       | Some u => Some (N.of_uint u)
       | None => None
       end.
Definition print_dec (n : N) : bytes := bytes_of_dec (N.to_uint n).

Fixpoint hex_of_bytes (bs : bytes) : option Hexadecimal.uint :=
  match bs with
  | [] => Some Hexadecimal.Nil
  | b :: r =>
      match hex_of_bytes r with
      | None => None
      | Some u =>
          if b =? 48 then Some (Hexadecimal.D0 u) else
          if b =? 49 then Some (Hexadecimal.D1 u) else
          if b =? 50 then Some (Hexadecimal.D2 u) else
          if b =? 51 then Some (Hexadecimal.D3 u) else
          if b =? 52 then Some (Hexadecimal.D4 u) else
          if b =? 53 then Some (Hexadecimal.D5 u) else
          if b =? 54 then Some (Hexadecimal.D6 u) else
          if b =? 55 then Some (Hexadecimal.D7 u) else
          if b =? 56 then Some (Hexadecimal.D8 u) else
          if b =? 57 then Some (Hexadecimal.D9 u) else
          if (b =? 65) || (b =? 97) then Some (Hexadecimal.Da u) else
          if (b =? 66) || (b =? 98) then Some (Hexadecimal.Db u) else
          if (b =? 67) || (b =? 99) then Some (Hexadecimal.Dc u) else
          if (b =? 68) || (b =? 100) then Some (Hexadecimal.Dd u) else
          if (b =? 69) || (b =? 101) then Some (Hexadecimal.De u) else
          if (b =? 70) || (b =? 102) then Some (Hexadecimal.Df u) else None
      end
  end.

(* upper case, as hyper prints chunk sizes *)
Fixpoint bytes_of_hex (u : Hexadecimal.uint) : bytes :=
  match u with
  | Hexadecimal.Nil => []
  | Hexadecimal.D0 u => 48 :: bytes_of_hex u
  | Hexadecimal.D1 u => 49 :: bytes_of_hex u
  | Hexadecimal.D2 u => 50 :: bytes_of_hex u
  | Hexadecimal.D3 u => 51 :: bytes_of_hex u
  | Hexadecimal.D4 u => 52 :: bytes_of_hex u
  | Hexadecimal.D5 u => 53 :: bytes_of_hex u
  | Hexadecimal.D6 u => 54 :: bytes_of_hex u
  | Hexadecimal.D7 u => 55 :: bytes_of_hex u
  | Hexadecimal.D8 u => 56 :: bytes_of_hex u
  | Hexadecimal.D9 u => 57 :: bytes_of_hex u
  | Hexadecimal.Da u => 65 :: bytes_of_hex u
  | Hexadecimal.Db u => 66 :: bytes_of_hex u
  | Hexadecimal.Dc u => 67 :: bytes_of_hex u
  | Hexadecimal.Dd u => 68 :: bytes_of_hex u
  | Hexadecimal.De u => 69 :: bytes_of_hex u
  | Hexadecimal.Df u => 70 :: bytes_of_hex u
  end.

Definition parse_hex (bs : bytes) : option N :=
  if is_nil bs then None
  else match hex_of_bytes bs with
       | Some u => Some (N.of_hex_uint u)
       | None => None
       end.
Definition print_hex (n : N) : bytes := bytes_of_hex (N.to_hex_uint n).

(* ---------- message body framing (RFC 7230 §3.3.3) ---------- *)

Definition s_content_length : str :=
  [99;111;110;116;101;110;116;45;108;101;110;103;116;104].
Definition s_transfer_encoding : str :=
  [116;114;97;110;115;102;101;114;45;101;110;99;111;100;105;110;103].
Definition s_chunked : str := [99;104;117;110;107;101;100].

Definition values_of (name : str) (hs : list (str * str)) : list str :=
  map snd (filter (fun h => str_eqb (fst h) name) hs).

(* the last element of a comma-separated list, trimmed *)
Fixpoint last_item (cur : bytes) (v : bytes) : bytes :=
  match v with
  | [] => trim_ows cur
  | b :: r => if b =? 44 then last_item [] r else last_item (cur ++ [b]) r
  end.

Inductive framing :=
| FNone              (* no body: 1xx, 204, 304, answer to HEAD *)
| FLen (n : N)
| FChunked
| FClose             (* the body runs until the connection closes *)
| FUpgrade           (* 101: what follows is no longer HTTP *)
| FBad.

Definition all_same_dec (vs : list str) : option N :=
  match vs with
  | [] => None
  | v :: vs' =>
      match parse_dec v with
      | None => None
      | Some n =>
          if forallb (fun w => match parse_dec w with Some m => m =? n | None => false end) vs'
          then Some n else None
      end
  end.

Definition bodiless (st : N) : bool := (st <? 200) || (st =? 204) || (st =? 304).

Definition framing_of (head_only : bool) (st : N) (hs : list (str * str)) : framing :=
  if st =? 101 then FUpgrade
  else if head_only || bodiless st then FNone
  else let tes := values_of s_transfer_encoding hs in
       if negb (is_nil tes) then
         if str_eqb (str_lower (last_item [] (last tes []))) s_chunked
         then FChunked else FClose
       else
         let cls := values_of s_content_length hs in
         if is_nil cls then FClose
         else match all_same_dec cls with Some n => FLen n | None => FBad end.

(* exactly [n] bytes; structural on the input so that an absurd length costs
   nothing *)
Fixpoint take_N (bs : bytes) (n : N) {struct bs} : pres bytes :=
  if n =? 0 then POk [] bs
  else match bs with
       | [] => PMore
       | b :: r => pbind (take_N r (n - 1)) (fun l r' => POk (b :: l) r')
       end.

Definition expect_crlf (bs : bytes) : pres unit :=
  match bs with
  | [] => PMore
  | a :: r =>
      if a =? CR then
        match r with
        | [] => PMore
        | b :: r' => if b =? LF then POk tt r' else PBad
        end
      else PBad
  end.

(* chunk-size [ ";" chunk-ext ] *)
Definition chunk_size (l : bytes) : option N :=
  match split_at 59 l with
  | Some (sz, ext) => if forallb field_char ext then parse_hex sz else None
  | None => parse_hex l
  end.

(* chunked-body = *chunk last-chunk trailer-part CRLF.  [hf] is the budget
   for the trailer's header loop. *)
Fixpoint chunks (hf fuel : nat) (bs : bytes) : pres unit :=
  match fuel with
  | O => PFuel
  | S f =>
      pbind (line bs) (fun l r1 =>
        match chunk_size l with
        | None => PBad
        | Some n =>
            if n =? 0 then pbind (headers hf r1) (fun _ r2 => POk tt r2)
            else pbind (take_N r1 n) (fun _ r2 =>
                 pbind (expect_crlf r2) (fun _ r3 => chunks hf f r3))
        end)
  end.

(* One response.  [head_only]: the responses on this connection answer HEAD
   requests; [closed]: the server has closed the connection after these
   bytes. *)
Definition response1 (fuel : nat) (head_only closed : bool) (bs : bytes) : pres N :=
  pbind (line bs) (fun l r1 =>
    match status_line l with
    | None => PBad
    | Some st =>
        pbind (headers fuel r1) (fun hs r2 =>
          match framing_of head_only st hs with
          | FNone => POk st r2
          | FLen n => pbind (take_N r2 n) (fun _ r3 => POk st r3)
          | FChunked => pbind (chunks fuel fuel r2) (fun _ r3 => POk st r3)
          | FClose => if closed then POk st [] else PMore
          | FUpgrade => POk st []
          | FBad => PBad
          end)
    end).

(* What a whole answer is: the statuses of the complete valid responses at
   its front, and how it ends. *)
Inductive answer :=
| AComplete (sts : list N)     (* nothing but complete valid responses *)
| APartial (sts : list N)      (* ... followed by a proper prefix of one more *)
| AInvalid (sts : list N)      (* ... followed by bytes that are not a response *)
| AFuel.

Definition acons (st : N) (a : answer) : answer :=
  match a with
  | AComplete l => AComplete (st :: l)
  | APartial l => APartial (st :: l)
  | AInvalid l => AInvalid (st :: l)
  | AFuel => AFuel
  end.

Fixpoint responses (hf fuel : nat) (head_only closed : bool) (bs : bytes) : answer :=
  match fuel with
  | O => AFuel
  | S f =>
      if is_nil bs then AComplete []
      else match response1 hf head_only closed bs with
           | POk st rest => acons st (responses hf f head_only closed rest)
           | PMore => APartial []
           | PBad => AInvalid []
           | PFuel => AFuel
           end
  end.

(* Every loop above consumes at least two bytes per iteration, so the length
   of the input (+1) is always enough budget: [AFuel]/[PFuel] cannot come out
   of [parse_answer] (HttpSyntaxProofs.parse_answer_no_fuel). *)
Definition parse_answer (head_only closed : bool) (bs : bytes) : answer :=
  responses (S (length bs)) (S (length bs)) head_only closed bs.

(* one or more syntactically valid responses and nothing else *)
Definition valid_response (bs : bytes) : bool :=
  match parse_answer false true bs with
  | AComplete (_ :: _) => true
  | _ => false
  end.

(* ---------- a renderer, for the round-trip theorem ---------- *)

Inductive rbody :=
| RNoBody
| RLen (b : bytes)
| RChunked (cs : list bytes).

Record resp := {
  rs_minor : bool;                      (* true: HTTP/1.1, false: HTTP/1.0 *)
  rs_status : N;
  rs_reason : bytes;
  rs_headers : list (bytes * bytes);
  rs_body : rbody
}.

Definition digits3 (n : N) : bytes :=
  [48 + n / 100; 48 + (n / 10) mod 10; 48 + n mod 10].

Definition render_header (h : bytes * bytes) : bytes :=
  fst h ++ [58; SP] ++ snd h ++ [CR; LF].

Definition render_chunk (c : bytes) : bytes :=
  print_hex (N.of_nat (length c)) ++ [CR; LF] ++ c ++ [CR; LF].

Definition render_body_header (b : rbody) : list (bytes * bytes) :=
  match b with
  | RNoBody => []
  | RLen body => [(s_content_length, print_dec (N.of_nat (length body)))]
  | RChunked _ => [(s_transfer_encoding, s_chunked)]
  end.

Definition render_body (b : rbody) : bytes :=
  match b with
  | RNoBody => []
  | RLen body => body
  | RChunked cs => concat (map render_chunk cs) ++ [48; CR; LF; CR; LF]
  end.

Definition render (r : resp) : bytes :=
  [72;84;84;80;47;49;46] ++ [if rs_minor r then 49 else 48] ++ [SP]
  ++ digits3 (rs_status r) ++ [SP] ++ rs_reason r ++ [CR; LF]
  ++ concat (map render_header (rs_headers r ++ render_body_header (rs_body r)))
  ++ [CR; LF]
  ++ render_body (rs_body r).

Definition wf_header (h : bytes * bytes) : bool :=
  negb (is_nil (fst h)) && forallb tchar (fst h) && forallb field_char (snd h)
  && negb (str_eqb (str_lower (fst h)) s_content_length)
  && negb (str_eqb (str_lower (fst h)) s_transfer_encoding).

Definition wf_resp (r : resp) : bool :=
  (100 <=? rs_status r) && (rs_status r <? 1000) && negb (rs_status r =? 101)
  && forallb field_char (rs_reason r)
  && forallb wf_header (rs_headers r)
  && match rs_body r with
     | RNoBody => bodiless (rs_status r)
     | RLen _ => negb (bodiless (rs_status r))
     | RChunked cs => negb (bodiless (rs_status r)) && forallb (fun c => negb (is_nil c)) cs
     end.

(* ---------- HTTP/2 frames and TLS records (syntax only) ---------- *)

(* RFC 7540 §4.1: 24-bit length, type, flags, 32-bit stream id, payload.
   Returns the frame types. *)
Fixpoint h2_frames (fuel : nat) (bs : bytes) : option (list N) :=
  match fuel with
  | O => None
  | S f =>
      match bs with
      | [] => Some []
      | l1 :: l2 :: l3 :: ty :: _fl :: _s1 :: _s2 :: _s3 :: _s4 :: rest =>
          match take_N rest (l1 * 65536 + l2 * 256 + l3) with
          | POk _ rest' =>
              match h2_frames f rest' with
              | Some tys => Some (ty :: tys)
              | None => None
              end
          | _ => None
          end
      | _ => None
      end
  end.

(* complete HTTP/2 frames, the first a SETTINGS frame (type 4) *)
Definition valid_h2_answer (bs : bytes) : bool :=
  match h2_frames (S (length bs)) bs with
  | Some (ty :: _) => ty =? 4
  | _ => false
  end.

(* RFC 8446 §5.1: content type 20..24, legacy version 3.x, 16-bit length *)
Fixpoint tls_records (fuel : nat) (bs : bytes) : option (list N) :=
  match fuel with
  | O => None
  | S f =>
      match bs with
      | [] => Some []
      | ty :: maj :: _min :: l1 :: l2 :: rest =>
          if (20 <=? ty) && (ty <=? 24) && (maj =? 3) then
            match take_N rest (l1 * 256 + l2) with
            | POk _ rest' =>
                match tls_records f rest' with
                | Some tys => Some (ty :: tys)
                | None => None
                end
            | _ => None
            end
          else None
      | _ => None
      end
  end.

Definition valid_tls_answer (bs : bytes) : bool :=
  match tls_records (S (length bs)) bs with
  | Some _ => true
  | None => false
  end.
