(* TaskMode.v — the handler-task-mode protocol of dropshot as a labelled
   transition system (C16).  Model only; the lemmas are in TaskModeProofs.v.

   Code modelled: dropshot/src/server.rs
     http_request_handle       (HandlerTaskMode::CancelOnDisconnect awaits the
                                handler inside the service future; Detached
                                tokio::spawn's it and awaits a oneshot; a panic
                                of the task is re-raised in the service future)
     http_request_handle_wrap  (the scope guard that fires when the service
                                future is dropped: "client disconnected")
   and the two facts about the runtime underneath that the protocol depends
   on (contracts, not modelled further): hyper drops the in-flight service
   future once it has noticed that the client went away (step [Detect]); a
   task given to tokio::spawn is polled to completion regardless of who
   awaits it.

   One record per request (several requests interleave in one trace):
     rh    the handler          NotStarted | Running k | Completed | Cancelled | Panicked
     rc    the client's socket  Open | Gone
     rr    the response         Unsent | Delivered | Dropped
     rdet  hyper has dropped the service future of this request *)
From DS Require Import Base.

Inductive mode := CancelOnDisconnect | Detached.

Inductive hstate := NotStarted | Running (k : N) | Completed | Cancelled | Panicked.
Inductive cstate := Open | Gone.
Inductive rstate := Unsent | Delivered | Dropped.

Record rq := mkRq { rh : hstate; rc : cstate; rr : rstate; rdet : bool }.

(* a request nobody has seen yet *)
Definition rq0 : rq := mkRq NotStarted Open Unsent false.

(* finite map request id -> record, as an association list; an id that is not
   bound is a request in its initial state *)
Definition state := list (N * rq).

Fixpoint lookup (st : state) (q : N) : rq :=
  match st with
  | [] => rq0
  | (q', r) :: t => if q =? q' then r else lookup t q
  end.

Fixpoint set (st : state) (q : N) (r : rq) : state :=
  match st with
  | [] => [(q, r)]
  | (q', r') :: t => if q =? q' then (q, r) :: t else (q', r') :: set t q r
  end.

Inductive ev :=
| Start (q : N)       (* the handler future is polled for the first time *)
| Tick (q : N)        (* the handler makes progress *)
| Finish (q : N)      (* the handler returns its result *)
| Panic (q : N)       (* the handler panics *)
| Disconnect (q : N)  (* the client closes / resets / half-closes its socket *)
| Detect (q : N)      (* hyper notices and drops the service future *)
| Deliver (q : N).    (* the response has been written to a client that reads it *)

Definition ev_req (e : ev) : N :=
  match e with
  | Start q | Tick q | Finish q | Panic q | Disconnect q | Detect q | Deliver q => q
  end.

(* may the handler of this request still be polled?  CancelOnDisconnect: only
   while the service future that contains it lives.  Detached: always — the
   handler is its own task (a task spawned just before the service future was
   dropped still starts). *)
Definition alive (m : mode) (r : rq) : bool :=
  match m with
  | Detached => true
  | CancelOnDisconnect => negb (rdet r)
  end.

Definition is_running (h : hstate) : bool :=
  match h with Running _ => true | _ => false end.

Definition terminal (h : hstate) : bool :=
  match h with Completed | Cancelled | Panicked => true | _ => false end.

Definition step_rq (m : mode) (r : rq) (e : ev) : option rq :=
  match e with
  | Start _ =>
      match rh r with
      | NotStarted => if alive m r then Some (mkRq (Running 0) (rc r) (rr r) (rdet r)) else None
      | _ => None
      end
  | Tick _ =>
      match rh r with
      | Running k => if alive m r then Some (mkRq (Running (k + 1)) (rc r) (rr r) (rdet r)) else None
      | _ => None
      end
  | Finish _ =>
      match rh r with
      | Running _ =>
          if alive m r
          then (* Detached with the waiter gone: [tx.send(result)] fails, "request
                  completed after handler was already cancelled" *)
               Some (mkRq Completed (rc r) (if rdet r then Dropped else rr r) (rdet r))
          else None
      | _ => None
      end
  | Panic _ =>
      match rh r with
      | Running _ =>
          (* the panic unwinds the service future (directly, or re-raised by
             [panic::resume_unwind] after [rx.await] failed): no response *)
          if alive m r then Some (mkRq Panicked (rc r) Dropped (rdet r)) else None
      | _ => None
      end
  | Disconnect _ =>
      match rc r with
      | Open => Some (mkRq (rh r) Gone (rr r) (rdet r))
      | Gone => None
      end
  | Detect _ =>
      match rc r, rdet r with
      | Gone, false =>
          let h' := match m, rh r with
                    | CancelOnDisconnect, Running _ => Cancelled   (* direct await: dropped with the service future *)
                    | _, h => h                                    (* Detached: only the waiter [rx.await] is dropped *)
                    end in
          let r' := match rr r with Unsent => Dropped | x => x end in
          Some (mkRq h' Gone r' true)
      | _, _ => None
      end
  | Deliver _ =>
      match rh r, rr r, rdet r with
      | Completed, Unsent, false => Some (mkRq Completed (rc r) Delivered false)
      | _, _, _ => None
      end
  end.

Definition step (m : mode) (st : state) (e : ev) : option state :=
  match step_rq m (lookup st (ev_req e)) e with
  | Some r' => Some (set st (ev_req e) r')
  | None => None
  end.

Fixpoint run (m : mode) (st : state) (t : list ev) : option state :=
  match t with
  | [] => Some st
  | e :: t' => match step m st e with
               | Some st' => run m st' t'
               | None => None
               end
  end.

Definition init : state := [].

Definition accepts (m : mode) (t : list ev) : bool :=
  match run m init t with Some _ => true | None => false end.

(* ---- counting events of a trace ---- *)

Definition ev_eqb (a b : ev) : bool :=
  match a, b with
  | Start x, Start y | Tick x, Tick y | Finish x, Finish y | Panic x, Panic y
  | Disconnect x, Disconnect y | Detect x, Detect y | Deliver x, Deliver y => x =? y
  | _, _ => false
  end.

Fixpoint count (e : ev) (t : list ev) : N :=
  match t with
  | [] => 0
  | x :: t' => (if ev_eqb e x then 1 else 0) + count e t'
  end.

(* ---- observed traces ----

   What the harness can see of a run of the live server.  [ODropped q]: the
   handler future of q was dropped before it returned (a drop guard inside the
   handler).  [Detect] is not observable by itself: in CancelOnDisconnect mode
   its effect on a running handler is ([ODropped]); where it has no observable
   effect it is placed at the end of the trace ([closing]).  [ODeliver q c]:
   the client of q read a response, complete (c = true) or cut short.
   [ONoResp q]: the client of q saw its connection end without a response. *)
Inductive oev :=
| OStart (q : N) | OTick (q : N) | OFinish (q : N) | OPanic (q : N) | ODropped (q : N)
| ODisconnect (q : N) | ODeliver (q : N) (complete : bool) | ONoResp (q : N).

Definition oev_req (o : oev) : N :=
  match o with
  | OStart q | OTick q | OFinish q | OPanic q | ODropped q | ODisconnect q
  | ODeliver q _ | ONoResp q => q
  end.

(* the model events an observation stands for, in the state reached so far;
   None: the model cannot exhibit this observation here *)
Definition elab (m : mode) (st : state) (o : oev) : option (list ev) :=
  match o with
  | OStart q => Some [Start q]
  | OTick q => Some [Tick q]
  | OFinish q => Some [Finish q]
  | OPanic q => Some [Panic q]
  | ODisconnect q => Some [Disconnect q]
  | ODropped q =>
      match m with
      | CancelOnDisconnect =>
          if is_running (rh (lookup st q)) then Some [Detect q] else None
      | Detached => None    (* a spawned handler is never dropped before it returns *)
      end
  | ODeliver q true => Some [Deliver q]
  | ODeliver q false => Some []
  | ONoResp q => Some []
  end.

Fixpoint run_obs (m : mode) (st : state) (os : list oev) : option (state * list ev) :=
  match os with
  | [] => Some (st, [])
  | o :: os' =>
      match elab m st o with
      | None => None
      | Some ls =>
          match run m st ls with
          | None => None
          | Some st' =>
              match run_obs m st' os' with
              | None => None
              | Some (st'', ls') => Some (st'', ls ++ ls')
              end
          end
      end
  end.

(* the [Detect] steps without observable effect, placed at the end: for every
   request whose client is gone and whose service future has not been dropped
   yet — except a handler still running under CancelOnDisconnect (that drop
   would have been observed) *)
Fixpoint closing (m : mode) (st : state) : list ev :=
  match st with
  | [] => []
  | (q, r) :: t =>
      let rest := closing m t in
      match rc r, rdet r with
      | Gone, false =>
          match m, is_running (rh r) with
          | CancelOnDisconnect, true => rest
          | _, _ => Detect q :: rest
          end
      | _, _ => rest
      end
  end.

(* keys are unique in every state built by [set] from [init], so the [Detect]s
   of [closing] concern distinct requests *)

(* the complete judgement of an observed trace: the model labels it stands for
   (with the closing [Detect]s) and the final state, if the model accepts *)
Definition replay_obs (m : mode) (os : list oev) : option (state * list ev) :=
  match run_obs m init os with
  | None => None
  | Some (st, ls) =>
      let cl := closing m st in
      match run m st cl with
      | None => None
      | Some st' => Some (st', ls ++ cl)
      end
  end.

(* nothing left to happen: no handler running, every completed handler whose
   service future survived has had its response delivered *)
Definition rq_quiescent (r : rq) : bool :=
  negb (is_running (rh r)) &&
  match rh r, rr r, rdet r with
  | Completed, Unsent, false => false
  | _, _, _ => true
  end.

Definition quiescent (st : state) : bool := forallb (fun p => rq_quiescent (snd p)) st.
