(* Schema.v — the two schema ASTs of the JSON Schema -> OpenAPI conversion.

   Source: schemars 0.8 [schemars::schema::{Schema, SchemaObject, Metadata,
   SubschemaValidation, NumberValidation, StringValidation, ArrayValidation,
   ObjectValidation, InstanceType, SingleOrVec}], field for field.
   [Map<String,_>]/[Set<String>] are BTreeMap/BTreeSet (schemars without
   preserve_order): modelled as association lists / lists in iteration order.
   [f64] fields are exact rationals ([Json.q]); [u32] fields are [N].

   Target: openapiv3 2.x [ReferenceOr<Schema>], [Schema {schema_data,
   schema_kind}], [SchemaKind], [Type], [StringType] ... field for field, except
   [SchemaData::external_docs]/[discriminator] (the converter never sets them:
   they stay [None]; the harness reports their appearance as unparsable) and
   [AnySchema], of which only [AnySchema::default()] is ever produced: [KAny].

   The containers are parameterised records so that the recursive types are
   plain (non-mutual) nested inductives.  No proofs in this file. *)
From DS Require Import Base Json.

(* ------------------------------------------------------------ source *)

Inductive itype := TNull | TBoolean | TObject | TArray | TNumber | TString | TInteger.

Inductive sov (A : Type) := Single (a : A) | Multi (l : list A).
Arguments Single {A} a.
Arguments Multi {A} l.

Record metadata := mkMeta {
  m_id : option str;
  m_title : option str;
  m_description : option str;
  m_default : option json;
  m_deprecated : bool;
  m_read_only : bool;
  m_write_only : bool;
  m_examples : list json }.

Record numval := mkNumVal {
  nv_multiple_of : option q;
  nv_maximum : option q;
  nv_exclusive_maximum : option q;
  nv_minimum : option q;
  nv_exclusive_minimum : option q }.

Record strval := mkStrVal {
  sv_max_length : option N;
  sv_min_length : option N;
  sv_pattern : option str }.

Record subsval (A : Type) := mkSubs {
  sb_all_of : option (list A);
  sb_any_of : option (list A);
  sb_one_of : option (list A);
  sb_not : option A;
  sb_if : option A;
  sb_then : option A;
  sb_else : option A }.
Arguments mkSubs {A}.
Arguments sb_all_of {A}. Arguments sb_any_of {A}. Arguments sb_one_of {A}.
Arguments sb_not {A}. Arguments sb_if {A}. Arguments sb_then {A}. Arguments sb_else {A}.

Record arrval (A : Type) := mkArrVal {
  av_items : option (sov A);
  av_additional_items : option A;
  av_max_items : option N;
  av_min_items : option N;
  av_unique_items : option bool;
  av_contains : option A }.
Arguments mkArrVal {A}.
Arguments av_items {A}. Arguments av_additional_items {A}. Arguments av_max_items {A}.
Arguments av_min_items {A}. Arguments av_unique_items {A}. Arguments av_contains {A}.

Record objval (A : Type) := mkObjVal {
  ov_max_properties : option N;
  ov_min_properties : option N;
  ov_required : list str;
  ov_properties : list (str * A);
  ov_pattern_properties : list (str * A);
  ov_additional_properties : option A;
  ov_property_names : option A }.
Arguments mkObjVal {A}.
Arguments ov_max_properties {A}. Arguments ov_min_properties {A}. Arguments ov_required {A}.
Arguments ov_properties {A}. Arguments ov_pattern_properties {A}.
Arguments ov_additional_properties {A}. Arguments ov_property_names {A}.

Record sobj (A : Type) := mkSObj {
  so_metadata : option metadata;
  so_instance_type : option (sov itype);
  so_format : option str;
  so_enum_values : option (list json);
  so_const_value : option json;
  so_subschemas : option (subsval A);
  so_number : option numval;
  so_string : option strval;
  so_array : option (arrval A);
  so_object : option (objval A);
  so_reference : option str;
  so_extensions : list (str * json) }.
Arguments mkSObj {A}.
Arguments so_metadata {A}. Arguments so_instance_type {A}. Arguments so_format {A}.
Arguments so_enum_values {A}. Arguments so_const_value {A}. Arguments so_subschemas {A}.
Arguments so_number {A}. Arguments so_string {A}. Arguments so_array {A}.
Arguments so_object {A}. Arguments so_reference {A}. Arguments so_extensions {A}.

Inductive schema :=
| SBool (b : bool)
| SObj (o : sobj schema).

(* [SchemaObject::default()] *)
Definition sobj_default : sobj schema :=
  mkSObj None None None None None None None None None None None [].

(* ------------------------------------------------------------ target *)

Inductive strfmt := SFDate | SFDateTime | SFPassword | SFByte | SFBinary.
Inductive numfmt := NFFloat | NFDouble.
Inductive intfmt := IFInt32 | IFInt64.

(* openapiv3::VariantOrUnknownOrEmpty<T> *)
Inductive vou (T : Type) := VItem (t : T) | VUnknown (s : str) | VEmpty.
Arguments VItem {T} t.
Arguments VUnknown {T} s.
Arguments VEmpty {T}.

Record sdata := mkSData {
  sd_nullable : bool;
  sd_read_only : bool;
  sd_write_only : bool;
  sd_deprecated : bool;
  sd_example : option json;
  sd_title : option str;
  sd_description : option str;
  sd_default : option json;
  sd_extensions : list (str * json) }.

Definition sdata_default : sdata :=
  mkSData false false false false None None None None [].

Record ostring := mkOString {
  os_format : vou strfmt;
  os_pattern : option str;
  os_enumeration : list (option str);
  os_min_length : option N;
  os_max_length : option N }.

Record onumber := mkONumber {
  on_format : vou numfmt;
  on_multiple_of : option q;
  on_exclusive_minimum : bool;
  on_exclusive_maximum : bool;
  on_minimum : option q;
  on_maximum : option q;
  on_enumeration : list (option q) }.

Record ointeger := mkOInteger {
  oi_format : vou intfmt;
  oi_multiple_of : option Z;
  oi_exclusive_minimum : bool;
  oi_exclusive_maximum : bool;
  oi_minimum : option Z;
  oi_maximum : option Z;
  oi_enumeration : list (option Z) }.

Inductive oaddl (A : Type) := AAny (b : bool) | ASchema (a : A).
Arguments AAny {A} b.
Arguments ASchema {A} a.

Record oobject (A : Type) := mkOObject {
  oo_properties : list (str * A);
  oo_required : list str;
  oo_additional_properties : option (oaddl A);
  oo_min_properties : option N;
  oo_max_properties : option N }.
Arguments mkOObject {A}.
Arguments oo_properties {A}. Arguments oo_required {A}. Arguments oo_additional_properties {A}.
Arguments oo_min_properties {A}. Arguments oo_max_properties {A}.

Record oarray (A : Type) := mkOArray {
  oa_items : option A;
  oa_min_items : option N;
  oa_max_items : option N;
  oa_unique_items : bool }.
Arguments mkOArray {A}.
Arguments oa_items {A}. Arguments oa_min_items {A}. Arguments oa_max_items {A}.
Arguments oa_unique_items {A}.

Inductive otype (A : Type) :=
| OTString (s : ostring)
| OTNumber (n : onumber)
| OTInteger (i : ointeger)
| OTObject (o : oobject A)
| OTArray (a : oarray A)
| OTBoolean (enumeration : list (option bool)).
Arguments OTString {A} s.
Arguments OTNumber {A} n.
Arguments OTInteger {A} i.
Arguments OTObject {A} o.
Arguments OTArray {A} a.
Arguments OTBoolean {A} enumeration.

Inductive okind (A : Type) :=
| KType (t : otype A)
| KOneOf (l : list A)
| KAllOf (l : list A)
| KAnyOf (l : list A)
| KNot (a : A)
| KAny.
Arguments KType {A} t.
Arguments KOneOf {A} l.
Arguments KAllOf {A} l.
Arguments KAnyOf {A} l.
Arguments KNot {A} a.
Arguments KAny {A}.

(* openapiv3::ReferenceOr<Schema> (and ReferenceOr<Box<Schema>>) *)
Inductive oschema :=
| ORef (reference : str)
| OItem (d : sdata) (k : okind oschema).

(* ------------------------------------------------------------ sizes
   (number of constructors; used for well-founded induction in the proofs and
   as a measure of a case in the evidence) *)

Section Sizes.
  Context {A : Type} (sz : A -> nat).
  Definition size_opt (o : option A) : nat := match o with None => O | Some a => S (sz a) end.
  Fixpoint size_list (l : list A) : nat := match l with [] => O | a :: r => S (sz a + size_list r) end.
  Definition size_optlist (o : option (list A)) : nat :=
    match o with None => O | Some l => S (size_list l) end.
  Fixpoint size_plist (l : list (str * A)) : nat :=
    match l with [] => O | (_, a) :: r => S (sz a + size_plist r) end.
  Definition size_sov (o : option (sov A)) : nat :=
    match o with None => O | Some (Single a) => S (sz a) | Some (Multi l) => S (size_list l) end.
End Sizes.

Fixpoint schema_size (s : schema) : nat :=
  match s with
  | SBool _ => 1
  | SObj o =>
      S (match so_subschemas o with
         | None => O
         | Some sb =>
             size_optlist schema_size (sb_all_of sb) + size_optlist schema_size (sb_any_of sb)
             + size_optlist schema_size (sb_one_of sb) + size_opt schema_size (sb_not sb)
             + size_opt schema_size (sb_if sb) + size_opt schema_size (sb_then sb)
             + size_opt schema_size (sb_else sb)
         end
         + match so_array o with
           | None => O
           | Some av =>
               size_sov schema_size (av_items av) + size_opt schema_size (av_additional_items av)
               + size_opt schema_size (av_contains av)
           end
         + match so_object o with
           | None => O
           | Some ov =>
               size_plist schema_size (ov_properties ov)
               + size_plist schema_size (ov_pattern_properties ov)
               + size_opt schema_size (ov_additional_properties ov)
               + size_opt schema_size (ov_property_names ov)
           end)
  end.

Fixpoint oschema_size (o : oschema) : nat :=
  match o with
  | ORef _ => 1
  | OItem _ k =>
      S (match k with
         | KType (OTObject ot) =>
             size_plist oschema_size (oo_properties ot)
             + match oo_additional_properties ot with
               | Some (ASchema a) => S (oschema_size a)
               | _ => O
               end
         | KType (OTArray at_) => size_opt oschema_size (oa_items at_)
         | KType _ => O
         | KOneOf l | KAllOf l | KAnyOf l => size_list oschema_size l
         | KNot a => S (oschema_size a)
         | KAny => O
         end)
  end.
