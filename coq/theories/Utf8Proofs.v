(* Utf8Proofs.v — the recogniser [utf8_valid] (Utf8.v) accepts exactly the
   well-formed byte sequences of Unicode Table 3-7 / RFC 3629, stated as an
   inductive predicate; consequences used by C03: bytes that never occur,
   overlong forms, surrogates and code points above U+10FFFF are refused. *)
From DS Require Import Base Utf8.
Require Import ZifyBool ZifyN.

Definition cont_byte (b : N) : Prop := 128 <= b <= 191.

(* rows of Table 3-7 for three- and four-byte forms: lead byte, second byte *)
Definition row3 (b0 b1 : N) : Prop :=
  (b0 = 224 /\ 160 <= b1 <= 191) \/
  (225 <= b0 <= 236 /\ 128 <= b1 <= 191) \/
  (b0 = 237 /\ 128 <= b1 <= 159) \/
  (238 <= b0 <= 239 /\ 128 <= b1 <= 191).

Definition row4 (b0 b1 : N) : Prop :=
  (b0 = 240 /\ 144 <= b1 <= 191) \/
  (241 <= b0 <= 243 /\ 128 <= b1 <= 191) \/
  (b0 = 244 /\ 128 <= b1 <= 143).

Inductive wf_utf8 : str -> Prop :=
| wf_nil : wf_utf8 []
| wf_1 : forall b t, b < 128 -> wf_utf8 t -> wf_utf8 (b :: t)
| wf_2 : forall b0 b1 t, 194 <= b0 <= 223 -> cont_byte b1 -> wf_utf8 t ->
    wf_utf8 (b0 :: b1 :: t)
| wf_3 : forall b0 b1 b2 t, row3 b0 b1 -> cont_byte b2 -> wf_utf8 t ->
    wf_utf8 (b0 :: b1 :: b2 :: t)
| wf_4 : forall b0 b1 b2 b3 t, row4 b0 b1 -> cont_byte b2 -> cont_byte b3 -> wf_utf8 t ->
    wf_utf8 (b0 :: b1 :: b2 :: b3 :: t).

Lemma utf8_second3_row b0 b1 :
  in_range 224 239 b0 = true -> (utf8_second3 b0 b1 = true <-> row3 b0 b1).
Proof.
  unfold in_range, utf8_second3, row3, in_range. intros H.
  destruct (N.eqb_spec b0 224); [|destruct (N.eqb_spec b0 237)]; lia.
Qed.

Lemma utf8_second4_row b0 b1 :
  in_range 240 244 b0 = true -> (utf8_second4 b0 b1 = true <-> row4 b0 b1).
Proof.
  unfold in_range, utf8_second4, row4, in_range. intros H.
  destruct (N.eqb_spec b0 240); [|destruct (N.eqb_spec b0 244)]; lia.
Qed.

Lemma utf8_cont_iff b : utf8_cont b = true <-> cont_byte b.
Proof. unfold utf8_cont, in_range, cont_byte. lia. Qed.

Lemma wf_utf8_valid s : wf_utf8 s -> utf8_valid s = true.
Proof.
  induction 1 as [|b t Hb _ IH|b0 b1 t H0 H1 _ IH|b0 b1 b2 t H01 H2 _ IH
                  |b0 b1 b2 b3 t H01 H2 H3 _ IH]; cbn [utf8_valid].
  - reflexivity.
  - destruct (N.ltb_spec b 128); [exact IH|lia].
  - destruct (N.ltb_spec b0 128); [lia|].
    assert (Hr : in_range 194 223 b0 = true) by (unfold in_range; lia).
    rewrite Hr, (proj2 (utf8_cont_iff b1) H1), IH. reflexivity.
  - assert (Hlead : 224 <= b0 <= 239) by (unfold row3 in H01; lia).
    destruct (N.ltb_spec b0 128); [lia|].
    assert (Hr2 : in_range 194 223 b0 = false) by (unfold in_range; lia).
    assert (Hr3 : in_range 224 239 b0 = true) by (unfold in_range; lia).
    rewrite Hr2, Hr3, (proj2 (utf8_second3_row b0 b1 Hr3) H01),
      (proj2 (utf8_cont_iff b2) H2), IH. reflexivity.
  - assert (Hlead : 240 <= b0 <= 244) by (unfold row4 in H01; lia).
    destruct (N.ltb_spec b0 128); [lia|].
    assert (Hr2 : in_range 194 223 b0 = false) by (unfold in_range; lia).
    assert (Hr3 : in_range 224 239 b0 = false) by (unfold in_range; lia).
    assert (Hr4 : in_range 240 244 b0 = true) by (unfold in_range; lia).
    rewrite Hr2, Hr3, Hr4, (proj2 (utf8_second4_row b0 b1 Hr4) H01),
      (proj2 (utf8_cont_iff b2) H2), (proj2 (utf8_cont_iff b3) H3), IH. reflexivity.
Qed.

Lemma utf8_valid_wf_aux n : forall s, (length s <= n)%nat -> utf8_valid s = true -> wf_utf8 s.
Proof.
  induction n as [|n IH]; intros s Hlen Hv.
  - destruct s; [constructor|cbn [length] in Hlen; lia].
  - destruct s as [|b0 t0]; [constructor|].
    cbn [utf8_valid] in Hv. cbn [length] in Hlen.
    destruct (N.ltb_spec b0 128) as [H0|H0].
    { apply wf_1; [exact H0|]. apply IH; [lia|exact Hv]. }
    destruct (in_range 194 223 b0) eqn:H2.
    { destruct t0 as [|b1 t1]; [discriminate|].
      apply andb_true_iff in Hv as [Hc1 Ht]. cbn [length] in Hlen.
      apply wf_2; [unfold in_range in H2; lia|apply utf8_cont_iff; exact Hc1|].
      apply IH; [lia|exact Ht]. }
    destruct (in_range 224 239 b0) eqn:H3.
    { destruct t0 as [|b1 [|b2 t2]]; try discriminate.
      apply andb_true_iff in Hv as [Hv Ht].
      apply andb_true_iff in Hv as [Hs Hc2]. cbn [length] in Hlen.
      apply wf_3; [apply (utf8_second3_row b0 b1 H3); exact Hs
                  |apply utf8_cont_iff; exact Hc2|].
      apply IH; [lia|exact Ht]. }
    destruct (in_range 240 244 b0) eqn:H4; [|discriminate].
    destruct t0 as [|b1 [|b2 [|b3 t3]]]; try discriminate.
    apply andb_true_iff in Hv as [Hv Ht].
    apply andb_true_iff in Hv as [Hv Hc3].
    apply andb_true_iff in Hv as [Hs Hc2]. cbn [length] in Hlen.
    apply wf_4; [apply (utf8_second4_row b0 b1 H4); exact Hs
                |apply utf8_cont_iff; exact Hc2|apply utf8_cont_iff; exact Hc3|].
    apply IH; [lia|exact Ht].
Qed.

(* the recogniser is Table 3-7 *)
Theorem utf8_valid_iff_wf s : utf8_valid s = true <-> wf_utf8 s.
Proof.
  split; [exact (utf8_valid_wf_aux (length s) s (le_n _))|exact (wf_utf8_valid s)].
Qed.

(* bytes that occur in no well-formed sequence: C0, C1 (overlong two-byte
   forms), F5..FF (above U+10FFFF), and anything that is not a byte *)
Theorem utf8_valid_no_forbidden_byte s :
  utf8_valid s = true -> Forall (fun b => b <> 192 /\ b <> 193 /\ b <= 244) s.
Proof.
  intros H. apply utf8_valid_iff_wf in H.
  induction H as [|b t Hb _ IH|b0 b1 t H0 H1 _ IH|b0 b1 b2 t H01 H2 _ IH
                  |b0 b1 b2 b3 t H01 H2 H3 _ IH];
    unfold cont_byte, row3, row4 in *;
    repeat (constructor; [lia|]); try exact IH. constructor.
Qed.

(* a sequence starting at a lead byte: the forms Table 3-7 leaves out *)
Theorem utf8_overlong3_refused b1 t : b1 < 160 -> utf8_valid (224 :: b1 :: t) = false.
Proof.
  intros H. destruct (utf8_valid (224 :: b1 :: t)) eqn:Hv; [|reflexivity].
  apply utf8_valid_iff_wf in Hv. inversion Hv; subst; unfold row3, row4 in *; lia.
Qed.

Theorem utf8_surrogate_refused b1 t : 160 <= b1 -> utf8_valid (237 :: b1 :: t) = false.
Proof.
  intros H. destruct (utf8_valid (237 :: b1 :: t)) eqn:Hv; [|reflexivity].
  apply utf8_valid_iff_wf in Hv. inversion Hv; subst; unfold row3, row4 in *; lia.
Qed.

Theorem utf8_overlong4_refused b1 t : b1 < 144 -> utf8_valid (240 :: b1 :: t) = false.
Proof.
  intros H. destruct (utf8_valid (240 :: b1 :: t)) eqn:Hv; [|reflexivity].
  apply utf8_valid_iff_wf in Hv. inversion Hv; subst; unfold row3, row4 in *; lia.
Qed.

Theorem utf8_above_max_refused b1 t : 144 <= b1 -> utf8_valid (244 :: b1 :: t) = false.
Proof.
  intros H. destruct (utf8_valid (244 :: b1 :: t)) eqn:Hv; [|reflexivity].
  apply utf8_valid_iff_wf in Hv. inversion Hv; subst; unfold row3, row4 in *; lia.
Qed.

(* a lone continuation byte, or a truncated sequence, is refused *)
Theorem utf8_stray_continuation_refused b t : 128 <= b <= 193 -> utf8_valid (b :: t) = false.
Proof.
  intros H. destruct (utf8_valid (b :: t)) eqn:Hv; [|reflexivity].
  apply utf8_valid_iff_wf in Hv. inversion Hv; subst; unfold row3, row4 in *; lia.
Qed.

Theorem utf8_truncated_refused b : 128 <= b -> utf8_valid [b] = false.
Proof.
  intros H. destruct (utf8_valid [b]) eqn:Hv; [|reflexivity].
  apply utf8_valid_iff_wf in Hv. inversion Hv; subst; lia.
Qed.
