(* ShutdownProofs.v — every trace the shutdown model accepts satisfies C17. *)
From DS Require Import Base Shutdown.

(* ---------- the connection table ---------- *)

Lemma find_put_same l c x : find (put l c x) c = Some x.
Proof.
  induction l as [|[c' x'] l IH]; cbn [put find].
  - now rewrite N.eqb_refl.
  - destruct (N.eqb_spec c c') as [->|Hne]; cbn [find].
    + now rewrite N.eqb_refl.
    + destruct (N.eqb_spec c c'); [contradiction|exact IH].
Qed.

Lemma find_put_other l c x c' : c' <> c -> find (put l c x) c' = find l c'.
Proof.
  intros Hne; induction l as [|[c1 x1] l IH]; cbn [put find].
  - destruct (N.eqb_spec c' c); [contradiction|reflexivity].
  - destruct (N.eqb_spec c c1) as [->|Hc]; cbn [find].
    + destruct (N.eqb_spec c' c1); [contradiction|reflexivity].
    + destruct (N.eqb_spec c' c1); [reflexivity|exact IH].
Qed.

Lemma all_closed_find l c x : all_closed l = true -> find l c = Some x -> x = Closed.
Proof.
  unfold all_closed. induction l as [|[c' x'] l IH]; cbn [forallb find snd]; [discriminate|].
  intros H. apply andb_true_iff in H as [H1 H2].
  destruct (c =? c').
  - intros [= <-]. now destruct x'.
  - now apply IH.
Qed.

Lemma mem_id_remove c l c' : mem_id c (remove_id l c') = true -> mem_id c l = true.
Proof.
  unfold mem_id. induction l as [|x l IH]; cbn [remove_id existsb]; [auto|].
  destruct (N.eqb_spec x c'); cbn [existsb]; intros H.
  - rewrite (IH H). apply orb_true_r.
  - apply orb_true_iff in H as [H|H]; [now rewrite H|]. rewrite (IH H). apply orb_true_r.
Qed.

Lemma mem_id_remove_other c l c' : c <> c' -> mem_id c l = true -> mem_id c (remove_id l c') = true.
Proof.
  unfold mem_id. intros Hne. induction l as [|x l IH]; cbn [remove_id existsb]; [auto|].
  intros H. apply orb_true_iff in H as [H|H].
  - apply N.eqb_eq in H; subst x. destruct (N.eqb_spec c c'); [contradiction|].
    cbn [existsb]. now rewrite N.eqb_refl.
  - destruct (x =? c'); [now apply IH|]. cbn [existsb]. rewrite (IH H). apply orb_true_r.
Qed.

(* ---------- runs ---------- *)

Lemma run_app m t1 : forall s t2,
  run m s (t1 ++ t2) = match run m s t1 with Some s' => run m s' t2 | None => None end.
Proof.
  induction t1 as [|e t1 IH]; intros s t2; cbn [run app]; [reflexivity|].
  destruct (step m s e); [apply IH|reflexivity].
Qed.

Lemma run_In_split m e : forall t s s',
  run m s t = Some s' -> In e t ->
  exists a b s1 s2, t = a ++ e :: b /\ run m s a = Some s1 /\ step m s1 e = Some s2 /\
                    run m s2 b = Some s'.
Proof.
  induction t as [|x t IH]; intros s s' Hr Hin; [contradiction|].
  cbn [run] in Hr. destruct (step m s x) as [s0|] eqn:Hs; [|discriminate].
  destruct Hin as [->|Hin].
  - exists [], t, s, s0. repeat split; auto.
  - destruct (IH s0 s' Hr Hin) as (a & b & s1 & s2 & -> & Ha & Hb & Hc).
    exists (x :: a), b, s1, s2. repeat split; auto. cbn [run]. now rewrite Hs.
Qed.

Lemma run_preserves (P : state -> Prop) m :
  (forall s e s', step m s e = Some s' -> P s -> P s') ->
  forall t s s', run m s t = Some s' -> P s -> P s'.
Proof.
  intros HP. induction t as [|e t IH]; intros s s' Hr H0; cbn [run] in Hr.
  - now injection Hr as <-.
  - destruct (step m s e) as [s0|] eqn:Hs; [|discriminate]. eapply IH; eauto.
Qed.

Ltac step_cases Hs :=
  match type of Hs with step ?m ?s ?e = Some ?s' =>
    destruct e; cbn [step] in Hs
  end.

(* ---------- the phase only moves forward ---------- *)

Definition rank (p : phase) : N :=
  match p with
  | Serving => 0 | CloseSignalled => 1 | AcceptStopped => 2 | ConnectionsDrained => 3
  | HandlersDrained => 4 | Finished _ => 5
  end.

Ltac crunch Hs :=
  repeat match type of Hs with
         | context [match ?x with _ => _ end] => destruct x eqn:?; try discriminate Hs
         end;
  try (injection Hs as <-).

Lemma step_rank m s e s' : step m s e = Some s' -> rank (ph s) <= rank (ph s').
Proof.
  intros Hs. destruct e; cbn [step] in Hs; crunch Hs;
    cbn [ph set_conn set_ph rank] in *;
    repeat match goal with H : ph _ = _ |- _ => rewrite H end; cbn [rank]; lia.
Qed.

Lemma run_rank m t s s' : run m s t = Some s' -> rank (ph s) <= rank (ph s').
Proof.
  revert s. induction t as [|e t IH]; intros s Hr; cbn [run] in Hr.
  - injection Hr as <-. lia.
  - destruct (step m s e) as [s0|] eqn:Hs; [|discriminate].
    apply step_rank in Hs. apply IH in Hr. lia.
Qed.

Lemma step_finished m s e s' r : step m s e = Some s' -> ph s = Finished r -> ph s' = Finished r.
Proof.
  intros Hs Hp. destruct e; cbn [step] in Hs; rewrite ?Hp in Hs; crunch Hs;
    cbn [ph set_conn set_ph] in *; congruence.
Qed.

Lemma run_finished m t s s' r : run m s t = Some s' -> ph s = Finished r -> ph s' = Finished r.
Proof.
  intros Hr. apply (run_preserves (fun s => ph s = Finished r) m) with (t := t); [|exact Hr].
  intros s0 e s1 Hs Hp. eapply step_finished; eauto.
Qed.

(* ---------- the structural invariant of reachable states ---------- *)

Definition drained (p : phase) : bool :=
  match p with ConnectionsDrained | HandlersDrained | Finished true => true | _ => false end.
Definition handlers_done (p : phase) : bool :=
  match p with HandlersDrained | Finished true => true | _ => false end.
Definition listener_gone (p : phase) : bool :=
  match p with ConnectionsDrained | HandlersDrained | Finished _ => true | _ => false end.

Definition inv (s : state) : Prop :=
  (drained (ph s) = true -> all_closed (conns s) = true) /\
  (handlers_done (ph s) = true -> detached s = []) /\
  (listener_gone (ph s) = true -> listening s = false).

Lemma inv_init : inv init.
Proof. unfold inv; cbn. intuition discriminate. Qed.

Lemma step_inv m s e s' : step m s e = Some s' -> inv s -> inv s'.
Proof.
  intros Hs (I1 & I2 & I3).
  assert (F : forall c x, drained (ph s) = true -> find (conns s) c = Some x -> x = Closed).
  { intros c x Hd. apply all_closed_find. auto. }
  destruct e; cbn [step] in Hs.
  - (* Accept *) crunch Hs; unfold inv; cbn [ph set_conn conns detached listening];
      repeat match goal with H : ph _ = _ |- _ => rewrite H in * end; cbn; intuition discriminate.
  - (* ReqBegin *) destruct (find (conns s) c) as [[| | |]|] eqn:E; try discriminate. injection Hs as <-.
    unfold inv; cbn [ph set_conn conns detached listening]. repeat split; auto.
    intros Hd. specialize (F _ _ Hd E). discriminate.
  - (* Enter *) destruct (find (conns s) c) as [[|[|]| |]|] eqn:E; try discriminate.
    assert (Hn : drained (ph s) = false).
    { destruct (drained (ph s)) eqn:Hd; [|reflexivity]. specialize (F _ _ eq_refl E). discriminate. }
    assert (Hn2 : handlers_done (ph s) = false).
    { destruct (ph s) as [| | | | |[|]]; cbn in *; congruence. }
    destruct m; [|destruct (mem_id c (detached s)); try discriminate]; injection Hs as <-;
      unfold inv; cbn [ph set_conn conns detached listening]; rewrite Hn, Hn2;
      repeat split; auto; discriminate.
  - (* Complete *) destruct m.
    + destruct (find (conns s) c) as [[|[|]| |]|] eqn:E; try discriminate. injection Hs as <-.
      unfold inv; cbn [ph set_conn conns detached listening]. repeat split; auto.
      intros Hd. specialize (F _ _ Hd E). discriminate.
    + destruct (mem_id c (detached s)) eqn:M; [|discriminate].
      assert (Hn2 : handlers_done (ph s) = false).
      { destruct (handlers_done (ph s)) eqn:Hd; [|reflexivity]. rewrite (I2 eq_refl) in M. discriminate. }
      destruct (find (conns s) c) as [[|[|]| |]|] eqn:E; injection Hs as <-;
        unfold inv; cbn [ph set_conn conns detached listening]; rewrite Hn2; repeat split; auto;
        try discriminate.
      intros Hd. specialize (F _ _ Hd E). discriminate.
  - (* Deliver *) destruct (find (conns s) c) as [[| | |]|] eqn:E; try discriminate. injection Hs as <-.
    unfold inv; cbn [ph set_conn conns detached listening]. repeat split; auto.
    intros Hd. specialize (F _ _ Hd E). discriminate.
  - (* ClientGone *) destruct (find (conns s) c) as [[|[|]| |]|] eqn:E; try discriminate; injection Hs as <-;
      unfold inv; cbn [ph set_conn conns detached listening]; repeat split; auto;
      intros Hd; specialize (F _ _ Hd E); discriminate.
  - (* CloseIdle *) destruct (ph s) eqn:P; try discriminate.
    destruct (find (conns s) c) as [[| | |]|]; try discriminate. injection Hs as <-.
    unfold inv; cbn [ph set_conn conns detached listening]; rewrite P; cbn. intuition discriminate.
  - (* Signal *) destruct (ph s) eqn:P; try discriminate. injection Hs as <-.
    unfold inv; cbn. intuition discriminate.
  - (* StopAccept *) destruct (ph s) eqn:P; try discriminate. injection Hs as <-.
    unfold inv; cbn. intuition discriminate.
  - (* ConnsDrained *) destruct (ph s) eqn:P; try discriminate.
    destruct (all_closed (conns s)) eqn:A; [|discriminate]. injection Hs as <-.
    unfold inv; cbn. intuition discriminate.
  - (* WaitgroupDone *) destruct (ph s) eqn:P; try discriminate.
    destruct (detached s) eqn:D; [|discriminate]. injection Hs as <-.
    unfold inv; cbn [ph set_ph conns detached listening]. cbn in *. intuition.
  - (* Publish *) destruct (ph s) eqn:P; try discriminate. injection Hs as <-.
    unfold inv; cbn [ph set_ph conns detached listening]. cbn in *. intuition.
  - (* TaskFail *) destruct (ph s) eqn:P; try discriminate; injection Hs as <-;
      unfold inv; cbn; intuition discriminate.
  - (* Release *) destruct (ph s) eqn:P; try discriminate.
    destruct (Bool.eqb ok ok0); [|discriminate]. injection Hs as <-. unfold inv. rewrite P. auto.
Qed.

Theorem run_inv m t s : run m init t = Some s -> inv s.
Proof.
  intros Hr. apply (run_preserves inv m (step_inv m) t init s Hr). apply inv_init.
Qed.

(* ---------- 2. finish_waits ---------- *)

Theorem finish_waits m t s :
  run m init t = Some s -> ph s = Finished true ->
  all_closed (conns s) = true /\ detached s = [] /\ listening s = false /\
  (forall c b, find (conns s) c <> Some (InRequest b)) /\
  (forall c, find (conns s) c <> Some Responding).
Proof.
  intros Hr Hp. destruct (run_inv _ _ _ Hr) as (I1 & I2 & I3). rewrite Hp in *.
  specialize (I1 eq_refl). specialize (I2 eq_refl). specialize (I3 eq_refl).
  repeat split; auto.
  - intros c b E. apply (all_closed_find _ _ _ I1) in E. discriminate.
  - intros c E. apply (all_closed_find _ _ _ I1) in E. discriminate.
Qed.

(* once the shared future has its value nothing but releases of waiters happens *)
Lemma finished_only_release m s e s' :
  inv s -> ph s = Finished true -> step m s e = Some s' ->
  (exists j, e = Release j true) /\ s' = s.
Proof.
  intros (I1 & I2 & _) Hp Hs. rewrite Hp in *.
  specialize (I1 eq_refl). specialize (I2 eq_refl).
  assert (F : forall c x, find (conns s) c = Some x -> x = Closed)
    by (intros c x; now apply all_closed_find).
  destruct e; cbn [step] in Hs; rewrite ?Hp, ?I2 in Hs; try discriminate.
  - destruct (find (conns s) c) as [x|] eqn:E; [|discriminate]. apply F in E; subst. discriminate.
  - destruct (find (conns s) c) as [x|] eqn:E; [|discriminate]. apply F in E; subst. discriminate.
  - destruct m; cbn [mem_id existsb] in Hs; [|discriminate].
    destruct (find (conns s) c) as [x|] eqn:E; [|discriminate]. apply F in E; subst. discriminate.
  - destruct (find (conns s) c) as [x|] eqn:E; [|discriminate]. apply F in E; subst. discriminate.
  - destruct (find (conns s) c) as [x|] eqn:E; [|discriminate]. apply F in E; subst. discriminate.
  - destruct ok; cbn in Hs; [|discriminate]. injection Hs as <-. eauto.
Qed.

Theorem nothing_after_finish m t1 t2 s :
  run m init (t1 ++ Publish :: t2) = Some s ->
  forall e, In e t2 -> exists j, e = Release j true.
Proof.
  intros Hr. rewrite run_app in Hr. destruct (run m init t1) as [s1|] eqn:H1; [|discriminate].
  cbn [run] in Hr. destruct (step m s1 Publish) as [s2|] eqn:H2; [|discriminate].
  assert (I : inv s2) by (eapply step_inv; [exact H2|eapply run_inv; exact H1]).
  assert (P : ph s2 = Finished true).
  { cbn [step] in H2. destruct (ph s1); try discriminate. now injection H2 as <-. }
  clear H1 H2. revert s2 I P Hr. induction t2 as [|x t2 IH]; intros s2 I P Hr e Hin; [contradiction|].
  cbn [run] in Hr. destruct (step m s2 x) as [s3|] eqn:H3; [|discriminate].
  destruct (finished_only_release _ _ _ _ I P H3) as ((j & ->) & ->).
  destruct Hin as [<-|Hin]; [eauto|]. eapply IH; eauto.
Qed.

(* ---------- 3. port_closed_after ---------- *)

Theorem port_closed_after m t1 t2 s c :
  run m init (t1 ++ StopAccept :: t2) = Some s -> ~ In (Accept c) t2.
Proof.
  intros Hr Hin. rewrite run_app in Hr. destruct (run m init t1) as [s1|]; [|discriminate].
  cbn [run] in Hr. destruct (step m s1 StopAccept) as [s2|] eqn:H2; [|discriminate].
  assert (P : ph s2 = AcceptStopped).
  { cbn [step] in H2. destruct (ph s1); try discriminate. now injection H2 as <-. }
  destruct (run_In_split _ _ _ _ _ Hr Hin) as (a & b & s3 & s4 & -> & Ha & Hs & _).
  apply run_rank in Ha. rewrite P in Ha. cbn [rank] in Ha.
  cbn [step] in Hs. destruct (ph s3); cbn [rank] in Ha; try discriminate; lia.
Qed.

Theorem listener_dropped_at_finish m t s r :
  run m init t = Some s -> ph s = Finished r -> listening s = false.
Proof.
  intros Hr Hp. destruct (run_inv _ _ _ Hr) as (_ & _ & I3). apply I3. now rewrite Hp.
Qed.

(* ---------- 4. waiters_agree ---------- *)

Lemma release_phase m s j a s' : step m s (Release j a) = Some s' -> ph s = Finished a /\ s' = s.
Proof.
  cbn [step]. destruct (ph s); try discriminate. destruct (Bool.eqb a ok) eqn:E; [|discriminate].
  apply Bool.eqb_prop in E. subst. now intros [= <-].
Qed.

Theorem waiters_agree m t s j a k b :
  run m init t = Some s -> In (Release j a) t -> In (Release k b) t -> a = b.
Proof.
  intros Hr Ha Hb.
  destruct (run_In_split _ _ _ _ _ Hr Ha) as (? & ? & s1 & s2 & _ & _ & Hs1 & Hr1).
  destruct (run_In_split _ _ _ _ _ Hr Hb) as (? & ? & s3 & s4 & _ & _ & Hs3 & Hr3).
  apply release_phase in Hs1 as [P1 ->]. apply release_phase in Hs3 as [P3 ->].
  pose proof (run_finished _ _ _ _ _ Hr1 P1) as E1.
  pose proof (run_finished _ _ _ _ _ Hr3 P3) as E3.
  congruence.
Qed.

Theorem release_only_when_finished m t s j a :
  run m init t = Some s -> In (Release j a) t -> ph s = Finished a.
Proof.
  intros Hr Ha.
  destruct (run_In_split _ _ _ _ _ Hr Ha) as (? & ? & s1 & s2 & _ & _ & Hs1 & Hr1).
  apply release_phase in Hs1 as [P1 ->]. exact (run_finished _ _ _ _ _ Hr1 P1).
Qed.

(* ---------- 1. started_requests_answered ---------- *)

Definition ev_eq_dec (a b : ev) : {a = b} + {a <> b}.
Proof. decide equality; try apply N.eq_dec; apply Bool.bool_dec. Defined.

Definition in_flight (x : option conn) : Prop := x = Some (InRequest true) \/ x = Some Responding.

Lemma step_in_flight m s e s' c :
  step m s e = Some s' -> in_flight (find (conns s) c) ->
  e <> ClientGone c -> e <> Deliver c -> in_flight (find (conns s') c).
Proof.
  intros Hs Hf N1 N2. unfold in_flight in *.
  assert (K : forall c0 x, (c0 = c -> in_flight (Some x)) ->
                           in_flight (find (put (conns s) c0 x) c)).
  { intros c0 x Hx. destruct (N.eq_dec c c0) as [->|Hne].
    - rewrite find_put_same. now apply Hx.
    - rewrite find_put_other by exact Hne. exact Hf. }
  unfold in_flight in K.
  destruct e; cbn [step] in Hs.
  - (* Accept *) destruct (ph s); try discriminate;
      (destruct (find (conns s) c0) eqn:E; [discriminate|]); injection Hs as <-;
      cbn [conns set_conn]; apply K; intros ->; rewrite E in Hf; destruct Hf; discriminate.
  - (* ReqBegin *) destruct (find (conns s) c0) as [[| | |]|] eqn:E; try discriminate. injection Hs as <-.
    cbn [conns set_conn]; apply K; intros ->; rewrite E in Hf; destruct Hf; discriminate.
  - (* Enter *) destruct (find (conns s) c0) as [[|[|]| |]|] eqn:E; try discriminate.
    destruct m; [|destruct (mem_id c0 (detached s)); try discriminate]; injection Hs as <-;
      cbn [conns set_conn]; apply K; auto.
  - (* Complete *) destruct m.
    + destruct (find (conns s) c0) as [[|[|]| |]|] eqn:E; try discriminate. injection Hs as <-.
      cbn [conns set_conn]; apply K; auto.
    + destruct (mem_id c0 (detached s)); [|discriminate].
      destruct (find (conns s) c0) as [[|[|]| |]|] eqn:E; injection Hs as <-;
        cbn [conns set_conn]; auto; apply K; auto.
  - (* Deliver *) destruct (find (conns s) c0) as [[| | |]|] eqn:E; try discriminate. injection Hs as <-.
    cbn [conns set_conn]. apply K. intros ->. congruence.
  - (* ClientGone *) destruct (find (conns s) c0) as [[|[|]| |]|] eqn:E; try discriminate;
      injection Hs as <-; cbn [conns set_conn]; apply K; intros ->; congruence.
  - (* CloseIdle *) destruct (ph s); try discriminate.
    destruct (find (conns s) c0) as [[| | |]|] eqn:E; try discriminate. injection Hs as <-.
    cbn [conns set_conn]; apply K; intros ->; rewrite E in Hf; destruct Hf; discriminate.
  - destruct (ph s); try discriminate; injection Hs as <-; exact Hf.
  - destruct (ph s); try discriminate; injection Hs as <-; exact Hf.
  - destruct (ph s); try discriminate. destruct (all_closed (conns s)); [|discriminate].
    injection Hs as <-; exact Hf.
  - destruct (ph s); try discriminate. destruct (detached s); [|discriminate].
    injection Hs as <-; exact Hf.
  - destruct (ph s); try discriminate; injection Hs as <-; exact Hf.
  - destruct (ph s); try discriminate; injection Hs as <-; exact Hf.
  - destruct (ph s); try discriminate. destruct (Bool.eqb ok ok0); [|discriminate].
    injection Hs as <-; exact Hf.
Qed.

Lemma run_in_flight m c : forall t s s',
  run m s t = Some s' -> in_flight (find (conns s) c) ->
  ~ In (ClientGone c) t -> ~ In (Deliver c) t -> in_flight (find (conns s') c).
Proof.
  induction t as [|e t IH]; intros s s' Hr Hf N1 N2; cbn [run] in Hr.
  - now injection Hr as <-.
  - destruct (step m s e) as [s0|] eqn:Hs; [|discriminate].
    apply (IH s0 s' Hr); [|intros H; apply N1; now right|intros H; apply N2; now right].
    eapply step_in_flight; eauto; intros ->; [apply N1|apply N2]; now left.
Qed.

(* a request whose handler had started when shutdown was requested, and whose
   client stays, has its response written completely before shutdown finishes *)
Theorem started_requests_answered m t1 t2 s1 s c :
  run m init t1 = Some s1 -> in_flight (find (conns s1) c) ->
  run m s1 (Signal :: t2) = Some s -> ph s = Finished true ->
  ~ In (ClientGone c) t2 -> In (Deliver c) t2.
Proof.
  intros H1 Hf H2 Hp Hno.
  destruct (in_dec ev_eq_dec (Deliver c) t2) as [Hin|Hnin]; [exact Hin|exfalso].
  assert (Hr : run m init (t1 ++ Signal :: t2) = Some s) by now rewrite run_app, H1.
  destruct (finish_waits _ _ _ Hr Hp) as (_ & _ & _ & F1 & F2).
  assert (X : in_flight (find (conns s) c)).
  { apply (run_in_flight m c (Signal :: t2) s1 s H2 Hf).
    - intros [H|H]; [discriminate|auto].
    - intros [H|H]; [discriminate|auto]. }
  destruct X as [X|X]; [exact (F1 _ _ X)|exact (F2 _ X)].
Qed.

(* the same for a request that starts while shutdown is already under way *)
Theorem entered_requests_answered m t1 t2 s c :
  run m init (t1 ++ Enter c :: t2) = Some s -> ph s = Finished true ->
  ~ In (ClientGone c) t2 -> In (Deliver c) t2.
Proof.
  intros Hr Hp Hno.
  destruct (in_dec ev_eq_dec (Deliver c) t2) as [Hin|Hnin]; [exact Hin|exfalso].
  destruct (finish_waits _ _ _ Hr Hp) as (_ & _ & _ & F1 & F2).
  rewrite run_app in Hr. destruct (run m init t1) as [s1|]; [|discriminate].
  cbn [run] in Hr. destruct (step m s1 (Enter c)) as [s2|] eqn:H2; [|discriminate].
  assert (X0 : in_flight (find (conns s2) c)).
  { left. cbn [step] in H2. destruct (find (conns s1) c) as [[|[|]| |]|]; try discriminate.
    destruct m; [|destruct (mem_id c (detached s1)); try discriminate]; injection H2 as <-;
      cbn [conns set_conn]; apply find_put_same. }
  pose proof (run_in_flight m c t2 s2 s Hr X0 Hno Hnin) as [X|X];
    [exact (F1 _ _ X)|exact (F2 _ X)].
Qed.

(* ---------- shutdown waits for detached handlers ---------- *)

Lemma step_detached_stays m s e s' c :
  step m s e = Some s' -> mem_id c (detached s) = true -> e <> Complete c ->
  mem_id c (detached s') = true.
Proof.
  intros Hs Hm Hne. destruct e; cbn [step] in Hs; crunch Hs; cbn [detached set_conn set_ph]; auto.
  all: try (apply mem_id_remove_other; [|exact Hm]; intros ->; now apply Hne).
  all: try discriminate Hm.
  cbn [mem_id existsb]. fold (mem_id c (detached s)). rewrite Hm. apply orb_true_r.
Qed.

Theorem finish_waits_for_detached t1 t2 s c :
  run Detached init (t1 ++ Enter c :: t2) = Some s -> ph s = Finished true ->
  In (Complete c) t2.
Proof.
  intros Hr Hp.
  destruct (in_dec ev_eq_dec (Complete c) t2) as [Hin|Hnin]; [exact Hin|exfalso].
  destruct (finish_waits _ _ _ Hr Hp) as (_ & D & _).
  rewrite run_app in Hr. destruct (run Detached init t1) as [s1|]; [|discriminate].
  cbn [run] in Hr. destruct (step Detached s1 (Enter c)) as [s2|] eqn:H2; [|discriminate].
  assert (M : mem_id c (detached s2) = true).
  { cbn [step] in H2. destruct (find (conns s1) c) as [[|[|]| |]|]; try discriminate.
    destruct (mem_id c (detached s1)); try discriminate. injection H2 as <-.
    cbn [detached set_conn mem_id existsb]. now rewrite N.eqb_refl. }
  assert (X : mem_id c (detached s) = true).
  { clear H2. revert s2 M Hr. induction t2 as [|e t2 IH]; intros s2 M Hr; cbn [run] in Hr.
    - now injection Hr as <-.
    - destruct (step Detached s2 e) as [s3|] eqn:H3; [|discriminate].
      apply (IH (fun H => Hnin (or_intror H)) s3); [|exact Hr].
      eapply step_detached_stays; eauto. intros ->. apply Hnin. now left. }
  rewrite D in X. discriminate.
Qed.

(* ---------- observed traces ---------- *)

Theorem run_obs_sound m : forall os s pend s' ls,
  run_obs m s pend os = Some (s', ls) -> run m s ls = Some s'.
Proof.
  induction os as [|o os IH]; intros s pend s' ls H; cbn [run_obs] in H.
  - injection H as <- <-. reflexivity.
  - destruct (elab m s pend o) as [[l0 p0]|]; [|discriminate].
    destruct (run m s l0) as [s1|] eqn:H1; [|discriminate].
    destruct (run_obs m s1 p0 os) as [[s2 l2]|] eqn:H2; [|discriminate].
    injection H as <- <-. rewrite run_app, H1. eapply IH; eauto.
Qed.

Theorem replay_obs_sound m os s ls :
  replay_obs m os = Some (s, ls) -> run m init ls = Some s /\ accepts m ls = true.
Proof.
  unfold replay_obs, accepts. intros H. apply run_obs_sound in H. now rewrite H.
Qed.
