(* Response.v — executable model of (a) the pieces of the [http] crate that
   dropshot's response construction relies on: header-value and header-name
   legality (http 1.3.1 header/value.rs [is_valid], header/name.rs
   [HEADER_CHARS]/[parse_hdr]) and [HeaderMap] as an association list with the
   exact insert / append / extend semantics (header/map.rs); and (b)
   dropshot's typed responses: [HttpCodedResponse::for_object], the three
   [HttpResponseContent] impls, the response types, the redirect constructors,
   [HttpResponseHeaders::to_result] and [to_map] (handler.rs, to_map.rs).
   No proofs here (ResponseProofs.v). *)
From Coq Require Import String Ascii.
From DS Require Import Base.

(* ---------- byte strings from literals ---------- *)

Fixpoint bytes_of (s : string) : str :=
  match s with
  | EmptyString => []
  | String a s' => N_of_ascii a :: bytes_of s'
  end.

(* [u] repeated [n] times: long periodic strings of the large-scope cases are
   written by the harness as [srep n u] instead of a literal list (a lossless
   abbreviation: the term evaluates to exactly the bytes that were observed) *)
Definition srep (n : N) (u : str) : str := N.iter n (fun acc => u ++ acc) [].

Definition H_CONTENT_TYPE : str := bytes_of "content-type".
Definition H_REQUEST_ID : str := bytes_of "x-request-id".   (* http_util.rs HEADER_REQUEST_ID *)
Definition H_LOCATION : str := bytes_of "location".
Definition CT_JSON : str := bytes_of "application/json".     (* CONTENT_TYPE_JSON *)
Definition CT_OCTET : str := bytes_of "application/octet-stream".

(* ---------- http::HeaderValue ---------- *)

(* value.rs:  fn is_valid(b: u8) -> bool { b >= 32 && b != 127 || b == b'\t' }
   used by from_str, from_bytes, from_shared (TryFrom<String>) alike *)
Definition hv_byte_ok (b : N) : bool :=
  ((32 <=? b) && negb (b =? 127)) || (b =? 9).

Definition header_legal (s : str) : bool := forallb hv_byte_ok s.

(* ---------- http::HeaderName ---------- *)

(* name.rs HEADER_CHARS: the RFC 9110 token characters; upper-case letters
   are mapped to lower case, everything else outside the set to 0 (invalid) *)
Definition is_tchar (b : N) : bool :=
  (b =? 33) || ((35 <=? b) && (b <=? 39)) || (b =? 42) || (b =? 43) ||
  (b =? 45) || (b =? 46) || ((48 <=? b) && (b <=? 57)) ||
  ((65 <=? b) && (b <=? 90)) || ((94 <=? b) && (b <=? 122)) ||
  (b =? 124) || (b =? 126).

Definition HN_MAX_LEN : N := 65535.   (* MAX_HEADER_NAME_LEN = (1 << 16) - 1 *)

(* HeaderName::from_bytes (= TryFrom<String>/<&str>): parse_hdr refuses the
   empty name and names longer than MAX_HEADER_NAME_LEN; every byte must be a
   token character; the stored name is lower case *)
Definition header_name (s : str) : option str :=
  if is_nil s then None
  else if HN_MAX_LEN <? N.of_nat (List.length s) then None
  else if forallb is_tchar s then Some (str_lower s)
  else None.

(* ---------- http::HeaderMap ---------- *)

(* one entry per (lower-case) name, in order of first insertion, each with
   the non-empty list of its values in order.  (The real map refuses to grow
   beyond 32768 entries; maps of that size are outside the model.) *)
Definition hmap := list (str * list str).

(* get_all *)
Fixpoint hm_get (m : hmap) (n : str) : option (list str) :=
  match m with
  | [] => None
  | (k, vs) :: m' => if str_eqb k n then Some vs else hm_get m' n
  end.

Definition hm_has (m : hmap) (n : str) : bool :=
  match hm_get m n with Some _ => true | None => false end.

(* replace all values of [n], or add the entry at the end *)
Fixpoint hm_set (m : hmap) (n : str) (vs : list str) : hmap :=
  match m with
  | [] => [(n, vs)]
  | (k, old) :: m' =>
      if str_eqb k n then (k, vs) :: m' else (k, old) :: hm_set m' n vs
  end.

(* HeaderMap::insert: "If the map did have this key present, the new value is
   associated with the key and all previous values are removed." *)
Definition hm_insert (m : hmap) (n v : str) : hmap := hm_set m n [v].

(* HeaderMap::append: "If the map did have this key present, the new value is
   pushed to the end of the list of values currently associated with the key" *)
Fixpoint hm_append (m : hmap) (n v : str) : hmap :=
  match m with
  | [] => [(n, [v])]
  | (k, old) :: m' =>
      if str_eqb k n then (k, old ++ [v]) :: m' else (k, old) :: hm_append m' n v
  end.

(* impl Extend<(Option<HeaderName>, T)> for HeaderMap<T>: [IntoIter] yields,
   for each entry, (Some name, first value) then (None, value) for each further
   value.  The first item of a group goes through [entry(key)]: an occupied
   entry has all its values replaced ([e.insert(val)]), a vacant one is
   created; the remaining items of the group are appended to that entry. *)
Definition hm_extend_group (m : hmap) (g : str * list str) : hmap :=
  match g with
  | (n, []) => m      (* not produced by IntoIter: every entry has a value *)
  | (n, v :: rest) => fold_left (fun a x => hm_append a n x) rest (hm_insert m n v)
  end.

Definition hm_extend (m other : hmap) : hmap := fold_left hm_extend_group other m.

(* well-formed: names distinct, every entry has a value *)
Fixpoint hm_names_nodup (m : hmap) : bool :=
  match m with
  | [] => true
  | (k, _) :: m' => negb (hm_has m' k) && hm_names_nodup m'
  end.

Definition hm_wf (m : hmap) : bool :=
  hm_names_nodup m && forallb (fun e => negb (is_nil (snd e))) m.

(* same entries up to the order of names (for well-formed maps) *)
Definition hm_sub (a b : hmap) : bool :=
  forallb (fun e => match hm_get b (fst e) with
                    | Some ws => list_eqb str_eqb (snd e) ws
                    | None => false
                    end) a.

Definition hm_equiv (a b : hmap) : bool :=
  (List.length a =? List.length b)%nat && hm_sub a b.

(* a map built by a sequence of insert/append calls on names as the caller
   spells them (HeaderName::from_bytes lower-cases) *)
Inductive hop :=
| HInsert (n v : str)
| HAppend (n v : str).

Fixpoint hm_of_ops (ops : list hop) (m : hmap) : option hmap :=
  match ops with
  | [] => Some m
  | HInsert n v :: t =>
      match header_name n with
      | Some k => if header_legal v then hm_of_ops t (hm_insert m k v) else None
      | None => None
      end
  | HAppend n v :: t =>
      match header_name n with
      | Some k => if header_legal v then hm_of_ops t (hm_append m k v) else None
      | None => None
      end
  end.

(* ---------- responses ---------- *)

(* The body of a response.  Typed JSON bodies are bytes produced by the
   serde_json oracle; the error body of HttpError::into_response (Errors.v)
   is kept as the record of its fields. *)
Inductive body :=
| BEmpty
| BBytes (b : str)
| BErrJson (request_id : str) (error_code : option str) (message : str).

Record response := mkResponse {
  r_status : N;
  r_headers : hmap;
  r_body : body
}.

(* ---------- dropshot: typed responses (handler.rs) ---------- *)

Section Typed.
  (* the type of the handler's value and serde_json::to_string for it (None:
     serialisation failed) *)
  Variable V : Type.
  Variable json_ser : V -> option str.

  (* the body types of the 200/201/202 responses: a JSON-serialisable value or
     a FreeformBody (bytes of the wrapped Body) *)
  Inductive payload :=
  | PJson (v : V)
  | PFreeform (b : str).

  Inductive coded :=
  | ROk (p : payload)                (* HttpResponseOk<T> *)
  | RCreated (p : payload)           (* HttpResponseCreated<T> *)
  | RAccepted (p : payload)          (* HttpResponseAccepted<T> *)
  | RDeleted                         (* HttpResponseDeleted *)
  | RUpdatedNoContent                (* HttpResponseUpdatedNoContent *)
  | RFoundStatus                     (* HttpResponseFoundStatus *)
  | RSeeOtherStatus                  (* HttpResponseSeeOtherStatus *)
  | RTemporaryRedirectStatus.        (* HttpResponseTemporaryRedirectStatus *)

  (* const STATUS_CODE *)
  Definition status_of (c : coded) : N :=
    match c with
    | ROk _ => 200
    | RCreated _ => 201
    | RAccepted _ => 202
    | RDeleted => 204
    | RUpdatedNoContent => 204
    | RFoundStatus => 302
    | RSeeOtherStatus => 303
    | RTemporaryRedirectStatus => 307
    end.

  (* HttpResponseContent::to_response on Response::builder().status(st).
     Errors are HttpError::for_internal_error(..): status 500.  (The trailing
     [builder.body(..)?] can fail only for a builder already in an error state,
     which a fresh builder with a constant status and constant header is not.) *)
  Definition json_to_response (st : N) (v : V) : res N response :=
    match json_ser v with
    | None => Err 500
    | Some b => Ok (mkResponse st (hm_append [] H_CONTENT_TYPE CT_JSON) (BBytes b))
    end.

  Definition freeform_to_response (st : N) (b : str) : res N response :=
    Ok (mkResponse st (hm_append [] H_CONTENT_TYPE CT_OCTET) (BBytes b)).

  Definition empty_to_response (st : N) : res N response :=
    Ok (mkResponse st [] BEmpty).

  Definition payload_to_response (st : N) (p : payload) : res N response :=
    match p with
    | PJson v => json_to_response st v
    | PFreeform b => freeform_to_response st b
    end.

  (* From<R> for HttpHandlerResult = R::for_object(body) *)
  Definition to_result_coded (c : coded) : res N response :=
    match c with
    | ROk p => payload_to_response 200 p
    | RCreated p => payload_to_response 201 p
    | RAccepted p => payload_to_response 202 p
    | RDeleted => empty_to_response 204
    | RUpdatedNoContent => empty_to_response 204
    | RFoundStatus => empty_to_response 302
    | RSeeOtherStatus => empty_to_response 303
    | RTemporaryRedirectStatus => empty_to_response 307
    end.

  (* ----- to_map.rs: a header struct as name -> string ----- *)

  (* the serialised value of one struct field: a string, or anything else
     (integer, bool, Option, newtype, sequence, ...: every other serde data
     model call of StringSerializer is an error) *)
  Inductive fval :=
  | FStr (s : str)
  | FOther.

  (* BTreeMap<String, String>::insert *)
  Fixpoint bt_insert (k v : str) (m : list (str * str)) : list (str * str) :=
    match m with
    | [] => [(k, v)]
    | (k', v') :: m' =>
        match str_cmp k k' with
        | Lt => (k, v) :: m
        | Eq => (k, v) :: m'
        | Gt => (k', v') :: bt_insert k v m'
        end
    end.

  (* MapSerializeStruct::serialize_field for each field in declaration order
     (names are the serde names), stopping at the first field that is not a
     string: MapError -> HttpError::for_internal_error *)
  Fixpoint to_map (fields : list (str * fval)) (acc : list (str * str))
    : res N (list (str * str)) :=
    match fields with
    | [] => Ok acc
    | (k, FStr v) :: t => to_map t (bt_insert k v acc)
    | (k, FOther) :: _ => Err 500
    end.

  (* the loop of to_result over the BTreeMap (ascending key order):
     HeaderName::try_from(key), HeaderValue::try_from(value), headers.insert *)
  Fixpoint insert_declared (hs : hmap) (m : list (str * str)) : res N hmap :=
    match m with
    | [] => Ok hs
    | (k, v) :: t =>
        match header_name k with
        | None => Err 500
        | Some n =>
            if header_legal v then insert_declared (hm_insert hs n v) t else Err 500
        end
    end.

  (* HttpResponseHeaders<T, H> *)
  Record hresp := mkHresp {
    hr_body : coded;
    hr_declared : list (str * fval);     (* structured_headers, as fields *)
    hr_explicit : hmap                   (* other_headers *)
  }.

  (* HttpResponseHeaders::to_result *)
  Definition to_result_headers (h : hresp) : res N response :=
    do r <- to_result_coded (hr_body h);
    do m <- to_map (hr_declared h) [];
    do hs <- insert_declared (r_headers r) m;
    Ok (mkResponse (r_status r) (hm_extend hs (hr_explicit h)) (r_body r)).

  (* headers_mut(): the caller edits other_headers *)
  Definition with_explicit (h : hresp) (m : hmap) : hresp :=
    mkHresp (hr_body h) (hr_declared h) m.

  (* http_response_found / see_other / temporary_redirect:
       HeaderValue::from_str(&location).map_err(http_redirect_error)?   (500)
       HttpResponseHeaders::new(<status type>, RedirectHeaders { location }) *)
  Definition redirect (st : coded) (loc : str) : res N hresp :=
    if header_legal loc
    then Ok (mkHresp st [(H_LOCATION, FStr loc)] [])
    else Err 500.

  Definition http_response_found := redirect RFoundStatus.
  Definition http_response_see_other := redirect RSeeOtherStatus.
  Definition http_response_temporary_redirect := redirect RTemporaryRedirectStatus.

  (* the value of a header the BTreeMap loop leaves behind: later keys win *)
  Fixpoint declared_value (m : list (str * str)) (n : str) : option str :=
    match m with
    | [] => None
    | (k, v) :: t =>
        match declared_value t n with
        | Some x => Some x
        | None => if option_eqb str_eqb (header_name k) (Some n) then Some v else None
        end
    end.
End Typed.

Arguments PJson {V} v.
Arguments PFreeform {V} b.
Arguments ROk {V} p.
Arguments RCreated {V} p.
Arguments RAccepted {V} p.
Arguments RDeleted {V}.
Arguments RUpdatedNoContent {V}.
Arguments RFoundStatus {V}.
Arguments RSeeOtherStatus {V}.
Arguments RTemporaryRedirectStatus {V}.
Arguments status_of {V} c.
Arguments mkHresp {V} _ _ _.
Arguments hr_body {V} h.
Arguments hr_declared {V} h.
Arguments hr_explicit {V} h.
Arguments with_explicit {V} h m.
Arguments redirect {V} st loc.
Arguments http_response_found {V} loc.
Arguments http_response_see_other {V} loc.
Arguments http_response_temporary_redirect {V} loc.
