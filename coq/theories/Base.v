(* Base.v — shared conventions: bytes, strings, results.  No proofs about the
   system here; only the small library every theory uses. *)
From Coq Require Export List NArith ZArith Bool Lia.
Export ListNotations.
Open Scope N_scope.

Arguments N.add : simpl never.
Arguments N.sub : simpl never.
Arguments N.mul : simpl never.
Arguments N.eqb : simpl never.
Arguments N.ltb : simpl never.
Arguments N.leb : simpl never.
Arguments N.compare : simpl never.
Arguments N.div : simpl never.
Arguments N.modulo : simpl never.

(* A byte is an N (well-formedness: < 256, a boolean predicate where needed);
   a string is the list of its UTF-8 bytes. *)
Definition byte := N.
Definition str := list N.

Definition byte_ok (b : N) : bool := b <? 256.
Definition bytes_ok (s : str) : bool := forallb byte_ok s.

(* Results.  A Rust panic in modelled code is an [Err] with a distinguished
   code, never a default value. *)
Inductive res (E A : Type) : Type :=
| Ok (a : A)
| Err (e : E).
Arguments Ok {E A} a.
Arguments Err {E A} e.

Definition is_ok {E A} (r : res E A) : bool :=
  match r with Ok _ => true | Err _ => false end.

Definition bind {E A B} (r : res E A) (f : A -> res E B) : res E B :=
  match r with Ok a => f a | Err e => Err e end.

Notation "'do' x <- r ; k" := (bind r (fun x => k))
  (at level 200, x name, r at level 100, k at level 200, right associativity).

(* ---------- equality and order on strings ---------- *)

Fixpoint str_eqb (a b : str) : bool :=
  match a, b with
  | [], [] => true
  | x :: a', y :: b' => (x =? y) && str_eqb a' b'
  | _, _ => false
  end.

Lemma str_eqb_spec a b : reflect (a = b) (str_eqb a b).
Proof.
  revert b; induction a as [|x a IH]; intros [|y b]; cbn [str_eqb];
    try (constructor; congruence).
  destruct (N.eqb_spec x y) as [->|Hne]; cbn [andb].
  - destruct (IH b) as [->|Hne]; constructor; congruence.
  - constructor; congruence.
Qed.

Lemma str_eqb_eq a b : str_eqb a b = true <-> a = b.
Proof. destruct (str_eqb_spec a b); split; congruence. Qed.

Lemma str_eqb_refl a : str_eqb a a = true.
Proof. apply str_eqb_eq; reflexivity. Qed.

Lemma str_eqb_neq a b : str_eqb a b = false <-> a <> b.
Proof. destruct (str_eqb_spec a b); split; congruence. Qed.

Lemma str_eqb_sym a b : str_eqb a b = str_eqb b a.
Proof.
  destruct (str_eqb_spec a b), (str_eqb_spec b a); congruence.
Qed.

(* Byte-lexicographic order = Rust's [Ord for String] = BTreeMap iteration. *)
Fixpoint str_cmp (a b : str) : comparison :=
  match a, b with
  | [], [] => Eq
  | [], _ :: _ => Lt
  | _ :: _, [] => Gt
  | x :: a', y :: b' =>
      match x ?= y with
      | Eq => str_cmp a' b'
      | c => c
      end
  end.

Definition str_ltb (a b : str) : bool :=
  match str_cmp a b with Lt => true | _ => false end.

Lemma str_cmp_eq a b : str_cmp a b = Eq <-> a = b.
Proof.
  revert b; induction a as [|x a IH]; intros [|y b]; cbn [str_cmp];
    try (split; congruence).
  destruct (N.compare_spec x y) as [->|Hlt|Hgt].
  - rewrite IH; split; congruence.
  - split; [discriminate|]. intros [= -> _]; lia.
  - split; [discriminate|]. intros [= -> _]; lia.
Qed.

Lemma str_cmp_refl a : str_cmp a a = Eq.
Proof. apply str_cmp_eq; reflexivity. Qed.

Lemma str_cmp_antisym a b : str_cmp b a = CompOpp (str_cmp a b).
Proof.
  revert b; induction a as [|x a IH]; intros [|y b]; cbn [str_cmp]; try reflexivity.
  rewrite (N.compare_antisym x y).
  destruct (x ?= y); cbn [CompOpp]; auto.
Qed.

Lemma str_cmp_trans a b c :
  str_cmp a b = Lt -> str_cmp b c = Lt -> str_cmp a c = Lt.
Proof.
  revert b c; induction a as [|x a IH]; intros [|y b] [|z c]; cbn [str_cmp];
    try congruence.
  destruct (N.compare_spec x y) as [->|Hxy|Hxy]; try discriminate.
  - destruct (N.compare_spec y z) as [->|Hyz|Hyz]; try discriminate.
    + apply IH.
    + auto.
  - intros _. destruct (N.compare_spec y z) as [->|Hyz|Hyz]; try discriminate.
    + intros _. destruct (N.compare_spec x z); try lia; auto.
    + intros _. destruct (N.compare_spec x z); try lia; auto.
Qed.

Lemma str_ltb_irrefl a : str_ltb a a = false.
Proof. unfold str_ltb; rewrite str_cmp_refl; reflexivity. Qed.

Lemma str_ltb_trans a b c :
  str_ltb a b = true -> str_ltb b c = true -> str_ltb a c = true.
Proof.
  unfold str_ltb.
  destruct (str_cmp a b) eqn:Hab; try discriminate.
  destruct (str_cmp b c) eqn:Hbc; try discriminate.
  rewrite (str_cmp_trans _ _ _ Hab Hbc); reflexivity.
Qed.

Lemma str_ltb_total a b :
  str_ltb a b = true \/ a = b \/ str_ltb b a = true.
Proof.
  unfold str_ltb. rewrite (str_cmp_antisym a b).
  destruct (str_cmp a b) eqn:H; cbn [CompOpp]; auto.
  apply str_cmp_eq in H; auto.
Qed.

Lemma str_ltb_neq a b : str_ltb a b = true -> a <> b.
Proof. intros H ->; rewrite str_ltb_irrefl in H; discriminate. Qed.

Lemma str_ltb_asym a b : str_ltb a b = true -> str_ltb b a = false.
Proof.
  intros H. destruct (str_ltb b a) eqn:H'; auto.
  pose proof (str_ltb_trans _ _ _ H H') as Hc.
  rewrite str_ltb_irrefl in Hc; discriminate.
Qed.

(* ---------- small list helpers ---------- *)

Fixpoint mem_str (x : str) (l : list str) : bool :=
  match l with
  | [] => false
  | y :: l' => str_eqb x y || mem_str x l'
  end.

Lemma mem_str_In x l : mem_str x l = true <-> In x l.
Proof.
  induction l as [|y l IH]; cbn [mem_str In]; [split; [discriminate|tauto]|].
  rewrite orb_true_iff, IH, str_eqb_eq. split; intros [H|H]; auto.
Qed.

Definition is_nil {A} (l : list A) : bool := match l with [] => true | _ => false end.

(* ASCII upper-casing, as [str::to_uppercase] behaves on ASCII (method names
   are HTTP tokens, hence ASCII). *)
Definition upper_byte (b : N) : N :=
  if (97 <=? b) && (b <=? 122) then b - 32 else b.
Definition str_upper (s : str) : str := map upper_byte s.
Definition lower_byte (b : N) : N :=
  if (65 <=? b) && (b <=? 90) then b + 32 else b.
Definition str_lower (s : str) : str := map lower_byte s.

Definition option_eqb {A} (eqb : A -> A -> bool) (a b : option A) : bool :=
  match a, b with
  | None, None => true
  | Some x, Some y => eqb x y
  | _, _ => false
  end.

Fixpoint list_eqb {A} (eqb : A -> A -> bool) (a b : list A) : bool :=
  match a, b with
  | [], [] => true
  | x :: a', y :: b' => eqb x y && list_eqb eqb a' b'
  | _, _ => false
  end.

Lemma list_eqb_spec {A} (eqb : A -> A -> bool)
      (H : forall x y, eqb x y = true <-> x = y) a b :
  list_eqb eqb a b = true <-> a = b.
Proof.
  revert b; induction a as [|x a IH]; intros [|y b]; cbn [list_eqb];
    try (split; congruence).
  rewrite andb_true_iff, H, IH. split; [intros [-> ->]; auto|intros [= -> ->]; auto].
Qed.
