(* RegisterTermination.v — the scalar test of registration terminates.
   Before fix 97a0ad7 the real [type_is_scalar] did not: a type that contains
   itself through allOf / anyOf / oneOf sent it into unbounded recursion (F10).
   The model carries fuel; this file shows that fuel is never what stops it:
   for every definition table, schema and path there is a bound beyond which
   [is_scalar_path] never answers [VE_fuel] — the recursion itself is
   well founded (measure: definitions not yet on the path, then the size of the
   inline schema). *)
From DS Require Import Base Versions Router RouterSpec Register.
From Coq Require Import Lia.
#[local] Open Scope nat_scope.

Fixpoint size (s : ps) : nat :=
  match s with
  | SAll l | SAny l | SOne l => S ((fix sizes (l : list ps) : nat := match l with [] => 0 | x :: l' => size x + sizes l' end) l)
  | SArr x => S (size x)
  | _ => 1
  end.
Definition sizes (l : list ps) : nat := fold_right (fun x a => size x + a) 0 l.
Lemma size_list l : (fix sizes (l : list ps) : nat := match l with [] => 0 | x :: l' => size x + sizes l' end) l = sizes l.
Proof. induction l as [|x l IH]; cbn [sizes fold_right]; [reflexivity|]. rewrite IH. reflexivity. Qed.
Lemma size_in x l : In x l -> size x <= sizes l.
Proof. induction l as [|y l IH]; cbn [sizes fold_right In]; [tauto|]. intros [->|H]; [lia|]. specialize (IH H). unfold sizes in IH. lia. Qed.

Definition names (d : defs) : list str := map fst d.
Definition bodymax (d : defs) : nat := fold_right (fun x a => Nat.max (size (snd x)) a) 0 d.

Lemma lookup_def_in n d s : lookup_def n d = Some s -> In n (names d) /\ size s <= bodymax d.
Proof.
  induction d as [|[k b] d IH]; cbn [lookup_def names map fst bodymax fold_right snd]; [discriminate|].
  destruct (str_eqb n k) eqn:E.
  - intros [= <-]. apply str_eqb_eq in E. subst k. split; [left; reflexivity|lia].
  - intros H. destruct (IH H) as [H1 H2]. split; [right; exact H1|]. unfold bodymax in H2. lia.
Qed.

(* ---- type_resolve never runs out of fuel: the names seen are distinct names of the table ---- *)
Lemma resolve_named_no_fuel d : forall fuel seen last s,
  NoDup seen -> incl seen (names d) -> length seen + fuel > length d ->
  resolve_named fuel d seen last s <> Err VE_fuel.
Proof.
  induction fuel as [|f IH]; intros seen last s Hnd Hinc Hlen; destruct s; cbn [resolve_named]; try discriminate.
  - exfalso. pose proof (NoDup_incl_length Hnd Hinc) as Hle. unfold names in Hle. rewrite map_length in Hle. lia.
  - destruct (mem_str name seen) eqn:Hm; [discriminate|].
    destruct (lookup_def name d) as [s'|] eqn:Hl; [|discriminate].
    apply IH.
    + constructor; [|exact Hnd]. intros Hin. apply mem_str_In in Hin. congruence.
    + intros x [<-|Hx]; [exact (proj1 (lookup_def_in _ _ _ Hl))|apply Hinc; exact Hx].
    + cbn [length]. lia.
Qed.

Lemma resolve_named_spec d : forall fuel seen last s name s',
  resolve_named fuel d seen last s = Ok (name, s') ->
  (name = last /\ s' = s) \/ (exists n, name = Some n /\ lookup_def n d = Some s').
Proof.
  induction fuel as [|f IH]; intros seen last s name s' H; destruct s; cbn [resolve_named] in H;
    try (injection H as <- <-; left; split; reflexivity); try discriminate.
  destruct (mem_str name0 seen); [discriminate|].
  destruct (lookup_def name0 d) as [b|] eqn:Hl; [|discriminate].
  destruct (IH _ _ _ _ _ H) as [[-> ->]|Hex]; [|right; exact Hex].
  right. exists name0. split; [reflexivity|exact Hl].
Qed.

(* ---- the measure ---- *)
Definition fresh (d : defs) (path : list str) : nat :=
  length (filter (fun n => negb (mem_str n path)) (names d)).

Lemma fresh_cons d path n : In n (names d) -> mem_str n path = false -> fresh d (n :: path) < fresh d path.
Proof.
  unfold fresh. intros Hin Hm. induction (names d) as [|k l IH]; [destruct Hin|].
  cbn [filter mem_str]. destruct (str_eqb k n) eqn:E.
  - apply str_eqb_eq in E. subst k. rewrite Hm. cbn [orb negb length].
    assert (Hle : length (filter (fun n0 => negb (str_eqb n0 n || mem_str n0 path)) l)
                  <= length (filter (fun n0 => negb (mem_str n0 path)) l)).
    { clear. induction l as [|a l IH]; cbn [filter]; [lia|].
      destruct (str_eqb a n); cbn [orb negb]; destruct (mem_str a path); cbn [negb length]; lia. }
    lia.
  - cbn [orb]. destruct Hin as [->|Hin]; [rewrite str_eqb_refl in E; discriminate|].
    specialize (IH Hin). cbn [mem_str] in IH. destruct (mem_str k path); cbn [negb length]; lia.
Qed.

Definition mu (d : defs) (path : list str) (s : ps) : nat := fresh d path * S (bodymax d) + size s.

Lemma all_res_no_fuel (f : ps -> res verr bool) l :
  (forall x, In x l -> f x <> Err VE_fuel) -> all_res f l <> Err VE_fuel.
Proof.
  induction l as [|x l IH]; cbn [all_res]; intros H; [discriminate|].
  destruct (f x) as [b|e] eqn:E; cbn [bind].
  - destruct b; [apply IH; intros y Hy; apply H; right; exact Hy|discriminate].
  - intros [= ->]. apply (H x (or_introl eq_refl)). exact E.
Qed.

(* the scalar test is never stopped by its fuel once the fuel exceeds the measure *)
Theorem is_scalar_path_terminates d chk : forall fuel path s,
  mu d path s < fuel -> is_scalar_path fuel d chk path s <> Err VE_fuel.
Proof.
  induction fuel as [|f IH]; intros path s Hmu; [lia|].
  cbn [is_scalar_path].
  destruct (resolve_named (S (length d)) d [] None s) as [[name s']|e] eqn:Hr; cbn [bind].
  2:{ intros [= ->]. revert Hr. apply resolve_named_no_fuel; [constructor|intros x []|cbn [length]; lia]. }
  destruct (resolve_named_spec d _ _ _ _ _ _ Hr) as [[-> ->]|(n & -> & Hl)].
  - (* the schema itself, not a reference: same path, smaller schemas below *)
    destruct s as [t|nm|l|l|l|x|]; try discriminate.
    + destruct l as [|x [|y l]]; try discriminate. apply IH. unfold mu in *. cbn [size] in Hmu. lia.
    + destruct l as [|x [|y l]]; try discriminate. apply IH. unfold mu in *. cbn [size] in Hmu. lia.
    + apply all_res_no_fuel. intros x Hx. apply IH. unfold mu in *. cbn [size] in Hmu. rewrite size_list in Hmu.
      pose proof (size_in x l Hx). lia.
  - (* the body of definition n *)
    destruct (lookup_def_in _ _ _ Hl) as [Hin Hsz].
    destruct (mem_str n path) eqn:Hm; [discriminate|].
    pose proof (fresh_cons d path n Hin Hm) as Hf.
    assert (Hstep : forall x, size x < size s' -> mu d (n :: path) x < f).
    { intros x Hx. unfold mu in *.
      assert (fresh d (n :: path) * S (bodymax d) + S (bodymax d) <= fresh d path * S (bodymax d)) by nia.
      lia. }
    destruct s' as [t|nm|l|l|l|x|]; try discriminate.
    + destruct l as [|x [|y l]]; try discriminate. apply IH, Hstep. cbn [size]. lia.
    + destruct l as [|x [|y l]]; try discriminate. apply IH, Hstep. cbn [size]. lia.
    + apply all_res_no_fuel. intros x Hx. apply IH, Hstep. cbn [size]. rewrite size_list.
      pose proof (size_in x l Hx). lia.
Qed.

Corollary is_scalar_terminates d chk s :
  exists bound, forall fuel, bound < fuel -> is_scalar fuel d chk s <> Err VE_fuel.
Proof. exists (mu d [] s). intros fuel H. apply is_scalar_path_terminates. exact H. Qed.


(* ... and so does the array-of-strings test of the wildcard parameter *)
Lemma resolve_no_fuel d : forall fuel seen s,
  NoDup seen -> incl seen (names d) -> length seen + fuel > length d ->
  resolve fuel d seen s <> Err VE_fuel.
Proof.
  induction fuel as [|f IH]; intros seen s Hnd Hinc Hlen; destruct s; cbn [resolve]; try discriminate.
  - exfalso. pose proof (NoDup_incl_length Hnd Hinc) as Hle. unfold names in Hle. rewrite map_length in Hle. lia.
  - destruct (mem_str name seen) eqn:Hm; [discriminate|].
    destruct (lookup_def name d) as [s'|] eqn:Hl; [|discriminate].
    apply IH.
    + constructor; [|exact Hnd]. intros Hin. apply mem_str_In in Hin. congruence.
    + intros x [<-|Hx]; [exact (proj1 (lookup_def_in _ _ _ Hl))|apply Hinc; exact Hx].
    + cbn [length]. lia.
Qed.

Lemma resolve_size d : forall fuel seen s s',
  resolve fuel d seen s = Ok s' -> size s' <= Nat.max (size s) (bodymax d).
Proof.
  induction fuel as [|f IH]; intros seen s s' H; destruct s; cbn [resolve] in H;
    try (injection H as <-; lia); try discriminate.
  destruct (mem_str name seen); [discriminate|].
  destruct (lookup_def name d) as [b|] eqn:Hl; [|discriminate].
  specialize (IH _ _ _ H). pose proof (proj2 (lookup_def_in _ _ _ Hl)). cbn [size]. lia.
Qed.

Corollary is_string_array_terminates d s :
  exists bound, forall fuel, bound < fuel -> is_string_array fuel d s <> Err VE_fuel.
Proof.
  exists (fresh d [] * S (bodymax d) + Nat.max (size s) (bodymax d)). intros fuel H. unfold is_string_array.
  destruct (resolve (S (length d)) d [] s) as [s'|e] eqn:Hr; cbn [bind].
  2:{ intros [= ->]. revert Hr. apply resolve_no_fuel; [constructor|intros x []|cbn [length]; lia]. }
  pose proof (resolve_size d _ _ _ _ Hr) as Hsz.
  destruct s'; try discriminate. apply is_scalar_path_terminates. unfold mu. cbn [size] in Hsz. lia.
Qed.
