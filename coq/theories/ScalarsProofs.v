(* ScalarsProofs.v — round trip and accept-set characterisation of the scalar
   parsers of Scalars.v. *)
From DS Require Import Base Utf8 Pct PctProofs Scalars.
From Coq Require Import ZifyBool.

Ltac Zify.zify_post_hook ::= Z.to_euclidean_division_equations.

(* ---------- decimal digits ---------- *)

Lemma digits_val_app x : forall a y,
  digits_val a (x ++ y) =
  match digits_val a x with Some a' => digits_val a' y | None => None end.
Proof.
  induction x as [|c x IH]; intros a y; cbn [app digits_val]; [reflexivity|].
  destruct (is_digit c); [apply IH|reflexivity].
Qed.

Lemma digits_val_all_digits s : forall a n,
  digits_val a s = Some n -> forallb is_digit s = true.
Proof.
  induction s as [|c s IH]; intros a n H; cbn [forallb]; [reflexivity|].
  cbn [digits_val] in H. destruct (is_digit c); [|discriminate].
  cbn [andb]. eapply IH; eassumption.
Qed.

Lemma all_digits_digits_val s : forall a,
  forallb is_digit s = true -> exists n, digits_val a s = Some n.
Proof.
  induction s as [|c s IH]; intros a H; cbn [digits_val]; [eauto|].
  cbn [forallb] in H. apply andb_true_iff in H as [Hc Hs]. rewrite Hc. apply IH, Hs.
Qed.

Lemma digits_acc_app f : forall n acc, digits_acc f n acc = digits_acc f n [] ++ acc.
Proof.
  induction f as [|f IH]; intros n acc; cbn [digits_acc]; [reflexivity|].
  destruct (n <? 10); [reflexivity|].
  rewrite (IH (n / 10) (_ :: acc)), (IH (n / 10) [_]).
  rewrite <- app_assoc. reflexivity.
Qed.

Lemma is_digit_mod10 n : is_digit (48 + n mod 10) = true.
Proof. unfold is_digit. lia. Qed.

Lemma digits_acc_val f : forall n,
  n < 2 ^ N.of_nat f -> digits_val 0 (digits_acc f n []) = Some n.
Proof.
  induction f as [|f IH]; intros n Hn.
  - cbn [digits_acc digits_val]. change (2 ^ N.of_nat 0) with 1 in Hn. f_equal; lia.
  - cbn [digits_acc].
    assert (Hpow : 2 ^ N.of_nat (S f) = 2 * 2 ^ N.of_nat f).
    { rewrite Nat2N.inj_succ, N.pow_succ_r'. reflexivity. }
    destruct (n <? 10) eqn:H10.
    + cbn [digits_val]. rewrite is_digit_mod10. f_equal. lia.
    + rewrite digits_acc_app, digits_val_app.
      rewrite IH by (rewrite Hpow in Hn; lia).
      cbn [digits_val]. rewrite is_digit_mod10. f_equal. lia.
Qed.

Lemma digits_acc_all_digits f : forall n acc,
  forallb is_digit acc = true -> forallb is_digit (digits_acc f n acc) = true.
Proof.
  induction f as [|f IH]; intros n acc H; cbn [digits_acc]; [exact H|].
  assert (H' : forallb is_digit ((48 + n mod 10) :: acc) = true).
  { cbn [forallb]. rewrite is_digit_mod10, H. reflexivity. }
  destruct (n <? 10); [exact H'|apply IH, H'].
Qed.

Lemma print_N_fuel n : n < 2 ^ N.of_nat (S (N.to_nat (N.log2 n))).
Proof.
  rewrite Nat2N.inj_succ, N2Nat.id.
  destruct (N.eq_dec n 0) as [->|Hnz]; [reflexivity|].
  apply N.log2_spec. lia.
Qed.

(* the fuel of [print_N] is always enough: parsing gives the number back *)
Lemma print_N_val n : digits_val 0 (print_N n) = Some n.
Proof. apply digits_acc_val, print_N_fuel. Qed.

Lemma print_N_all_digits n : forallb is_digit (print_N n) = true.
Proof. apply digits_acc_all_digits. reflexivity. Qed.

Lemma print_N_nonempty n : exists d ds, print_N n = d :: ds /\ is_digit d = true.
Proof.
  pose proof (print_N_all_digits n) as Hall.
  unfold print_N in *. cbn [digits_acc] in *.
  destruct (n <? 10).
  - eexists _, _; split; [reflexivity|apply is_digit_mod10].
  - rewrite digits_acc_app in *.
    destruct (digits_acc _ (n / 10) []) as [|d ds] eqn:E; cbn [app] in *.
    + eexists _, _; split; [reflexivity|apply is_digit_mod10].
    + eexists _, _; split; [reflexivity|].
      cbn [forallb] in Hall. apply andb_true_iff in Hall as [Hd _]. exact Hd.
Qed.

Lemma parse_digits_print_N n : parse_digits (print_N n) = Some n.
Proof.
  destruct (print_N_nonempty n) as (d & ds & E & _).
  unfold parse_digits. rewrite E, <- E. apply print_N_val.
Qed.

(* ---------- integers ---------- *)

Lemma split_sign_digit sg d ds :
  is_digit d = true -> split_sign sg (d :: ds) = Some (true, d :: ds).
Proof.
  intros Hd. unfold is_digit in Hd. unfold split_sign.
  assert (H43 : (d =? 43) = false) by lia.
  assert (H45 : (d =? 45) = false) by lia.
  rewrite H43, H45. cbn [orb andb]. destruct ds; reflexivity.
Qed.

Theorem parse_int_print sg bits z :
  int_in_range sg bits z = true -> parse_int sg bits (print_int z) = Some z.
Proof.
  intros Hr. unfold parse_int, print_int.
  destruct (z <? 0)%Z eqn:Hneg.
  - assert (Hsg : sg = true).
    { destruct sg; [reflexivity|]. unfold int_in_range, int_min in Hr. lia. }
    subst sg.
    destruct (print_N_nonempty (Z.to_N (- z))) as (d & ds & E & Hd).
    rewrite E. unfold split_sign. cbn [N.eqb].
    change (45 =? 43) with false. change (45 =? 45) with true. cbn [andb].
    rewrite <- E, parse_digits_print_N.
    replace (- Z.of_N (Z.to_N (- z)))%Z with z by lia.
    rewrite Hr. reflexivity.
  - destruct (print_N_nonempty (Z.to_N z)) as (d & ds & E & Hd).
    rewrite E, (split_sign_digit _ _ _ Hd), <- E, parse_digits_print_N.
    replace (Z.of_N (Z.to_N z)) with z by lia.
    rewrite Hr. reflexivity.
Qed.

Theorem parse_int_in_range sg bits s z :
  parse_int sg bits s = Some z -> int_in_range sg bits z = true.
Proof.
  unfold parse_int. destruct (split_sign sg s) as [[pos ds]|]; [|discriminate].
  destruct (parse_digits ds) as [n|]; [|discriminate].
  destruct (int_in_range sg bits _) eqn:H; [|discriminate].
  intros [= <-]. exact H.
Qed.

(* the accepted strings: an optional sign ('+' for every type, '-' for signed
   types only), then at least one ASCII digit and nothing else, the value in
   range *)
Definition int_literal (sg : bool) (bits : N) (s : str) (z : Z) : Prop :=
  exists (sign ds : str) (n : N),
    s = sign ++ ds /\
    (sign = [] \/ sign = [43] \/ (sign = [45] /\ sg = true)) /\
    ds <> [] /\ forallb is_digit ds = true /\ digits_val 0 ds = Some n /\
    z = (if str_eqb sign [45] then (- Z.of_N n)%Z else Z.of_N n) /\
    int_in_range sg bits z = true.

Lemma parse_digits_some ds n :
  parse_digits ds = Some n <-> ds <> [] /\ digits_val 0 ds = Some n.
Proof.
  unfold parse_digits. destruct ds; split.
  - discriminate.
  - intros [H _]; congruence.
  - intros H; split; [discriminate|exact H].
  - intros [_ H]; exact H.
Qed.

Theorem parse_int_accepts sg bits s z :
  parse_int sg bits s = Some z <-> int_literal sg bits s z.
Proof.
  split.
  - unfold parse_int. intros H.
    destruct (split_sign sg s) as [[pos ds]|] eqn:Hs; [|discriminate].
    destruct (parse_digits ds) as [n|] eqn:Hd; [|discriminate].
    destruct (int_in_range sg bits _) eqn:Hr; [|discriminate].
    injection H as <-.
    apply parse_digits_some in Hd as [Hne Hv].
    pose proof (digits_val_all_digits _ _ _ Hv) as Hall.
    unfold split_sign in Hs.
    destruct s as [|c [|c' rest]]; [discriminate| |].
    + destruct ((c =? 43) || (c =? 45)); [discriminate|].
      injection Hs as <- <-.
      exists [], [c], n. cbn [app str_eqb]. repeat split; auto.
    + destruct (c =? 43) eqn:H43.
      * injection Hs as <- <-. apply N.eqb_eq in H43 as ->.
        exists [43], (c' :: rest), n. cbn [app]. repeat split; auto.
      * destruct ((c =? 45) && sg) eqn:H45.
        -- injection Hs as <- <-. apply andb_true_iff in H45 as [Hc ->].
           apply N.eqb_eq in Hc as ->.
           exists [45], (c' :: rest), n. cbn [app]. repeat split; auto.
        -- injection Hs as <- <-.
           exists [], (c :: c' :: rest), n. cbn [app str_eqb]. repeat split; auto.
  - intros (sign & ds & n & -> & Hsign & Hne & Hall & Hv & -> & Hr).
    unfold parse_int.
    destruct ds as [|d ds]; [congruence|].
    assert (Hd : is_digit d = true).
    { cbn [forallb] in Hall. apply andb_true_iff in Hall as [H _]. exact H. }
    destruct Hsign as [->|[->|[-> ->]]]; cbn [app].
    + rewrite (split_sign_digit _ _ _ Hd).
      replace (parse_digits (d :: ds)) with (Some n)
        by (symmetry; apply parse_digits_some; split; [discriminate|exact Hv]).
      cbn [str_eqb] in Hr |- *. rewrite Hr. reflexivity.
    + unfold split_sign. change (43 =? 43) with true. cbn iota.
      replace (parse_digits (d :: ds)) with (Some n)
        by (symmetry; apply parse_digits_some; split; [discriminate|exact Hv]).
      change (str_eqb [43] [45]) with false in Hr |- *. cbn iota in Hr |- *.
      rewrite Hr. reflexivity.
    + unfold split_sign. change (45 =? 43) with false. change (45 =? 45) with true.
      cbn [andb]. cbn iota.
      replace (parse_digits (d :: ds)) with (Some n)
        by (symmetry; apply parse_digits_some; split; [discriminate|exact Hv]).
      change (str_eqb [45] [45]) with true in Hr |- *. cbn iota in Hr |- *.
      rewrite Hr. reflexivity.
Qed.

(* [print_int] is one of the accepted spellings: the canonical one *)
Lemma print_int_no_plus z : forall c rest, print_int z = c :: rest -> c <> 43.
Proof.
  intros c rest. unfold print_int. destruct (z <? 0)%Z.
  - intros [= <- _]. discriminate.
  - destruct (print_N_nonempty (Z.to_N z)) as (d & ds & E & Hd). rewrite E.
    intros [= <- _]. unfold is_digit in Hd. lia.
Qed.

(* ---------- bool ---------- *)

Theorem parse_bool_print b : parse_bool (print_bool b) = Some b.
Proof. destruct b; reflexivity. Qed.

Theorem parse_bool_accepts s b :
  parse_bool s = Some b <-> s = print_bool b.
Proof.
  unfold parse_bool. split.
  - destruct (str_eqb_spec s S_TRUE) as [->|H1]; [intros [= <-]; reflexivity|].
    destruct (str_eqb_spec s S_FALSE) as [->|H2]; [intros [= <-]; reflexivity|discriminate].
  - intros ->. destruct b; reflexivity.
Qed.

(* ---------- char ---------- *)

Lemma in_range_true lo hi c : in_range lo hi c = true <-> lo <= c /\ c <= hi.
Proof. unfold in_range. lia. Qed.
Lemma in_range_false lo hi c : in_range lo hi c = false <-> c < lo \/ hi < c.
Proof. unfold in_range. lia. Qed.

Lemma utf8_cont_enc x : utf8_cont (128 + x mod 64) = true.
Proof. unfold utf8_cont. apply in_range_true. lia. Qed.

Theorem utf8_decode1_encode c :
  is_scalar c = true -> utf8_decode1 (utf8_encode c) = Some (c, []).
Proof.
  intros Hs. unfold is_scalar in Hs. unfold utf8_encode.
  destruct (c <? 128) eqn:H1.
  { unfold utf8_decode1. rewrite H1. reflexivity. }
  destruct (c <? 2048) eqn:H2.
  { unfold utf8_decode1.
    replace (192 + c / 64 <? 128) with false by lia.
    replace (in_range 194 223 (192 + c / 64)) with true
      by (symmetry; apply in_range_true; lia).
    rewrite utf8_cont_enc. do 2 f_equal. lia. }
  destruct (c <? 65536) eqn:H3.
  { unfold utf8_decode1.
    replace (224 + c / 4096 <? 128) with false by lia.
    replace (in_range 194 223 (224 + c / 4096)) with false
      by (symmetry; apply in_range_false; lia).
    replace (in_range 224 239 (224 + c / 4096)) with true
      by (symmetry; apply in_range_true; lia).
    rewrite utf8_cont_enc.
    replace (utf8_second3 (224 + c / 4096) (128 + (c / 64) mod 64)) with true.
    2:{ symmetry. unfold utf8_second3.
        destruct (224 + c / 4096 =? 224) eqn:E0; [apply in_range_true; lia|].
        destruct (224 + c / 4096 =? 237) eqn:E1; apply in_range_true; lia. }
    cbn [andb]. do 2 f_equal. lia. }
  unfold utf8_decode1.
  replace (240 + c / 262144 <? 128) with false by lia.
  replace (in_range 194 223 (240 + c / 262144)) with false
    by (symmetry; apply in_range_false; lia).
  replace (in_range 224 239 (240 + c / 262144)) with false
    by (symmetry; apply in_range_false; lia).
  replace (in_range 240 244 (240 + c / 262144)) with true
    by (symmetry; apply in_range_true; lia).
  rewrite !utf8_cont_enc.
  replace (utf8_second4 (240 + c / 262144) (128 + (c / 4096) mod 64)) with true.
  2:{ symmetry. unfold utf8_second4.
      destruct (240 + c / 262144 =? 240) eqn:E0; [apply in_range_true; lia|].
      destruct (240 + c / 262144 =? 244) eqn:E1; apply in_range_true; lia. }
  cbn [andb]. do 2 f_equal. lia.
Qed.

Theorem parse_char_print c : is_scalar c = true -> parse_char (utf8_encode c) = Some c.
Proof. intros H. unfold parse_char. rewrite (utf8_decode1_encode _ H). reflexivity. Qed.

(* decoding is the inverse on the nose: what [utf8_decode1] accepts is the
   canonical encoding of a scalar value *)
Theorem utf8_decode1_sound s c rest :
  utf8_decode1 s = Some (c, rest) ->
  is_scalar c = true /\ s = utf8_encode c ++ rest.
Proof.
  unfold utf8_decode1. destruct s as [|b0 t0]; [discriminate|].
  destruct (b0 <? 128) eqn:H0.
  { intros [= <- <-]. unfold is_scalar, utf8_encode. rewrite H0. split; [lia|reflexivity]. }
  destruct (in_range 194 223 b0) eqn:R2.
  { destruct t0 as [|b1 t1]; [discriminate|].
    destruct (utf8_cont b1) eqn:C1; [|discriminate].
    intros [= <- <-]. apply in_range_true in R2. unfold utf8_cont in C1.
    apply in_range_true in C1.
    unfold is_scalar, utf8_encode.
    replace ((b0 - 192) * 64 + (b1 - 128) <? 128) with false by lia.
    replace ((b0 - 192) * 64 + (b1 - 128) <? 2048) with true by lia.
    split; [lia|]. cbn [app]. f_equal; [lia|f_equal; lia]. }
  destruct (in_range 224 239 b0) eqn:R3.
  { destruct t0 as [|b1 [|b2 t2]]; try discriminate.
    destruct (utf8_second3 b0 b1 && utf8_cont b2) eqn:C; [|discriminate].
    intros [= <- <-]. apply andb_true_iff in C as [C1 C2].
    apply in_range_true in R3. unfold utf8_cont in C2. apply in_range_true in C2.
    assert (Hb1 : 128 <= b1 /\ b1 <= 191 /\ (b0 = 224 -> 160 <= b1) /\ (b0 = 237 -> b1 <= 159)).
    { unfold utf8_second3 in C1.
      destruct (b0 =? 224) eqn:E0; [apply in_range_true in C1; lia|].
      destruct (b0 =? 237) eqn:E1; apply in_range_true in C1; lia. }
    set (c := (b0 - 224) * 4096 + (b1 - 128) * 64 + (b2 - 128)).
    assert (Hc : 2048 <= c /\ c < 65536 /\ (c < 55296 \/ 57344 <= c)) by (unfold c; lia).
    unfold is_scalar, utf8_encode.
    replace (c <? 128) with false by lia.
    replace (c <? 2048) with false by lia.
    replace (c <? 65536) with true by lia.
    split; [lia|]. cbn [app]. unfold c. f_equal; [lia|f_equal; [lia|f_equal; lia]]. }
  destruct (in_range 240 244 b0) eqn:R4; [|discriminate].
  destruct t0 as [|b1 [|b2 [|b3 t3]]]; try discriminate.
  destruct (utf8_second4 b0 b1 && utf8_cont b2 && utf8_cont b3) eqn:C; [|discriminate].
  intros [= <- <-]. apply andb_true_iff in C as [C C3]. apply andb_true_iff in C as [C1 C2].
  apply in_range_true in R4. unfold utf8_cont in C2, C3.
  apply in_range_true in C2. apply in_range_true in C3.
  assert (Hb1 : 128 <= b1 /\ b1 <= 191 /\ (b0 = 240 -> 144 <= b1) /\ (b0 = 244 -> b1 <= 143)).
  { unfold utf8_second4 in C1.
    destruct (b0 =? 240) eqn:E0; [apply in_range_true in C1; lia|].
    destruct (b0 =? 244) eqn:E1; apply in_range_true in C1; lia. }
  set (c := (b0 - 240) * 262144 + (b1 - 128) * 4096 + (b2 - 128) * 64 + (b3 - 128)).
  assert (Hc : 65536 <= c /\ c < 1114112) by (unfold c; lia).
  unfold is_scalar, utf8_encode.
  replace (c <? 128) with false by lia.
  replace (c <? 2048) with false by lia.
  replace (c <? 65536) with false by lia.
  split; [lia|]. cbn [app]. unfold c.
  f_equal; [lia|f_equal; [lia|f_equal; [lia|f_equal; lia]]].
Qed.

Theorem parse_char_accepts s c :
  parse_char s = Some c <-> is_scalar c = true /\ s = utf8_encode c.
Proof.
  unfold parse_char. split.
  - destruct (utf8_decode1 s) as [[c' [|x r]]|] eqn:E; try discriminate.
    intros [= <-]. apply utf8_decode1_sound in E as [H1 H2].
    rewrite app_nil_r in H2. auto.
  - intros [H ->]. rewrite (utf8_decode1_encode _ H). reflexivity.
Qed.

(* the canonical encoding is well-formed UTF-8 (so it can travel as a Rust
   [String] / a path segment) *)
Theorem utf8_encode_valid c : is_scalar c = true -> utf8_valid (utf8_encode c) = true.
Proof.
  intros Hs. pose proof (utf8_decode1_encode c Hs) as H.
  unfold utf8_decode1 in H. unfold utf8_valid.
  destruct (utf8_encode c) as [|b0 t0]; [reflexivity|].
  destruct (b0 <? 128).
  { injection H as _ ->. reflexivity. }
  destruct (in_range 194 223 b0).
  { destruct t0 as [|b1 t1]; [discriminate|].
    destruct (utf8_cont b1); [|discriminate]. injection H as _ ->. reflexivity. }
  destruct (in_range 224 239 b0).
  { destruct t0 as [|b1 [|b2 t2]]; try discriminate.
    destruct (utf8_second3 b0 b1 && utf8_cont b2); [|discriminate].
    injection H as _ ->. reflexivity. }
  destruct (in_range 240 244 b0); [|discriminate].
  destruct t0 as [|b1 [|b2 [|b3 t3]]]; try discriminate.
  destruct (utf8_second4 b0 b1 && utf8_cont b2 && utf8_cont b3); [|discriminate].
  injection H as _ ->. reflexivity.
Qed.

(* ---------- uuid ---------- *)

Lemma hex_pairs_hex_lower bs : bytes_ok bs = true -> hex_pairs (hex_lower bs) = Some bs.
Proof.
  induction bs as [|b bs IH]; intros H; [reflexivity|].
  unfold bytes_ok in H. cbn [forallb] in H. apply andb_true_iff in H as [Hb H]. unfold byte_ok in Hb.
  cbn [hex_lower hex_pairs].
  rewrite (hex_val_lower (b / 16)) by lia. rewrite (hex_val_lower (b mod 16)) by lia.
  rewrite (IH H). do 2 f_equal. lia.
Qed.

Lemma hex_pairs_spec : forall bs s,
  hex_pairs s = Some bs -> length s = (2 * length bs)%nat /\ bytes_ok bs = true.
Proof.
  induction bs as [|x bs IH]; intros s H.
  - destruct s as [|h [|l rest]]; cbn [hex_pairs] in H; [split; reflexivity|discriminate|].
    destruct (hex_val h), (hex_val l), (hex_pairs rest); discriminate.
  - destruct s as [|h [|l rest]]; cbn [hex_pairs] in H; [discriminate|discriminate|].
    destruct (hex_val h) as [a|] eqn:Ha; [|discriminate].
    destruct (hex_val l) as [b|] eqn:Hb; [|discriminate].
    destruct (hex_pairs rest) as [bs'|] eqn:Hr; [|discriminate].
    injection H as <- <-. destruct (IH _ Hr) as [Hl Hok].
    pose proof (hex_val_lt16 _ _ Ha). pose proof (hex_val_lt16 _ _ Hb).
    split; [cbn [length]; lia|].
    unfold bytes_ok in *. cbn [forallb]. rewrite Hok. unfold byte_ok.
    apply andb_true_iff. split; [lia|reflexivity].
Qed.

Theorem parse_uuid_print bs : uuid_ok bs = true -> parse_uuid (print_uuid bs) = Some bs.
Proof.
  unfold uuid_ok. intros H. apply andb_true_iff in H as [Hl Hb]. apply Nat.eqb_eq in Hl.
  do 16 (destruct bs as [|? bs]; [discriminate Hl|]). destruct bs; [|discriminate Hl].
  pose proof (hex_pairs_hex_lower _ Hb) as Hh.
  unfold print_uuid. cbn [firstn skipn hex_lower app].
  unfold parse_uuid. cbn [length Nat.eqb].
  unfold parse_uuid_hyphenated. cbn [length Nat.eqb negb firstn skipn app].
  unfold HYPHEN. rewrite !N.eqb_refl. cbn [andb].
  cbn [hex_lower] in Hh. exact Hh.
Qed.

Theorem parse_uuid_sound s bs : parse_uuid s = Some bs -> uuid_ok bs = true.
Proof.
  assert (Hhy : forall s, parse_uuid_hyphenated s = Some bs -> uuid_ok bs = true).
  { intros s0. unfold parse_uuid_hyphenated.
    destruct (length s0 =? 36)%nat eqn:E; cbn [negb]; [|discriminate].
    apply Nat.eqb_eq in E.
    destruct (skipn 8 s0) as [|h1 r1'] eqn:E1; [discriminate|].
    destruct (skipn 5 (h1 :: r1')) as [|h2 r2'] eqn:E2; [discriminate|].
    destruct (skipn 5 (h2 :: r2')) as [|h3 r3'] eqn:E3; [discriminate|].
    destruct (skipn 5 (h3 :: r3')) as [|h4 r4'] eqn:E4; [discriminate|].
    destruct (_ && _); [|discriminate].
    intros H. apply hex_pairs_spec in H as [Hlen Hok]. unfold uuid_ok. rewrite Hok, andb_true_r.
    apply Nat.eqb_eq.
    assert (L1 : length (h1 :: r1') = 28%nat) by (rewrite <- E1, skipn_length; lia).
    assert (L2 : length (h2 :: r2') = 23%nat) by (rewrite <- E2, skipn_length; lia).
    assert (L3 : length (h3 :: r3') = 18%nat) by (rewrite <- E3, skipn_length; lia).
    assert (L4 : length (h4 :: r4') = 13%nat) by (rewrite <- E4, skipn_length; lia).
    rewrite !app_length, !firstn_length, !skipn_length in Hlen. lia. }
  unfold parse_uuid.
  destruct (length s =? 32)%nat eqn:E32.
  { unfold parse_uuid_simple. rewrite E32. intros H. apply Nat.eqb_eq in E32.
    apply hex_pairs_spec in H as [Hlen Hok]. unfold uuid_ok. rewrite Hok, andb_true_r.
    apply Nat.eqb_eq. lia. }
  destruct (length s =? 36)%nat; [apply Hhy|].
  destruct (length s =? 38)%nat.
  { destruct s as [|c rest]; [discriminate|]. destruct (N.eqb_spec c 123); [|destruct c as [|p]; try discriminate].
    - subst c. destruct (rev rest) as [|d inner]; [discriminate|].
      destruct (N.eqb_spec d 125); [subst d; apply Hhy|].
      destruct d as [|q]; [discriminate|]. intros H. exfalso.
      revert H n. clear. intros H n.
      (* the match on the literal 125 *)
      repeat (destruct q as [q|q|]; try discriminate H); congruence.
    - intros H. exfalso. revert H n. clear.
      intros H n. repeat (destruct p as [p|p|]; try discriminate H); congruence. }
  destruct (length s =? 45)%nat; [|discriminate].
  destruct (str_eqb _ _); [apply Hhy|discriminate].
Qed.

(* ---------- all scalar types ---------- *)

(* C09 clause 1a: every value of every scalar type survives print-then-parse *)
Theorem scalar_round_trip ty v :
  sval_ok ty v = true -> parse_scalar ty (print_scalar v) = Some v.
Proof.
  destruct ty, v; cbn [sval_ok]; try discriminate; intros H; cbn [parse_scalar print_scalar].
  - reflexivity.
  - rewrite parse_bool_print. reflexivity.
  - rewrite (parse_char_print _ H). reflexivity.
  - rewrite (parse_int_print _ _ _ H). reflexivity.
  - rewrite H. reflexivity.
  - rewrite (parse_uuid_print _ H). reflexivity.
Qed.

(* C09 clause 1b / C10: whatever the parser accepts is a value of the type
   (in particular: in range) *)
Theorem parse_scalar_sound ty s v :
  parse_scalar ty s = Some v -> sval_ok ty v = true.
Proof.
  destruct ty; cbn [parse_scalar].
  - intros [= <-]. reflexivity.
  - destruct (parse_bool s); [|discriminate]. intros [= <-]. reflexivity.
  - destruct (parse_char s) eqn:E; [|discriminate]. intros [= <-].
    apply parse_char_accepts in E as [H _]. exact H.
  - destruct (parse_int signed bits s) eqn:E; [|discriminate]. intros [= <-].
    exact (parse_int_in_range _ _ _ _ E).
  - destruct (mem_str s variants) eqn:E; [|discriminate]. intros [= <-]. exact E.
  - destruct (parse_uuid s) eqn:E; [|discriminate]. intros [= <-]. exact (parse_uuid_sound _ _ E).
Qed.

(* out-of-range numbers are refused: one past either end, for every width *)
Theorem parse_int_refuses_out_of_range sg bits z :
  int_in_range sg bits z = false -> parse_int sg bits (print_int z) = None.
Proof.
  intros Hr. destruct (parse_int sg bits (print_int z)) as [z'|] eqn:E; [|reflexivity].
  exfalso.
  (* the digits of [print_int z] denote z whatever the width *)
  pose proof (parse_int_in_range _ _ _ _ E) as Hr'.
  unfold parse_int, print_int in E.
  destruct (z <? 0)%Z eqn:Hneg.
  - destruct (print_N_nonempty (Z.to_N (- z))) as (d & ds & Ed & Hd).
    rewrite Ed in E. unfold split_sign in E.
    change (45 =? 43) with false in E. change (45 =? 45) with true in E. cbn [andb] in E.
    destruct sg.
    + rewrite <- Ed, parse_digits_print_N in E.
      replace (- Z.of_N (Z.to_N (- z)))%Z with z in E by lia. rewrite Hr in E. discriminate.
    + unfold parse_digits in E. cbn [digits_val is_digit] in E.
      change ((48 <=? 45) && (45 <=? 57)) with false in E. discriminate.
  - destruct (print_N_nonempty (Z.to_N z)) as (d & ds & Ed & Hd).
    rewrite Ed, (split_sign_digit _ _ _ Hd), <- Ed, parse_digits_print_N in E.
    replace (Z.of_N (Z.to_N z)) with z in E by lia. rewrite Hr in E. discriminate.
Qed.

(* the extremes of each Rust integer type are values of the type *)
Example extremes_in_range :
  forallb (fun ty => match ty with
                     | TInt sg bits => int_in_range sg bits (int_min sg bits)
                                       && int_in_range sg bits (int_max sg bits)
                                       && negb (int_in_range sg bits (int_min sg bits - 1))
                                       && negb (int_in_range sg bits (int_max sg bits + 1))
                     | _ => false end) int_types = true.
Proof. vm_compute. reflexivity. Qed.


(* ---------- f32 / f64: correct rounding ---------- *)

Ltac Zify.zify_post_hook ::= idtac.
Local Open Scope Z_scope.

Lemma rne_spec A B :
  0 <= A -> 0 < B ->
  2 * Z.abs (A - rne A B * B) <= B /\
  (2 * Z.abs (A - rne A B * B) = B -> Z.even (rne A B) = true).
Proof.
  intros HA HB. unfold rne.
  pose proof (Z.div_mod A B ltac:(lia)) as Hdm.
  pose proof (Z.mod_pos_bound A B HB) as Hr.
  set (m0 := A / B) in *. set (r := A mod B) in *.
  assert (HAr : A - m0 * B = r) by lia.
  destruct (2 * r <? B) eqn:E1.
  - rewrite HAr. split; lia.
  - destruct (2 * r =? B) eqn:E2.
    + destruct (Z.even m0) eqn:Ev.
      * rewrite HAr. split; [lia|auto].
      * replace (A - (m0 + 1) * B) with (r - B) by lia. split; [lia|].
        intros _. rewrite Z.even_add, Ev. reflexivity.
    + replace (A - (m0 + 1) * B) with (r - B) by lia. split; lia.
Qed.

Lemma flog2_ratio_spec num den :
  0 < num -> 0 < den ->
  let f := flog2_ratio num den in
  (0 <= f -> den * 2 ^ f <= num < den * 2 ^ (f + 1)) /\
  (f < 0 -> den <= num * 2 ^ (- f) /\ num * 2 ^ (- f) < 2 * den).
Proof.
  intros Hn Hd. unfold flog2_ratio.
  pose proof (Z.log2_spec num Hn) as [Ln1 Ln2].
  pose proof (Z.log2_spec den Hd) as [Ld1 Ld2].
  pose proof (Z.log2_nonneg num). pose proof (Z.log2_nonneg den).
  set (a := Z.log2 num) in *. set (b := Z.log2 den) in *.
  rewrite Z.pow_succ_r in Ln2, Ld2 by lia.
  destruct (0 <=? a - b) eqn:El.
  - assert (Hab : a = b + (a - b)) by lia.
    assert (Hp : 2 ^ a = 2 ^ b * 2 ^ (a - b)) by (rewrite <- Z.pow_add_r by lia; f_equal; lia).
    assert (Hpos : 0 < 2 ^ (a - b)) by (apply Z.pow_pos_nonneg; lia).
    destruct (den * 2 ^ (a - b) <=? num) eqn:Ege; cbn zeta.
    + split; [|lia]. intros _. split; [lia|].
      rewrite Z.pow_add_r by lia. change (2 ^ 1) with 2. nia.
    + destruct (Z.eq_dec (a - b) 0) as [E0|E0].
      * (* l = 0, num < den: f = -1 *)
        split; [lia|]. intros _. replace (- (a - b - 1)) with 1 by lia. change (2 ^ 1) with 2.
        rewrite E0 in *. change (2 ^ 0) with 1 in *. nia.
      * split; [|lia]. intros _.
        assert (Hs : 2 ^ (a - b) = 2 * 2 ^ (a - b - 1)).
        { rewrite <- Z.pow_succ_r by lia. f_equal. lia. }
        assert (0 < 2 ^ (a - b - 1)) by (apply Z.pow_pos_nonneg; lia).
        replace (a - b - 1 + 1) with (a - b) by lia. split; [nia|lia].
  - (* l < 0 *)
    assert (Hp : 2 ^ b = 2 ^ a * 2 ^ (- (a - b))) by (rewrite <- Z.pow_add_r by lia; f_equal; lia).
    assert (Hpos : 0 < 2 ^ (- (a - b))) by (apply Z.pow_pos_nonneg; lia).
    destruct (den <=? num * 2 ^ (- (a - b))) eqn:Ege; cbn zeta.
    + split; [lia|]. intros _. split; [lia|nia].
    + split; [lia|]. intros _. replace (- (a - b - 1)) with (Z.succ (- (a - b))) by lia.
      rewrite Z.pow_succ_r by lia. split; nia.
Qed.

Lemma rne_range A B : 0 < B -> A / B <= rne A B <= A / B + 1.
Proof.
  intros HB. unfold rne. destruct (2 * (A mod B) <? B); [lia|].
  destruct (2 * (A mod B) =? B); [destruct (Z.even (A / B)); lia|lia].
Qed.

Definition scaled (fm : fmt) (num den : Z) : Z * Z * Z :=
  let k := Z.max (f_emin fm) (flog2_ratio num den - (f_p fm - 1)) in
  if 0 <=? k then (k, num, den * 2 ^ k) else (k, num * 2 ^ (- k), den).

Lemma div_bounds A B L U : 0 < B -> B * L <= A -> A < B * U -> L <= A / B < U.
Proof.
  intros HB H1 H2. split.
  - apply Z.div_le_lower_bound; lia.
  - apply Z.div_lt_upper_bound; lia.
Qed.

Theorem round_ratio_correct fm num den :
  0 < num -> 0 < den -> 1 <= f_p fm ->
  let '(k, A, B) := scaled fm num den in
  let m := rne A B in
  0 <= A /\ 0 < B /\
  (* A / B is exactly (num / den) / 2^k *)
  (if 0 <=? k then A = num /\ B = den * 2 ^ k else A = num * 2 ^ (- k) /\ B = den) /\
  (* m is the integer nearest to A / B, ties to even *)
  2 * Z.abs (A - m * B) <= B /\ (2 * Z.abs (A - m * B) = B -> Z.even m = true) /\
  (* and k is the exponent of the binade of num / den, or the least one *)
  (k = f_emin fm \/ 2 ^ (f_p fm - 1) <= m <= 2 ^ f_p fm).
Proof.
  intros Hn Hd Hp. unfold scaled.
  pose proof (flog2_ratio_spec num den Hn Hd) as Hf. cbn zeta in Hf.
  set (f := flog2_ratio num den) in *. set (p := f_p fm) in *.
  set (k := Z.max (f_emin fm) (f - (p - 1))).
  destruct (0 <=? k) eqn:Ek; cbv beta iota zeta; rewrite Ek.
  - assert (Hk : 0 <= k) by lia.
    assert (HB : 0 < den * 2 ^ k) by (apply Z.mul_pos_pos; [lia|apply Z.pow_pos_nonneg; lia]).
    destruct (rne_spec num (den * 2 ^ k) ltac:(lia) HB) as [R1 R2].
    repeat split; try lia; try exact R1; try exact R2.
    destruct (Z.eq_dec k (f_emin fm)) as [E|E]; [left; exact E|right].
    assert (Hkf : k = f - (p - 1)) by lia.
    destruct Hf as [Hf _]. specialize (Hf ltac:(lia)).
    assert (H2f : 2 ^ f = 2 ^ k * 2 ^ (p - 1)) by (rewrite <- Z.pow_add_r by lia; f_equal; lia).
    assert (H2f1 : 2 ^ (f + 1) = 2 ^ k * 2 ^ p) by (rewrite <- Z.pow_add_r by lia; f_equal; lia).
    pose proof (div_bounds num (den * 2 ^ k) (2 ^ (p - 1)) (2 ^ p) HB ltac:(nia) ltac:(nia)) as Hb.
    pose proof (rne_range num (den * 2 ^ k) HB). lia.
  - assert (Hk : k < 0) by lia.
    assert (Hpk : 0 < 2 ^ (- k)) by (apply Z.pow_pos_nonneg; lia).
    assert (HA : 0 <= num * 2 ^ (- k)) by nia.
    destruct (rne_spec (num * 2 ^ (- k)) den HA Hd) as [R1 R2].
    repeat split; try lia; try exact R1; try exact R2.
    destruct (Z.eq_dec k (f_emin fm)) as [E|E]; [left; exact E|right].
    assert (Hkf : k = f - (p - 1)) by lia.
    assert (Hb : 2 ^ (p - 1) <= num * 2 ^ (- k) / den < 2 ^ p).
    { apply div_bounds; [exact Hd| |].
      - destruct (Z_lt_le_dec f 0) as [Hneg|Hpos].
        + destruct Hf as [_ Hf]. specialize (Hf Hneg).
          assert (E2 : 2 ^ (- k) = 2 ^ (- f) * 2 ^ (p - 1)) by (rewrite <- Z.pow_add_r by lia; f_equal; lia).
          assert (0 < 2 ^ (p - 1)) by (apply Z.pow_pos_nonneg; lia). nia.
        + destruct Hf as [Hf _]. specialize (Hf Hpos).
          assert (E2 : 2 ^ (p - 1) = 2 ^ f * 2 ^ (- k)) by (rewrite <- Z.pow_add_r by lia; f_equal; lia).
          nia.
      - destruct (Z_lt_le_dec f 0) as [Hneg|Hpos].
        + destruct Hf as [_ Hf]. specialize (Hf Hneg).
          assert (E2 : 2 ^ (- k) = 2 ^ (- f) * 2 ^ (p - 1)) by (rewrite <- Z.pow_add_r by lia; f_equal; lia).
          assert (E3 : 2 ^ p = 2 * 2 ^ (p - 1)) by (rewrite <- Z.pow_succ_r by lia; f_equal; lia).
          assert (0 < 2 ^ (p - 1)) by (apply Z.pow_pos_nonneg; lia). nia.
        + destruct Hf as [Hf _]. specialize (Hf Hpos).
          assert (E2 : 2 ^ p = 2 ^ (f + 1) * 2 ^ (- k)) by (rewrite <- Z.pow_add_r by lia; f_equal; lia).
          nia. }
    pose proof (rne_range (num * 2 ^ (- k)) den Hd). lia.
Qed.


(* [round_ratio] is: scale, round to nearest-even, pack exponent and
   significand into one sum, saturate at infinity *)
Lemma round_ratio_scaled fm num den :
  round_ratio fm num den =
  let '(k, A, B) := scaled fm num den in
  Z.min ((k - f_emin fm) * 2 ^ (f_p fm - 1) + rne A B) ((2 ^ f_w fm - 1) * 2 ^ (f_p fm - 1)).
Proof.
  unfold round_ratio, scaled.
  destruct (0 <=? Z.max (f_emin fm) (flog2_ratio num den - (f_p fm - 1))); reflexivity.
Qed.

Local Close Scope Z_scope.
Ltac Zify.zify_post_hook ::= Z.to_euclidean_division_equations.
