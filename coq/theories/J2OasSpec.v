(* J2OasSpec.v — the shape predicates and executable specifications of C08.

   [convertible s]   exactly the schemas on which the converter does not panic
                     (proved: [is_ok (j2oas n s) = convertible s]).
   [supported_with nullok fracok s]
                     the converter succeeds AND no keyword that takes part in
                     validation is dropped on the way.  [nullok] says whether
                     the instance type [null] may occur ([type: null] is
                     converted to {type:string, enum:[null]}, finding K4);
                     [fracok] whether an integer schema may carry a bound that
                     [f64 as i64] changes (finding K6).  [supported :=
                     supported_with true true] is the class the property
                     speaks about; the preservation theorem is for
                     [supported_faithful := supported_with false false].
   [annots_js]/[annots_oas]  the annotations of every schema node in traversal
                     order, for the "annotations are kept" clause.
   [env_js]/[env_oas] interpretation of [$ref] through a list of definitions
                     (with fuel), for evaluating the property on documents.
   No proofs in this file. *)
From DS Require Import Base Json Schema J2Oas SchemaSem.
Open Scope N_scope.

(* ------------------------------------------------------------ convertible *)

Definition is_some {A} (o : option A) : bool := match o with Some _ => true | None => false end.
Definition is_none {A} (o : option A) : bool := match o with Some _ => false | None => true end.

Definition enum_all (f : json -> bool) (e : option (list json)) : bool :=
  match e with None => true | Some l => forallb f l end.

Definition ev_bool (j : json) : bool := match j with JNull | JBool _ => true | _ => false end.
Definition ev_str (j : json) : bool := match j with JNull | JStr _ => true | _ => false end.
Definition ev_num (j : json) : bool := match j with JNull | JNum _ => true | _ => false end.
Definition ev_int (j : json) : bool :=
  match j with JNull => true | JNum n => is_some (num_as_i64 n) | _ => false end.

Definition pair_ok {A} (a b : option A) : bool := negb (is_some a && is_some b).

Definition bounds_convertible (n : option numval) : bool :=
  match n with
  | None => true
  | Some nv => pair_ok (nv_minimum nv) (nv_exclusive_minimum nv)
               && pair_ok (nv_maximum nv) (nv_exclusive_maximum nv)
  end.

(* exactly one of allOf / anyOf / oneOf / not *)
Definition subs_one (sb : subsval schema) : bool :=
  match sb_all_of sb, sb_any_of sb, sb_one_of sb, sb_not sb with
  | Some _, None, None, None => true
  | None, Some _, None, None => true
  | None, None, Some _, None => true
  | None, None, None, Some _ => true
  | _, _, _, _ => false
  end.

(* exactly one of the four, and every member satisfies [rec] *)
Definition subs_all (rec : schema -> bool) (sb : subsval schema) : bool :=
  match sb_all_of sb, sb_any_of sb, sb_one_of sb, sb_not sb with
  | Some l, None, None, None => forallb rec l
  | None, Some l, None, None => forallb rec l
  | None, None, Some l, None => forallb rec l
  | None, None, None, Some n => rec n
  | _, _, _, _ => false
  end.

Definition conv_addl (rec : schema -> bool) (ap : option schema) : bool :=
  match ap with
  | None => true
  | Some (SBool _) => true
  | Some s => rec s
  end.

Fixpoint convertible (s : schema) {struct s} : bool :=
  match s with
  | SBool b => b
  | SObj o =>
      match so_reference o with
      | Some _ => true
      | None =>
          match so_instance_type o, so_subschemas o with
          | Some (Multi _), _ => false                       (* ETypeArray *)
          | Some (Single _), Some _ => false                 (* ETypeAndSubschemas *)
          | Some (Single TNull), None => true
          | Some (Single TBoolean), None => enum_all ev_bool (so_enum_values o)
          | Some (Single TString), None => enum_all ev_str (so_enum_values o)
          | Some (Single TNumber), None =>
              bounds_convertible (so_number o) && enum_all ev_num (so_enum_values o)
          | Some (Single TInteger), None =>
              bounds_convertible (so_number o) && enum_all ev_int (so_enum_values o)
          | Some (Single TObject), None =>
              match so_object o with
              | None => true
              | Some ov =>
                  forallb (fun p => convertible (snd p)) (ov_properties ov)
                  && conv_addl convertible (ov_additional_properties ov)
              end
          | Some (Single TArray), None =>
              match so_array o with
              | None => false                                (* EArrayNone *)
              | Some av =>
                  match av_items av with
                  | None => true
                  | Some (Single i) => convertible i
                  | Some (Multi _) => false                  (* ETupleItems *)
                  end
              end
          | None, Some sb => subs_all convertible sb   (* else EInvalidSubschema *)
          | None, None => true
          end
      end
  end.

(* ------------------------------------------------------------ supported *)

(* an f64 that is an integer inside i64: [f as i64] is exact *)
Definition q_i64_exact (x : q) : bool :=
  q_is_int x
  && (i64_min <=? fst x / Zpos (snd x))%Z && (fst x / Zpos (snd x) <=? i64_max)%Z.

Definition int_bounds_exact (n : option numval) : bool :=
  match n with
  | None => true
  | Some nv =>
      optb (nv_multiple_of nv) q_i64_exact
      && optb (nv_minimum nv) q_i64_exact && optb (nv_exclusive_minimum nv) q_i64_exact
      && optb (nv_maximum nv) q_i64_exact && optb (nv_exclusive_maximum nv) q_i64_exact
  end.

(* [as_f64] of the literal is exact *)
Definition ev_num_exact (j : json) : bool :=
  match j with
  | JNull => true
  | JNum (NInt z) => (Z.log2 (Z.abs z) <? 53)%Z
  | JNum (NFlt _ _) => true
  | _ => false
  end.

(* an [enum] that is present is non-empty (an empty one accepts nothing but is
   not serialised by openapiv3) and holds values the target type can carry *)
Definition enum_supported (f : json -> bool) (e : option (list json)) : bool :=
  match e with None => true | Some [] => false | Some l => forallb f l end.

Definition numval_trivial (n : option numval) : bool :=
  match n with
  | None => true
  | Some nv => is_none (nv_multiple_of nv) && is_none (nv_maximum nv)
               && is_none (nv_exclusive_maximum nv) && is_none (nv_minimum nv)
               && is_none (nv_exclusive_minimum nv)
  end.
Definition strval_trivial (n : option strval) : bool :=
  match n with
  | None => true
  | Some sv => is_none (sv_max_length sv) && is_none (sv_min_length sv) && is_none (sv_pattern sv)
  end.
Definition arrval_trivial (n : option (arrval schema)) : bool :=
  match n with
  | None => true
  | Some av => is_none (av_items av) && is_none (av_additional_items av)
               && is_none (av_max_items av) && is_none (av_min_items av)
               && is_none (av_unique_items av) && is_none (av_contains av)
  end.
Definition objval_trivial (n : option (objval schema)) : bool :=
  match n with
  | None => true
  | Some ov => is_none (ov_max_properties ov) && is_none (ov_min_properties ov)
               && is_nil (ov_required ov) && is_nil (ov_properties ov)
               && is_nil (ov_pattern_properties ov) && is_none (ov_additional_properties ov)
               && is_none (ov_property_names ov)
  end.

Definition no_if (sb : subsval schema) : bool :=
  is_none (sb_if sb) && is_none (sb_then sb) && is_none (sb_else sb).

(* the keywords the converter never looks at for an untyped schema *)
Definition untyped_rest_trivial (o : sobj schema) : bool :=
  is_none (so_format o) && is_none (so_enum_values o)
  && numval_trivial (so_number o) && strval_trivial (so_string o)
  && arrval_trivial (so_array o) && objval_trivial (so_object o).

Section Supported.
  Variable nullok : bool.   (* may the null instance type occur (K4) *)
  Variable fracok : bool.   (* may an integer schema carry a bound / multipleOf that is not an
                               integer inside i64 (K6) *)

  Fixpoint supported_with (s : schema) {struct s} : bool :=
    match s with
    | SBool b => b
    | SObj o =>
        match so_reference o with
        | Some _ => true
        | None =>
            is_none (so_const_value o) &&
            match so_instance_type o, so_subschemas o with
            | Some (Multi _), _ => false
            | Some (Single _), Some _ => false
            | Some (Single TNull), None =>
                nullok && is_none (so_format o) && is_none (so_enum_values o)
            | Some (Single TBoolean), None =>
                is_none (so_format o) && enum_supported ev_bool (so_enum_values o)
            | Some (Single TString), None => enum_supported ev_str (so_enum_values o)
            | Some (Single TNumber), None =>
                bounds_convertible (so_number o) && enum_supported ev_num_exact (so_enum_values o)
            | Some (Single TInteger), None =>
                bounds_convertible (so_number o)
                && (fracok || int_bounds_exact (so_number o))
                && enum_supported ev_int (so_enum_values o)
            | Some (Single TObject), None =>
                is_none (so_format o) && is_none (so_enum_values o) &&
                match so_object o with
                | None => true
                | Some ov =>
                    is_nil (ov_pattern_properties ov) && is_none (ov_property_names ov)
                    && forallb (fun p => supported_with (snd p)) (ov_properties ov)
                    && conv_addl supported_with (ov_additional_properties ov)
                end
            | Some (Single TArray), None =>
                is_none (so_format o) && is_none (so_enum_values o) &&
                match so_array o with
                | None => false
                | Some av =>
                    is_none (av_contains av) &&
                    match av_items av with
                    | None => true
                    | Some (Single i) => supported_with i
                    | Some (Multi _) => false
                    end
                end
            | None, Some sb =>
                no_if sb && untyped_rest_trivial o && subs_all supported_with sb
            | None, None => untyped_rest_trivial o
            end
        end
    end.
End Supported.

(* the class the property speaks about: the converter accepts the schema and
   drops no keyword on the way *)
Definition supported : schema -> bool := supported_with true true.
(* ... minus the two known classes: the class on which preservation is proved *)
Definition supported_faithful : schema -> bool := supported_with false false.
(* the class of finding K4: supported, but some visited node has type null *)
Definition k4_class (s : schema) : bool := supported s && negb (supported_with false true s).
(* the class of finding K6: supported, but some visited integer node has a
   fractional or out-of-i64 bound or multipleOf *)
Definition k6_class (s : schema) : bool := supported s && negb (supported_with true false s).

(* ------------------------------------------------------------ annotations *)

(* what the property says is kept, for one schema node *)
Record annot := mkAnnot {
  an_title : option str;
  an_description : option str;
  an_format : option str;
  an_default : option json;
  an_nullable : bool;
  an_deprecated : bool;
  an_read_only : bool;
  an_write_only : bool;
  an_extensions : list (str * json);   (* the x- ones *)
  an_example : option json }.

Definition annot_js (name : option str) (o : sobj schema) : annot :=
  let md (A : Type) (f : metadata -> A) (d : A) : A :=
    match so_metadata o with Some m => f m | None => d end in
  mkAnnot
    (match name with Some n => Some n | None => md _ m_title None end)
    (md _ m_description None)
    (so_format o)
    (md _ m_default None)
    (ext_nullable (so_extensions o))
    (md _ m_deprecated false)
    (md _ m_read_only false)
    (md _ m_write_only false)
    (filter (fun kv => starts_with_x (fst kv)) (so_extensions o))
    (lookup s_example (so_extensions o)).

Definition okind_format (k : okind oschema) : option str :=
  match k with
  | KType (OTString st) => vou_name strfmt_name (os_format st)
  | KType (OTNumber nt) => vou_name numfmt_name (on_format nt)
  | KType (OTInteger it) => vou_name intfmt_name (oi_format it)
  | _ => None
  end.

Definition annot_oas (d : sdata) (k : okind oschema) : annot :=
  mkAnnot (sd_title d) (sd_description d) (okind_format k) (sd_default d) (sd_nullable d)
          (sd_deprecated d) (sd_read_only d) (sd_write_only d) (sd_extensions d) (sd_example d).

Definition annot_nullable_only : annot :=
  mkAnnot None None None None true false false false [] None.

(* annotations of every node, in the order the converter traverses them; a
   [$ref] node and a [true] schema carry none *)
Definition flat_map' {A B} (f : A -> list B) : list A -> list B :=
  fix go (l : list A) : list B := match l with [] => [] | a :: r => f a ++ go r end.

Fixpoint annots_js (name : option str) (s : schema) {struct s} : list (option annot) :=
  match s with
  | SBool _ => [None]
  | SObj o =>
      match so_reference o with
      | Some _ =>
          (* siblings of a reference are ignored, except nullable: true, which
             is published on a wrapper around the reference *)
          if ext_nullable (so_extensions o) then [Some annot_nullable_only; None] else [None]
      | None =>
          Some (annot_js name o) ::
          match so_instance_type o, so_subschemas o with
          | Some (Single TObject), None =>
              match so_object o with
              | None => []
              | Some ov =>
                  flat_map' (fun p => annots_js None (snd p)) (ov_properties ov)
                  ++ match ov_additional_properties ov with
                     | None => []
                     | Some (SBool _) => []
                     | Some a => annots_js None a
                     end
              end
          | Some (Single TArray), None =>
              match so_array o with
              | Some av => match av_items av with Some (Single i) => annots_js None i | _ => [] end
              | None => []
              end
          | None, Some sb =>
              match sb_all_of sb, sb_any_of sb, sb_one_of sb, sb_not sb with
              | Some l, None, None, None => flat_map' (annots_js None) l
              | None, Some l, None, None => flat_map' (annots_js None) l
              | None, None, Some l, None => flat_map' (annots_js None) l
              | None, None, None, Some n => annots_js None n
              | _, _, _, _ => []
              end
          | _, _ => []
          end
      end
  end.

Fixpoint annots_oas (o : oschema) {struct o} : list (option annot) :=
  match o with
  | ORef _ => [None]
  | OItem d k =>
      Some (annot_oas d k) ::
      match k with
      | KType (OTObject ot) =>
          flat_map' (fun p => annots_oas (snd p)) (oo_properties ot)
          ++ match oo_additional_properties ot with Some (ASchema a) => annots_oas a | _ => [] end
      | KType (OTArray at_) => match oa_items at_ with Some i => annots_oas i | None => [] end
      | KType _ => []
      | KOneOf l | KAllOf l | KAnyOf l => flat_map' annots_oas l
      | KNot a => annots_oas a
      | KAny => []
      end
  end.

(* ------------------------------------------------------------ equality *)

Definition annot_opt_json_eqb (a b : option json) : bool := option_eqb json_eqb a b.
Definition ext_eqb (a b : list (str * json)) : bool :=
  list_eqb (fun x y => str_eqb (fst x) (fst y) && json_eqb (snd x) (snd y)) a b.

Definition annot_eqb (a b : annot) : bool :=
  option_eqb str_eqb (an_title a) (an_title b)
  && option_eqb str_eqb (an_description a) (an_description b)
  && option_eqb str_eqb (an_format a) (an_format b)
  && annot_opt_json_eqb (an_default a) (an_default b)
  && Bool.eqb (an_nullable a) (an_nullable b)
  && Bool.eqb (an_deprecated a) (an_deprecated b)
  && Bool.eqb (an_read_only a) (an_read_only b)
  && Bool.eqb (an_write_only a) (an_write_only b)
  && ext_eqb (an_extensions a) (an_extensions b)
  && annot_opt_json_eqb (an_example a) (an_example b).

(* the [true] schema converts to an item with default data: an absent
   annotation set and an all-empty one are the same thing *)
Definition annot_empty : annot :=
  mkAnnot None None None None false false false false [] None.
Definition annot_norm (a : option annot) : annot :=
  match a with Some x => x | None => annot_empty end.

Definition annots_eqb (a b : list (option annot)) : bool :=
  list_eqb (fun x y => annot_eqb (annot_norm x) (annot_norm y)) a b.

(* ------------------------------------------------------------ $ref through definitions *)

Section Env.
  Variable pat_ok : str -> str -> bool.
  Variable fmt_ok : str -> json -> bool.

  Fixpoint env_js (fuel : nat) (defs : list (str * schema)) (r : str) (j : json) : bool :=
    match fuel with
    | O => false
    | S f => match lookup r defs with
             | Some s => valid_js (env_js f defs) pat_ok fmt_ok s j
             | None => false
             end
    end.

  Fixpoint env_oas (fuel : nat) (defs : list (str * oschema)) (r : str) (j : json) : bool :=
    match fuel with
    | O => false
    | S f => match lookup r defs with
             | Some o => valid_oas (env_oas f defs) pat_ok fmt_ok o j
             | None => false
             end
    end.
End Env.
