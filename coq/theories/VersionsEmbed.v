(* VersionsEmbed.v — version ranges see versions only through comparisons with
   their own bounds: matching and overlap are invariant under any map that
   preserves the comparisons in which at least one side belongs to a set P of
   "known" versions containing every bound (an order embedding relative to P;
   with P everything: an order embedding).  This is what justifies, on the
   model side, deciding the range logic over a finite chain (C05's exhaustive
   sweep), carrying chain INDICES instead of semver values in the router model
   (C01 C02 C04 C06), and the ranking of semver values against the chain used
   by the pipeline judge (RankEmbed.v, Run_Router.v). *)
From DS Require Import Base Versions.

Section Embed.
  Variable V W : Type.
  Variable cmpV : V -> V -> comparison.
  Variable cmpW : W -> W -> comparison.
  Variable f : V -> W.
  Variable P : V -> Prop.
  Hypothesis f_embeds : forall a b, P a \/ P b -> cmpW (f a) (f b) = cmpV a b.

  Definition bounds (r : vrange V) : Prop :=
    match r with
    | VAll => True
    | VFrom a => P a
    | VFromUntil a b => P a /\ P b
    | VUntil b => P b
    end.

  Lemma vlt_embed a b : P a \/ P b -> vlt W cmpW (f a) (f b) = vlt V cmpV a b.
  Proof. intros H. unfold vlt. rewrite (f_embeds _ _ H). reflexivity. Qed.
  Lemma vle_embed a b : P a \/ P b -> vle W cmpW (f a) (f b) = vle V cmpV a b.
  Proof. intros H. unfold vle. rewrite (f_embeds _ _ H). reflexivity. Qed.
  Lemma veq_embed a b : P a \/ P b -> veq W cmpW (f a) (f b) = veq V cmpV a b.
  Proof. intros H. unfold veq. rewrite (f_embeds _ _ H). reflexivity. Qed.

  Theorem vmatches_embed r ov : bounds r ->
    vmatches W cmpW (map_range f r) (option_map f ov) = vmatches V cmpV r ov.
  Proof.
    intros Hb. destruct ov as [v|]; [|reflexivity].
    destruct r as [|a|a b|b]; cbn [map_range option_map vmatches bounds] in *.
    - reflexivity.
    - rewrite vle_embed; auto.
    - destruct Hb as [Ha Hb]. rewrite vle_embed, vlt_embed, !veq_embed; auto.
    - rewrite vlt_embed; auto.
  Qed.

  Theorem overlaps_embed r1 r2 : bounds r1 -> bounds r2 ->
    overlaps W cmpW (map_range f r1) (map_range f r2) = overlaps V cmpV r1 r2.
  Proof.
    intros H1 H2.
    destruct r1 as [|a1|a1 b1|b1], r2 as [|a2|a2 b2|b2]; cbn [map_range overlaps vmatches bounds] in *;
      try reflexivity;
      repeat match goal with H : _ /\ _ |- _ => destruct H end;
      rewrite ?vle_embed, ?vlt_embed, ?veq_embed; auto.
  Qed.

  Theorem from_until_embed a b : P a \/ P b ->
    from_until W cmpW (f a) (f b) =
    match from_until V cmpV a b with Ok r => Ok (map_range f r) | Err e => Err e end.
  Proof. intros H. unfold from_until. rewrite vlt_embed; [|tauto]. destruct (vlt V cmpV b a); reflexivity. Qed.

  Theorem vinb_embed r v : bounds r -> vinb W cmpW (map_range f r) (f v) = vinb V cmpV r v.
  Proof.
    intros Hb. destruct r as [|a|a b|b]; cbn [map_range vinb bounds] in *.
    - reflexivity.
    - rewrite vle_embed; auto.
    - destruct Hb as [Ha Hb]. rewrite vle_embed, vlt_embed, !veq_embed; auto.
    - rewrite vlt_embed; auto.
  Qed.

  Theorem extract_version_embed (parse : str -> option V) max h : P max ->
    extract_version W cmpW (fun s => option_map f (parse s)) (f max) h =
    match extract_version V cmpV parse max h with Ok v => Ok (f v) | Err c => Err c end.
  Proof.
    intros Hm. destruct h as [| |s]; cbn [extract_version]; try reflexivity.
    destruct (parse s) as [v|]; cbn [option_map]; [|reflexivity].
    rewrite vle_embed; auto. destruct (vle V cmpV v max); reflexivity.
  Qed.
End Embed.
