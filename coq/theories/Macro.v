(* Macro.v — model of what the [#[endpoint]] / [#[channel]] /
   [#[api_description]] macros do with the arguments written on a declaration:

     dropshot_endpoint/src/metadata.rs   EndpointMetadata::validate,
                                         ChannelMetadata::validate,
                                         ValidatedEndpointMetadata::to_api_endpoint_fn,
                                         VersionRange::parse, VersionSpecifier::parse,
                                         parse_semver, semver_expr
     dropshot_endpoint/src/util.rs       ValidContentType, is_wildcard_path
     dropshot_endpoint/src/endpoint.rs   do_endpoint_inner       (function form)
     dropshot_endpoint/src/channel.rs    do_channel_inner        (function form)
     dropshot_endpoint/src/api_trait.rs  to_api_endpoint / make_api_factory_body
                                         (trait form: real and stub factories)
     dropshot/src/api_description.rs     ApiEndpoint::new, new_for_types and the
                                         builder methods the expansion calls

   The expansion is a sequence of builder calls; [expand] is the value that
   sequence yields.  Token parsing (syn, serde_tokenstream) and quote emission
   are not modelled: an [attr] is the already-deserialised argument list.
   Model only — the proofs are in MacroProofs.v. *)
From DS Require Import Base Versions Semver DocComment.

(* ---------- what a declaration says ---------- *)

Inductive method := GET | PUT | POST | DELETE | HEAD | PATCH | OPTIONS.

(* a version written in the [versions] argument: a string literal, or a path
   to a constant ([value] is what that constant holds at run time) *)
Inductive vspec := SLit (s : str) | SIdent (name : str) (value : version).

(* the five ways to write [versions]: absent, [..], [A..], [..B], [A..B] *)
Inductive vsyntax :=
| VSAbsent
| VSDotDot
| VSFrom (a : vspec)
| VSUntil (b : vspec)
| VSFromUntil (a b : vspec).

(* the body extractor of the handler signature (it decides the request-body
   entry of the document; everything else comes from the arguments) *)
Inductive body_kind := BNone | BTyped | BUntyped | BStreaming | BMultipart.

Inductive dkind :=
| KEndpoint (m : method) (content_type : option str) (request_body_max_bytes : option N)
            (body : body_kind)
| KChannel.   (* protocol = WEBSOCKETS *)

Record attr := mkAttr {
  a_kind : dkind;
  a_path : str;
  a_tags : list str;
  a_opid : option str;
  a_deprecated : bool;
  a_unpublished : bool;
  a_versions : vsyntax;
  a_docs : list ustr;       (* values of the item's #[doc = ".."] attributes *)
  a_name : str              (* the function's identifier *)
}.

Inductive style := Function | TraitImpl | TraitStub.

(* ---------- errors ---------- *)

(* compile errors raised by the macro *)
Inductive cerr :=
| ESemver              (* "expected semver: .." *)
| EPrerelease          (* "semver pre-release string is not supported here" *)
| EBuild               (* "semver build metadata is not supported here" *)
| EOrder               (* "\"from\" version (..) must be earlier than \"until\" version (..)" *)
| EWildcardPublished   (* wildcard path but not 'unpublished = true' *)
| EContentType         (* invalid content type *)
| EChannelWildcard.    (* channel with a wildcard path *)

Inductive xerr :=
| CompileErrors (l : list cerr)   (* refused at macro time *)
| PanicFromUntil                  (* from_until(..).unwrap() at construction *)
| PanicMime                       (* from_mime_type(..).expect(..) *)
| PanicSemverParts.               (* assert_eq! in semver_parts *)

(* ---------- metadata.rs: versions ---------- *)

(* [parse_semver] *)
Definition parse_semver (s : str) : res cerr version :=
  match Semver.parse s with
  | None => Err ESemver
  | Some v =>
      if negb (is_nil (pre v)) then Err EPrerelease
      else if negb (is_nil (build v)) then Err EBuild
      else Ok v
  end.

(* [VersionSpecifier] *)
Inductive rspec := RLit (v : version) | RIdent (name : str) (value : version).

Definition parse_spec (x : vspec) : res cerr rspec :=
  match x with
  | SLit s => do v <- parse_semver s; Ok (RLit v)
  | SIdent n v => Ok (RIdent n v)
  end.

(* [VersionRange] *)
Inductive rrange := RAll | RFrom (a : rspec) | RUntil (b : rspec) | RFromUntil (a b : rspec).

Definition vltb (a b : version) : bool :=
  match Semver.cmp a b with Lt => true | _ => false end.

(* [impl Parse for VersionRange]; [None] = the argument is absent *)
Definition parse_versions (x : vsyntax) : res cerr (option rrange) :=
  match x with
  | VSAbsent => Ok None
  | VSDotDot => Ok (Some RAll)
  | VSUntil b => do latest <- parse_spec b; Ok (Some (RUntil latest))
  | VSFrom a => do earliest <- parse_spec a; Ok (Some (RFrom earliest))
  | VSFromUntil a b =>
      do earliest <- parse_spec a;
      do latest <- parse_spec b;
      match earliest, latest with
      | RLit e, RLit l =>
          if vltb l e then Err EOrder else Ok (Some (RFromUntil earliest latest))
      | _, _ => Ok (Some (RFromUntil earliest latest))
      end
  end.

(* ---------- util.rs ---------- *)

Inductive vct := VJson | VUrlEncoded | VMultipart.   (* ValidContentType *)

Definition s_json : str := [97;112;112;108;105;99;97;116;105;111;110;47;106;115;111;110].
Definition s_urlenc : str :=
  [97;112;112;108;105;99;97;116;105;111;110;47;120;45;119;119;119;45;102;111;114;109;45;117;114;108;101;110;99;111;100;101;100].
Definition s_multipart : str :=
  [109;117;108;116;105;112;97;114;116;47;102;111;114;109;45;100;97;116;97].
Definition s_octet : str :=
  [97;112;112;108;105;99;97;116;105;111;110;47;111;99;116;101;116;45;115;116;114;101;97;109].

(* [impl FromStr for ValidContentType] *)
Definition vct_parse (s : str) : option vct :=
  if str_eqb s s_json then Some VJson
  else if str_eqb s s_urlenc then Some VUrlEncoded
  else if str_eqb s s_multipart then Some VMultipart
  else None.

(* [as_static_str] — the literal the expansion passes to ApiEndpoint::new *)
Definition vct_str (c : vct) : str :=
  match c with VJson => s_json | VUrlEncoded => s_urlenc | VMultipart => s_multipart end.

Fixpoint is_prefix (p s : str) : bool :=
  match p, s with
  | [], _ => true
  | x :: p', y :: s' => (x =? y) && is_prefix p' s'
  | _ :: _, [] => false
  end.
Fixpoint contains (p s : str) : bool :=
  is_prefix p s || match s with [] => false | _ :: s' => contains p s' end.

(* [path.contains(":.*}")] *)
Definition is_wildcard_path (p : str) : bool := contains [58;46;42;125] p.

(* ---------- metadata.rs: validate ---------- *)

Record validated := mkValidated {
  vm_opid : option str;
  vm_method : method;
  vm_path : str;
  vm_tags : list str;
  vm_unpublished : bool;
  vm_deprecated : bool;
  vm_maxbytes : option N;
  vm_ctype : vct;
  vm_versions : rrange;
  vm_body : body_kind;
  vm_channel : bool
}.

Definition unwrap_or_all (r : option rrange) : rrange :=
  match r with Some x => x | None => RAll end.

(* [EndpointMetadata::validate] / [ChannelMetadata::validate]: every error is
   pushed; any error refuses the item *)
Definition validate (a : attr) (r : option rrange) : res (list cerr) validated :=
  match a_kind a with
  | KEndpoint m ct maxb body =>
      let e1 := if is_wildcard_path (a_path a) && negb (a_unpublished a)
                then [EWildcardPublished] else [] in
      let '(ct', e2) :=
        match ct with
        | Some s => match vct_parse s with
                    | Some c => (Some c, [])
                    | None => (None, [EContentType])
                    end
        | None => (Some VJson, [])
        end in
      match e1 ++ e2, ct' with
      | [], Some c =>
          Ok (mkValidated (a_opid a) m (a_path a) (a_tags a) (a_unpublished a)
                (a_deprecated a) maxb c (unwrap_or_all r) body false)
      | errs, _ => Err errs
      end
  | KChannel =>
      if is_wildcard_path (a_path a) then Err [EChannelWildcard]
      else Ok (mkValidated (a_opid a) GET (a_path a) (a_tags a) (a_unpublished a)
                 (a_deprecated a) None VJson (unwrap_or_all r) BNone true)
  end.

(* ---------- api_description.rs: the endpoint and its builder ---------- *)

Inductive ctype := CTBytes | CTJson | CTUrlEncoded | CTMultipart.

(* [ApiEndpointBodyContentType::from_mime_type] *)
Definition from_mime_type (s : str) : option ctype :=
  if str_eqb s s_octet then Some CTBytes
  else if str_eqb s s_json then Some CTJson
  else if str_eqb s s_urlenc then Some CTUrlEncoded
  else if str_eqb s s_multipart then Some CTMultipart
  else None.

Definition mime_type (c : ctype) : str :=
  match c with CTBytes => s_octet | CTJson => s_json | CTUrlEncoded => s_urlenc
             | CTMultipart => s_multipart end.

Inductive handler :=
| HFunction (name : str)            (* the annotated free function *)
| HChannelAdapter (name : str)      (* the adapter generated around a channel function *)
| HTraitMethod (name : str)         (* <ServerImpl as Trait>::name *)
| HTraitChannelAdapter (name : str) (* adapter::<ServerImpl> *)
| HStub (opid : str).               (* StubRouteHandler::new_with_name(&operation_id) *)

Definition vr := vrange version.

Record endpoint := mkEndpoint {
  e_opid : str;
  e_handler : handler;
  e_method : method;
  e_path : str;
  e_body_param : option ctype;   (* the Body entry of [parameters], if any *)
  e_ctype : ctype;               (* body_content_type *)
  e_maxbytes : option N;         (* request_body_max_bytes *)
  e_summary : option ustr;
  e_description : option ustr;
  e_tags : list str;
  e_websocket : bool;            (* extension_mode = Websocket *)
  e_visible : bool;
  e_deprecated : bool;
  e_versions : vr
}.

(* [FuncParams::metadata(body_content_type)]: the body extractor's entry.
   TypedBody uses the endpoint's content type; UntypedBody and StreamingBody
   say application/octet-stream; MultipartBody says multipart/form-data. *)
Definition body_param (c : ctype) (b : body_kind) : option ctype :=
  match b with
  | BNone => None
  | BTyped => Some c
  | BUntyped => Some CTBytes
  | BStreaming => Some CTBytes
  | BMultipart => Some CTMultipart
  end.

(* [ApiEndpoint::new] and [ApiEndpoint::new_for_types]: the same record, but
   for the handler (the second is given none and installs the stub) *)
Definition ep_new (opid : str) (h : handler) (m : method) (content_type : str)
           (path : str) (versions : vr) (body : body_kind) (ws : bool) : res xerr endpoint :=
  match from_mime_type content_type with
  | None => Err PanicMime
  | Some c =>
      Ok (mkEndpoint opid h m path (body_param c body) c None None None [] ws true false versions)
  end.

Definition ep_new_for_types (opid : str) (m : method) (content_type : str)
           (path : str) (versions : vr) (body : body_kind) (ws : bool) : res xerr endpoint :=
  match from_mime_type content_type with
  | None => Err PanicMime
  | Some c =>
      Ok (mkEndpoint opid (HStub opid) m path (body_param c body) c None None None [] ws
            true false versions)
  end.

Definition set_summary (s : ustr) (e : endpoint) : endpoint :=
  mkEndpoint (e_opid e) (e_handler e) (e_method e) (e_path e) (e_body_param e) (e_ctype e)
    (e_maxbytes e) (Some s) (e_description e) (e_tags e) (e_websocket e) (e_visible e)
    (e_deprecated e) (e_versions e).
Definition set_description (s : ustr) (e : endpoint) : endpoint :=
  mkEndpoint (e_opid e) (e_handler e) (e_method e) (e_path e) (e_body_param e) (e_ctype e)
    (e_maxbytes e) (e_summary e) (Some s) (e_tags e) (e_websocket e) (e_visible e)
    (e_deprecated e) (e_versions e).
Definition push_tag (e : endpoint) (t : str) : endpoint :=
  mkEndpoint (e_opid e) (e_handler e) (e_method e) (e_path e) (e_body_param e) (e_ctype e)
    (e_maxbytes e) (e_summary e) (e_description e) (e_tags e ++ [t]) (e_websocket e)
    (e_visible e) (e_deprecated e) (e_versions e).
Definition set_visible (b : bool) (e : endpoint) : endpoint :=
  mkEndpoint (e_opid e) (e_handler e) (e_method e) (e_path e) (e_body_param e) (e_ctype e)
    (e_maxbytes e) (e_summary e) (e_description e) (e_tags e) (e_websocket e) b
    (e_deprecated e) (e_versions e).
Definition set_deprecated (b : bool) (e : endpoint) : endpoint :=
  mkEndpoint (e_opid e) (e_handler e) (e_method e) (e_path e) (e_body_param e) (e_ctype e)
    (e_maxbytes e) (e_summary e) (e_description e) (e_tags e) (e_websocket e) (e_visible e)
    b (e_versions e).
Definition set_maxbytes (n : N) (e : endpoint) : endpoint :=
  mkEndpoint (e_opid e) (e_handler e) (e_method e) (e_path e) (e_body_param e) (e_ctype e)
    (Some n) (e_summary e) (e_description e) (e_tags e) (e_websocket e) (e_visible e)
    (e_deprecated e) (e_versions e).

(* an optional builder call: [#summary], [#visible], .. expand to nothing when None *)
Definition opt_call {A} (o : option A) (f : A -> endpoint -> endpoint) (e : endpoint) : endpoint :=
  match o with Some x => f x e | None => e end.
Definition then_some {A} (b : bool) (x : A) : option A := if b then Some x else None.

(* ---------- metadata.rs: to_api_endpoint_fn ---------- *)

(* [semver_parts] + [semver_expr]: a literal becomes Version::new(M, m, p) *)
Definition eval_spec (x : rspec) : res xerr version :=
  match x with
  | RLit v =>
      if is_nil (pre v) && is_nil (build v)
      then Ok (mkVersion (major v) (minor v) (patch v) [] [])
      else Err PanicSemverParts
  | RIdent _ v => Ok v
  end.

Definition eval_versions (r : rrange) : res xerr vr :=
  match r with
  | RAll => Ok VAll
  | RFrom a => do x <- eval_spec a; Ok (VFrom x)
  | RUntil b => do y <- eval_spec b; Ok (VUntil y)
  | RFromUntil a b =>
      do x <- eval_spec a;
      do y <- eval_spec b;
      match from_until version Semver.cmp x y with
      | Ok r => Ok r
      | Err _ => Err PanicFromUntil      (* .unwrap() *)
      end
  end.

(* which handler expression each form of the macro passes *)
Definition handler_of (st : style) (channel : bool) (name opid : str) : handler :=
  match st, channel with
  | Function, false => HFunction name
  | Function, true => HChannelAdapter name
  | TraitImpl, false => HTraitMethod name
  | TraitImpl, true => HTraitChannelAdapter name
  | TraitStub, _ => HStub opid
  end.

Definition to_api_endpoint (st : style) (name : str) (doc : extracted) (m : validated)
  : res xerr endpoint :=
  let opid := match vm_opid m with Some s => s | None => name end in
  do versions <- eval_versions (vm_versions m);
  do e0 <- match st with
           | TraitStub =>
               ep_new_for_types opid (vm_method m) (vct_str (vm_ctype m)) (vm_path m) versions
                 (vm_body m) (vm_channel m)
           | _ =>
               ep_new opid (handler_of st (vm_channel m) name opid) (vm_method m)
                 (vct_str (vm_ctype m)) (vm_path m) versions (vm_body m) (vm_channel m)
           end;
  let e1 := opt_call (summary doc) set_summary e0 in
  let e2 := opt_call (description doc) set_description e1 in
  let e3 := fold_left push_tag (vm_tags m) e2 in
  let e4 := opt_call (then_some (vm_unpublished m) false) set_visible e3 in
  let e5 := opt_call (then_some (vm_deprecated m) true) set_deprecated e4 in
  let e6 := opt_call (vm_maxbytes m) set_maxbytes e5 in
  Ok e6.

(* ---------- the three forms ---------- *)

(* do_endpoint_inner / do_channel_inner (Function) and
   ApiEndpoint::to_api_endpoint / ApiChannel::to_api_endpoint with
   FactoryKind::Regular (TraitImpl) or FactoryKind::Stub (TraitStub): parse the
   arguments, validate, extract the doc comment, emit the builder calls *)
Definition expand (st : style) (a : attr) : res xerr endpoint :=
  match parse_versions (a_versions a) with
  | Err e => Err (CompileErrors [e])
  | Ok r =>
      match validate a r with
      | Err errs => Err (CompileErrors errs)
      | Ok m => to_api_endpoint st (a_name a) (extract (a_docs a)) m
      end
  end.

(* ---------- how the endpoint is served and shown ---------- *)

Definition erase_handler (e : endpoint) : endpoint :=
  mkEndpoint (e_opid e) (HStub []) (e_method e) (e_path e) (e_body_param e) (e_ctype e)
    (e_maxbytes e) (e_summary e) (e_description e) (e_tags e) (e_websocket e) (e_visible e)
    (e_deprecated e) (e_versions e).

(* what [lookup_route] reports for a request whose method and path match the
   endpoint, asking for version [v] ([None]: no version constraint) *)
Definition route_view (e : endpoint) (v : option version)
  : option (str * ctype * option N) :=
  if vmatches version Semver.cmp (e_versions e) v
  then Some (e_opid e, e_ctype e, e_maxbytes e) else None.

(* the operation [gen_openapi] emits under (e_path, e_method) in the document
   for version [v] *)
Record docop := mkDocop {
  d_opid : str;
  d_summary : option ustr;
  d_description : option ustr;
  d_tags : list str;
  d_deprecated : bool;
  d_request_body : option ctype;
  d_websocket : bool
}.

Definition doc_view (e : endpoint) (v : version) : option docop :=
  if e_visible e && vmatches version Semver.cmp (e_versions e) (Some v)
  then Some (mkDocop (e_opid e) (e_summary e) (e_description e) (e_tags e) (e_deprecated e)
               (e_body_param e) (e_websocket e))
  else None.

(* ---------- the declarative reading of a declaration ---------- *)

(* a plain MAJOR.MINOR.PATCH version *)
Definition plain (M m p : N) : version := mkVersion M m p [] [].
Definition is_plain (v : version) : bool := is_nil (pre v) && is_nil (build v).

(* the range a [versions] argument denotes, when it denotes one *)
Definition spec_version (x : vspec) : option version :=
  match x with
  | SLit s => match Semver.parse s with
              | Some v => if is_plain v then Some v else None
              | None => None
              end
  | SIdent _ v => Some v
  end.

Definition vleb (a b : version) : bool :=
  match Semver.cmp a b with Gt => false | _ => true end.

Definition declared_range (x : vsyntax) : option vr :=
  match x with
  | VSAbsent => Some VAll
  | VSDotDot => Some VAll
  | VSFrom a => option_map VFrom (spec_version a)
  | VSUntil b => option_map VUntil (spec_version b)
  | VSFromUntil a b =>
      match spec_version a, spec_version b with
      | Some x, Some y => if vleb x y then Some (VFromUntil x y) else None
      | _, _ => None
      end
  end.

Definition declared_method (a : attr) : method :=
  match a_kind a with KEndpoint m _ _ _ => m | KChannel => GET end.
Definition declared_opid (a : attr) : str :=
  match a_opid a with Some s => s | None => a_name a end.
Definition declared_ctype (a : attr) : option ctype :=
  match a_kind a with
  | KEndpoint _ (Some s) _ _ =>
      if str_eqb s s_json then Some CTJson
      else if str_eqb s s_urlenc then Some CTUrlEncoded
      else if str_eqb s s_multipart then Some CTMultipart
      else None
  | _ => Some CTJson       (* the default: application/json *)
  end.
Definition declared_maxbytes (a : attr) : option N :=
  match a_kind a with KEndpoint _ _ n _ => n | KChannel => None end.
Definition declared_body (a : attr) : body_kind :=
  match a_kind a with KEndpoint _ _ _ b => b | KChannel => BNone end.
Definition is_channel (a : attr) : bool :=
  match a_kind a with KChannel => true | _ => false end.

Definition is_some {A} (o : option A) : bool :=
  match o with Some _ => true | None => false end.

(* a wildcard path must be unpublished (endpoint) or absent (channel) *)
Definition path_ok (a : attr) : bool :=
  match a_kind a with
  | KEndpoint _ _ _ _ => negb (is_wildcard_path (a_path a)) || a_unpublished a
  | KChannel => negb (is_wildcard_path (a_path a))
  end.

(* accepted declarations: the version argument denotes a range, the content
   type is one of the three, the path is allowed *)
Definition accepted (a : attr) : bool :=
  is_some (declared_range (a_versions a)) && is_some (declared_ctype a) && path_ok a.

(* declarations the macro lets through at compile time: as [accepted], but the
   order of a from-until pair is only checked when both ends are literals (a
   pair involving a constant is checked when the endpoint is constructed) *)
Definition versions_compile (x : vsyntax) : bool :=
  match x with
  | VSAbsent => true
  | VSDotDot => true
  | VSFrom a => is_some (spec_version a)
  | VSUntil b => is_some (spec_version b)
  | VSFromUntil a b =>
      match spec_version a, spec_version b with
      | Some x, Some y =>
          match a, b with SLit _, SLit _ => vleb x y | _, _ => true end
      | _, _ => false
      end
  end.

Definition compiles (a : attr) : bool :=
  versions_compile (a_versions a) && is_some (declared_ctype a) && path_ok a.

(* ====================================================================== *)
(* Observations of the real macros (what the harness reports), and the
   property in executable form over them.  Used by run/Run_C19.v to judge
   implementation runs, and by MacroProofs.model_meets_spec. *)

Definition bool_eqb (a b : bool) : bool := if a then b else negb b.

(* ---------- observations ---------- *)

(* the registered version range; versions as printed by semver *)
Inductive orange := OAll | OFrom (a : str) | OUntil (b : str) | OFromUntil (a b : str) | OOther.

(* one element of router.endpoints(None) *)
Record oep := mkOep {
  o_opid : str; o_method : str; o_path : str;
  o_summary : option ustr; o_description : option ustr;
  o_tags : list str; o_deprecated : bool; o_visible : bool;
  o_versions : orange;
  o_ctype : str;                 (* body_content_type.mime_type() *)
  o_maxbytes : option N;
  o_body_param : option str;     (* mime type of the Body parameter *)
  o_ws : bool
}.

(* lookup_route of the witness request: operation id, content type, body limit *)
Definition oroute := option (str * str * option N).

(* the operation in openapi(..).json() *)
Record oop := mkOop {
  p_opid : str; p_summary : option ustr; p_description : option ustr;
  p_tags : list str; p_deprecated : bool;
  p_req : list str;              (* keys of requestBody.content *)
  p_ws : bool                    (* x-dropshot-websocket present *)
}.

(* ---------- equality ---------- *)

Definition ostr_eqb := option_eqb str_eqb.
Definition ustr_eqb (a b : ustr) : bool := list_eqb N.eqb a b.
Definition oustr_eqb := option_eqb ustr_eqb.
Definition strs_eqb := list_eqb str_eqb.

Definition ver_eqb (a b : version) : bool :=
  match Semver.cmp a b with Eq => true | _ => false end.

Definition vr_eqb (a b : vr) : bool :=
  match a, b with
  | VAll, VAll => true
  | VFrom x, VFrom y => ver_eqb x y
  | VUntil x, VUntil y => ver_eqb x y
  | VFromUntil x1 x2, VFromUntil y1 y2 => ver_eqb x1 y1 && ver_eqb x2 y2
  | _, _ => false
  end.

Definition orange_vr (o : orange) : option vr :=
  match o with
  | OAll => Some VAll
  | OFrom a => option_map VFrom (Semver.parse a)
  | OUntil b => option_map VUntil (Semver.parse b)
  | OFromUntil a b =>
      match Semver.parse a, Semver.parse b with
      | Some x, Some y => Some (VFromUntil x y)
      | _, _ => None
      end
  | OOther => None
  end.

Definition orange_eqb (a b : orange) : bool :=
  match a, b with
  | OAll, OAll => true
  | OFrom x, OFrom y => str_eqb x y
  | OUntil x, OUntil y => str_eqb x y
  | OFromUntil x1 x2, OFromUntil y1 y2 => str_eqb x1 y1 && str_eqb x2 y2
  | OOther, OOther => true
  | _, _ => false
  end.

Definition oep_eqb (x y : oep) : bool :=
  str_eqb (o_opid x) (o_opid y) && str_eqb (o_method x) (o_method y)
  && str_eqb (o_path x) (o_path y) && oustr_eqb (o_summary x) (o_summary y)
  && oustr_eqb (o_description x) (o_description y) && strs_eqb (o_tags x) (o_tags y)
  && bool_eqb (o_deprecated x) (o_deprecated y) && bool_eqb (o_visible x) (o_visible y)
  && orange_eqb (o_versions x) (o_versions y) && str_eqb (o_ctype x) (o_ctype y)
  && option_eqb N.eqb (o_maxbytes x) (o_maxbytes y)
  && ostr_eqb (o_body_param x) (o_body_param y) && bool_eqb (o_ws x) (o_ws y).

Definition oroute_eqb (x y : oroute) : bool :=
  option_eqb (fun a b =>
    match a, b with
    | (o1, c1, m1), (o2, c2, m2) =>
        str_eqb o1 o2 && str_eqb c1 c2 && option_eqb N.eqb m1 m2
    end) x y.

Definition oop_eqb (x y : oop) : bool :=
  str_eqb (p_opid x) (p_opid y) && oustr_eqb (p_summary x) (p_summary y)
  && oustr_eqb (p_description x) (p_description y) && strs_eqb (p_tags x) (p_tags y)
  && bool_eqb (p_deprecated x) (p_deprecated y) && strs_eqb (p_req x) (p_req y)
  && bool_eqb (p_ws x) (p_ws y).

Definition method_str (m : method) : str :=
  match m with
  | GET => [71;69;84] | PUT => [80;85;84] | POST => [80;79;83;84]
  | DELETE => [68;69;76;69;84;69] | HEAD => [72;69;65;68]
  | PATCH => [80;65;84;67;72] | OPTIONS => [79;80;84;73;79;78;83]
  end.

(* ---------- (a) the specification: the property text, on the observation ---------- *)

(* Every clause is stated in terms of what the declaration SAYS
   ([declared_*] of Macro.v read the arguments; they do not run the model's
   expansion). *)

(* the request-body content type the document must show, where the
   declaration determines it: a typed body shows the declared (or default)
   content type; a multipart body multipart/form-data; a raw body
   application/octet-stream; no body extractor, no requestBody *)
Definition declared_req (a : attr) : option (list str) :=
  match declared_ctype a with
  | None => None
  | Some c =>
      Some match declared_body a with
           | BNone => []
           | BTyped => [mime_type c]
           | BUntyped => [s_octet]
           | BStreaming => [s_octet]
           | BMultipart => [s_multipart]
           end
  end.

(* the registered endpoint carries what was declared (all clauses except the
   doc comment) *)
Definition spec_ep_fields (a : attr) (r : vr) (c : ctype) (o : oep) : bool :=
  str_eqb (o_method o) (method_str (declared_method a))
  && str_eqb (o_path o) (a_path a)
  && str_eqb (o_opid o) (declared_opid a)
  && strs_eqb (o_tags o) (a_tags a)
  && bool_eqb (o_deprecated o) (a_deprecated a)
  && bool_eqb (o_visible o) (negb (a_unpublished a))
  && option_eqb N.eqb (o_maxbytes o) (declared_maxbytes a)
  && str_eqb (o_ctype o) (mime_type c)
  && match orange_vr (o_versions o) with Some r' => vr_eqb r r' | None => false end
  && bool_eqb (o_ws o) (is_channel a).

(* no doc-comment text is lost between summary and description *)
(* ([t] = the comment's text, computed once per declaration) *)
Definition spec_doc_t (t : ustr) (s d : option ustr) : bool :=
  list_eqb N.eqb (shown (mkExtracted s d)) t.
Definition spec_doc (a : attr) (s d : option ustr) : bool :=
  spec_doc_t (declared_text (a_docs a)) s d.      (* = doc_lossless_b (a_docs a) (mkExtracted s d) *)

(* routing at version [v] ([None]: unversioned): the declared endpoint
   answers exactly inside its declared range, with the declared operation id,
   content type and body limit *)
Definition in_range (r : vr) (v : option version) : bool :=
  match v with None => true | Some x => vinb version Semver.cmp r x end.

Definition spec_route (a : attr) (r : vr) (c : ctype) (v : option version) (o : oroute) : bool :=
  match o with
  | Some (opid, ct, mb) =>
      in_range r v && str_eqb opid (declared_opid a) && str_eqb ct (mime_type c)
      && option_eqb N.eqb mb (declared_maxbytes a)
  | None => negb (in_range r v)
  end.

(* the document for version [v] shows the operation iff published and in
   range, with the declared fields *)
Definition spec_op_t (t : ustr) (a : attr) (r : vr) (v : version) (o : option oop) : bool * bool :=
  match o with
  | Some p =>
      (negb (a_unpublished a) && in_range r (Some v)
       && str_eqb (p_opid p) (declared_opid a) && strs_eqb (p_tags p) (a_tags a)
       && bool_eqb (p_deprecated p) (a_deprecated a)
       && match declared_req a with Some l => strs_eqb (p_req p) l | None => false end
       && bool_eqb (p_ws p) (is_channel a),
       spec_doc_t t (p_summary p) (p_description p))
  | None => (a_unpublished a || negb (in_range r (Some v)), true)
  end.
Definition spec_op (a : attr) (r : vr) (v : version) (o : option oop) : bool * bool :=
  spec_op_t (declared_text (a_docs a)) a r v o.

Definition all3 {A} (l : list A) : bool := (length l =? 3)%nat.

Fixpoint all_eq {A} (eqb : A -> A -> bool) (l : list A) : bool :=
  match l with
  | x :: ((y :: _) as t) => eqb x y && all_eq eqb t
  | _ => true
  end.

Definition res_oep_eqb (x y : res N oep) : bool :=
  match x, y with
  | Ok a, Ok b => oep_eqb a b
  | Err a, Err b => a =? b
  | _, _ => false
  end.

(* (fields ok, doc clause ok) over the whole observation of one declaration *)
Definition spec_decl (a : attr) (eps : list (res N oep)) (unv : list oroute)
           (probes : list (str * list oroute * list (option oop) * bool)) : bool * bool :=
  match declared_range (a_versions a), declared_ctype a with
  | Some r, Some c =>
      let t := declared_text (a_docs a) in
      let f_eps := forallb (fun e => match e with Ok o => spec_ep_fields a r c o | Err _ => false end) eps in
      let d_eps := forallb (fun e => match e with Ok o => spec_doc_t t (o_summary o) (o_description o)
                                                  | Err _ => true end) eps in
      (* the three styles: identical registration, routing and documents *)
      let same := all_eq res_oep_eqb eps && all_eq oroute_eqb unv
                  && forallb (fun p => match p with (_, rs, ops, same) =>
                        all_eq oroute_eqb rs && all_eq (option_eqb oop_eqb) ops && same end) probes in
      let f_unv := forallb (spec_route a r c None) unv in
      let pr := map (fun p => match p with (vs, rs, ops, _) =>
                  match Semver.parse vs with
                  | Some v =>
                      let os := map (spec_op_t t a r v) ops in
                      (forallb (spec_route a r c (Some v)) rs && forallb fst os, forallb snd os)
                  | None => (false, false)
                  end end) probes in
      (f_eps && same && f_unv && forallb fst pr, d_eps && forallb snd pr)
  | _, _ => (false, false)   (* the compiled declaration does not denote an endpoint *)
  end.

(* ---------- (b) the model: expand, route_view, doc_view ---------- *)

Definition vr_orange (r : vr) : orange :=
  match r with
  | VAll => OAll
  | VFrom a => OFrom (Semver.print a)
  | VUntil b => OUntil (Semver.print b)
  | VFromUntil a b => OFromUntil (Semver.print a) (Semver.print b)
  end.

Definition oep_of (e : endpoint) : oep :=
  mkOep (e_opid e) (method_str (e_method e)) (e_path e) (e_summary e) (e_description e)
    (e_tags e) (e_deprecated e) (e_visible e) (vr_orange (e_versions e))
    (mime_type (e_ctype e)) (e_maxbytes e) (option_map mime_type (e_body_param e))
    (e_websocket e).

Definition oroute_of (x : option (str * ctype * option N)) : oroute :=
  match x with Some (o, c, m) => Some (o, mime_type c, m) | None => None end.

Definition oop_of (d : docop) : oop :=
  mkOop (d_opid d) (d_summary d) (d_description d) (d_tags d) (d_deprecated d)
    (match d_request_body d with Some c => [mime_type c] | None => [] end) (d_websocket d).

Definition styles : list style := [Function; TraitImpl; TraitStub].

Fixpoint forallb2 {A B} (f : A -> B -> bool) (l : list A) (m : list B) : bool :=
  match l, m with
  | [], [] => true
  | x :: l', y :: m' => f x y && forallb2 f l' m'
  | _, _ => false
  end.

Definition model_decl (a : attr) (eps : list (res N oep)) (unv : list oroute)
           (probes : list (str * list oroute * list (option oop) * bool)) : bool :=
  (* the three expansions, computed once *)
  let ms := map (fun st => expand st a) styles in
  forallb2 (fun m e =>
      match m, e with
      | Ok m, Ok o => oep_eqb (oep_of m) o
      | _, _ => false
      end) ms eps
  && forallb2 (fun m o =>
      match m with
      | Ok m => oroute_eqb (oroute_of (route_view m None)) o
      | Err _ => false
      end) ms unv
  && forallb (fun p => match p with (vs, rs, ops, _) =>
      match Semver.parse vs with
      | None => false
      | Some v =>
          forallb2 (fun m o =>
            match m with
            | Ok m => oroute_eqb (oroute_of (route_view m (Some v))) o
            | Err _ => false
            end) ms rs
          && forallb2 (fun m o =>
            match m with
            | Ok m => option_eqb oop_eqb (option_map oop_of (doc_view m v)) o
            | Err _ => false
            end) ms ops
      end end) probes.

(* ====================================================================== *)
(* Trait-level tag configuration: the [tag_config] argument of
   [#[dropshot::api_description]].

     dropshot_endpoint/src/api_trait.rs   ApiTagConfig (serde defaults),
                                          SupportModuleGenerator::make_tag_config,
                                          make_api_factory_body
     dropshot/src/api_description.rs      TagConfig (+ Default), ApiDescription::new,
                                          tag_config, register -> validate_tags *)

Inductive tag_policy := TPAny | TPAtLeastOne | TPExactlyOne.

(* [TagDetails]: description, external_docs = (description, url) *)
Record tag_details := mkTagDetails {
  td_description : option str;
  td_external_docs : option (option str * str)
}.

(* [TagConfig]; the HashMap as an association list sorted by tag name *)
Record tag_config := mkTagConfig {
  tc_allow_other_tags : bool;
  tc_policy : tag_policy;
  tc_tags : list (str * tag_details)
}.

(* the [tag_config = { .. }] argument ([ApiTagConfig]): [tags] is required,
   [allow_other_tags] and [policy] may be left out *)
Record tc_arg := mkTcArg {
  ta_allow_other_tags : option bool;
  ta_policy : option tag_policy;
  ta_tags : list (str * tag_details)
}.

(* [impl Default for TagConfig] — what [ApiDescription::new()] carries *)
Definition default_tag_config : tag_config := mkTagConfig true TPAny [].

(* [make_tag_config]: no argument, no [.tag_config(..)] call; otherwise
   [TagConfig { allow_other_tags (#[serde(default)]: false), policy (or
   EndpointTagPolicy::Any), tags }] — the value the generated
   [api_description()] / [stub_api_description()] start from *)
Definition trait_tag_config (arg : option tc_arg) : tag_config :=
  match arg with
  | None => default_tag_config
  | Some t =>
      mkTagConfig (match ta_allow_other_tags t with Some b => b | None => false end)
                  (match ta_policy t with Some p => p | None => TPAny end)
                  (ta_tags t)
  end.

Inductive tag_err :=
| TENeedOne              (* "At least one tag is required" *)
| TEExactlyOne           (* "Exactly one tag is required" *)
| TEInvalid (t : str).   (* "Invalid tag: .." *)

Definition has_tag (c : tag_config) (t : str) : bool :=
  existsb (fun kv => str_eqb (fst kv) t) (tc_tags c).

(* [ApiDescription::validate_tags], arm by arm *)
Definition validate_tags (c : tag_config) (e : endpoint) : res tag_err unit :=
  if negb (e_visible e) then Ok tt else
  let pol :=
    match tc_policy c with
    | TPAtLeastOne => if is_nil (e_tags e) then Some TENeedOne else None
    | TPExactlyOne => if (length (e_tags e) =? 1)%nat then None else Some TEExactlyOne
    | TPAny => None
    end in
  match pol with
  | Some x => Err x
  | None =>
      if tc_allow_other_tags c then Ok tt
      else match find (fun t => negb (has_tag c t)) (e_tags e) with
           | Some t => Err (TEInvalid t)
           | None => Ok tt
           end
  end.

(* [make_api_factory_body]: every endpoint is registered in turn and the
   failures are collected; the description is returned iff there is none.
   (Only the tag check is modelled here; the other registration checks do not
   depend on the tag configuration.) *)
Definition build_errors (c : tag_config) (eps : list endpoint) : list (str * tag_err) :=
  flat_map (fun e => match validate_tags c e with
                     | Err x => [(e_opid e, x)]
                     | Ok _ => []
                     end) eps.

(* ---- the declarative reading ---- *)

(* an endpoint complies with a configuration: unpublished endpoints are
   exempt; otherwise the number of tags fits the policy and, unless other tags
   are allowed, every tag is a configured one *)
Definition policy_ok (p : tag_policy) (tags : list str) : bool :=
  match p with
  | TPAny => true
  | TPAtLeastOne => negb (is_nil tags)
  | TPExactlyOne => (length tags =? 1)%nat
  end.
Definition complies (c : tag_config) (tags : list str) (visible : bool) : bool :=
  negb visible || (policy_ok (tc_policy c) tags
                   && (tc_allow_other_tags c || forallb (has_tag c) tags)).

(* ---- observation and executable specification ---- *)

Definition policy_eqb (a b : tag_policy) : bool :=
  match a, b with
  | TPAny, TPAny | TPAtLeastOne, TPAtLeastOne | TPExactlyOne, TPExactlyOne => true
  | _, _ => false
  end.
Definition details_eqb (a b : tag_details) : bool :=
  ostr_eqb (td_description a) (td_description b)
  && option_eqb (fun x y => ostr_eqb (fst x) (fst y) && str_eqb (snd x) (snd y))
       (td_external_docs a) (td_external_docs b).
Definition tag_config_eqb (a b : tag_config) : bool :=
  bool_eqb (tc_allow_other_tags a) (tc_allow_other_tags b)
  && policy_eqb (tc_policy a) (tc_policy b)
  && list_eqb (fun x y => str_eqb (fst x) (fst y) && details_eqb (snd x) (snd y))
       (tc_tags a) (tc_tags b).

Definition tag_err_code (x : tag_err) : N :=
  match x with TENeedOne => 1 | TEExactlyOne => 2 | TEInvalid _ => 3 end.

(* what the declaration says the configuration is: absent = anything goes;
   given = the written fields, [allow_other_tags] false and [policy] Any when
   left out (documented defaults) *)
Definition declared_tag_config (arg : option tc_arg) : tag_config :=
  match arg with
  | None => mkTagConfig true TPAny []
  | Some t =>
      mkTagConfig (match ta_allow_other_tags t with Some b => b | None => false end)
                  (match ta_policy t with Some p => p | None => TPAny end)
                  (ta_tags t)
  end.

(* spec: [cfgs] = get_tag_config() of the description built from the
   implementation and from the stub (None: could not be built); [refused] =
   per style (functions on an ApiDescription carrying the declared TagConfig,
   trait implementation, trait stub) the refused operation ids with the kind
   of refusal, in declaration order.  The declared configuration is in force:
   field by field, and an endpoint is refused iff it does not comply. *)
Definition spec_tagcfg (arg : option tc_arg) (eps : list attr)
           (cfgs : list (option tag_config)) (refused : list (list (str * N)))
           (docs_same : bool) : bool :=
  let c := declared_tag_config arg in
  forallb (fun o => match o with Some c' => tag_config_eqb c' c | None => false end) cfgs
  && forallb (fun r =>
       strs_eqb (map fst r)
         (map declared_opid
            (filter (fun a => negb (complies c (a_tags a) (negb (a_unpublished a)))) eps)))
       refused
  && all_eq (list_eqb (fun x y => str_eqb (fst x) (fst y) && (snd x =? snd y))) refused
  && docs_same.

Definition model_tagcfg (arg : option tc_arg) (eps : list attr)
           (cfgs : list (option tag_config)) (refused : list (list (str * N))) : bool :=
  let c := trait_tag_config arg in
  forallb (fun o => match o with Some c' => tag_config_eqb c' c | None => false end) cfgs
  && forallb2 (fun st r =>
       match map_opt (fun a => match expand st a with Ok e => Some e | Err _ => None end) eps with
       | Some es =>
           list_eqb (fun x y => str_eqb (fst x) (fst y) && (snd x =? snd y)) r
             (map (fun p => (fst p, tag_err_code (snd p))) (build_errors c es))
       | None => false
       end) styles refused.

(* ---- number of extractor parameters ----
   handler.rs implements HttpHandlerFunc for functions of the request context
   plus at most three extractors (impl_HttpHandlerFunc_for_func_with_params!
   up to (T1, T2, T3)); extractor/common.rs implements RequestExtractor for
   (X), (S1, X), (S1, S2, X).  A declaration with more does not compile, in
   either form. *)
Definition max_extractors : N := 3.
Definition arity_compiles (n : N) : bool := n <=? max_extractors.
