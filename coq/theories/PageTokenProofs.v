(* PageTokenProofs.v — theorems about the page-token codec, the pagination
   query parameters and the limit clamp (C14). *)
From DS Require Import Base Base64 Base64Proofs PageToken.
Require Import ZifyBool ZifyN.
Ltac Zify.zify_post_hook ::= Z.div_mod_to_equations.

(* ------------------------------------------------------------------ *)
(* u32::from_str                                                       *)
(* ------------------------------------------------------------------ *)

Lemma digit_of_spec c :
  (is_digit c = true /\ digit_of c = Some (c - 48)) \/
  (is_digit c = false /\ digit_of c = None).
Proof.
  unfold digit_of, is_digit.
  destruct ((48 <=? c) && (c <=? 57)); auto.
Qed.

Lemma dec_from_ge : forall ds acc, acc <= dec_from acc ds.
Proof.
  induction ds as [|c r IH]; intros acc; cbn [dec_from]; [lia|].
  specialize (IH (acc * 10 + (c - 48))). lia.
Qed.

Lemma parse_digits_spec : forall ds acc n,
  acc <= U32_MAX ->
  (parse_digits acc ds = Some n <->
   forallb is_digit ds = true /\ dec_from acc ds = n /\ n <= U32_MAX).
Proof.
  induction ds as [|c r IH]; intros acc n Hacc; cbn [parse_digits forallb dec_from].
  - split.
    + intros [= <-]. auto.
    + intros (_ & <- & _). reflexivity.
  - destruct (N.ltb_spec U32_MAX (acc * 10)) as [Hm|Hm].
    { split; [discriminate|]. intros (_ & <- & Hn).
      pose proof (dec_from_ge r (acc * 10 + (c - 48))). lia. }
    destruct (digit_of_spec c) as [[Hd ->]|[Hd ->]]; rewrite Hd; cbn [andb].
    2:{ split; [discriminate|]. intros (H & _); discriminate. }
    destruct (N.ltb_spec U32_MAX (acc * 10 + (c - 48))) as [Ha|Ha].
    { split; [discriminate|]. intros (_ & <- & Hn).
      pose proof (dec_from_ge r (acc * 10 + (c - 48))). lia. }
    apply IH. exact Ha.
Qed.

Lemma not_digit_plus : is_digit 43 = false.
Proof. reflexivity. Qed.
Lemma not_digit_minus : is_digit 45 = false.
Proof. reflexivity. Qed.

(* The accept set of u32::from_str: an optional '+', then at least one ASCII
   decimal digit, value at most 2^32-1.  (Leading zeros are allowed; '-',
   spaces, an empty string, a lone sign, hex/exponent spellings are not.) *)
Theorem parse_u32_spec : forall s n,
  parse_u32 s = Some n <->
  exists ds, (s = ds \/ s = 43 :: ds) /\ ds <> [] /\
             forallb is_digit ds = true /\ dec_value ds = n /\ n <= U32_MAX.
Proof.
  intros s n. unfold dec_value.
  assert (H0 : 0 <= U32_MAX) by (unfold U32_MAX; lia).
  destruct s as [|c r]; cbn [parse_u32].
  { split; [discriminate|].
    intros (ds & [<-|E] & Hne & _); [congruence|discriminate]. }
  destruct (N.eqb_spec c 43) as [->|N43]; cbn [orb].
  - destruct r as [|c2 r2]; cbn [is_nil].
    + split; [discriminate|].
      intros (ds & [<-|E] & Hne & Hd & _).
      * cbn [forallb] in Hd. rewrite not_digit_plus in Hd. discriminate.
      * injection E as <-. congruence.
    + rewrite (parse_digits_spec (c2 :: r2) 0 n H0). split.
      * intros (Hd & Hv & Hn). exists (c2 :: r2).
        split; [right; reflexivity|]. split; [discriminate|]. auto.
      * intros (ds & [<-|E] & Hne & Hd & Hv & Hn).
        -- cbn [forallb] in Hd. rewrite not_digit_plus in Hd. discriminate.
        -- injection E as <-. auto.
  - destruct (N.eqb_spec c 45) as [->|N45].
    + assert (Hnone : forall ds, (45 :: r = ds \/ 45 :: r = 43 :: ds) ->
                                 forallb is_digit ds = true -> False).
      { intros ds [<-|E] Hd; [|discriminate].
        cbn [forallb] in Hd. rewrite not_digit_minus in Hd. discriminate. }
      destruct r as [|c2 r2]; cbn [is_nil].
      * split; [discriminate|]. intros (ds & Hs & _ & Hd & _). exfalso; eauto.
      * rewrite (parse_digits_spec _ 0 n H0). split.
        -- intros (Hd & _). cbn [forallb] in Hd. rewrite not_digit_minus in Hd.
           discriminate.
        -- intros (ds & Hs & _ & Hd & _). exfalso; eauto.
    + rewrite (parse_digits_spec _ 0 n H0). split.
      * intros (Hd & Hv & Hn). exists (c :: r).
        split; [left; reflexivity|]. split; [discriminate|]. auto.
      * intros (ds & [<-|E] & Hne & Hd & Hv & Hn); [auto|].
        injection E as E1 _. congruence.
Qed.

(* limit strings: accepted iff optional '+', digits, value in 1 .. 2^32-1 *)
Theorem parse_limit_accepts_iff : forall s l,
  parse_limit s = Ok l <->
  exists ds, (s = ds \/ s = 43 :: ds) /\ ds <> [] /\
             forallb is_digit ds = true /\ dec_value ds = l /\
             1 <= l /\ l <= U32_MAX.
Proof.
  intros s l. unfold parse_limit. split.
  - destruct (parse_u32 s) as [n|] eqn:E; [|discriminate].
    destruct (N.eqb_spec n 0) as [->|Hnz]; [discriminate|].
    intros [= <-]. apply parse_u32_spec in E.
    destruct E as (ds & Hs & Hne & Hd & Hv & Hn).
    exists ds. repeat split; auto. lia.
  - intros (ds & Hs & Hne & Hd & Hv & H1 & Hn).
    assert (E : parse_u32 s = Some l).
    { apply parse_u32_spec. exists ds. auto. }
    rewrite E. destruct (N.eqb_spec l 0); [lia|reflexivity].
Qed.

Lemma status_limit_syntax : status_of ELimitSyntax = 400. Proof. reflexivity. Qed.

(* every refused limit string is a 400 *)
Theorem parse_limit_refusal_400 : forall s e,
  parse_limit s = Err e -> status_of e = 400.
Proof.
  intros s e. unfold parse_limit.
  destruct (parse_u32 s) as [n|]; [destruct (n =? 0)|]; intros [= <-]; reflexivity.
Qed.

(* zero, in any spelling ("0", "000", "+0"), is refused *)
Theorem limit_zero_refused : forall s ds,
  (s = ds \/ s = 43 :: ds) -> forallb is_digit ds = true -> dec_value ds = 0 ->
  exists e, parse_limit s = Err e /\ status_of e = 400.
Proof.
  intros s ds Hs Hd Hv.
  destruct (parse_limit s) as [l|e] eqn:E.
  - exfalso. apply parse_limit_accepts_iff in E.
    destruct E as (ds' & Hs' & Hne & Hd' & Hv' & H1 & _).
    assert (ds' = ds).
    { destruct Hs as [->| ->], Hs' as [Hs'|Hs']; try congruence.
      - subst ds. cbn [forallb] in Hd. rewrite not_digit_plus in Hd. discriminate.
      - subst ds'. cbn [forallb] in Hd'. rewrite not_digit_plus in Hd'. discriminate. }
    subst ds'. lia.
  - exists e. split; [reflexivity|]. eapply parse_limit_refusal_400; eauto.
Qed.

(* a leading '-' (every negative number) is refused *)
Theorem limit_negative_refused : forall r,
  exists e, parse_limit (45 :: r) = Err e /\ status_of e = 400.
Proof.
  intros r. destruct (parse_limit (45 :: r)) as [l|e] eqn:E.
  - exfalso. apply parse_limit_accepts_iff in E.
    destruct E as (ds & [<-|Hs] & _ & Hd & _); [|discriminate].
    cbn [forallb] in Hd. rewrite not_digit_minus in Hd. discriminate.
  - exists e. split; [reflexivity|]. eapply parse_limit_refusal_400; eauto.
Qed.

(* the empty string is refused *)
Theorem limit_empty_refused : parse_limit [] = Err ELimitSyntax.
Proof. reflexivity. Qed.

(* a string with any byte that is not an ASCII digit (after one optional
   leading '+') is refused: "abc", "1e3", "0x10", " 1", "1 ", "1.0", "١" ... *)
Theorem limit_non_numeric_refused : forall s,
  (forall ds, (s = ds \/ s = 43 :: ds) -> forallb is_digit ds = false) ->
  exists e, parse_limit s = Err e /\ status_of e = 400.
Proof.
  intros s H. destruct (parse_limit s) as [l|e] eqn:E.
  - exfalso. apply parse_limit_accepts_iff in E.
    destruct E as (ds & Hs & _ & Hd & _). rewrite (H ds Hs) in Hd. discriminate.
  - exists e. split; [reflexivity|]. eapply parse_limit_refusal_400; eauto.
Qed.

(* values above 2^32-1 are refused *)
Theorem limit_overflow_refused : forall s ds,
  (s = ds \/ s = 43 :: ds) -> forallb is_digit ds = true -> U32_MAX < dec_value ds ->
  exists e, parse_limit s = Err e /\ status_of e = 400.
Proof.
  intros s ds Hs Hd Hv.
  destruct (parse_limit s) as [l|e] eqn:E.
  - exfalso. apply parse_limit_accepts_iff in E.
    destruct E as (ds' & Hs' & Hne & Hd' & Hv' & _ & Hn).
    assert (ds' = ds).
    { destruct Hs as [->| ->], Hs' as [Hs'|Hs']; try congruence.
      - subst ds. cbn [forallb] in Hd. rewrite not_digit_plus in Hd. discriminate.
      - subst ds'. cbn [forallb] in Hd'. rewrite not_digit_plus in Hd'. discriminate. }
    subst ds'. lia.
  - exists e. split; [reflexivity|]. eapply parse_limit_refusal_400; eauto.
Qed.

(* ------------------------------------------------------------------ *)
(* page_limit                                                          *)
(* ------------------------------------------------------------------ *)

Theorem page_limit_some : forall l max default,
  page_limit (Some l) max default = N.min l max.
Proof. reflexivity. Qed.

Theorem page_limit_none : forall max default, page_limit None max default = default.
Proof. reflexivity. Qed.

(* NonZeroU32 everywhere: client limit >= 1, 1 <= default <= max *)
Theorem page_limit_range : forall lim max default,
  1 <= default -> default <= max ->
  (forall l, lim = Some l -> 1 <= l) ->
  1 <= page_limit lim max default /\ page_limit lim max default <= max.
Proof.
  intros [l|] max default H1 H2 Hl; cbn [page_limit]; [|lia].
  specialize (Hl l eq_refl). lia.
Qed.

(* never more than the client asked for *)
Theorem page_limit_le_client : forall l max default,
  page_limit (Some l) max default <= l.
Proof. intros; cbn [page_limit]; lia. Qed.

(* ------------------------------------------------------------------ *)
(* lookup_last = BTreeMap semantics                                    *)
(* ------------------------------------------------------------------ *)

Lemma lookup_last_app k a b :
  lookup_last k (a ++ b) =
  match lookup_last k b with Some v => Some v | None => lookup_last k a end.
Proof.
  induction a as [|[k' v'] a IH]; cbn [app lookup_last].
  - destruct (lookup_last k b); reflexivity.
  - rewrite IH. destruct (lookup_last k b); reflexivity.
Qed.

(* the value found is that of the last entry with the key *)
Theorem lookup_last_spec : forall k kvs v,
  lookup_last k kvs = Some v <->
  exists pre post, kvs = pre ++ (k, v) :: post /\ lookup_last k post = None.
Proof.
  intros k kvs. induction kvs as [|[k' v'] r IH]; intros v; cbn [lookup_last].
  - split; [discriminate|]. intros (pre & post & E & _). destruct pre; discriminate.
  - destruct (lookup_last k r) as [w|] eqn:Er.
    + split.
      * intros [= <-]. destruct (proj1 (IH w) eq_refl) as (pre & post & -> & Hn).
        exists ((k', v') :: pre), post. auto.
      * intros (pre & post & E & Hn). destruct pre as [|p pre]; cbn [app] in E.
        -- injection E as _ _ <-. congruence.
        -- injection E as _ ->. rewrite lookup_last_app in Er. cbn [lookup_last] in Er.
           rewrite Hn, str_eqb_refl in Er. congruence.
    + destruct (str_eqb_spec k k') as [<-|Hne].
      * split.
        -- intros [= <-]. exists [], r. auto.
        -- intros (pre & post & E & Hn). destruct pre as [|p pre]; cbn [app] in E.
           ++ congruence.
           ++ injection E as _ ->. rewrite lookup_last_app in Er. cbn [lookup_last] in Er.
              rewrite Hn, str_eqb_refl in Er. discriminate.
      * split; [discriminate|].
        intros (pre & post & E & Hn). destruct pre as [|p pre]; cbn [app] in E.
        -- congruence.
        -- injection E as _ ->. rewrite lookup_last_app in Er. cbn [lookup_last] in Er.
           rewrite Hn, str_eqb_refl in Er. discriminate.
Qed.

Definition not_limit (kv : str * str) : bool := negb (str_eqb (fst kv) K_LIMIT).

Lemma lookup_last_filter k kvs :
  k <> K_LIMIT -> lookup_last k (filter not_limit kvs) = lookup_last k kvs.
Proof.
  intros Hk. induction kvs as [|[k' v'] r IH]; [reflexivity|].
  cbn [filter lookup_last]. unfold not_limit at 1. cbn [fst].
  destruct (str_eqb_spec k' K_LIMIT) as [->|Hne]; cbn [negb].
  - rewrite IH. destruct (lookup_last k r); [reflexivity|].
    destruct (str_eqb_spec k K_LIMIT); congruence.
  - cbn [lookup_last]. rewrite IH. reflexivity.
Qed.

Lemma page_token_not_limit : K_PAGE_TOKEN <> K_LIMIT.
Proof. discriminate. Qed.

(* ------------------------------------------------------------------ *)
(* the codec                                                           *)
(* ------------------------------------------------------------------ *)

Lemma slen_b64 bs : slen (b64_encode UrlSafe bs) = 4 * ((slen bs + 2) / 3).
Proof. unfold slen. apply b64_length. Qed.

(* [lia] collects every hypothesis in sight, section variables included; drop
   the ones the goal does not mention so that lemmas stay generalised over
   exactly what their statements name. *)
Ltac tidy scan_de Scan env_ser env_de :=
  try clear scan_de; try clear Scan; try clear env_ser; try clear env_de.

Section CodecProofs.
  Variable Sel : Type.
  Variable Scan : Type.
  Variable env_ser : Sel -> option (list N).
  Variable env_de : list N -> option (pag_version * Sel).
  Variable scan_de : list (str * str) -> option Scan.

  (* a lemma is generalised over exactly the section variables its statement
     mentions (plus the hypotheses named in [Proof using]) *)
  Set Default Proof Using "Type".

  Notation serialize := (serialize Sel env_ser).
  Notation deserialize := (deserialize Sel env_de).
  Notation deserialize_whichpage := (deserialize_whichpage Sel Scan env_de scan_de).
  Notation parse_params := (parse_params Sel Scan env_de scan_de).

  (* ---- facts that need no contract on the envelope library ---- *)

  (* refusal_complete: exactly the tokens that pass the length check, decode
     as url-safe base64 and whose bytes read as a V1 envelope are accepted *)
  Theorem refusal_complete : forall t s,
    deserialize t = Ok s <->
    slen t <= MAX_TOKEN_LENGTH /\
    exists bs, b64_decode UrlSafe t = Some bs /\ env_de bs = Some (V1, s).
  Proof.
    tidy scan_de Scan env_ser env_de.
    intros t s. unfold PageToken.deserialize.
    destruct (N.ltb_spec MAX_TOKEN_LENGTH (slen t)) as [Hl|Hl].
    { split; [discriminate|]. intros [H _]. lia. }
    destruct (b64_decode UrlSafe t) as [bs|] eqn:Eb.
    2:{ split; [discriminate|]. intros (_ & bs & [=] & _). }
    destruct (env_de bs) as [[v s']|] eqn:Ee.
    2:{ split; [discriminate|]. intros (_ & bs' & [= <-] & E). congruence. }
    destruct v; cbn [pver_eqb].
    - split.
      + intros [= <-]. split; [exact Hl|]. exists bs. auto.
      + intros (_ & bs' & [= <-] & E). congruence.
    - split; [discriminate|]. intros (_ & bs' & [= <-] & E). congruence.
  Qed.

  (* every refusal is a 400-class error; the function is total (no panic arm) *)
  Theorem deserialize_total_400 : forall t,
    (exists s, deserialize t = Ok s) \/
    (exists e, deserialize t = Err e /\ status_of e = 400).
  Proof.
    tidy scan_de Scan env_ser env_de.
    intros t. unfold PageToken.deserialize.
    destruct (MAX_TOKEN_LENGTH <? slen t); [right; eexists; split; reflexivity|].
    destruct (b64_decode UrlSafe t) as [bs|]; [|right; eexists; split; reflexivity].
    destruct (env_de bs) as [[[|] s]|]; cbn [pver_eqb];
      [left; eexists; reflexivity|right; eexists; split; reflexivity..].
  Qed.

  Theorem deserialize_refusal_400 : forall t e,
    deserialize t = Err e -> status_of e = 400.
  Proof.
    tidy scan_de Scan env_ser env_de.
    intros t e H. destruct (deserialize_total_400 t) as [[s Hs]|(e' & He & H4)];
      congruence.
  Qed.

  (* the reason of each refusal *)
  Theorem refusal_reasons : forall t,
    (MAX_TOKEN_LENGTH < slen t -> deserialize t = Err ETooLarge) /\
    (slen t <= MAX_TOKEN_LENGTH -> b64_decode UrlSafe t = None ->
     deserialize t = Err EBase64) /\
    (forall bs, slen t <= MAX_TOKEN_LENGTH -> b64_decode UrlSafe t = Some bs ->
                env_de bs = None -> deserialize t = Err ECorrupt) /\
    (forall bs s, slen t <= MAX_TOKEN_LENGTH -> b64_decode UrlSafe t = Some bs ->
                  env_de bs = Some (VOther, s) -> deserialize t = Err EVersion).
  Proof.
    tidy scan_de Scan env_ser env_de.
    intros t. unfold PageToken.deserialize. repeat split.
    - intros H. replace (MAX_TOKEN_LENGTH <? slen t) with true by lia. reflexivity.
    - intros H ->. replace (MAX_TOKEN_LENGTH <? slen t) with false by lia. reflexivity.
    - intros bs H -> ->. replace (MAX_TOKEN_LENGTH <? slen t) with false by lia. reflexivity.
    - intros bs s H -> ->. replace (MAX_TOKEN_LENGTH <? slen t) with false by lia. reflexivity.
  Qed.

  (* an accepted token is the canonical url-safe encoding of its envelope
     bytes: a byte-level mutation of a valid token is accepted only if it is
     itself such an encoding (of bytes that read as a V1 envelope) *)
  Theorem accepted_is_canonical : forall t s,
    deserialize t = Ok s ->
    exists bs, t = b64_encode UrlSafe bs /\ bytes_ok bs = true /\
               env_de bs = Some (V1, s) /\ slen bs <= 384.
  Proof.
    tidy scan_de Scan env_ser env_de.
    intros t s H. apply refusal_complete in H.
    destruct H as (Hl & bs & Hb & He).
    apply b64_canonical in Hb. destruct Hb as [-> Hok].
    exists bs. repeat split; auto.
    rewrite slen_b64 in Hl. unfold MAX_TOKEN_LENGTH in Hl. lia.
  Qed.

  (* tokens over 512 bytes are refused *)
  Theorem overlong_refused : forall t,
    MAX_TOKEN_LENGTH < slen t -> deserialize t = Err ETooLarge.
  Proof. intros t. apply refusal_reasons. Qed.

  (* an issued token is the encoding of the envelope and respects the bound;
     issuing fails exactly when the envelope cannot be written or the encoded
     length exceeds 512, and then with a 500 *)
  Theorem serialize_ok_iff : forall s t,
    serialize s = Ok t <->
    exists bs, env_ser s = Some bs /\ t = b64_encode UrlSafe bs /\
               4 * ((slen bs + 2) / 3) <= MAX_TOKEN_LENGTH.
  Proof.
    tidy scan_de Scan env_ser env_de.
    intros s t. unfold PageToken.serialize.
    destruct (env_ser s) as [bs|].
    2:{ split; [discriminate|]. intros (bs & [=] & _). }
    rewrite slen_b64.
    destruct (N.ltb_spec MAX_TOKEN_LENGTH (4 * ((slen bs + 2) / 3))) as [H|H].
    - split; [discriminate|]. intros (bs' & [= <-] & _ & H'). lia.
    - split.
      + intros [= <-]. exists bs. auto.
      + intros (bs' & [= <-] & -> & _). reflexivity.
  Qed.

  (* in terms of the envelope's size: at most 384 bytes *)
  Theorem serialize_ok_small : forall s bs,
    env_ser s = Some bs -> slen bs <= 384 -> serialize s = Ok (b64_encode UrlSafe bs).
  Proof.
    tidy scan_de Scan env_ser env_de.
    intros s bs E H. apply serialize_ok_iff. exists bs.
    repeat split; auto. unfold MAX_TOKEN_LENGTH. lia.
  Qed.

  Theorem serialize_too_large : forall s bs,
    env_ser s = Some bs -> 384 < slen bs -> serialize s = Err ESerTooLarge.
  Proof.
    tidy scan_de Scan env_ser env_de.
    intros s bs E H. unfold PageToken.serialize. rewrite E, slen_b64.
    replace (MAX_TOKEN_LENGTH <? 4 * ((slen bs + 2) / 3)) with true; [reflexivity|].
    unfold MAX_TOKEN_LENGTH. lia.
  Qed.

  Theorem serialize_failure_500 : forall s e,
    serialize s = Err e -> status_of e = 500.
  Proof.
    tidy scan_de Scan env_ser env_de.
    intros s e. unfold PageToken.serialize.
    destruct (env_ser s); [destruct (_ <? _)|]; intros [= <-]; reflexivity.
  Qed.

  Theorem issued_within_bound : forall s t,
    serialize s = Ok t -> slen t <= MAX_TOKEN_LENGTH.
  Proof.
    tidy scan_de Scan env_ser env_de.
    intros s t H. apply serialize_ok_iff in H.
    destruct H as (bs & _ & -> & H). rewrite slen_b64. exact H.
  Qed.

  (* bound_symmetric: the issue-side and accept-side length checks agree — an
     issued token passes the accept-side check, an over-long token is refused *)
  Theorem bound_symmetric :
    (forall s t, serialize s = Ok t ->
                 slen t <= MAX_TOKEN_LENGTH /\ deserialize t <> Err ETooLarge) /\
    (forall t, MAX_TOKEN_LENGTH < slen t -> deserialize t = Err ETooLarge).
  Proof.
    tidy scan_de Scan env_ser env_de.
    split; [|exact overlong_refused].
    intros s t H. pose proof (issued_within_bound s t H) as Hl.
    split; [exact Hl|]. unfold PageToken.deserialize.
    replace (MAX_TOKEN_LENGTH <? slen t) with false by lia.
    destruct (b64_decode UrlSafe t) as [bs|]; [|discriminate].
    destruct (env_de bs) as [[[|] ?]|]; cbn [pver_eqb]; discriminate.
  Qed.

  (* token_alone_decides: when a page_token is present, the page is decided
     by (the last) token value alone — neither the other entries nor the
     consumer's scan-parameter reader are consulted *)
  Theorem token_present_next : forall raw t,
    lookup_last K_PAGE_TOKEN raw = Some t ->
    deserialize_whichpage raw =
    match deserialize t with Ok s => Ok (Next s) | Err e => Err e end.
  Proof.
    tidy scan_de Scan env_ser env_de.
    intros raw t H. unfold PageToken.deserialize_whichpage. rewrite H.
    destruct (deserialize t); reflexivity.
  Qed.

  Theorem token_absent_first : forall raw,
    lookup_last K_PAGE_TOKEN raw = None ->
    deserialize_whichpage raw =
    match scan_de raw with Some sp => Ok (First sp) | None => Err EScan end.
  Proof.
    tidy scan_de Scan env_ser env_de.
    intros raw H. unfold PageToken.deserialize_whichpage. rewrite H. reflexivity.
  Qed.

  Theorem whichpage_refusal_400 : forall raw e,
    deserialize_whichpage raw = Err e -> status_of e = 400.
  Proof.
    tidy scan_de Scan env_ser env_de.
    intros raw e. unfold PageToken.deserialize_whichpage.
    destruct (lookup_last K_PAGE_TOKEN raw) as [t|].
    - destruct (deserialize t) as [s|e'] eqn:E; cbn [bind]; [discriminate|].
      intros [= <-]. eapply deserialize_refusal_400; eauto.
    - destruct (scan_de raw); [discriminate|]. intros [= <-]. reflexivity.
  Qed.

  (* ---- the whole parameter struct ---- *)

  Lemma split_fields_spec : forall kvs lim col l c,
    split_fields kvs lim col = Ok (l, c) ->
    c = rev col ++ filter not_limit kvs /\
    (l = lim /\ (forall v, ~ In (K_LIMIT, v) kvs) \/
     lim = None /\ exists pre v post,
       kvs = pre ++ (K_LIMIT, v) :: post /\ parse_limit v = Ok (match l with Some n => n | None => 0 end)
       /\ l <> None /\
       (forall v', ~ In (K_LIMIT, v') pre) /\ (forall v', ~ In (K_LIMIT, v') post)).
  Proof.
    tidy scan_de Scan env_ser env_de.
    induction kvs as [|[k v] r IH]; intros lim col l c; cbn [split_fields].
    - intros [= <- <-]. split; [cbn [filter]; rewrite app_nil_r; reflexivity|].
      left. split; [reflexivity|]. intros v [].
    - cbn [filter]. unfold not_limit at 1. cbn [fst].
      destruct (str_eqb_spec k K_LIMIT) as [->|Hne]; cbn [negb].
      + destruct lim as [l0|]; [discriminate|].
        destruct (parse_limit v) as [n|e] eqn:Ep; cbn [bind]; [|discriminate].
        intros H. apply IH in H. destruct H as [Hc [[-> Hno]|[[=] _]]].
        split; [exact Hc|]. right. split; [reflexivity|].
        exists [], v, r. cbn [app]. repeat split; auto. discriminate.
      + intros H. apply IH in H. destruct H as [Hc Hl].
        split.
        { rewrite Hc. cbn [rev]. rewrite <- app_assoc. reflexivity. }
        destruct Hl as [[-> Hno]|[-> (pre & v0 & post & -> & Hp & Hnn & Hpre & Hpost)]].
        * left. split; [reflexivity|]. intros v' [E|Hin]; [congruence|]. eapply Hno; eauto.
        * right. split; [reflexivity|].
          exists ((k, v) :: pre), v0, post. cbn [app]. repeat split; auto.
          intros v' [E|Hin]; [congruence|]. eapply Hpre; eauto.
  Qed.

  Lemma split_fields_refusal_400 : forall kvs lim col e,
    split_fields kvs lim col = Err e -> status_of e = 400.
  Proof.
    tidy scan_de Scan env_ser env_de.
    induction kvs as [|[k v] r IH]; intros lim col e; cbn [split_fields]; [discriminate|].
    destruct (str_eqb k K_LIMIT).
    - destruct lim; [intros [= <-]; reflexivity|].
      destruct (parse_limit v) as [n|e'] eqn:Ep; cbn [bind].
      + apply IH.
      + intros [= <-]. eapply parse_limit_refusal_400; eauto.
    - apply IH.
  Qed.

  (* every refusal of a pagination query is a 400 *)
  Theorem parse_params_refusal_400 : forall kvs e,
    parse_params kvs = Err e -> status_of e = 400.
  Proof.
    tidy scan_de Scan env_ser env_de.
    intros kvs e. unfold PageToken.parse_params.
    destruct (split_fields kvs None []) as [[l c]|e1] eqn:E1; cbn [bind].
    2:{ intros [= <-]. eapply split_fields_refusal_400; eauto. }
    cbn [snd fst].
    destruct (deserialize_whichpage c) as [p|e2] eqn:E2; cbn [bind]; [discriminate|].
    intros [= <-]. eapply whichpage_refusal_400; eauto.
  Qed.

  (* with a page_token among the parameters: accepted iff the (last) token is
     accepted, and the page is the token's selector — whatever the other
     parameters are (scan parameters missing, present, or invalid) *)
  Theorem params_token_alone_decides : forall kvs t p,
    lookup_last K_PAGE_TOKEN kvs = Some t ->
    parse_params kvs = Ok p ->
    exists s, deserialize t = Ok s /\ pp_page p = Next s.
  Proof.
    tidy scan_de Scan env_ser env_de.
    intros kvs t p Ht. unfold PageToken.parse_params.
    destruct (split_fields kvs None []) as [[l c]|e1] eqn:E1; cbn [bind]; [|discriminate].
    cbn [snd fst].
    apply split_fields_spec in E1. destruct E1 as [-> _]. cbn [rev app].
    rewrite (token_present_next _ t)
      by (rewrite lookup_last_filter by exact page_token_not_limit; exact Ht).
    destruct (deserialize t) as [s|e]; cbn [bind]; [|discriminate].
    intros [= <-]. exists s. auto.
  Qed.

  Theorem params_bad_token_refused : forall kvs t e,
    lookup_last K_PAGE_TOKEN kvs = Some t ->
    deserialize t = Err e ->
    exists e', parse_params kvs = Err e' /\ status_of e' = 400.
  Proof.
    tidy scan_de Scan env_ser env_de.
    intros kvs t e Ht He.
    destruct (parse_params kvs) as [p|e'] eqn:E.
    - destruct (params_token_alone_decides kvs t p Ht E) as (s & Hs & _). congruence.
    - exists e'. split; [reflexivity|]. eapply parse_params_refusal_400; eauto.
  Qed.

  (* the limit a handler sees is the parsed value of the one [limit] entry *)
  Theorem params_limit : forall kvs p,
    parse_params kvs = Ok p ->
    match pp_limit p with
    | None => forall v, ~ In (K_LIMIT, v) kvs
    | Some l => exists pre v post, kvs = pre ++ (K_LIMIT, v) :: post /\
                                   parse_limit v = Ok l /\ 1 <= l /\ l <= U32_MAX
    end.
  Proof.
    tidy scan_de Scan env_ser env_de.
    intros kvs p. unfold PageToken.parse_params.
    destruct (split_fields kvs None []) as [[l c]|e1] eqn:E1; cbn [bind]; [|discriminate].
    cbn [snd fst].
    destruct (deserialize_whichpage c) as [pg|e2]; cbn [bind]; [|discriminate].
    intros [= <-]. cbn [pp_limit].
    apply split_fields_spec in E1.
    destruct E1 as [_ [[-> Hno]|[_ (pre & v & post & -> & Hp & Hnn & _)]]].
    - exact Hno.
    - destruct l as [n|]; [|congruence].
      exists pre, v, post. split; [reflexivity|]. split; [exact Hp|].
      apply parse_limit_accepts_iff in Hp.
      destruct Hp as (ds & _ & _ & _ & _ & H1 & H2). auto.
  Qed.

  (* ---- facts that need the envelope library's round-trip contract ---- *)

  (* serde_json: what to_vec writes for SerializedToken{v: V1, page_start: s},
     from_slice reads back as (V1, s); the bytes written are bytes *)
  Hypothesis env_round_trip : forall s bs, env_ser s = Some bs -> env_de bs = Some (V1, s).
  Hypothesis env_bytes : forall s bs, env_ser s = Some bs -> bytes_ok bs = true.

  (* token_round_trip *)
  Theorem token_round_trip : forall s t, serialize s = Ok t -> deserialize t = Ok s.
  Proof using env_round_trip env_bytes.
    tidy scan_de Scan env_ser env_de.
    intros s t H. pose proof (issued_within_bound s t H) as Hl.
    apply serialize_ok_iff in H. destruct H as (bs & Es & -> & _).
    apply refusal_complete. split; [exact Hl|].
    exists bs. split.
    - apply b64_round_trip. eapply env_bytes; eauto.
    - apply env_round_trip. exact Es.
  Qed.

  (* an issued token presented as page_token (with any other parameters and at
     most one well-formed limit) selects exactly the page it was issued for *)
  Theorem issued_token_selects_page : forall s t kvs p,
    serialize s = Ok t ->
    lookup_last K_PAGE_TOKEN kvs = Some t ->
    parse_params kvs = Ok p -> pp_page p = Next s.
  Proof using env_round_trip env_bytes.
    tidy scan_de Scan env_ser env_de.
    intros s t kvs p Hs Ht Hp.
    destruct (params_token_alone_decides kvs t p Ht Hp) as (s' & Hd & ->).
    rewrite (token_round_trip s t Hs) in Hd. congruence.
  Qed.
End CodecProofs.

(* token_alone_decides, stated across two requests and two scan-parameter
   readers: same last page_token => same page *)
Theorem token_alone_decides : forall Sel Scan env_de scan_de1 scan_de2 raw1 raw2 t,
  lookup_last K_PAGE_TOKEN raw1 = Some t ->
  lookup_last K_PAGE_TOKEN raw2 = Some t ->
  deserialize_whichpage Sel Scan env_de scan_de1 raw1 =
  deserialize_whichpage Sel Scan env_de scan_de2 raw2.
Proof.
  intros Sel Scan env_de sd1 sd2 raw1 raw2 t H1 H2.
  rewrite (token_present_next Sel Scan env_de sd1 raw1 t H1).
  rewrite (token_present_next Sel Scan env_de sd2 raw2 t H2). reflexivity.
Qed.
