(* RankEmbed.v — ranking a version against a finite chain of known versions:
     rank chain v = 2 * #{c in chain | c < v} + (1 if v is in the chain)
   preserves every comparison in which at least one side is a chain element:
   an order embedding relative to the chain (VersionsEmbed.v).  Elements of the
   chain get odd ranks, versions strictly between two neighbours the even
   number between their ranks.  No sortedness or distinctness of the chain is
   needed. *)
From DS Require Import Base Versions VersionsProofs.
From Coq Require Import Lia.

Section Rank.
  Variable V : Type.
  Variable cmp : V -> V -> comparison.
  Variable bot : V.
  Hypothesis TO : total_order V cmp bot.

  Definition count_lt (chain : list V) (v : V) : nat := length (filter (fun c => vlt V cmp c v) chain).
  Definition memb (chain : list V) (v : V) : bool := existsb (fun c => veq V cmp c v) chain.
  Definition rank (chain : list V) (v : V) : N :=
    2 * N.of_nat (count_lt chain v) + (if memb chain v then 1 else 0).

  Lemma filter_le {A} (p q : A -> bool) (l : list A) :
    (forall x, In x l -> p x = true -> q x = true) -> (length (filter p l) <= length (filter q l))%nat.
  Proof.
    induction l as [|a l IH]; cbn [filter]; intros H; [lia|].
    assert (IH' := IH (fun x Hx => H x (or_intror Hx))).
    destruct (p a) eqn:Hp.
    - rewrite (H a (or_introl eq_refl) Hp). cbn [length]. lia.
    - destruct (q a); cbn [length]; lia.
  Qed.

  Lemma filter_lt {A} (p q : A -> bool) (l : list A) c :
    (forall x, In x l -> p x = true -> q x = true) -> In c l -> p c = false -> q c = true ->
    (length (filter p l) < length (filter q l))%nat.
  Proof.
    induction l as [|a l IH]; cbn [filter In]; intros H Hin Hp Hq; [destruct Hin|].
    assert (Hle := filter_le p q l (fun x Hx => H x (or_intror Hx))).
    destruct Hin as [->|Hin].
    - rewrite Hp, Hq. cbn [length]. lia.
    - specialize (IH (fun x Hx => H x (or_intror Hx)) Hin Hp Hq).
      destruct (p a) eqn:Hpa.
      + rewrite (H a (or_introl eq_refl) Hpa). cbn [length]. lia.
      + destruct (q a); cbn [length]; lia.
  Qed.

  Lemma memb_in chain v : memb chain v = true <-> In v chain.
  Proof.
    unfold memb. rewrite existsb_exists. split.
    - intros (c & Hc & He). apply (veq_iff V cmp bot TO) in He. subst c. exact Hc.
    - intros H. exists v. split; [exact H|]. apply (veq_iff V cmp bot TO). reflexivity.
  Qed.

  Lemma vlt_true a b : vlt V cmp a b = true <-> cmp a b = Lt.
  Proof. unfold vlt. destruct (cmp a b); split; congruence. Qed.

  (* comparisons against a chain element are preserved *)
  Theorem rank_vs_chain chain v c : In c chain -> N.compare (rank chain v) (rank chain c) = cmp v c.
  Proof.
    intros Hc. unfold rank. rewrite (proj2 (memb_in chain c) Hc).
    destruct (cmp v c) eqn:Hvc.
    - (* v = c *)
      apply (to_eq V cmp bot TO) in Hvc. subst v. rewrite (proj2 (memb_in chain c) Hc). apply N.compare_refl.
    - (* v < c *)
      assert (Hmono : forall x, In x chain -> vlt V cmp x v = true -> vlt V cmp x c = true).
      { intros x _ Hx. apply vlt_true in Hx. apply vlt_true. eapply (to_trans V cmp bot TO); eauto. }
      pose proof (filter_le _ _ chain Hmono) as Hle. fold (count_lt chain v) in Hle. fold (count_lt chain c) in Hle.
      apply N.compare_lt_iff.
      destruct (memb chain v) eqn:Hm; [|lia].
      apply memb_in in Hm.
      assert (Hlt : (count_lt chain v < count_lt chain c)%nat).
      { apply (filter_lt _ _ chain v Hmono Hm).
        - unfold vlt. rewrite (to_refl V cmp bot TO). reflexivity.
        - apply vlt_true. exact Hvc. }
      lia.
    - (* c < v *)
      assert (Hcv : cmp c v = Lt).
      { rewrite (to_antisym V cmp bot TO v c), Hvc. reflexivity. }
      assert (Hmono : forall x, In x chain -> vlt V cmp x c = true -> vlt V cmp x v = true).
      { intros x _ Hx. apply vlt_true in Hx. apply vlt_true. eapply (to_trans V cmp bot TO); eauto. }
      assert (Hlt : (count_lt chain c < count_lt chain v)%nat).
      { apply (filter_lt _ _ chain c Hmono Hc).
        - unfold vlt. rewrite (to_refl V cmp bot TO). reflexivity.
        - apply vlt_true. exact Hcv. }
      apply N.compare_gt_iff. destruct (memb chain v); lia.
  Qed.

  (* ... whichever side the chain element is on: [rank chain] is an order
     embedding relative to the chain *)
  Theorem rank_embeds chain a b :
    In a chain \/ In b chain -> N.compare (rank chain a) (rank chain b) = cmp a b.
  Proof.
    intros [Ha|Hb]; [|apply rank_vs_chain; exact Hb].
    rewrite N.compare_antisym, (rank_vs_chain chain b a Ha), (to_antisym V cmp bot TO b a).
    destruct (cmp b a); reflexivity.
  Qed.

  (* chain elements get odd ranks, everything else even ones *)
  Lemma rank_parity chain v : N.odd (rank chain v) = memb chain v.
  Proof.
    unfold rank. destruct (memb chain v).
    - rewrite N.add_comm, N.odd_add_mul_2. reflexivity.
    - rewrite N.add_0_r, N.odd_mul, N.odd_2. reflexivity.
  Qed.
End Rank.
