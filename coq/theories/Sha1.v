(* Sha1.v — executable SHA-1 (FIPS 180-4 §6.1 / RFC 3174) over byte lists.

   dropshot's [derive_accept_key] (websocket.rs) feeds the request key and the
   RFC 6455 GUID to the [sha1] crate and base64-encodes the 20-byte digest.
   The crate is a library; this file is an independent definition of the
   function it is supposed to compute, used (a) as the specification of the
   accept digest and (b), evaluated by the kernel, as the reference the
   implementation's Sec-WebSocket-Accept is compared with on every run.

   Words are [N] kept below 2^32 by an explicit reduction [w32] after every
   operation that can leave the range (addition, left shift).  [w32] is
   written with [N.land] (cheap under vm_compute); Sha1Proofs.v proves
   [w32 x = x mod 2^32].

   Definitions only; proofs and test vectors are in Sha1Proofs.v. *)
From DS Require Import Base.

Definition mask32 : N := 4294967295.            (* 2^32 - 1 *)
Definition w32 (x : N) : N := N.land x mask32.  (* x mod 2^32 *)

Definition add32 (a b : N) : N := w32 (a + b).
(* rotate left by n (0 < n < 32) of a word < 2^32 *)
Definition rotl32 (n x : N) : N :=
  N.lor (w32 (N.shiftl x n)) (N.shiftr x (32 - n)).
(* bitwise complement within 32 bits *)
Definition not32 (x : N) : N := N.lxor (w32 x) mask32.

(* ---------- padding (FIPS 180-4 §5.1.1) ---------- *)

(* number of zero bytes after the 0x80 marker so that the total length,
   including the 8 length bytes, is a multiple of 64 *)
Definition pad_zeros (len : N) : N := (119 - len mod 64) mod 64.

(* big-endian bytes of a 64-bit quantity *)
Definition be64 (x : N) : list N :=
  [ (x / 72057594037927936) mod 256; (x / 281474976710656) mod 256;
    (x / 1099511627776) mod 256;     (x / 4294967296) mod 256;
    (x / 16777216) mod 256;          (x / 65536) mod 256;
    (x / 256) mod 256;               x mod 256 ].

Definition sha1_pad (m : list N) : list N :=
  let len := N.of_nat (length m) in
  m ++ 128 :: repeat 0 (N.to_nat (pad_zeros len)) ++ be64 (8 * len).

(* ---------- bytes to big-endian 32-bit words ---------- *)

Fixpoint words_of_bytes (bs : list N) : list N :=
  match bs with
  | a :: b :: c :: d :: rest =>
      (a * 16777216 + b * 65536 + c * 256 + d) :: words_of_bytes rest
  | _ => []
  end.

Definition bytes_of_word (w : N) : list N :=
  [ (w / 16777216) mod 256; (w / 65536) mod 256; (w / 256) mod 256; w mod 256 ].

(* ---------- message schedule (§6.1.2 step 1) ---------- *)

(* [win] holds W(t-16) .. W(t-1); emits W(t-16) and slides.  Called with the
   16 words of a block it emits W(0) .. W(n-1).  The last branch is taken only
   when the window does not hold 16 words, which never happens (the schedule
   of a 16-word block has 80 words: [schedule_length] in Sha1Proofs.v). *)
Fixpoint expand (n : nat) (win : list N) : list N :=
  match n with
  | O => []
  | S n' =>
      match win with
      | [w0; w1; w2; w3; w4; w5; w6; w7; w8; w9; w10; w11; w12; w13; w14; w15] =>
          let nw := rotl32 1 (N.lxor (N.lxor (N.lxor w13 w8) w2) w0) in
          w0 :: expand n'
                  [w1; w2; w3; w4; w5; w6; w7; w8; w9; w10; w11; w12; w13; w14; w15; nw]
      | _ => []
      end
  end.

Definition schedule (block : list N) : list N := expand 80 block.

(* ---------- round function and constants (§4.1.1, §4.2.1) ---------- *)

Definition f_t (t : N) (b c d : N) : N :=
  if t <? 20 then N.lor (N.land b c) (N.land (not32 b) d)                 (* Ch *)
  else if t <? 40 then N.lxor (N.lxor b c) d                              (* Parity *)
  else if t <? 60 then N.lor (N.lor (N.land b c) (N.land b d)) (N.land c d) (* Maj *)
  else N.lxor (N.lxor b c) d.                                             (* Parity *)

Definition k_t (t : N) : N :=
  if t <? 20 then 1518500249        (* 5a827999 *)
  else if t <? 40 then 1859775393   (* 6ed9eba1 *)
  else if t <? 60 then 2400959708   (* 8f1bbcdc *)
  else 3395469782.                  (* ca62c1d6 *)

Record state := St { sa : N; sb : N; sc : N; sd : N; se : N }.

Definition init_state : state :=
  St 1732584193 4023233417 2562383102 271733878 3285377520.
  (* 67452301 efcdab89 98badcfe 10325476 c3d2e1f0 *)

(* one round per word of the schedule, t counting from the given start *)
Fixpoint rounds (t : N) (ws : list N) (s : state) : state :=
  match ws with
  | [] => s
  | w :: ws' =>
      let '(St a b c d e) := s in
      let tmp := add32 (add32 (add32 (add32 (rotl32 5 a) (f_t t b c d)) e) (k_t t)) w in
      rounds (t + 1) ws' (St tmp a (rotl32 30 b) c d)
  end.

Definition compress (h : state) (block : list N) : state :=
  let r := rounds 0 (schedule block) h in
  St (add32 (sa h) (sa r)) (add32 (sb h) (sb r)) (add32 (sc h) (sc r))
     (add32 (sd h) (sd r)) (add32 (se h) (se r)).

(* process [n] consecutive 16-word blocks *)
Fixpoint sha1_blocks (n : nat) (ws : list N) (h : state) : state :=
  match n with
  | O => h
  | S n' => sha1_blocks n' (skipn 16 ws) (compress h (firstn 16 ws))
  end.

Definition digest_bytes (h : state) : list N :=
  bytes_of_word (sa h) ++ bytes_of_word (sb h) ++ bytes_of_word (sc h)
    ++ bytes_of_word (sd h) ++ bytes_of_word (se h).

Definition sha1 (m : list N) : list N :=
  let ws := words_of_bytes (sha1_pad m) in
  digest_bytes (sha1_blocks (length ws / 16) ws init_state).

(* lower-case hex, for the published test vectors *)
Definition hex_digit (n : N) : N := if n <? 10 then n + 48 else n + 87.
Definition hex (bs : list N) : str :=
  flat_map (fun b => [hex_digit (b / 16); hex_digit (b mod 16)]) bs.
