(* BodyCap.v — the request-body size cap (property C11).  Executable model, no
   proofs here (BodyCapProofs.v has them).

   Transcribed from
     dropshot/src/handler.rs      RequestContext::request_body_max_bytes
     dropshot/src/router.rs       lookup_route (RequestEndpointMetadata built
                                  from the matched handler entry)
     dropshot/src/extractor/body.rs
         StreamingBody::new / into_stream / into_bytes_mut / from_request,
         UntypedBody::from_request, http_request_load_body (TypedBody),
         MultipartBody::from_request
     dropshot/src/http_util.rs    http_dump_body

   Numbers are unbounded N.  The one machine-integer operation of the Rust
   (the usize addition [bytes_read + len]) is also given in its wrapping form
   ([stream64]); BodyCapProofs.stream64_eq shows the two coincide under the
   explicit side condition [cap < 2^64] and [total_data fs < 2^64]. *)
From DS Require Import Base.

(* ------------------------------------------------------------------ *)
(* 1. which cap is in force                                            *)

(* handler.rs:182  self.endpoint.request_body_max_bytes
                       .unwrap_or(self.server.config.default_request_body_max_bytes) *)
Definition effective_cap (override : option N) (default : N) : N :=
  match override with
  | Some n => n
  | None => default
  end.

(* ApiEndpointBodyContentType *)
Inductive bct := CBytes | CJson | CUrlEncoded | CMultipart.

Definition bct_eqb (a b : bct) : bool :=
  match a, b with
  | CBytes, CBytes | CJson, CJson | CUrlEncoded, CUrlEncoded | CMultipart, CMultipart => true
  | _, _ => false
  end.

(* the part of ApiEndpoint that matters here *)
Record endpoint_decl := { ed_max : option N; ed_ct : bct }.
(* RequestEndpointMetadata *)
Record req_meta := { rm_max : option N; rm_ct : bct }.

(* router.rs lookup_route, the Ok arm:
     body_content_type: handler.body_content_type.clone(),
     request_body_max_bytes: handler.request_body_max_bytes        *)
Definition lookup_meta (e : endpoint_decl) : req_meta :=
  {| rm_max := ed_max e; rm_ct := ed_ct e |}.

(* RequestContext: the endpoint metadata and the server configuration *)
Record rqctx := { rq_endpoint : req_meta; rq_default : N }.

Definition request_body_max_bytes (rq : rqctx) : N :=
  effective_cap (rm_max (rq_endpoint rq)) (rq_default rq).

(* ------------------------------------------------------------------ *)
(* 2. frames and the capped stream                                     *)

(* What [body.frame().await] can produce: Some(Ok(data frame)),
   Some(Ok(trailers frame)), Some(Err(e)); None = end of list. *)
Inductive frame :=
| FData (bs : str)
| FTrailers
| FErr.

Inductive outcome :=
| Done          (* the stream ended normally *)
| Refused400    (* "request body exceeded maximum size": HttpError 400 *)
| NetErr400.    (* "error streaming request body": HttpError 400 *)

Definition outcome_eqb (a b : outcome) : bool :=
  match a, b with
  | Done, Done | Refused400, Refused400 | NetErr400, NetErr400 => true
  | _, _ => false
  end.

(* HttpError::for_bad_request in both error arms *)
Definition outcome_status (o : outcome) : option N :=
  match o with
  | Done => None
  | Refused400 => Some 400
  | NetErr400 => Some 400
  end.

Definition blen (bs : str) : N := N.of_nat (length bs).

(* where the generator of [into_stream] is *)
Inductive phase :=
| PRun                 (* in the [while let] loop *)
| PDrain               (* inside http_dump_body after the cap test fired *)
| PEnd (o : outcome).  (* the generator has returned; the body is not polled again *)

Record sst := St {
  ph : phase;
  bytes_read : N;
  out_rev : list str;   (* chunks yielded so far, newest first *)
  polled : N            (* frames pulled from the body so far *)
}.

Definition init : sst := St PRun 0 [] 0.

(* One frame pulled from the body.  [add] is the addition used for
   [bytes_read + len] (unbounded, or wrapping at 2^64). *)
Definition step_with (add : N -> N -> N) (cap : N) (s : sst) (f : frame) : sst :=
  match ph s with
  | PEnd _ => s
  | PRun =>
      match f with
      | FErr =>
          (* frame_res.map_err(for_bad_request)? *)
          St (PEnd NetErr400) (bytes_read s) (out_rev s) (polled s + 1)
      | FTrailers =>
          (* let Ok(buf) = frame.into_data() else { continue } *)
          St PRun (bytes_read s) (out_rev s) (polled s + 1)
      | FData bs =>
          let len := blen bs in
          if cap <? add (bytes_read s) len
          then (* if bytes_read + len > self.cap { http_dump_body(..) ... } *)
            St PDrain (bytes_read s) (out_rev s) (polled s + 1)
          else (* bytes_read += len; yield buf; *)
            St PRun (add (bytes_read s) len) (bs :: out_rev s) (polled s + 1)
      end
  | PDrain =>
      (* http_dump_body: while let Some(maybefr) = body.frame().await
                            { let fr = maybefr?; ... } *)
      match f with
      | FErr => St (PEnd NetErr400) (bytes_read s) (out_rev s) (polled s + 1)
      | FTrailers | FData _ => St PDrain (bytes_read s) (out_rev s) (polled s + 1)
      end
  end.

Definition step := step_with N.add.

(* the body returned None *)
Definition finish (s : sst) : outcome :=
  match ph s with
  | PRun => Done               (* loop exits, stream ends *)
  | PDrain => Refused400       (* dump returned Ok; Err(for_bad_request(..))? *)
  | PEnd o => o
  end.

Definition run (cap : N) (fs : list frame) : sst := fold_left (step cap) fs init.

(* [rev'] is the linear-time reversal (the standard [rev] is quadratic; bodies
   of tens of thousands of frames are evaluated); BodyCapProofs.yielded_rev *)
Definition yielded (s : sst) : list str := rev' (out_rev s).

(* StreamingBody::new(body, cap).into_stream(), pulled to its end: the chunks
   yielded, in order, and how the stream ended. *)
Definition stream (cap : N) (fs : list frame) : list str * outcome :=
  let s := run cap fs in (yielded s, finish s).

(* number of frames the stream pulled from the body *)
Definition frames_polled (cap : N) (fs : list frame) : N := polled (run cap fs).

(* the same with the machine addition *)
Definition two64 : N := 18446744073709551616.
Definition add64 (a b : N) : N := (a + b) mod two64.
Definition run64 (cap : N) (fs : list frame) : sst :=
  fold_left (step_with add64 cap) fs init.
Definition stream64 (cap : N) (fs : list frame) : list str * outcome :=
  let s := run64 cap fs in (yielded s, finish s).

(* ------------------------------------------------------------------ *)
(* 2b. the same stream on frame LENGTHS only.  The code looks at a data
   frame only through [buf.len()]; BodyCapProofs.stream_len_abs shows this
   abstraction is exact (chunk sizes yielded, outcome, frames pulled).  Used
   to evaluate the model on bodies too large to write down byte by byte
   (mebibytes, gibibytes). *)
Inductive lframe :=
| LData (n : N)
| LTrailers
| LErr.

Definition lframe_of (f : frame) : lframe :=
  match f with
  | FData bs => LData (blen bs)
  | FTrailers => LTrailers
  | FErr => LErr
  end.

Record lst := LSt {
  lph : phase;
  lbytes_read : N;
  lout_rev : list N;     (* sizes of the chunks yielded so far, newest first *)
  lpolled : N
}.

Definition linit : lst := LSt PRun 0 [] 0.

Definition lstep (cap : N) (s : lst) (f : lframe) : lst :=
  match lph s with
  | PEnd _ => s
  | PRun =>
      match f with
      | LErr => LSt (PEnd NetErr400) (lbytes_read s) (lout_rev s) (lpolled s + 1)
      | LTrailers => LSt PRun (lbytes_read s) (lout_rev s) (lpolled s + 1)
      | LData len =>
          if cap <? lbytes_read s + len
          then LSt PDrain (lbytes_read s) (lout_rev s) (lpolled s + 1)
          else LSt PRun (lbytes_read s + len) (len :: lout_rev s) (lpolled s + 1)
      end
  | PDrain =>
      match f with
      | LErr => LSt (PEnd NetErr400) (lbytes_read s) (lout_rev s) (lpolled s + 1)
      | LTrailers | LData _ => LSt PDrain (lbytes_read s) (lout_rev s) (lpolled s + 1)
      end
  end.

Definition lfinish (s : lst) : outcome :=
  match lph s with
  | PRun => Done
  | PDrain => Refused400
  | PEnd o => o
  end.

Definition lrun (cap : N) (ls : list lframe) : lst := fold_left (lstep cap) ls linit.

(* sizes of the chunks yielded, outcome *)
Definition stream_len (cap : N) (ls : list lframe) : list N * outcome :=
  let s := lrun cap ls in (rev' (lout_rev s), lfinish s).
Definition frames_polled_len (cap : N) (ls : list lframe) : N := lpolled (lrun cap ls).

(* sizes *)
Definition total (cs : list str) : N := fold_right (fun c a => blen c + a) 0 cs.

Definition data_of (f : frame) : list str :=
  match f with FData bs => [bs] | _ => [] end.
(* the data chunks of a frame list, and the body they spell *)
Definition data_frames (fs : list frame) : list str := flat_map data_of fs.
Definition body_of (fs : list frame) : str := concat (data_frames fs).
Definition total_data (fs : list frame) : N := total (data_frames fs).

Definition is_err (f : frame) : bool := match f with FErr => true | _ => false end.
Definition has_err (fs : list frame) : bool := existsb is_err fs.

(* StreamingBody::into_bytes_mut: try_fold(BytesMut::new(), put) *)
Definition into_bytes_mut (cap : N) (fs : list frame) : res N str :=
  match stream cap fs with
  | (ys, Done) => Ok (concat ys)
  | (_, Refused400) => Err 400
  | (_, NetErr400) => Err 400
  end.

(* ------------------------------------------------------------------ *)
(* 3. the body extractors                                              *)

(* what the Content-Type request header gives in http_request_load_body *)
Inductive req_ct :=
| RAbsent                (* .unwrap_or(Ok(CONTENT_TYPE_JSON)) *)
| RKnown (c : bct)       (* from_mime_type Ok *)
| RUnsupported           (* from_mime_type Err -> for_bad_request *)
| RNotText.              (* hv.to_str() Err -> for_bad_request *)

(* MultipartBody::from_request, before the body is touched *)
Inductive mp_header :=
| MHOk                   (* content-type present, text, has a boundary *)
| MHMissing              (* "missing content-type header" *)
| MHNotText              (* "invalid content type" *)
| MHBadBoundary.         (* multer::parse_boundary Err *)

Inductive xkind := XJson | XForm | XUntyped | XStreaming | XMultipart.

Section Extractors.
  (* Library behaviour entering as parameters: the deserialisers of a body
     type T (serde_json / serde_urlencoded through serde_path_to_error) and
     what a handler that reads every field obtains from a multer parser
     pulling the given stream (chunks, and how the stream ended). *)
  Variable T : Type.
  Variable json_de : str -> option T.
  Variable form_de : str -> option T.
  Variable M : Type.
  Variable multer : list str -> outcome -> M.

  Inductive delivery :=
  | DRefused (status : N)                 (* from_request is Err: the handler is not called *)
  | DTyped (v : T)                        (* TypedBody { inner } *)
  | DBytes (bs : str)                     (* UntypedBody { content } *)
  | DStream (chunks : list str) (o : outcome)
      (* StreamingBody: from_request is always Ok; the handler pulls
         into_stream() (to its end here; any earlier moment is a prefix,
         the prefix lemmas of BodyCapProofs) *)
  | DMultipart (m : M).                   (* MultipartBody { content } *)

  (* http_request_load_body: the body is read (capped) first, then the
     content type is examined *)
  Definition typed_body (rq : rqctx) (h : req_ct) (fs : list frame) : delivery :=
    match into_bytes_mut (request_body_max_bytes rq) fs with
    | Err st => DRefused st
    | Ok body =>
        let got : res N bct :=
          match h with
          | RAbsent => Ok CJson
          | RKnown c => Ok c
          | RUnsupported => Err 400
          | RNotText => Err 400
          end in
        match got with
        | Err st => DRefused st
        | Ok c =>
            match rm_ct (rq_endpoint rq), c with
            | CJson, CJson =>
                match json_de body with Some v => DTyped v | None => DRefused 400 end
            | CUrlEncoded, CUrlEncoded =>
                match form_de body with Some v => DTyped v | None => DRefused 400 end
            | _, _ => DRefused 400     (* expected content type .., got .. *)
            end
        end
    end.

  Definition untyped_body (rq : rqctx) (fs : list frame) : delivery :=
    match into_bytes_mut (request_body_max_bytes rq) fs with
    | Err st => DRefused st
    | Ok body => DBytes body
    end.

  Definition streaming_body (rq : rqctx) (fs : list frame) : delivery :=
    let '(ys, o) := stream (request_body_max_bytes rq) fs in DStream ys o.

  Definition multipart_body (rq : rqctx) (h : mp_header) (fs : list frame) : delivery :=
    match h with
    | MHOk =>
        let '(ys, o) := stream (request_body_max_bytes rq) fs in DMultipart (multer ys o)
    | MHMissing | MHNotText | MHBadBoundary => DRefused 400
    end.

  (* the request headers an extractor looks at *)
  Record req_hdrs := { h_ct : req_ct; h_mp : mp_header }.

  Definition extract (x : xkind) (rq : rqctx) (h : req_hdrs) (fs : list frame) : delivery :=
    match x with
    | XJson | XForm => typed_body rq (h_ct h) fs
    | XUntyped => untyped_body rq fs
    | XStreaming => streaming_body rq fs
    | XMultipart => multipart_body rq (h_mp h) fs
    end.

  (* the same, as a function of the capped stream's result only *)
  Definition bytes_of_stream (r : list str * outcome) : res N str :=
    match r with
    | (ys, Done) => Ok (concat ys)
    | (_, Refused400) => Err 400
    | (_, NetErr400) => Err 400
    end.

  Definition extract_via (x : xkind) (ct : bct) (h : req_hdrs)
             (r : list str * outcome) : delivery :=
    match x with
    | XJson | XForm =>
        match bytes_of_stream r with
        | Err st => DRefused st
        | Ok body =>
            match (match h_ct h with
                   | RAbsent => Ok CJson | RKnown c => Ok c
                   | RUnsupported => Err 400 | RNotText => Err 400 end) with
            | Err st => DRefused st
            | Ok c =>
                match ct, c with
                | CJson, CJson =>
                    match json_de body with Some v => DTyped v | None => DRefused 400 end
                | CUrlEncoded, CUrlEncoded =>
                    match form_de body with Some v => DTyped v | None => DRefused 400 end
                | _, _ => DRefused 400
                end
            end
        end
    | XUntyped =>
        match bytes_of_stream r with Err st => DRefused st | Ok body => DBytes body end
    | XStreaming => let '(ys, o) := r in DStream ys o
    | XMultipart =>
        match h_mp h with
        | MHOk => let '(ys, o) := r in DMultipart (multer ys o)
        | _ => DRefused 400
        end
    end.

  (* The body bytes an extractor makes available to the code behind it: the
     deserialiser's input, the handler's buffer, the chunks a streaming
     handler or the multipart parser can pull. *)
  Definition exposed (x : xkind) (cap : N) (h : req_hdrs) (fs : list frame) : str :=
    match x with
    | XJson | XForm | XUntyped =>
        match into_bytes_mut cap fs with Ok b => b | Err _ => [] end
    | XStreaming => concat (fst (stream cap fs))
    | XMultipart =>
        match h_mp h with MHOk => concat (fst (stream cap fs)) | _ => [] end
    end.

  Definition handler_called (d : delivery) : bool :=
    match d with DRefused _ => false | _ => true end.
End Extractors.

Arguments DRefused {T M} status.
Arguments DTyped {T M} v.
Arguments DBytes {T M} bs.
Arguments DStream {T M} chunks o.
Arguments DMultipart {T M} m.
