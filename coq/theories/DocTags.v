(* DocTags.v — model of the top-level [tags] array of the document
   (gen_openapi, api_description.rs): the ad hoc tags of every endpoint the
   version-filtered walk yields (published or not: the visibility filter comes
   later in gen_openapi) that the tag configuration does not define, gathered
   in a HashSet; chained after the configured tags (the keys of a HashMap);
   sorted by name.  The configured names are distinct, the ad hoc ones are
   distinct and differ from every configured one, so the sorted array is the
   strictly increasing enumeration of that set: [sort_uniq].  An operation
   carries the tags of its endpoint unchanged.  Model only; proofs in
   DocTagsProofs.v. *)
From DS Require Import Base Versions Router RouterSpec OpenApiGen.

Fixpoint ins_uniq (x : str) (l : list str) : list str :=
  match l with
  | [] => [x]
  | y :: l' =>
      match str_cmp x y with
      | Lt => x :: y :: l'
      | Eq => y :: l'
      | Gt => y :: ins_uniq x l'
      end
  end.
Definition sort_uniq (l : list str) : list str := fold_right ins_uniq [] l.

Section Tags.
  Variable V : Type.
  Variable cmp : V -> V -> comparison.
  (* the tags declared on an endpoint (ApiEndpoint::tags) *)
  Variable tags_of : endpoint V -> list str.

  Definition adhoc_tags (cfg : list str) (r : node V) (v : V) : list str :=
    filter (fun t => negb (mem_str t cfg))
           (flat_map (fun x => tags_of (snd x)) (iter V cmp r (Some v))).

  Definition doc_tags (cfg : list str) (r : node V) (v : V) : list str :=
    sort_uniq (cfg ++ adhoc_tags cfg r v).
End Tags.
