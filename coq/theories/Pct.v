(* Pct.v — percent-decoding as the Rust [percent-encoding] crate (2.3.1) does
   it, and a client-side percent-encoder.  Models only; proofs in PctProofs.v.

   The crate (src/lib.rs, [impl Iterator for PercentDecode], [after_percent_sign]):

     fn after_percent_sign(iter) -> Option<u8> {
         let mut cloned_iter = iter.clone();
         let h = char::from( *cloned_iter.next()? ).to_digit(16)?;
         let l = char::from( *cloned_iter.next()? ).to_digit(16)?;
         *iter = cloned_iter;
         Some(h as u8 * 0x10 + l as u8)
     }
     fn next(&mut self) -> Option<u8> {
         self.bytes.next().map(|&byte| {
             if byte == b'%' { after_percent_sign(&mut self.bytes).unwrap_or(byte) }
             else { byte }
         })
     }

   So: a single left-to-right pass; at a '%' look at the next two bytes; if both
   are hex digits (either case — [char::to_digit(16)]) emit one byte and skip
   all three; otherwise emit the '%' alone and continue with the byte right
   after it (which may itself be a '%' starting an escape: "%%41" -> "%A"). *)
From DS Require Import Base.

(* [char::from(u8).to_digit(16)]: '0'-'9' -> 0..9, 'a'-'f' / 'A'-'F' -> 10..15. *)
Definition hex_val (c : N) : option N :=
  if (48 <=? c) && (c <=? 57) then Some (c - 48)
  else if (97 <=? c) && (c <=? 102) then Some (c - 87)
  else if (65 <=? c) && (c <=? 70) then Some (c - 55)
  else None.

Fixpoint pct_decode (s : str) : str :=
  match s with
  | [] => []
  | c :: t =>
      if c =? 37 then
        match t with
        | h :: l :: rest =>
            match hex_val h, hex_val l with
            | Some a, Some b => (16 * a + b) :: pct_decode rest
            | _, _ => 37 :: pct_decode t
            end
        | _ => 37 :: pct_decode t
        end
      else c :: pct_decode t
  end.

(* RFC 3986 unreserved: ALPHA / DIGIT / "-" / "." / "_" / "~". *)
Definition unreserved (c : N) : bool :=
  ((65 <=? c) && (c <=? 90)) || ((97 <=? c) && (c <=? 122)) ||
  ((48 <=? c) && (c <=? 57)) ||
  (c =? 45) || (c =? 46) || (c =? 95) || (c =? 126).

Definition hex_digit_upper (n : N) : N := if n <? 10 then 48 + n else 55 + n.
Definition hex_digit_lower (n : N) : N := if n <? 10 then 48 + n else 87 + n.

Definition pct_encode_byte (hex : N -> N) (c : N) : str :=
  if unreserved c then [c] else [37; hex (c / 16); hex (c mod 16)].

Fixpoint pct_encode_with (hex : N -> N) (s : str) : str :=
  match s with
  | [] => []
  | c :: t => pct_encode_byte hex c ++ pct_encode_with hex t
  end.

Definition pct_encode (s : str) : str := pct_encode_with hex_digit_upper s.
Definition pct_encode_lower (s : str) : str := pct_encode_with hex_digit_lower s.
