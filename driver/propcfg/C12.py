"""C12 — typed responses are serialised faithfully with their declared status."""
from .common import COMMON_TB

CFG = {
    "harness": "c12",
    "coq_header": "From DS Require Import Base Response.\nFrom DSR Require Import Run_C12.",
    "case_type": "c12case",
    "judge": "judge",
    "rule": "typed: HttpResponse::to_result() on every response kind (Ok/Created/Accepted/Deleted/UpdatedNoContent) x "
            "every payload type of a compiled family (String, integer extremes, nested struct/enum/Option/Vec, "
            "Vec<Option<String>>, unit, map, a type whose serialisation fails, FreeformBody) x every header struct of "
            "a compiled family (0-3 string fields, mixed-case names, a declared Content-Type, two names equal up to "
            "case, an illegal name, non-string fields) once, then seeded random combinations with random values "
            "(non-ASCII, control characters, empty) and explicit header maps built by insert/append over "
            "overlapping names in other letter case; redirect: the three constructors over locations covering every "
            "byte value a Rust String can contain (alone and embedded) plus random ones, with explicit headers "
            "including Location; live-*: the same read over the wire from fixed-type endpoints. JSON bodies are "
            "parsed back into the payload type and compared with the original value. Non-trivial: every case; "
            "distinct by case content.",
    "exhaustive_note": "kind x payload type x header struct grid is complete for the compiled families; redirect "
                       "locations cover all 256 one-character strings U+0000-U+00FF and every UTF-8 lead/continuation "
                       "byte (all byte values except C0, C1, F5-FF, which no String contains); values and explicit "
                       "maps are sampled",
    "trusted_base": COMMON_TB + [
        "serde_json (library): to_string/from_slice enter the theorems as Section variables json_ser/json_de with the "
        "contract json_ser v = Some b -> json_de b = Some v (premise of C12_status_and_body); every run parses each "
        "JSON body back into the payload type and compares with the original (the contract is known to be false for "
        "Option<Option<T>> and non-finite floats, which the family excludes)",
        "http 1.3.1 (library): HeaderValue::from_str/from_bytes/TryFrom<String> validity (is_valid), "
        "HeaderName::from_bytes (token characters, lower-casing, length limit) and HeaderMap insert/append/"
        "extend(HeaderMap) are transcribed into Response.v and compared with the crate on every run",
        "to_map.rs is modelled for header *structs* whose fields serialise as strings or as anything else (FOther => "
        "error); serde attributes that change the shape (flatten, skip_serializing_if, non-struct H) are not modelled",
        "schemars/serde derive for the compiled families; hyper/tokio/loopback TCP for the live slice",
    ],
    "assumptions": [
        "header maps stay below http's 32768-entry limit",
        "the payload family stands for JsonSchema + Serialize types; floats are excluded from comparison",
    ],
    "manifest": {
        "category": "proof",
        "text": "Unbounded Coq theorems about a transcribed model of for_object / HttpResponseContent::to_response / "
                "the response types / redirect constructors / HttpResponseHeaders::to_result / to_map over a "
                "transcribed model of http's HeaderMap (insert, append, extend) and header legality: status constant "
                "and body per kind (JSON body round-trips by the serde_json contract, empty body and no headers for "
                "no-content kinds), the complete header algebra (explicit values, else the declared value, else what "
                "the body set), declared headers sent unless overridden, explicit override exactly, exact acceptance "
                "condition with every refusal a 500, redirect accepted iff the location is a legal header value and "
                "then sent byte for byte. Correspondence: to_result() of the real crate on the full kind x payload x "
                "header-struct grid, all location bytes, sampled values and explicit maps, and a live slice.",
        "design_ref": "DESIGN.md §6 C12",
        "note": "Coq kernel + vm_compute; hand-written model tied by this run; serde_json is a library contract "
                "(exercised by the body round trip). Open known finding K12 (a declared header field that is not a "
                "plain string makes every response a 500).",
        "technique": "Coq proof (header-map algebra) + grid-exhaustive and sampled correspondence + live slice",
    },
}
