"""C12 — typed responses are serialised faithfully with their declared status."""
from .common import COMMON_TB

CFG = {
    "harness": "c12",
    "coq_header": "From DS Require Import Base Response.\nFrom DSR Require Import Run_C12.",
    "case_type": "c12case",
    "judge": "judge",
    "rule": "typed: HttpResponse::to_result() on every response kind (Ok/Created/Accepted/Deleted/UpdatedNoContent) x "
            "every payload type of a compiled family (String, integer extremes, nested struct/enum/Option/Vec, "
            "Vec<Option<String>>, unit, map, a type whose serialisation fails, FreeformBody) x every header struct of "
            "a compiled family (0-3 string fields, mixed-case names, a declared Content-Type, two names equal up to "
            "case, an illegal name, non-string fields) once, then seeded random combinations with random values "
            "(non-ASCII, control characters, empty) and explicit header maps built by insert/append over "
            "overlapping names in other letter case; redirect: the three constructors over locations covering every "
            "byte value a Rust String can contain (alone and embedded) plus random ones, with explicit headers "
            "including Location; live-*: the same read over the wire from fixed-type endpoints. JSON bodies are "
            "parsed back into the payload type and compared with the original value. Non-trivial: every case; "
            "distinct by case content."
            " Large-scope slice (groups large / large-live, tags large:<dimension>:<n>): every size-like dimension pushed across 15/16/17, 31..33, 63..65, 127..129, 255..257, 1023..1025, 4095..4097, 8191..8193, 65535..65537 (thorough also 1 MiB-1/+0/+1): JSON string body, FreeformBody and array-of-n-elements body for each of Ok/Created/Accepted (ASCII and 2/3/4-byte characters straddling 255|256, 4095|4096, 65535|65536), nesting depth 15..65 (serde_json's reader stops at 128), length of a declared header value, of an explicit header value and of a redirect Location (legal, and illegal in the last byte), locally and over the wire; number of declared header fields (a header struct with a run-time field list driving to_map through serialize_struct/serialize_field), of explicit headers and of values under one name - every round number up to 257 plus one 1024 case in quick, up to 1025 plus 4095/4096/4097 in thorough (the model's header map is an association list, Coq time is quadratic in the count; http's HeaderMap itself ends at 32768 entries); 1030 (thorough 8200) responses of four kinds on one keep-alive connection. Same judge, same model and spec as the ordinary cases. Long periodic strings are written in the Coq case as srep n unit (lossless); strings above 200000 bytes (the 1 MiB cases) are replaced in the Coq case by a token (first/last 16 bytes, length, 64-bit FNV-1a hash, the first illegal header byte if any) that preserves every equality and legality test the judge makes, up to hash collision.",
    "exhaustive_note": "kind x payload type x header struct grid is complete for the compiled families; redirect "
                       "locations cover all 256 one-character strings U+0000-U+00FF and every UTF-8 lead/continuation "
                       "byte (all byte values except C0, C1, F5-FF, which no String contains); values and explicit "
                       "maps are sampled",
    "trusted_base": COMMON_TB + [
        "serde_json (library): to_string/from_slice enter the theorems as Section variables json_ser/json_de with the "
        "contract json_ser v = Some b -> json_de b = Some v (premise of C12_status_and_body); every run parses each "
        "JSON body back into the payload type and compares with the original (the contract is known to be false for "
        "Option<Option<T>> and non-finite floats, which the family excludes)",
        "http 1.3.1 (library): HeaderValue::from_str/from_bytes/TryFrom<String> validity (is_valid), "
        "HeaderName::from_bytes (token characters, lower-casing, length limit) and HeaderMap insert/append/"
        "extend(HeaderMap) are transcribed into Response.v and compared with the crate on every run",
        "to_map.rs is modelled for header *structs* whose fields serialise as strings or as anything else (FOther => "
        "error); serde attributes that change the shape (flatten, skip_serializing_if, non-struct H) are not modelled",
        "schemars/serde derive for the compiled families; hyper/tokio/loopback TCP for the live slice",
    ],
    "assumptions": [
        "header maps stay below http's 32768-entry limit",
        "the payload family stands for JsonSchema + Serialize types; floats are excluded from comparison",
    ],
    "manifest": {
        "category": "proof",
        "text": "Unbounded Coq theorems about a transcribed model of for_object / HttpResponseContent::to_response / "
                "the response types / redirect constructors / HttpResponseHeaders::to_result / to_map over a "
                "transcribed model of http's HeaderMap (insert, append, extend) and header legality: status constant "
                "and body per kind (JSON body round-trips by the serde_json contract, empty body and no headers for "
                "no-content kinds), the complete header algebra (explicit values, else the declared value, else what "
                "the body set), declared headers sent unless overridden, explicit override exactly, exact acceptance "
                "condition with every refusal a 500, redirect accepted iff the location is a legal header value and "
                "then sent byte for byte. Correspondence: to_result() of the real crate on the full kind x payload x "
                "header-struct grid, all location bytes, sampled values and explicit maps, and a live slice.",
        "design_ref": "DESIGN.md §6 C12",
        "note": "Coq kernel + vm_compute; hand-written model tied by this run; serde_json is a library contract "
                "(exercised by the body round trip). Open known finding K12 (a declared header field that is not a "
                "plain string makes every response a 500).",
        "technique": "Coq proof (header-map algebra) + grid-exhaustive and sampled correspondence + live slice",
    },
}
