"""C10 — invalid input is refused with a 4xx before any handler runs."""
from .common import COMMON_TB

_HDR = ("From DS Require Import Base Utf8 Pct Scalars Query Extract.\n"
        "From DSR Require Import Run_C10.")

CFG = {
    "harness": "extract:c10",
    "run_module": "Run_C10",
    "coq_header": _HDR,
    "case_type": "ccase",
    "judge": "judge10",
    "rule": "malformed streams only, separate from C09's: the same live server and endpoint family; per parameter "
            "position (path: single variable of every scalar type, each of three variables, typed head and elements "
            "of a wildcard, Option; typed wildcards Vec<Color> / Vec<Uuid> / Vec<char> with ONE ill-typed element alone, "
            "first, in the middle or last among valid ones (sometimes two); query: required / Option / defaulted field of every scalar type, mixed struct; "
            "url-encoded and JSON body members; all three extractors at once with exactly one bad; a message-vocabulary stream (ill-typed values built from the framework's own error words - 'missing field', "
            "'missing field: x', 'duplicate field `x`', 'unknown variant', 'invalid type', 'unable to parse', 'expected' - "
            "alone / as prefix / as suffix / in the middle, in every typed path shape, in query, JSON and form members); "
            "a multi-fault stream over five "
            "endpoint shapes with two or three extractors (Path+Query, Path+Query+JSON, Path+form, Query+Untyped, "
            "Path+Query+Multipart; body limit 256): every non-empty subset of {path, query, body} faulty at once, two or "
            "three concrete faults per stage (body: content type / syntax / type / duplicate field / too large)) one malformation "
            "of {wrong type, one past either end of the range, unknown variant, empty, omitted, duplicated, dot "
            "segment, ill-formed UTF-8}; JSON bodies truncated at EVERY prefix length of a valid document, "
            "wrong-typed / missing / duplicated members, extra and trailing commas, trailing garbage, two documents, "
            "ill-formed strings; wrong / unknown / garbage / non-ASCII / missing content types for JSON, url-encoded "
            "and multipart endpoints (missing boundary, unterminated quote, not multipart); requests refused in front "
            "of the extractors (router: variable omitted; HTTP parser: raw space / control byte in the target). "
            "A deterministic large-scope slice (group large, tags large:<dimension>:<size>) with ONE fault placed very late: the "
            "17th / 257th / 1025th element of a typed wildcard, the byte after 15 .. 8193 leading zeros of a number, the value "
            "after up to 4097 unknown query parameters, a duplicate as the 18th / 34th known parameter, the last of 308 JSON "
            "fields, the 18th / 258th / 4098th array element, an ill-typed member / trailing garbage / truncation after 4 097 "
            "and 40 000 bytes of valid JSON, 400-digit and 1e400 numbers; judged by the same model and spec. Beyond the Coq "
            "VM's reach (64 KiB, thorough 1 MiB of valid JSON before the fault; request targets of 65 540 bytes and more, "
            "which the HTTP parser answers 414) the specification alone is evaluated (CNoModel: 4xx, not entered, server "
            "alive). "
            "Texts that f32::from_str / f64::from_str refuse ('1e', '.', '1.2.3', '0x10', 'infinit', 'NaN(1)', blanks, non-ASCII digits ..) as path and query values. "
            "Observables: a response must arrive, status in 4xx (never 5xx), error body = {request_id, message, "
            "optional error_code}, the endpoint's handler-entered counter (server private context) unchanged, and the "
            "server still answers on the same (or a fresh) connection. Judge: spec as just stated; model = Extract.v "
            "returns Err e with xerr_status e = the observed status AND xerr_class e = the error site told by the fixed head "
            "of the response's message (which extractor / which check: with several faults, the first failing extractor "
            "in argument order); a message the harness does not recognise counts as agreement on the status alone (wording is no property). Non-trivial: every case; distinct by content.",
    "exhaustive_note": "JSON truncation: every proper prefix of the generated valid documents (2 per quick run, 6 per "
                       "thorough run); everything else is sampled",
    "trusted_base": COMMON_TB + [
        "serde_json (library): Section variable json_de = the whole buffer is one JSON document of the body type "
        "(deserialize one value, then Deserializer::end(), as body.rs does); per case obtained by calling "
        "serde_json::from_slice",
        "serde's derive for plain structs, serde_urlencoded 0.7.1, form_urlencoded 1.2.1, mime 0.3.16 + "
        "multer::parse_boundary, http::HeaderValue::to_str, core FromStr: transcribed in the model and compared on "
        "every run",
        "hyper 1.6: requests it refuses itself (raw space / control bytes in the target) are answered 400 without "
        "reaching dropshot; only the specification is evaluated on those",
        "registration (C02): path/query parameter types are scalar (no field reaches from_map's unimplemented! "
        "stubs) and a path struct's fields are the template's variables - premises of the no-panic theorems",
    ],
    "assumptions": [
        "bodies larger than the limit (also a 400) belong to C11 and are not generated here",
        "a malformed multipart BODY behind a well-formed content type is reported by the handler (multer parses "
        "lazily inside it), like a StreamingBody; only multipart content types are in the malformed stream",
        "f32/f64: refusal of ill-formed float texts is compared with the transcribed grammar on every run, not proved",
    ],
    "manifest": {
        "category": "proof",
        "text": "Unbounded Coq theorems about the same model as C09: every error an extractor can produce is built "
                "with status 400 (constructor by constructor); a complete characterisation of serde's derived "
                "struct deserialiser (succeeds iff known names are pairwise distinct, every known value parses and "
                "no required field is missing) from which: unparsable scalar, out-of-range number, unknown variant, "
                "missing required field and duplicate field are refused in every path / query / form position; "
                "wrong, unknown, garbage and non-ASCII content types and parser failures are refused; the handler is "
                "entered iff every extractor succeeds; for structs registration accepts, neither the assert! of "
                "http_extract_path_params nor an unimplemented! stub is reachable. Correspondence: ~1.2k (quick) / "
                "~7k (thorough) malformed requests against a live server; status class, error-body shape, "
                "handler-entered counter and server liveness judged in Coq.",
        "design_ref": "DESIGN.md §6 C10",
        "note": "serde_json is an oracle; hyper and routing are taken as given. K10 (a JSON document followed "
                "by trailing non-blank bytes was accepted) was repaired in /repo (83cdda6); the clause is stated at "
                "full strength and its witness runs first on every check. No open finding.",
        "technique": "Coq proof (declarative characterisation of the derived deserialiser, error-constructor "
                     "enumeration) + live-server malformed-stream correspondence",
    },
}
