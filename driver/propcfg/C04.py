"""C04 — unmatched requests get 404 or 405 with a truthful Allow header."""
from .C01 import ROUTER_TB, CFG as C01

CFG = dict(C01)
CFG.update({
    "judge": "judge_c04",
    "rule": C01["rule"].split(" Judged:")[0] + " Judged: every lookup that answers, or by the table should answer, "
            "404 or 405: the status and, for 405, the exact list of Allow values (HttpError.headers) against the "
            "declarative matcher and against the trie model. The generator biases ranges so that a path has "
            "different method sets at different versions. The same judgement over the live slice (Allow header lines "
            "off the wire) and the pipeline slice (real server under a version policy: 404/405 only after the policy "
            "yields a version and the path normalises).",
    "manifest": {
        "category": "proof",
        "text": "Unbounded Coq theorems over the trie model: 404 iff no declaration's template and version range "
                "match the request for any method; a 405 carries exactly - sorted, duplicate-free, non-empty - the "
                "methods for which the path is served at that version, and the request's own method is not among "
                "them; 405 iff some method is served and the request's is not; Found/404/405 are exhaustive (no "
                "assertion failure) on every registered table; the same through the composed request pipeline "
                "(version policy, path normalisation, trie). Correspondence with lookup_route (status and Allow "
                "header values) on generated tables and grids, judged in Coq.",
        "design_ref": "DESIGN.md section 6 C04",
        "note": "as C01; HttpError -> wire response (status line, header bytes) is covered by the live slice of C13/C18, "
                "not here.",
        "technique": "Coq proof (refinement: trie -> route table) + differential correspondence judged in Coq",
    },
})
