"""C20 — WebSocket upgrades follow the RFC 6455 handshake."""
from .common import COMMON_TB

CFG = {
    "harness": "c20",
    "coq_header": "From DS Require Import Base Base64 Sha1 Websocket.\nFrom DSR Require Import Run_C20.",
    "case_type": "c20case",
    "judge": "judge",
    "rule": "one case = one GET /ws against a live HttpServer whose #[channel] handler echoes the raw upgraded "
            "stream, over plain TCP (blocking raw client) or over TLS (servers started with ConfigTls::AsBytes, "
            "tokio-rustls client, certificate not verified; group 'tls': every key length 0..130, the no-/one-element-"
            "wrong corner of the grid and a stride through the rest, spellings, all fixed spellings, repeated lines and "
            "every payload scenario are repeated there, since the server's accept loop has one branch per transport): "
            "the header lines sent (name, raw value bytes), then status, response headers, the bytes echoed "
            "after a 101 (sent in pieces, optionally the first piece pipelined with the request, then half-close and "
            "read to EOF), whether the connection still answers HTTP after a refusal, and the movement of the "
            "handler-entered counter. Groups: keys of every length 0..130 of arbitrary legal header-value bytes (twice: "
            "with and without edge whitespace) plus longer ones and random 16-byte base64 keys; the full grid of "
            "7 Connection x 7 Upgrade x 9 Version x 2 Key variants (absent / right / wrong values); seeded random "
            "spellings of the Connection / Upgrade lists (case, order, extra and empty elements, SP/HTAB around commas, "
            "1-3 lines per field, a non-ASCII line beside them, unrelated fields naming the tokens, shuffled field "
            "order) with and without the token; fixed edge spellings, repeated Version / Key lines; payloads up to "
            "24 KiB (quick) / 256 KiB (thorough) in random pieces. The judge classifies the request (MustAccept k / "
            "MustReject / Unspecified = outside the RFC list grammar or contradictory repeated fields), evaluates the "
            "property on the observation (101 + Sec-WebSocket-Accept = base64(SHA-1(k ++ GUID)) computed in Coq + echo "
            "unmodified + handler entered once; or 4xx + not upgraded + handler not entered) and compares with the "
            "model (status, the three response fields after hyper's Connection rewriting, follow-up behaviour). "
            "Large-scope slice (group 'large', deterministic, both transports, dealt evenly among the other cases; tags "
            "large:<dimension>:<n>): every size-like dimension is pushed across 15/16/17 ... 8191/8192/8193 and beyond: "
            "Sec-WebSocket-Key length (15..8193 and 16385 in quick, also 65537 in thorough - capped there because the "
            "Gallina SHA-1 costs ~40 us per byte and runs twice per case; keys beyond 4097 bytes repeat a random 61-byte "
            "period), number of Connection / Upgrade list elements (to 8193) and the position of the wanted one (1st, "
            "16th, 17th, 257th, last), number of repeated Connection / Upgrade / Sec-WebSocket-Version / -Key / "
            "-Protocol lines (17, 65, 96; thorough 15..96), total request fields 99/100/101/102 (thorough to 201; "
            "hyper holds 100, one more is its own 431 + close and that is the expectation), length of one list element "
            "and of the whitespace around elements (257/4097/8193; thorough 15..8193 and 65537), payload through the "
            "pipe in one write (63 KiB, 65535/65536/65537, 65 KiB, 1 MiB-1/1 MiB/1 MiB+1; thorough 16 MiB-1/16 MiB/"
            "16 MiB+1), number of writes (4097 one-byte writes, 1025 x 17, 257 x 4097; thorough 16385 and 65537 "
            "one-byte writes), bytes sent in the same write as the handshake (0, 1, 4096, 65537; thorough to 262145). "
            "Judged by the same model and specification as every other case. Abstractions, both sound and complete: "
            "payloads above 300 bytes are compared byte for byte in the harness and handed to Coq as (bytes sent, "
            "bytes received, first differing offset, clean end of stream) - the judge demands equal lengths, no "
            "differing offset and a clean end; long periodic stretches of a header value are written as (rep period "
            "count) in the Coq case by a printer that decodes its own term and compares it with the bytes sent. "
            "HTTP/2 slice (group 'h2'; hyper's http2 client, cleartext with prior knowledge to the plain server and ALPN h2 "
            "to the TLS servers): connections of 8 streams (alternately one after the other and all at once) and one "
            "connection with all streams at once, carrying every combination of Sec-WebSocket-Version 13 / 12 / "
            "'13, 8' / absent, Sec-WebSocket-Key present / absent / 8193 bytes / empty, with and without "
            "Sec-WebSocket-Protocol + Origin, body absent / 5 bytes / 70000 bytes (thorough: keys of 15..8193 bytes and "
            "extra fields too). Connection and Upgrade are connection-specific fields that HTTP/2 forbids and client "
            "libraries strip, so every such request lacks two elements: the judge (same classify / served) demands a "
            "4xx final response on each stream and no handler entry over the connection - a 101, no final response "
            "within 3 s, a failed stream or a handler entry is a violation - and compares the status with the model's "
            "400 and that an ordinary request is answered on the connection afterwards. "
            "Body slice (group 'body', both transports): conformant handshakes that also carry a request body - "
            "Content-Length 0 / 1 / 5 / 4096 / 65537, chunked with one chunk / several / trailers / none, Expect: "
            "100-continue with either framing (thorough: Content-Length across 15..8193, 16385, 1 MiB; 17 / 257 / 4097 "
            "chunks; a 65537-byte chunk), the body in the same write as the head or in the next - followed by the usual "
            "payload: must be 101 with the right accept value, handler entered, pipe working; the same shapes on "
            "handshakes lacking an element (body at most 4096 bytes and in the same write, so that the server's close "
            "cannot become a TCP reset overtaking the answer) must be 4xx. A 4xx for a conformant handshake with a "
            "body is a violation. What the unchanged tree does with the body, measured and made the expectation: "
            "dropshot does not read it, and hyper upgrades after consuming whatever part of it one decoding step gave "
            "(all of a small body in one piece, the first chunk of a chunked body, the first ~32 KiB of a 64 KiB one; "
            "it varies with timing), so the unread remainder of the body - chunk framing included - reaches the channel "
            "handler ahead of the payload and the 101's Connection field then reads 'close'. The judge therefore "
            "demands: the client gets back some suffix of the body as it went on the wire (possibly empty) followed by "
            "exactly the payload and a clean end of stream; for bodies above 300 bytes the harness reports (payload "
            "bytes, bytes received, leading excess, excess = tail of the body wire bytes, first differing offset, "
            "clean end) after comparing byte for byte. "
            "A 101 after which the pipe is dead (no echo, no clean end of stream, handler not "
            "entered) is a violation on either transport. Non-trivial: at least one header line; distinct by case "
            "content (transport included).",
    "exhaustive_note": "the subset grid (every combination of absent/right/wrong-valued Connection, Upgrade, "
                       "Sec-WebSocket-Version, Sec-WebSocket-Key over the listed variants, 882 requests) and the key "
                       "lengths 0..130 (every SHA-1 padding boundary of key ++ GUID) are enumerated completely in both "
                       "tiers; the large-scope slice is a fixed list of sizes around the round numbers, not a sample; key bytes, list spellings and payloads are sampled",
    "trusted_base": COMMON_TB + [
        "sha1 0.10.6 (library): digest equality with the Gallina SHA-1 for ALL keys is a differential test, not a "
        "theorem; it is exercised on every 101 of every run, including every padding boundary (partial)",
        "base64 0.22.1 STANDARD engine (library): modelled concretely in Base64.v (round trip, canonicity proved of "
        "the model), compared on every 101",
        "hyper 1.6 / httparse 1.10 / http 1.3 contracts, modelled in Websocket.v and exercised by every case: field "
        "lines are delivered as (lower-cased name, value with leading/trailing SP/HTAB removed) in wire order "
        "(deliver); HeaderMap::get_all yields a name's values in wire order and get the first; HeaderValue::to_str "
        "accepts exactly visible ASCII + HTAB; an HTTP/1.1 request with an Upgrade field whose response is 101 gets "
        "its connection handed to hyper::upgrade::on's future, read-buffer leftovers included; a request whose "
        "Connection lines disable keep-alive gets the response's Connection field replaced by 'close' "
        "(req_close / set_connection_close)",
        "hyper's request parser holds 100 field lines (DEFAULT_MAX_HEADERS); a request with more is answered 431 by "
        "hyper and closed (Run_C20.v too_many_fields; exercised at 100 and 101 fields on both transports); header "
        "blocks stay far below hyper's 417792-byte read-buffer limit",
        "hyper's Upgraded + hyper_util TokioIo as a transparent byte pipe, tokio::spawn running the task, "
        "tokio::io::copy in the harness's echo handler (runtime behaviour: sampled, not modelled beyond identity)",
        "hyper 1.6 http2 client + h2 0.4 (client side of the HTTP/2 cases): sends the fields given (it removes "
        "connection-specific ones, none are given), reports the final response of each stream",
        "rustls 0.22 / tokio-rustls 0.25 (client side of the TLS cases, and inside dropshot's TLS acceptor): "
        "a transparent byte stream with close_notify as end of stream",
        "the OS loopback TCP stack",
    ],
    "assumptions": [
        "handshakes are HTTP/1.1 GET, with and without a request body (RFC 6455 requires HTTP/1.1; hyper does not offer an upgrade on "
        "1.0); HTTP/2 requests are exercised as requests that lack the Connection and Upgrade elements (RFC 8441 "
        "extended CONNECT is not offered by the server and not modelled)",
        "the #[channel] adapter calls handle exactly once on the value from_request returned (read from "
        "dropshot_endpoint/src/channel.rs to_adapter_fn; handle's 'handled twice' 500 arm is modelled but unreachable)",
        "a key is any field value: from_request does not check that it is base64 of 16 bytes, and the property "
        "quantifies over all key values",
    ],
    "manifest": {
        "category": "proof",
        "text": "Unbounded Coq theorems about a Gallina transcription of WebsocketUpgrade::from_request / "
                "derive_accept_key / handle and the #[channel] adapter: accepted iff the four elements are present "
                "(exactly as the code tests them, and — for requests whose Connection/Upgrade values are well-formed "
                "lists — iff 'upgrade' / 'websocket' are RFC 9110 list elements over all lines of the field, version "
                "13, a key); a conformant handshake is accepted whatever else is sent; dropping or corrupting any one "
                "element gives 400 with no task spawned; the 101 carries Connection: Upgrade, Upgrade: websocket and "
                "base64(SHA-1(key ++ GUID)). The code's split on ',' SP HTAB is proved equivalent to list membership "
                "on well-formed values and its exact leniency on ill-formed ones (a word inside an element with inner "
                "whitespace also matches) is stated. SHA-1 is an executable Gallina definition with structural "
                "theorems (padding, block decomposition, 32-bit invariants, digest shape) and the FIPS/RFC vectors as "
                "kernel-evaluated tests. Correspondence on every run over raw TCP against a live server: the Coq "
                "judge recomputes the digest and evaluates the property and the model on each observation. Partial: "
                "digest equality with the sha1 crate for all keys is a differential test; the byte pipe after the "
                "upgrade and task spawning are hyper/tokio runtime behaviour, sampled (payloads to 256 KiB) on both "
                "transports the server accepts connections on (plain TCP and TLS).",
        "design_ref": "DESIGN.md §6 C20",
        "note": "Coq kernel + vm_compute; hand-written model Websocket.v / Sha1.v tied by the correspondence run; "
                "hyper's header delivery, keep-alive state machine and Connection rewriting are modelled contracts. "
                "Observed and modelled, not a finding under the property text: a request that also asks to close "
                "(Connection: close beside Upgrade) is upgraded with a 101 whose Connection field hyper has replaced "
                "by 'close'.",
        "technique": "Coq proof (list-grammar refinement, executable SHA-1) + live-server differential correspondence"
    },
}
