"""C08 — converting a type's JSON Schema to OpenAPI preserves its meaning."""
from .common import COMMON_TB

CFG = {
    "harness": "c08",
    "coq_header": "From DS Require Import Base Json Schema J2Oas SchemaSem J2OasSpec.\n"
                  "From DSR Require Import Run_C08.\nOpen Scope N_scope.",
    "case_type": "c08case",
    "judge": "judge",
    "rule": "each case pushes one type through the real ApiDescription::openapi(..).json() as response body, request "
            "body (inline and as a referenceable component) or query parameter, and carries the type's own JSON Schema "
            "(computed by schemars alone with the openapi3 settings, definitions finalised by schemars), the published "
            "schema and components, and up to 14 JSON instances (3 generated to satisfy the schema, then mutations: "
            "other type, null, number at/around each bound, non-multiple, fractional integer, string past each length "
            "limit counted in code points, pattern removed, '!<format>' string, array past maxItems/below minItems, "
            "duplicated element (also 1 vs 1.0), required key dropped, undeclared key added, property count limits, the "
            "same mutations one level down). The judge evaluates in Coq (a) the property on the PUBLISHED schema: "
            "valid_oas(published, components) = valid_js(source, definitions) on every instance and annotation "
            "equality for every schema node, (b) structural equality of the published schema with the model j2oas, "
            "and the panic/no-panic observation with `convertible`. Groups: derived = the compiled-in family of "
            "61 Rust types whose schema schemars derives (structs, four enum representations, Option, Vec, arrays, "
            "sets, maps, every integer width incl. u64/u128/i128/NonZero*, f32/f64, String, char, bool, Uuid, IP "
            "addresses, nested and recursive references, flatten, default, rename, deny_unknown_fields, doc comments, "
            "schemars range/length/regex/title/example/with attributes) at response and body sites plus three query "
            "structs, each with the author's claim 'supported or not' which the judge checks against the Coq "
            "predicate `supported` (mismatch = malformed); generated = seeded random schema ASTs inside the supported "
            "fragment (0-2 definitions, possibly recursive); injected = the same with one keyword the converter panics "
            "on, drops or alters (26 injections x N); param = scalar schemas through Query<T> (schema2struct, "
            "schema_extract_description, Static path); large = a deterministic large-scope slice (harness/src/bin/c08/large.rs), "
            "each case converted by the real j2oas_* through the dynamic-schema device and judged by the same model and "
            "spec with instances on both sides of every limit: for n in 15/16/17, 31/32/33, 63/64/65, 127/128/129, "
            "255/256/257 (thorough also 511/512/513, 1023/1024/1025): nesting depth n (objects in objects, arrays of "
            "arrays, allOf / anyOf / oneOf / not chains, allOf+nullable at every level = Option<Option<..>>), n properties "
            "all required with min/maxProperties n, n string / integer enum values, n members of one oneOf / anyOf / "
            "allOf, a chain of n references = n definitions in one document (plain, allOf links, object links, and a "
            "recursive type with a back reference reached through the chain), property name / enum string / "
            "description+title+default+x- value / pattern / reference name of length n, min=maxLength and "
            "min=maxItems n (code points); integer and number bounds (minimum, maximum, exclusive*, multipleOf) at "
            "i32::MIN, i32::MAX, u32::MAX, u8/u16::MAX, +-2^53, i64::MIN, i64::MAX, u64::MAX each -1/0/+1 with instances "
            "-2..+2 around; min/maxLength, min/maxItems, min/maxProperties at 2^31-1, 2^31, 2^31+1, u32::MAX-1, u32::MAX "
            "(schemars holds these as u32: larger values are not schemas it can represent). Caps: the three "
            "reference-chain dimensions stop at 513 (the Coq evaluation follows a chain by n association-list lookups "
            "per instance: ~100 s at 1025); nesting depth is evaluated up to 1025 without overflowing coqc. The JSON "
            "line of a large case carries the recipe (dimension, n), tags `large:<dimension>:<n>`; the expensive ones are "
            "spread over the 16 evaluation shards. Non-trivial: the schema has at least two keywords or nodes, or "
            "is an injected/derived case; distinct by case content.",
    "trusted_base": COMMON_TB + [
        "schemars 0.8 (library): schema derivation for the Rust types, SchemaGenerator::subschema_for / "
        "into_root_schema_for with SchemaSettings::openapi3() including its three visitors (RemoveRefSiblings, "
        "ReplaceBoolSchemas, SetSingleExample) - the harness calls the same library entry points dropshot calls to obtain "
        "'the type's own JSON Schema'; serde_json (de)serialisation of schemas and of the OpenAPI document; openapiv3's "
        "Serialize impls (the published schema is read back from the JSON document and parsed strictly: an unknown key is "
        "a divergence)",
        "the semantics SchemaSem.v: JSON Schema draft-07 for the keywords schemars emits plus OpenAPI's `nullable` on the "
        "source side (schemars' openapi3 dialect), OpenAPI 3.0 Schema Object on the target side with `nullable: true` "
        "read as 'null is accepted' for every kind of schema (the reading of OAS 3.0.0-3.0.2 and of dropshot's consumers; "
        "under the 3.0.3 clarification nullable without a sibling `type` has no effect, which would make every "
        "Option<Struct> = {allOf:[$ref], nullable:true} reject null - recorded as a remark, not judged); cross-checked "
        "against the independent Python jsonschema validator by tools/c08_xcheck.py (not part of ./check)",
        "`pattern` and `format` are uninterpreted in the theorems (universally quantified predicates shared by both "
        "sides); for evaluating cases a pattern is a literal substring and '!<fmt>' is the one string not of format <fmt>",
        "JSON numbers are exact rationals (an f64 is a dyadic rational); Rust's `f64 as i64`, serde_json "
        "Number::as_i64/as_f64 are modelled explicitly in J2Oas.v",
    ],
    "assumptions": [
        "the published schema is what appears in openapi().json() at responses.200.content / requestBody.content / "
        "parameters[].schema and under components.schemas (component 'Error', the endpoint's own error body, is ignored)",
        "a parameter value is never JSON null: null instances are not judged at parameter sites",
        "a parameter's description is published on the parameter object (C07), so it is not expected in its schema",
    ],
    "manifest": {
        "category": "proof",
        "text": "Unbounded Coq theorems about a function-by-function Gallina transcription of schema_util.rs j2oas_*: "
                "the converter succeeds exactly on the boolean shape predicate `convertible` (every panic site an "
                "explicit Err); for every schema in `supported` without the null instance type and with integer bounds that are integers inside i64 (`supported_faithful`), every JSON instance "
                "and every interpretation of $ref, pattern and format, the converted OpenAPI 3.0 schema accepts the "
                "instance iff the source schema does (induction on schema size over the nested AST), lifted to whole "
                "documents with (recursive) references through definitions; per-keyword corollaries (required, enum, "
                "numeric bounds, lengths, item limits and schemas, properties and additionalProperties, "
                "all/any/one-of, not); annotations kept. The full statement is refuted in Coq for the null type "
                "(known finding K4), for fractional/out-of-range integer bounds (K6) and for parameter annotations (K5). Correspondence on every run: the real "
                "converter driven through ApiDescription::openapi on 61 derived Rust types and seeded random / "
                "keyword-injected schemas; the spec is evaluated in Coq on the published schema for generated valid "
                "and mutated instances, and the published schema is compared structurally with the model.",
        "design_ref": "DESIGN.md §6 C08",
        "note": "Coq kernel + vm_compute; hand-written model J2Oas.v and semantics SchemaSem.v tied to the code by the "
                "correspondence run (sampled, seeded; the derived family is fixed and run completely); schemars and "
                "openapiv3 are library code; `supported` is narrower than 'does not panic': shapes whose keywords the "
                "converter silently drops (const, enum on object/array/untyped nodes, if/then/else, keywords beside "
                "allOf/anyOf/oneOf/not, contains, patternProperties, propertyNames, empty enum, number enum values beyond 2^53, format on "
                "non-scalar nodes) are outside it and are reachable only through hand-written JsonSchema impls. Open "
                "known findings K4, K5, K6.",
        "technique": "Coq proof (size induction over a nested schema AST, semantics parametric in $ref/pattern/format) "
                     "+ seeded correspondence through the public OpenAPI generator with spec evaluation on instances"
    },
}
